/-
  Lemmas for C01: the ownership invariant of the object pools and its preservation by every primitive
  (Get, field writes, release, bundles of a render context, replay of a render's pool traffic, parse).
  Core Lean only.
-/
import TwigModel.Pool
namespace Twig.Pool

/-! ### association lists -/

theorem mem_of_lookup {α β} [BEq α] [LawfulBEq α] : ∀ (l : List (α × β)) (a : α) (v : β),
    l.lookup a = some v → (a, v) ∈ l
  | [], _, _, h => by simp at h
  | (k, w) :: t, a, v, h => by
    by_cases hk : a = k
    · subst hk; simp [List.lookup] at h; subst h; simp
    · have hb : (a == k) = false := by simpa using hk
      simp [List.lookup, hb] at h
      exact List.mem_cons_of_mem _ (mem_of_lookup t a v h)

/-! ### what `Facts.ok` gives -/

theorem Acq.mem_all (p : Acq) : p ∈ Acq.all := by cases p <;> simp [Acq.all]

theorem Facts.ok_root {F : Facts} (h : F.ok) : F.renderReleasesRoot = false := by
  unfold Facts.ok Facts.okb at h
  simp only [Bool.and_eq_true] at h
  simpa using h.1.1.1.1

theorem Facts.ok_children {F : Facts} (h : F.ok) : "children" ∈ F.resets .getRootNode := by
  unfold Facts.ok Facts.okb at h
  simp only [Bool.and_eq_true] at h
  simpa using h.1.1.1.2

theorem Facts.ok_clean {F : Facts} (h : F.ok) (p : Acq) (f : String)
    (hf : f ∈ F.needsClean (acqKind p)) : f ∈ F.clears (relOf p) := by
  unfold Facts.ok Facts.okb at h
  simp only [Bool.and_eq_true] at h
  have h3 := h.1.1.2
  rw [List.all_eq_true] at h3
  have h4 := h3 p (Acq.mem_all p)
  rw [List.all_eq_true] at h4
  simpa using h4 f hf

theorem Facts.ok_tok {F : Facts} (h : F.ok) (ht : F.tokReleasedBeforeRead = true) :
    "tokenBuffer" ∉ F.clears .releaseTokenizer := by
  unfold Facts.ok Facts.okb at h
  simp only [Bool.and_eq_true] at h
  have h4 := h.1.2
  simp [ht] at h4
  exact h4

theorem mem_needsClean {F : Facts} {p : Acq} {f : String}
    (hr : f ∈ F.reads (acqKind p)) (hn : f ∉ F.resets p) : f ∈ F.needsClean (acqKind p) := by
  unfold Facts.needsClean
  rw [List.mem_filter]
  refine ⟨hr, ?_⟩
  rw [List.any_eq_true]
  refine ⟨p, ?_, ?_⟩
  · rw [List.mem_filter]; exact ⟨Acq.mem_all p, by simp⟩
  · simpa using hn

/-! ### the pool invariant -/

def freeIds (st : St) : List ObjId := st.free.map (·.2)

/-- `P` = objects owned for good (cached template roots), `L` = objects in use right now -/
structure PoolInv (F : Facts) (P : ObjId → Prop) (st : St) (L : List ObjId) : Prop where
  freeLt : ∀ x ∈ st.free, x.2 < st.next
  nodup : (freeIds st).Nodup
  freeNotP : ∀ x ∈ st.free, ¬ P x.2
  clean : ∀ x ∈ st.free, ∀ f ∈ F.needsClean x.1, (st.heap x.2).f f = 0
  pLt : ∀ id, P id → id < st.next
  liveLt : ∀ id ∈ L, id < st.next
  liveNodup : L.Nodup
  liveNotFree : ∀ id ∈ L, id ∉ freeIds st
  liveNotP : ∀ id ∈ L, ¬ P id

theorem PoolInv.perm {F P st L L'} (h : PoolInv F P st L) (hp : L.Perm L') : PoolInv F P st L' :=
  { h with
    liveLt := fun id hi => h.liveLt id (hp.mem_iff.mpr hi)
    liveNodup := hp.nodup_iff.mp h.liveNodup
    liveNotFree := fun id hi => h.liveNotFree id (hp.mem_iff.mpr hi)
    liveNotP := fun id hi => h.liveNotP id (hp.mem_iff.mpr hi) }

theorem PoolInv.drop {F P st L} (h : PoolInv F P st L) : PoolInv F P st [] :=
  { h with
    liveLt := fun _ hi => by simp at hi
    liveNodup := List.nodup_nil
    liveNotFree := fun _ hi => by simp at hi
    liveNotP := fun _ hi => by simp at hi }

theorem PoolInv.tail {F P st id L} (h : PoolInv F P st (id :: L)) : PoolInv F P st L :=
  { h with
    liveLt := fun j hj => h.liveLt j (List.mem_cons_of_mem _ hj)
    liveNodup := (List.nodup_cons.mp h.liveNodup).2
    liveNotFree := fun j hj => h.liveNotFree j (List.mem_cons_of_mem _ hj)
    liveNotP := fun j hj => h.liveNotP j (List.mem_cons_of_mem _ hj) }

/-- the state may differ in the engines and the Get counter -/
theorem PoolInv.of_eq {F P st st' L} (h : PoolInv F P st L)
    (h1 : st'.heap = st.heap) (h2 : st'.next = st.next) (h3 : st'.free = st.free) : PoolInv F P st' L := by
  constructor
  · rw [h3, h2]; exact h.freeLt
  · unfold freeIds; rw [h3]; exact h.nodup
  · rw [h3]; exact h.freeNotP
  · rw [h3, h1]; exact h.clean
  · rw [h2]; exact h.pLt
  · rw [h2]; exact h.liveLt
  · exact h.liveNodup
  · unfold freeIds; rw [h3]; exact h.liveNotFree
  · exact h.liveNotP

theorem PoolInv.congrP {F P P' st L} (h : PoolInv F P st L) (hp : ∀ j, P' j ↔ P j) : PoolInv F P' st L :=
  { h with
    freeNotP := fun x hx hP => h.freeNotP x hx ((hp _).mp hP)
    pLt := fun id hP => h.pLt id ((hp _).mp hP)
    liveNotP := fun id hi hP => h.liveNotP id hi ((hp _).mp hP) }

/-- an object in use becomes owned for good (a freshly parsed root is stored in `Engine.templates`) -/
theorem PoolInv.adopt {F P st id L} (h : PoolInv F P st (id :: L)) :
    PoolInv F (fun j => P j ∨ j = id) st L := by
  have hn := List.nodup_cons.mp h.liveNodup
  constructor
  · exact h.freeLt
  · exact h.nodup
  · intro x hx hP
    rcases hP with hP | hP
    · exact h.freeNotP x hx hP
    · apply h.liveNotFree id (List.mem_cons_self)
      unfold freeIds
      rw [← hP]
      exact List.mem_map_of_mem hx
  · exact h.clean
  · intro j hP
    rcases hP with hP | hP
    · exact h.pLt j hP
    · rw [hP]; exact h.liveLt id List.mem_cons_self
  · exact fun j hj => h.liveLt j (List.mem_cons_of_mem _ hj)
  · exact hn.2
  · exact fun j hj => h.liveNotFree j (List.mem_cons_of_mem _ hj)
  · intro j hj hP
    rcases hP with hP | hP
    · exact h.liveNotP j (List.mem_cons_of_mem _ hj) hP
    · rw [hP] at hj; exact hn.1 hj

/-! ### Get -/

theorem mem_cands {st : St} {k : Kind} {id : ObjId} : id ∈ cands st k ↔ (k, id) ∈ st.free := by
  unfold cands
  simp only [List.mem_map, List.mem_filter, decide_eq_true_eq]
  constructor
  · rintro ⟨⟨k', id'⟩, ⟨hm, hk⟩, hid⟩
    simp only at hk hid
    subst hk; subst hid; exact hm
  · intro h; exact ⟨(k, id), ⟨h, rfl⟩, rfl⟩

theorem not_mem_ids_erase : ∀ (l : List (Kind × ObjId)) (k : Kind) (id : ObjId),
    (l.map (·.2)).Nodup → (k, id) ∈ l → id ∉ (l.erase (k, id)).map (·.2)
  | [], _, _, _, h => by simp at h
  | (k', id') :: t, k, id, hn, hm => by
    simp only [List.map_cons, List.nodup_cons] at hn
    by_cases he : (k', id') = (k, id)
    · rw [he, List.erase_cons_head]
      cases he
      exact hn.1
    · have hb : ((k', id') == (k, id)) = false := by simpa using he
      rw [List.erase_cons, hb]
      simp only [Bool.false_eq_true, ↓reduceIte, List.map_cons, List.mem_cons, not_or]
      have hm' : (k, id) ∈ t := by
        rcases List.mem_cons.mp hm with h | h
        · exact absurd h.symm he
        · exact h
      refine ⟨?_, not_mem_ids_erase t k id hn.2 hm'⟩
      intro hid
      apply hn.1
      rw [← hid]
      exact List.mem_map_of_mem (f := (·.2)) hm'

theorem get_spec (F : Facts) (ω : Oracle) (k : Kind) (st : St) (P : ObjId → Prop) (L : List ObjId)
    (h : PoolInv F P st L) :
    PoolInv F P (get ω k st).2 ((get ω k st).1 :: L)
    ∧ (∀ j, j < st.next → (get ω k st).2.heap j = st.heap j)
    ∧ (∀ f ∈ F.needsClean k, ((get ω k st).2.heap (get ω k st).1).f f = 0)
    ∧ (get ω k st).2.engines = st.engines
    ∧ st.next ≤ (get ω k st).2.next := by
  unfold get
  split
  · rename_i id hid
    have hmem : (k, id) ∈ st.free := by
      cases hω : ω st.tick (cands st k).length with
      | none => simp [hω] at hid
      | some i =>
        simp [hω] at hid
        exact mem_cands.mp (List.mem_of_getElem? hid)
    have hidf : id ∈ freeIds st := List.mem_map_of_mem (f := (·.2)) hmem
    refine ⟨?_, fun _ _ => rfl, fun f hf => h.clean (k, id) hmem f hf, rfl, Nat.le_refl _⟩
    constructor
    · intro x hx; exact h.freeLt x (List.mem_of_mem_erase hx)
    · exact h.nodup.sublist ((List.erase_sublist).map _)
    · intro x hx; exact h.freeNotP x (List.mem_of_mem_erase hx)
    · intro x hx; exact h.clean x (List.mem_of_mem_erase hx)
    · exact h.pLt
    · intro j hj
      rcases List.mem_cons.mp hj with hj | hj
      · rw [hj]; exact h.freeLt (k, id) hmem
      · exact h.liveLt j hj
    · refine List.nodup_cons.mpr ⟨fun hl => h.liveNotFree id hl hidf, h.liveNodup⟩
    · intro j hj hf
      rcases List.mem_cons.mp hj with hj | hj
      · rw [hj] at hf; exact not_mem_ids_erase st.free k id h.nodup hmem hf
      · exact h.liveNotFree j hj ((List.erase_sublist.map _).subset hf)
    · intro j hj
      rcases List.mem_cons.mp hj with hj | hj
      · rw [hj]; exact h.freeNotP (k, id) hmem
      · exact h.liveNotP j hj
  · have hne : ∀ j, j < st.next → (if j = st.next then Obj.zero else st.heap j) = st.heap j := by
      intro j hj
      have : j ≠ st.next := Nat.ne_of_lt hj
      simp [this]
    refine ⟨?_, fun j hj => by simp [St.setObj, hne j hj], fun f _ => by simp [St.setObj, Obj.zero], rfl,
      Nat.le_succ _⟩
    constructor
    · intro x hx; exact Nat.lt_succ_of_lt (h.freeLt x hx)
    · exact h.nodup
    · exact h.freeNotP
    · intro x hx f hf
      simp only [St.setObj]
      rw [hne x.2 (h.freeLt x hx)]
      exact h.clean x hx f hf
    · intro j hj; exact Nat.lt_succ_of_lt (h.pLt j hj)
    · intro j hj
      rcases List.mem_cons.mp hj with hj | hj
      · rw [hj]; exact Nat.lt_succ_self _
      · exact Nat.lt_succ_of_lt (h.liveLt j hj)
    · refine List.nodup_cons.mpr ⟨fun hl => Nat.lt_irrefl _ (h.liveLt _ hl), h.liveNodup⟩
    · intro j hj hf
      rcases List.mem_cons.mp hj with hj | hj
      · obtain ⟨x, hx, hxj⟩ := List.mem_map.mp hf
        have := h.freeLt x hx
        rw [hxj, hj] at this
        exact Nat.lt_irrefl _ this
      · exact h.liveNotFree j hj hf
    · intro j hj hP
      rcases List.mem_cons.mp hj with hj | hj
      · rw [hj] at hP; exact Nat.lt_irrefl _ (h.pLt _ hP)
      · exact h.liveNotP j hj hP

/-! ### writing to an object in use, releasing it -/

theorem write_spec {F P st L} (h : PoolInv F P st L) (id : ObjId) (hid : id ∈ L) (o : Obj) :
    PoolInv F P (st.setObj id o) L := by
  constructor
  · exact h.freeLt
  · exact h.nodup
  · exact h.freeNotP
  · intro x hx f hf
    have : x.2 ≠ id := by
      intro he
      apply h.liveNotFree id hid
      rw [← he]
      exact List.mem_map_of_mem (f := (·.2)) hx
    simp only [St.setObj, this, ↓reduceIte]
    exact h.clean x hx f hf
  · exact h.pLt
  · exact h.liveLt
  · exact h.liveNodup
  · exact h.liveNotFree
  · exact h.liveNotP

theorem setObj_heap_ne (st : St) (id j : ObjId) (o : Obj) (h : j ≠ id) : (st.setObj id o).heap j = st.heap j := by
  simp [St.setObj, h]

theorem setObj_heap_self (st : St) (id : ObjId) (o : Obj) : (st.setObj id o).heap id = o := by
  simp [St.setObj]

theorem release_heap_ne (F : Facts) (p : Acq) (st : St) (id j : ObjId) (h : j ≠ id) :
    (release F p id st).heap j = st.heap j := by
  simp [release, St.setObj, h]

theorem release_spec {F : Facts} (hF : F.ok) {P st L} (h : PoolInv F P st L) (p : Acq) (id : ObjId)
    (hid : id ∈ L) : PoolInv F P (release F p id st) (L.erase id) := by
  have hidf : id ∉ freeIds st := h.liveNotFree id hid
  constructor
  · intro x hx
    simp only [release, List.mem_cons] at hx
    rcases hx with hx | hx
    · rw [hx]; exact h.liveLt id hid
    · exact h.freeLt x hx
  · simp only [freeIds, release, List.map_cons]
    exact List.nodup_cons.mpr ⟨hidf, h.nodup⟩
  · intro x hx
    simp only [release, List.mem_cons] at hx
    rcases hx with hx | hx
    · rw [hx]; exact h.liveNotP id hid
    · exact h.freeNotP x hx
  · intro x hx f hf
    simp only [release, List.mem_cons] at hx
    rcases hx with hx | hx
    · subst hx
      have hc := Facts.ok_clean hF p f hf
      simp [release, St.setObj, Obj.clear, hc]
    · have : x.2 ≠ id := by
        intro he
        apply hidf
        rw [← he]
        exact List.mem_map_of_mem (f := (·.2)) hx
      simp only [release, St.setObj, this, ↓reduceIte]
      exact h.clean x hx f hf
  · exact h.pLt
  · intro j hj; exact h.liveLt j (List.mem_of_mem_erase hj)
  · exact h.liveNodup.erase id
  · intro j hj hf
    simp only [freeIds, release, List.map_cons, List.mem_cons] at hf
    rcases hf with hf | hf
    · rw [hf] at hj; exact h.liveNodup.not_mem_erase hj
    · exact h.liveNotFree j (List.mem_of_mem_erase hj) hf
  · intro j hj; exact h.liveNotP j (List.mem_of_mem_erase hj)

/-! ### acquire -/

theorem acquire_spec (F : Facts) (ω : Oracle) (p : Acq) (st : St) (P : ObjId → Prop) (L : List ObjId)
    (h : PoolInv F P st L) :
    PoolInv F P (acquire F ω p st).st ((acquire F ω p st).id :: L)
    ∧ (acquire F ω p st).stale = false
    ∧ staleObj F p ((acquire F ω p st).st.heap (acquire F ω p st).id) = false
    ∧ (∀ j, j < st.next → j ≠ (acquire F ω p st).id → (acquire F ω p st).st.heap j = st.heap j)
    ∧ (acquire F ω p st).st.engines = st.engines := by
  obtain ⟨hi, hheap, hclean, heng, _⟩ := get_spec F ω (acqKind p) st P L h
  have hst : staleObj F p (((get ω (acqKind p) st).2.heap (get ω (acqKind p) st).1).reset (F.resets p) 1) = false := by
    unfold staleObj
    rw [List.any_eq_false]
    intro f hf
    simp only [Obj.reset, expected, bne_iff_ne, ne_eq, Decidable.not_not]
    by_cases hr : f ∈ F.resets p
    · simp [hr]
    · simp only [hr, ↓reduceIte]
      exact hclean f (mem_needsClean hf hr)
  refine ⟨?_, hst, ?_, ?_, heng⟩
  · exact write_spec hi _ List.mem_cons_self _
  · simp only [acquire, setObj_heap_self]
    exact hst
  · intro j hj hne
    have hne' : j ≠ (get ω (acqKind p) st).1 := hne
    simp only [acquire]
    rw [setObj_heap_ne _ _ _ _ hne']
    exact hheap j hj

/-! ### a context with its maps -/

theorem enterBundle_spec (F : Facts) (ω : Oracle) (P : ObjId → Prop) :
    ∀ (ps : List Acq) (st : St) (L : List ObjId), PoolInv F P st L →
      PoolInv F P (enterBundle F ω ps st).st ((enterBundle F ω ps st).objs.map (·.2) ++ L)
      ∧ (enterBundle F ω ps st).stale = false
      ∧ (∀ x ∈ (enterBundle F ω ps st).objs, staleObj F x.1 ((enterBundle F ω ps st).st.heap x.2) = false)
      ∧ (∀ j ∈ L, (enterBundle F ω ps st).st.heap j = st.heap j)
      ∧ (∀ j, P j → (enterBundle F ω ps st).st.heap j = st.heap j)
      ∧ (enterBundle F ω ps st).st.engines = st.engines
  | [], st, L, h => by
    simpa [enterBundle] using h
  | p :: ps, st, L, h => by
    obtain ⟨hi, hs, hgood, hheap, heng⟩ := acquire_spec F ω p st P L h
    obtain ⟨hi2, hs2, hgood2, hL2, hP2, heng2⟩ := enterBundle_spec F ω P ps (acquire F ω p st).st _ hi
    have hn := List.nodup_cons.mp hi.liveNodup
    simp only [enterBundle, List.map_cons, List.cons_append]
    refine ⟨hi2.perm List.perm_middle, by simp [hs, hs2], ?_, ?_, ?_, heng2.trans heng⟩
    · intro x hx
      rcases List.mem_cons.mp hx with hx | hx
      · rw [hx]
        simp only
        rw [hL2 _ List.mem_cons_self]
        exact hgood
      · exact hgood2 x hx
    · intro j hj
      rw [hL2 j (List.mem_cons_of_mem _ hj)]
      refine hheap j (h.liveLt j hj) ?_
      intro he; rw [he] at hj; exact hn.1 hj
    · intro j hj
      rw [hP2 j hj]
      refine hheap j (h.pLt j hj) ?_
      intro he; rw [he] at hj; exact hi.liveNotP _ List.mem_cons_self hj

theorem leaveBundle_spec (F : Facts) (hF : F.ok) (P : ObjId → Prop) :
    ∀ (B : List (Acq × ObjId)) (st : St) (L : List ObjId), PoolInv F P st (B.map (·.2) ++ L) →
      (∀ x ∈ B, staleObj F x.1 (st.heap x.2) = false) →
      PoolInv F P (leaveBundle F B st).2 L
      ∧ (leaveBundle F B st).1 = false
      ∧ (∀ j ∈ L, (leaveBundle F B st).2.heap j = st.heap j)
      ∧ (∀ j, P j → (leaveBundle F B st).2.heap j = st.heap j)
      ∧ (leaveBundle F B st).2.engines = st.engines
  | [], st, L, h, _ => by
    simpa [leaveBundle] using h
  | (p, id) :: B, st, L, h, hg => by
    simp only [List.map_cons, List.cons_append] at h
    have hn := List.nodup_cons.mp h.liveNodup
    have h1 : PoolInv F P (st.junk id) (id :: (B.map (·.2) ++ L)) := write_spec h id List.mem_cons_self _
    have h2 := release_spec hF h1 p id List.mem_cons_self
    rw [List.erase_cons_head] at h2
    have hheap : ∀ j, j ≠ id → (release F p id (st.junk id)).heap j = st.heap j := by
      intro j hj
      rw [release_heap_ne _ _ _ _ _ hj]
      exact setObj_heap_ne _ _ _ _ hj
    have hg2 : ∀ x ∈ B, staleObj F x.1 ((release F p id (st.junk id)).heap x.2) = false := by
      intro x hx
      have : x.2 ≠ id := by
        intro he
        apply hn.1
        rw [← he]
        exact List.mem_append_left _ (List.mem_map_of_mem (f := (·.2)) hx)
      rw [hheap _ this]
      exact hg x (List.mem_cons_of_mem _ hx)
    obtain ⟨hi3, hs3, hL3, hP3, heng3⟩ := leaveBundle_spec F hF P B _ L h2 hg2
    simp only [leaveBundle]
    refine ⟨hi3, ?_, ?_, ?_, ?_⟩
    · have := hg (p, id) List.mem_cons_self
      simp only at this
      simp [this, hs3]
    · intro j hj
      rw [hL3 j hj]
      apply hheap
      intro he; rw [he] at hj; exact hn.1 (List.mem_append_right _ hj)
    · intro j hj
      rw [hP3 j hj]
      apply hheap
      intro he; rw [he] at hj; exact h.liveNotP id List.mem_cons_self hj
    · rw [heng3]; rfl

/-! ### replaying a render's pool traffic -/

def liveIds (live : List (List (Acq × ObjId))) : List ObjId := live.flatten.map (·.2)

structure RInv (F : Facts) (P : ObjId → Prop) (rs : RSt) : Prop where
  pool : PoolInv F P rs.st (liveIds rs.live)
  good : ∀ x ∈ rs.live.flatten, staleObj F x.1 (rs.st.heap x.2) = false
  fresh : rs.stale = false

theorem replayEv_spec (F : Facts) (hF : F.ok) (ω : Oracle) (P : ObjId → Prop) (rs : RSt) (ev : Ev)
    (h : RInv F P rs) :
    RInv F P (replayEv F ω rs ev)
    ∧ (∀ j, P j → (replayEv F ω rs ev).st.heap j = rs.st.heap j)
    ∧ (replayEv F ω rs ev).st.engines = rs.st.engines := by
  cases ev with
  | enter ps =>
    obtain ⟨hi, hs, hgood, hL, hP, heng⟩ := enterBundle_spec F ω P ps rs.st _ h.pool
    simp only [replayEv]
    refine ⟨⟨?_, ?_, ?_⟩, hP, heng⟩
    · simpa [liveIds] using hi
    · intro x hx
      simp only [List.flatten_cons, List.mem_append] at hx
      rcases hx with hx | hx
      · exact hgood x hx
      · rw [hL x.2 (List.mem_map_of_mem (f := (·.2)) hx)]
        exact h.good x hx
    · simp [h.fresh, hs]
  | leave =>
    simp only [replayEv]
    split
    · exact ⟨h, fun _ _ => rfl, rfl⟩
    · rename_i bdl rest hlive
      have hp : PoolInv F P rs.st (bdl.map (·.2) ++ liveIds rest) := by
        have := h.pool
        rw [hlive] at this
        simpa [liveIds] using this
      have hg : ∀ x ∈ bdl, staleObj F x.1 (rs.st.heap x.2) = false := by
        intro x hx
        apply h.good x
        rw [hlive]
        simp [hx]
      obtain ⟨hi, hs, hL, hP, heng⟩ := leaveBundle_spec F hF P bdl rs.st _ hp hg
      refine ⟨⟨hi, ?_, ?_⟩, hP, heng⟩
      · intro x hx
        simp only
        rw [hL x.2 (List.mem_map_of_mem (f := (·.2)) hx)]
        apply h.good x
        rw [hlive]
        simp [hx]
      · simp [h.fresh, hs]

theorem replay_spec (F : Facts) (hF : F.ok) (ω : Oracle) (P : ObjId → Prop) :
    ∀ (evs : List Ev) (rs : RSt), RInv F P rs →
      RInv F P (replay F ω rs evs)
      ∧ (∀ j, P j → (replay F ω rs evs).st.heap j = rs.st.heap j)
      ∧ (replay F ω rs evs).st.engines = rs.st.engines
  | [], rs, h => ⟨h, fun _ _ => rfl, rfl⟩
  | ev :: evs, rs, h => by
    obtain ⟨h1, hP1, he1⟩ := replayEv_spec F hF ω P rs ev h
    obtain ⟨h2, hP2, he2⟩ := replay_spec F hF ω P evs _ h1
    simp only [replay, List.foldl_cons] at h2 hP2 he2 ⊢
    exact ⟨h2, fun j hj => (hP2 j hj).trans (hP1 j hj), he2.trans he1⟩

/-! ### parse -/

theorem parseTpl_spec (F : Facts) (hF : F.ok) (ω : Oracle) (P : ObjId → Prop) (st : St) (s : Src)
    (h : PoolInv F P st []) :
    (parseTpl F ω st s).stale = false
    ∧ (parseTpl F ω st s).st.engines = st.engines
    ∧ (∀ j, P j → (parseTpl F ω st s).st.heap j = st.heap j)
    ∧ (match s.parse with
       | none => (parseTpl F ω st s).root = none ∧ PoolInv F P (parseTpl F ω st s).st []
       | some nodes => ∃ id, (parseTpl F ω st s).root = some id ∧ PoolInv F P (parseTpl F ω st s).st [id]
           ∧ ((parseTpl F ω st s).st.heap id).children = nodes) := by
  obtain ⟨hi, hs, -, hheap, heng⟩ := acquire_spec F ω .getTokenizer st P [] h
  generalize hA : acquire F ω .getTokenizer st = a at hi hs hheap heng
  -- the tokenizer after tokenising
  have hj : PoolInv F P (a.st.junk a.id) [a.id] := write_spec hi a.id List.mem_cons_self _
  have hPj : ∀ j, P j → (a.st.junk a.id).heap j = st.heap j := by
    intro j hj'
    have hne : j ≠ a.id := fun he => hi.liveNotP a.id List.mem_cons_self (he ▸ hj')
    rw [St.junk, setObj_heap_ne _ _ _ _ hne]
    exact hheap j (h.pLt j hj') hne
  have hrel := release_spec hF hj .getTokenizer a.id List.mem_cons_self
  rw [List.erase_cons_head] at hrel
  have hPrel : ∀ j, P j → (release F .getTokenizer a.id (a.st.junk a.id)).heap j = st.heap j := by
    intro j hj'
    have hne : j ≠ a.id := fun he => hi.liveNotP a.id List.mem_cons_self (he ▸ hj')
    rw [release_heap_ne _ _ _ _ _ hne]
    exact hPj j hj'
  -- whichever order: no stale read, the tokenizer ends up in the pool
  have key : ∃ st4 : St, ∃ stale2 : Bool,
      stale2 = false ∧ PoolInv F P st4 [] ∧ (∀ j, P j → st4.heap j = st.heap j) ∧ st4.engines = st.engines
      ∧ parseTpl F ω st s = (match s.parse with
          | none => ⟨none, a.stale || stale2, st4⟩
          | some nodes =>
            let r := acquire F ω .getRootNode st4
            let o := r.st.heap r.id
            let st6 := if "children" ∈ F.resets .getRootNode then r.st.setObj r.id { o with children := nodes } else r.st
            ⟨some r.id, a.stale || stale2 || r.stale, st6⟩) := by
    cases ht : F.tokReleasedBeforeRead with
    | true =>
      refine ⟨release F .getTokenizer a.id (a.st.junk a.id),
        ((release F .getTokenizer a.id (a.st.junk a.id)).heap a.id).f "tokenBuffer" != 2, ?_, hrel, hPrel, ?_, ?_⟩
      rotate_left
      · simp [release, St.setObj, St.junk, heng]
      · simp only [parseTpl, hA, ht, ↓reduceIte]
        rfl
      · have := Facts.ok_tok hF ht
        simp [release, St.setObj, St.junk, Obj.clear, Obj.junk, relOf, this]
    | false =>
      refine ⟨release F .getTokenizer a.id (a.st.junk a.id),
        ((a.st.junk a.id).heap a.id).f "tokenBuffer" != 2, ?_, hrel, hPrel, ?_, ?_⟩
      rotate_left
      · simp [release, St.setObj, St.junk, heng]
      · simp only [parseTpl, hA, ht, Bool.false_eq_true, ↓reduceIte]
        rfl
      · simp [St.setObj, St.junk, Obj.junk]
  obtain ⟨st4, stale2, hs2, hi4, hP4, heng4, heq⟩ := key
  rw [heq]
  cases hp : s.parse with
  | none =>
    simp only
    exact ⟨by simp [hs, hs2], heng4, hP4, trivial, hi4⟩
  | some nodes =>
    obtain ⟨hi5, hs5, -, hheap5, heng5⟩ := acquire_spec F ω .getRootNode st4 P [] hi4
    have hc := Facts.ok_children hF
    simp only [hc, ↓reduceIte]
    refine ⟨by simp [hs, hs2, hs5], ?_, ?_, _, rfl, write_spec hi5 _ List.mem_cons_self _, ?_⟩
    · simp [St.setObj, heng5, heng4]
    · intro j hj'
      have hne : j ≠ (acquire F ω .getRootNode st4).id :=
        fun he => hi5.liveNotP _ List.mem_cons_self (he ▸ hj')
      rw [setObj_heap_ne _ _ _ _ hne, hheap5 j (hi4.pLt j hj') hne]
      exact hP4 j hj'
    · simp [St.setObj]

end Twig.Pool
