/-
  Lemmas for C20 (attribute cache): index paths vs. value-level promoted-field search, method index vs.
  method name, cache invariants.
-/
import TwigModel.AttrCache
namespace Twig.AttrCache

/-! ### generic list helpers -/

theorem firstNonempty_map {α β : Type} (g : α → β) (live : Nat → Bool) (f : Nat → List α) :
    ∀ (n s : Nat),
      firstNonempty live (fun d => (f d).map g) n s = (firstNonempty live f n s).map g := by
  intro n
  induction n with
  | zero => intro s; simp [firstNonempty]
  | succ n ih =>
    intro s
    simp only [firstNonempty]
    cases hl : live s with
    | false => simp
    | true =>
      simp only [if_true]
      cases h : f s with
      | nil => simp [ih]
      | cons x xs => simp

theorem unique_map {α β : Type} (g : α → β) (l : List α) : unique (l.map g) = (unique l).map g := by
  match l with
  | [] => rfl
  | [_] => rfl
  | _ :: _ :: _ => rfl

theorem unique_mem {α : Type} {l : List α} {x : α} (h : unique l = some x) : x ∈ l := by
  match l, h with
  | [y], h => simp [unique] at h; simp [h]

theorem firstNonempty_mem {α : Type} (live : Nat → Bool) (f : Nat → List α) {x : α} :
    ∀ (n s : Nat), x ∈ firstNonempty live f n s → ∃ d, x ∈ f d := by
  intro n
  induction n with
  | zero => intro s h; simp [firstNonempty] at h
  | succ n ih =>
    intro s h
    simp only [firstNonempty] at h
    cases hl : live s with
    | false => simp [hl] at h
    | true =>
      simp only [hl, if_true] at h
      cases hf : f s with
      | nil => rw [hf] at h; exact ih _ h
      | cons y ys => rw [hf] at h; exact ⟨s, by rw [hf]; exact h⟩

/-! ### index paths follow to exactly the values the name-level search finds -/

theorem followO_cons (i : Nat) (r : List Nat) (v : Option Val) :
    followO (i :: r) v = followO r (child v i) := rfl

theorem paths_vals (env : Env) (a : String) :
    ∀ (d : Nat) (T : TypeId) (v : Option Val),
      (pathsAt env a d T).map (fun q => (q.2, followO q.1 v)) = valsAt env a d T v := by
  intro d
  induction d with
  | zero =>
    intro T v
    simp [pathsAt, valsAt, followO, List.map_map, Function.comp_def]
  | succ d ih =>
    intro T v
    simp only [pathsAt, valsAt, List.map_flatMap]
    congr 1
    funext p
    cases h : embeddedTarget p.1 with
    | none => simp
    | some U =>
      simp only [List.map_map]
      rw [← ih U (child v p.2)]
      simp [Function.comp_def, followO]

theorem specField_eq (env : Env) (T : TypeId) (a : String) (v : Val) :
    specField env T a v = (fieldByName env T a).map (fun q => (q.2, followO q.1 (some v))) := by
  unfold specField fieldByName
  rw [← unique_map, ← firstNonempty_map]
  congr 2
  funext d
  exact (paths_vals env a d T (some v)).symm

theorem pathsAt_ne_nil (env : Env) (a : String) :
    ∀ (d : Nat) (T : TypeId) (q : List Nat × FieldDesc), q ∈ pathsAt env a d T → q.1 ≠ [] := by
  intro d
  cases d with
  | zero =>
    intro T q h
    simp only [pathsAt, List.mem_map] at h
    obtain ⟨p, _, rfl⟩ := h
    simp
  | succ d =>
    intro T q h
    simp only [pathsAt, List.mem_flatMap] at h
    obtain ⟨p, _, hq⟩ := h
    cases ht : embeddedTarget p.1 with
    | none => rw [ht] at hq; simp at hq
    | some U =>
      rw [ht] at hq
      simp only [List.mem_map] at hq
      obtain ⟨q', _, rfl⟩ := hq
      simp

theorem embeddedTarget_some {f : FieldDesc} {U : TypeId} (h : embeddedTarget f = some U) :
    f.embedded = true ∧ (f.ty = .struct U ∨ f.ty = .ptr U) := by
  unfold embeddedTarget at h
  cases he : f.embedded with
  | false => simp [he] at h
  | true =>
    simp only [he, if_true] at h
    cases hty : f.ty with
    | scalar => simp [hty] at h
    | struct W => simp [hty] at h; simp [h]
    | ptr W => simp [hty] at h; simp [h]

/-- a path produced by FieldByName crosses embedded fields only, so CanInterface is decided by the
    exportedness of the field it ends at -/
theorem canIface_pathsAt (env : Env) (a : String) :
    ∀ (d : Nat) (T : TypeId) (q : List Nat × FieldDesc),
      q ∈ pathsAt env a d T → canIface env T q.1 = q.2.exported := by
  intro d
  induction d with
  | zero =>
    intro T q h
    simp only [pathsAt, List.mem_map, List.mem_filter] at h
    obtain ⟨p, ⟨hp, _⟩, rfl⟩ := h
    have := List.mem_zipIdx_iff_getElem?.mp hp
    simp [canIface, this]
  | succ d ih =>
    intro T q h
    simp only [pathsAt, List.mem_flatMap] at h
    obtain ⟨p, hp, hq⟩ := h
    have hget := List.mem_zipIdx_iff_getElem?.mp hp
    cases ht : embeddedTarget p.1 with
    | none => rw [ht] at hq; simp at hq
    | some U =>
      rw [ht] at hq
      simp only [List.mem_map] at hq
      obtain ⟨q', hq', rfl⟩ := hq
      have hne := pathsAt_ne_nil env a d U q' hq'
      have hih := ih U q' hq'
      obtain ⟨hemb, hty⟩ := embeddedTarget_some ht
      have hempty : q'.1.isEmpty = false := by
        cases hq1 : q'.1 with
        | nil => exact absurd hq1 hne
        | cons _ _ => rfl
      simp only [canIface, hget, hempty, hemb, Bool.true_or, Bool.true_and]
      rcases hty with hty | hty <;> simp [hty, hih]

theorem fieldByName_canIface {env : Env} {T : TypeId} {a : String} {q : List Nat × FieldDesc}
    (h : fieldByName env T a = some q) : canIface env T q.1 = q.2.exported := by
  unfold fieldByName at h
  have hm := unique_mem h
  obtain ⟨d, hd⟩ := firstNonempty_mem _ _ _ _ hm
  exact canIface_pathsAt env a d T q hd

/-! ### method index vs. method name -/

theorem indexOfName_get (ms : List MethodRef) (a : String) :
    (indexOfName ms a).bind (fun i => ms[i]?) = ms.find? (fun m => m.name == a) := by
  induction ms with
  | nil => simp [indexOfName]
  | cons m ms ih =>
    simp only [indexOfName, List.find?_cons]
    cases hm : (m.name == a) with
    | true => simp
    | false =>
      simp only [Bool.false_eq_true, if_false]
      rw [← ih]
      cases indexOfName ms a <;> simp

theorem methodByName_lookup (env : Env) (T : TypeId) (p : Bool) (a : String) :
    (methodByName env T p a).map (·.2) = lookupMethod env T p a := by
  unfold methodByName lookupMethod
  rw [← indexOfName_get]
  cases h : indexOfName (methodSet env T p) a with
  | none => simp
  | some i =>
    cases h2 : (methodSet env T p)[i]? <;> simp [h2]

theorem methodByName_index {env : Env} {T : TypeId} {p : Bool} {a : String} {i : Nat} {m : MethodRef}
    (h : methodByName env T p a = some (i, m)) : (methodSet env T p)[i]? = some m := by
  unfold methodByName at h
  cases h1 : indexOfName (methodSet env T p) a with
  | none => simp [h1] at h
  | some j =>
    cases h2 : (methodSet env T p)[j]? with
    | none => simp [h1, h2] at h
    | some m' =>
      simp [h1, h2] at h
      obtain ⟨rfl, rfl⟩ := h
      exact h2

theorem zeroArgIdx_map (x : Option (Nat × MethodRef)) :
    (zeroArgIdx x).map (·.2) = zeroArg (x.map (·.2)) := by
  cases x with
  | none => rfl
  | some p =>
    obtain ⟨i, m⟩ := p
    simp only [zeroArgIdx, zeroArg, Option.map]
    by_cases h : (m.decl.numIn == 0) = true <;> simp [h]

theorem zeroArgIdx_some {x : Option (Nat × MethodRef)} {i : Nat} {m : MethodRef}
    (h : zeroArgIdx x = some (i, m)) : x = some (i, m) := by
  cases x with
  | none => simp [zeroArgIdx] at h
  | some p =>
    obtain ⟨j, m'⟩ := p
    simp only [zeroArgIdx] at h
    split at h
    · simpa using h
    · simp at h

/-- calling the cached (index, value/pointer table) pair = calling the method found by name -/
theorem useMethod_resolve (env : Env) (T : TypeId) (a : String) (obj : Val) :
    useMethod env (resolveCode env T a) T obj = specMethod env T obj a := by
  unfold useMethod specMethod resolveCode resolveMethod
  rw [← methodByName_lookup env T false a, ← methodByName_lookup env T true a,
    ← zeroArgIdx_map, ← zeroArgIdx_map]
  cases h1 : zeroArgIdx (methodByName env T false a) with
  | some p =>
    obtain ⟨i, m⟩ := p
    have := methodByName_index (zeroArgIdx_some h1)
    simp [this]
  | none =>
    cases h2 : zeroArgIdx (methodByName env T true a) with
    | some p =>
      obtain ⟨j, m⟩ := p
      have := methodByName_index (zeroArgIdx_some h2)
      simp [this]
    | none => simp

/-- using the entry the miss path computes = Go's selector semantics on the value -/
theorem useEntry_resolve (F : Facts) (hF : F.fullPath = true) (env : Env) (T : TypeId) (a : String)
    (obj : Val) : useEntry F env (resolveCode env T a) T obj = specMember env T obj a := by
  unfold useEntry specMember
  rw [specField_eq, useMethod_resolve]
  cases h : fieldByName env T a with
  | none => simp [resolveCode, resolveField, h]
  | some q =>
    obtain ⟨p, f⟩ := q
    have hc := fieldByName_canIface h
    simp only at hc
    simp only [resolveCode, resolveField, h, hF, if_true, Option.map]
    have : (Int.ofNat (p.headD 0) ≥ 0) := Int.natCast_nonneg _
    simp only [this, if_true, hc]
    cases followO p (some obj) <;> simp

/-! ### the cache -/

theorem mkKey_inj {F : Facts} (hF : F.keyOk = true) {T T' : TypeId} {a a' : String}
    (h : mkKey F T a = mkKey F T' a') : T = T' ∧ a = a' := by
  simp only [Facts.keyOk, Bool.and_eq_true] at hF
  simp only [mkKey, hF.1, hF.2, if_true, Key.mk.injEq] at h
  exact h

/-- every cached entry is what the miss path computes for its key -/
def EntriesRight (F : Facts) (env : Env) (c : Cache) : Prop :=
  ∀ p ∈ c.m, ∀ T a, p.1 = mkKey F T a → p.2.r = resolveCode env T a

theorem Cache.get_mem {c : Cache} {k : Key} {e : Entry} (h : c.get k = some e) : (k, e) ∈ c.m := by
  unfold Cache.get at h
  cases hf : c.m.find? (fun p => p.1 == k) with
  | none => simp [hf] at h
  | some p =>
    simp [hf] at h
    have hm := List.mem_of_find?_eq_some hf
    have hk := List.find?_some hf
    simp at hk
    subst h
    rw [← hk]
    exact hm

theorem Cache.get_none {c : Cache} {k : Key} (h : c.get k = none) : k ∉ c.keys := by
  unfold Cache.get at h
  cases hf : c.m.find? (fun p => p.1 == k) with
  | some p => simp [hf] at h
  | none =>
    rw [List.find?_eq_none] at hf
    intro hk
    simp only [Cache.keys, List.mem_map] at hk
    obtain ⟨p, hp, rfl⟩ := hk
    exact hf p hp (by simp)

theorem entriesRight_evict {F : Facts} {env : Env} {c : Cache} (victims : List Key)
    (h : EntriesRight F env c) : EntriesRight F env (evict victims c) := by
  intro p hp
  simp only [evict, List.mem_filter] at hp
  exact h p hp.1

theorem lookupEntry_hit {F : Facts} {env : Env} {c : Cache} {victims : List Key} {T : TypeId} {a : String}
    {e : Entry} (hg : c.get (mkKey F T a) = some e) :
    lookupEntry F env victims c T a =
      ({ e with lastAccess := c.clock, accessCount := e.accessCount + 1 },
       { c with m := replaceEntry c.m (mkKey F T a)
                  { e with lastAccess := c.clock, accessCount := e.accessCount + 1 },
                clock := c.clock + 1 }) := by
  simp only [lookupEntry, hg]

theorem lookupEntry_miss {F : Facts} {env : Env} {c : Cache} {victims : List Key} {T : TypeId} {a : String}
    (hg : c.get (mkKey F T a) = none) :
    lookupEntry F env victims c T a =
      ({ r := resolveCode env T a, lastAccess := c.clock, accessCount := 1 },
       { m := (mkKey F T a, { r := resolveCode env T a, lastAccess := c.clock, accessCount := 1 }) ::
              (if c.currSize ≥ Int.ofNat F.maxSize then evict victims c else c).m,
         currSize := (if c.currSize ≥ Int.ofNat F.maxSize then evict victims c else c).currSize + 1,
         clock := c.clock + 1 }) := by
  simp only [lookupEntry, hg]

theorem lookupEntry_right {F : Facts} (hF : F.keyOk = true) {env : Env} {c : Cache}
    (h : EntriesRight F env c) (victims : List Key) (T : TypeId) (a : String) :
    (lookupEntry F env victims c T a).1.r = resolveCode env T a ∧
    EntriesRight F env (lookupEntry F env victims c T a).2 := by
  cases hg : c.get (mkKey F T a) with
  | some e =>
    rw [lookupEntry_hit hg]
    have hr : e.r = resolveCode env T a := h _ (Cache.get_mem hg) T a rfl
    refine ⟨hr, ?_⟩
    intro p hp T' a' hk
    simp only [replaceEntry, List.mem_map] at hp
    obtain ⟨p0, hp0, rfl⟩ := hp
    by_cases hk0 : p0.1 = mkKey F T a
    · simp only [hk0, beq_self_eq_true, if_true] at hk ⊢
      obtain ⟨rfl, rfl⟩ := mkKey_inj hF hk
      exact hr
    · have : (p0.1 == mkKey F T a) = false := by simpa using hk0
      simp only [this, Bool.false_eq_true, if_false] at hk ⊢
      exact h p0 hp0 T' a' hk
  | none =>
    rw [lookupEntry_miss hg]
    refine ⟨rfl, ?_⟩
    intro p hp T' a' hk
    simp only [List.mem_cons] at hp
    rcases hp with rfl | hp
    · obtain ⟨rfl, rfl⟩ := mkKey_inj hF hk
      rfl
    · by_cases hfull : c.currSize ≥ Int.ofNat F.maxSize
      · simp only [hfull, if_true] at hp
        exact entriesRight_evict victims h p hp T' a' hk
      · simp only [hfull, if_false] at hp
        exact h p hp T' a' hk

theorem getAttribute_right {F : Facts} (hF : F.keyOk = true) {env : Env} {c : Cache}
    (h : EntriesRight F env c) (victims : List Key) (obj : Val) (a : String) :
    (getAttribute F env victims c obj a).1 = getAttrPure F env obj a ∧
    EntriesRight F env (getAttribute F env victims c obj a).2 := by
  cases obj with
  | struct T r fs =>
    have := lookupEntry_right hF h victims T a
    simp only [getAttribute, getAttrPure]
    exact ⟨by rw [this.1], this.2⟩
  | ptrTo T r fs =>
    have := lookupEntry_right hF h victims T a
    simp only [getAttribute, getAttrPure]
    exact ⟨by rw [this.1], this.2⟩
  | tmap r es => simp only [getAttribute, getAttrPure]; split <;> exact ⟨rfl, h⟩
  | pmap r es => simp only [getAttribute, getAttrPure]; split <;> exact ⟨rfl, h⟩
  | nil => exact ⟨rfl, h⟩
  | scalar s => exact ⟨rfl, h⟩
  | nilPtr T r => exact ⟨rfl, h⟩
  | smap es => exact ⟨rfl, h⟩
  | other r => exact ⟨rfl, h⟩

theorem entriesRight_empty (F : Facts) (env : Env) : EntriesRight F env Cache.empty := by
  intro p hp
  simp [Cache.empty] at hp

theorem runFrom_right {F : Facts} (hF : F.keyOk = true) (env : Env) (ω : Oracle) :
    ∀ (hist : List Query) (n : Nat) (c : Cache), EntriesRight F env c →
      EntriesRight F env (runFrom F env ω n c hist) := by
  intro hist
  induction hist with
  | nil => intro n c h; exact h
  | cons q rest ih =>
    intro n c h
    simp only [runFrom]
    exact ih _ _ (getAttribute_right hF h _ q.obj q.attr).2

/-! ### the size counter and the bound -/

/-- the Go map has distinct keys and `currSize` is its length -/
def WF (c : Cache) : Prop := c.currSize = Int.ofNat c.m.length ∧ c.keys.Nodup

theorem wf_empty : WF Cache.empty := by
  simp [WF, Cache.empty, Cache.keys]

theorem wf_evict {c : Cache} (victims : List Key) (h : WF c) : WF (evict victims c) := by
  obtain ⟨hs, hn⟩ := h
  have hle := List.length_filter_le (fun p : Key × Entry => !victims.contains p.1) c.m
  constructor
  · simp only [evict, hs]
    simp only [Int.ofNat_eq_natCast]
    omega
  · simp only [evict, Cache.keys]
    unfold Cache.keys at hn
    exact (List.Pairwise.filter _ (List.pairwise_map.mp hn)) |> List.pairwise_map.mpr

theorem keys_replaceEntry (m : List (Key × Entry)) (k : Key) (e : Entry) :
    (replaceEntry m k e).map (·.1) = m.map (·.1) := by
  induction m with
  | nil => rfl
  | cons p ps ih =>
    simp only [replaceEntry, List.map_cons] at ih ⊢
    rw [ih]
    by_cases hk : p.1 = k
    · simp [hk]
    · have : (p.1 == k) = false := by simpa using hk
      simp [this]

theorem evict_keys_subset {c : Cache} (victims : List Key) {k : Key}
    (h : k ∈ (evict victims c).keys) : k ∈ c.keys := by
  simp only [evict, Cache.keys, List.mem_map, List.mem_filter] at h ⊢
  obtain ⟨p, ⟨hp, _⟩, rfl⟩ := h
  exact ⟨p, hp, rfl⟩

theorem wf_lookupEntry {F : Facts} {env : Env} {c : Cache} (h : WF c) (victims : List Key)
    (T : TypeId) (a : String) : WF (lookupEntry F env victims c T a).2 := by
  cases hg : c.get (mkKey F T a) with
  | some e =>
    rw [lookupEntry_hit hg]
    obtain ⟨hs, hn⟩ := h
    constructor
    · simp [replaceEntry, hs]
    · simp only [Cache.keys, keys_replaceEntry]
      exact hn
  | none =>
    rw [lookupEntry_miss hg]
    have hnot := Cache.get_none hg
    by_cases hfull : c.currSize ≥ Int.ofNat F.maxSize
    · simp only [hfull, if_true]
      obtain ⟨hs, hn⟩ := wf_evict victims h
      constructor
      · simp only [List.length_cons, hs, Int.ofNat_eq_natCast]; omega
      · simp only [Cache.keys, List.map_cons, List.nodup_cons]
        exact ⟨fun hk => hnot (evict_keys_subset victims hk), hn⟩
    · simp only [hfull, if_false]
      obtain ⟨hs, hn⟩ := h
      constructor
      · simp only [List.length_cons, hs, Int.ofNat_eq_natCast]; omega
      · simp only [Cache.keys, List.map_cons, List.nodup_cons]
        exact ⟨hnot, hn⟩

/-- what `C20_size_bounded` asks of eviction: when it runs on a non-empty map it deletes something -/
def GoodOracle (ω : Oracle) : Prop :=
  ∀ n c, c.m ≠ [] → (evict (ω n c) c).m.length < c.m.length

/-- what evictLRUEntries guarantees: exactly min(numToEvict, len(m)) entries are deleted -/
def CodeOracle (F : Facts) (ω : Oracle) : Prop :=
  ∀ n c, c.m.length - (evict (ω n c) c).m.length = min F.numToEvict c.m.length

theorem codeOracle_good {F : Facts} (hF : 0 < F.numToEvict) {ω : Oracle} (h : CodeOracle F ω) :
    GoodOracle ω := by
  intro n c hne
  have := h n c
  have hpos : 0 < c.m.length := List.length_pos_iff.mpr hne
  omega

theorem bound_lookupEntry {F : Facts} (hmax : 0 < F.maxSize) {env : Env} {c : Cache} (h : WF c)
    (hb : c.m.length ≤ F.maxSize) (victims : List Key)
    (hgood : c.m ≠ [] → (evict victims c).m.length < c.m.length) (T : TypeId) (a : String) :
    (lookupEntry F env victims c T a).2.m.length ≤ F.maxSize := by
  cases hg : c.get (mkKey F T a) with
  | some e => rw [lookupEntry_hit hg]; simpa [replaceEntry] using hb
  | none =>
    rw [lookupEntry_miss hg]
    obtain ⟨hs, _⟩ := h
    by_cases hfull : c.currSize ≥ Int.ofNat F.maxSize
    · simp only [hfull, if_true, List.length_cons]
      have hne : c.m ≠ [] := by
        intro he
        rw [hs, he] at hfull
        simp only [List.length_nil, Int.ofNat_eq_natCast] at hfull
        omega
      have := hgood hne
      omega
    · simp only [hfull, if_false, List.length_cons]
      rw [hs] at hfull
      simp only [Int.ofNat_eq_natCast] at hfull
      omega

theorem getAttribute_wf_bound {F : Facts} (hmax : 0 < F.maxSize) {env : Env} {c : Cache} (h : WF c)
    (hb : c.m.length ≤ F.maxSize) (victims : List Key)
    (hgood : c.m ≠ [] → (evict victims c).m.length < c.m.length) (obj : Val) (a : String) :
    WF (getAttribute F env victims c obj a).2 ∧
    (getAttribute F env victims c obj a).2.m.length ≤ F.maxSize := by
  cases obj with
  | struct T r fs =>
    simp only [getAttribute]
    exact ⟨wf_lookupEntry h victims T a, bound_lookupEntry hmax h hb victims hgood T a⟩
  | ptrTo T r fs =>
    simp only [getAttribute]
    exact ⟨wf_lookupEntry h victims T a, bound_lookupEntry hmax h hb victims hgood T a⟩
  | tmap r es => simp only [getAttribute]; split <;> exact ⟨h, hb⟩
  | pmap r es => simp only [getAttribute]; split <;> exact ⟨h, hb⟩
  | nil => exact ⟨h, hb⟩
  | scalar s => exact ⟨h, hb⟩
  | nilPtr T r => exact ⟨h, hb⟩
  | smap es => exact ⟨h, hb⟩
  | other r => exact ⟨h, hb⟩

theorem runFrom_wf_bound {F : Facts} (hmax : 0 < F.maxSize) (env : Env) {ω : Oracle}
    (hω : GoodOracle ω) :
    ∀ (hist : List Query) (n : Nat) (c : Cache), WF c → c.m.length ≤ F.maxSize →
      WF (runFrom F env ω n c hist) ∧ (runFrom F env ω n c hist).m.length ≤ F.maxSize := by
  intro hist
  induction hist with
  | nil => intro n c h hb; exact ⟨h, hb⟩
  | cons q rest ih =>
    intro n c h hb
    simp only [runFrom]
    have := getAttribute_wf_bound hmax (env := env) h hb (ω n c) (hω n c) q.obj q.attr
    exact ih _ _ this.1 this.2

/-- WF alone (no assumption on the oracle): the counter never drifts from len(m) -/
theorem getAttribute_wf {F : Facts} {env : Env} {c : Cache} (h : WF c) (victims : List Key)
    (obj : Val) (a : String) : WF (getAttribute F env victims c obj a).2 := by
  cases obj with
  | struct T r fs => simp only [getAttribute]; exact wf_lookupEntry h victims T a
  | ptrTo T r fs => simp only [getAttribute]; exact wf_lookupEntry h victims T a
  | tmap r es => simp only [getAttribute]; split <;> exact h
  | pmap r es => simp only [getAttribute]; split <;> exact h
  | nil => exact h
  | scalar s => exact h
  | nilPtr T r => exact h
  | smap es => exact h
  | other r => exact h

theorem runFrom_wf {F : Facts} (env : Env) (ω : Oracle) :
    ∀ (hist : List Query) (n : Nat) (c : Cache), WF c → WF (runFrom F env ω n c hist) := by
  intro hist
  induction hist with
  | nil => intro n c h; exact h
  | cons q rest ih =>
    intro n c h
    simp only [runFrom]
    exact ih _ _ (getAttribute_wf h _ q.obj q.attr)

/-- the oracle that deletes everything is a good oracle (non-vacuity of `GoodOracle`) -/
theorem evictAll_good : GoodOracle (fun _ c => c.keys) := by
  intro n c hne
  have : (evict c.keys c).m = [] := by
    simp only [evict, List.filter_eq_nil_iff]
    intro p hp
    simp only [Cache.keys, Bool.not_eq_true', List.contains_eq_mem, List.mem_map]
    simp
    exact ⟨p.2, hp⟩
  rw [this]
  exact List.length_pos_iff.mpr hne

end Twig.AttrCache
