/-
  TwigProofs.Lemmas.Scan — helper lemmas about the template scanners of `TwigModel.Scan`
  (used by C14, C04, C13).  Core Lean only.
-/
import TwigModel.Scan
namespace Twig

/-! ## Closed facts about the byte literals of the model -/

theorem htmlPatterns_eq : htmlPatterns =
    [([123,123,45], ⟨.var, true⟩), ([123,123], ⟨.var, false⟩), ([123,37,45], ⟨.block, true⟩),
     ([123,37], ⟨.block, false⟩), ([123,35], ⟨.comment, false⟩)] := by decide +kernel

/-- second byte of an opener -/
def openCh : TagKind → UInt8
  | .var => 123 | .block => 37 | .comment => 35

/-- does the opener spell a dash? (a comment opener never does) -/
def Opener.dashed (o : Opener) : Bool := o.trim && o.kind != .comment

theorem Opener.text_eq (o : Opener) :
    o.text = 123 :: openCh o.kind :: (if o.dashed then [45] else []) := by
  rcases o with ⟨k, t⟩
  cases k <;> cases t <;> decide +kernel

theorem Opener.len_eq (o : Opener) : o.len = if o.trim then 3 else 2 := rfl

/-! ## `indexOf` -/

theorem indexOf_cons_of_not_prefix {pat : Bytes} {c : UInt8} {r : Bytes}
    (h : pat.isPrefixOf (c :: r) = false) : indexOf pat (c :: r) = (indexOf pat r).map (· + 1) := by
  simp [indexOf, h]

theorem indexOf_cons_of_prefix {pat : Bytes} {c : UInt8} {r : Bytes}
    (h : pat.isPrefixOf (c :: r) = true) : indexOf pat (c :: r) = some 0 := by
  simp [indexOf, h]

theorem indexOf_eq_zero {pat s : Bytes} (h : indexOf pat s = some 0) : pat.isPrefixOf s = true := by
  cases s with
  | nil => cases pat <;> simp_all [indexOf]
  | cons c r =>
    by_cases hp : pat.isPrefixOf (c :: r) = true
    · exact hp
    · simp only [Bool.not_eq_true] at hp
      rw [indexOf_cons_of_not_prefix hp] at h
      cases h' : indexOf pat r <;> simp_all

/-! ## `findOpenerHtml = findOpenerOpt` -/

def shiftPos (x : Nat × Opener) : Nat × Opener := (x.1 + 1, x.2)

theorem findOpenerOpt_shift_eq :
    (fun (x : Nat × Opener) => match x with | (i, o) => (i + 1, o)) = shiftPos := by
  funext ⟨i, o⟩; rfl

/-- the update of the running minimum in `findOpenerHtmlAux` -/
def better (best : Option (Nat × Opener)) (cand : Option Nat) (o : Opener) : Option (Nat × Opener) :=
  match cand, best with
  | some p, none => some (p, o)
  | some p, some (q, o') => if p < q then some (p, o) else some (q, o')
  | none, best => best

theorem findOpenerHtmlAux_cons (s pat : Bytes) (o : Opener) (ps : List (Bytes × Opener))
    (best : Option (Nat × Opener)) :
    findOpenerHtmlAux s ((pat, o) :: ps) best =
      if pat.isPrefixOf s then some (0, o)
      else findOpenerHtmlAux s ps (better best (indexOf pat s) o) := by
  conv => lhs; rw [findOpenerHtmlAux.eq_def]
  simp only
  split
  · rfl
  · cases indexOf pat s with
    | none => simp [better]
    | some p =>
      cases best with
      | none => simp [better]
      | some qo => rcases qo with ⟨q, o'⟩; simp [better]

theorem findOpenerHtmlAux_hit_here {s pat : Bytes} (o : Opener) (ps : List (Bytes × Opener))
    (h : pat.isPrefixOf s = true) : ∀ best, findOpenerHtmlAux s ((pat, o) :: ps) best = some (0, o) := by
  intro best; rw [findOpenerHtmlAux_cons, if_pos h]

theorem findOpenerHtmlAux_hit_later {s pat : Bytes} {o : Opener} (o' : Opener) {ps : List (Bytes × Opener)}
    (h : pat.isPrefixOf s = false) (hl : ∀ best, findOpenerHtmlAux s ps best = some (0, o)) :
    ∀ best, findOpenerHtmlAux s ((pat, o') :: ps) best = some (0, o) := by
  intro best; rw [findOpenerHtmlAux_cons, h]; simp [hl]

/-- once the best candidate sits at position 1 and no pattern matches at position 0, nothing beats it -/
theorem findOpenerHtmlAux_one (s : Bytes) (o : Opener) :
    ∀ ps : List (Bytes × Opener), (∀ po ∈ ps, po.1.isPrefixOf s = false) →
      findOpenerHtmlAux s ps (some (1, o)) = some (1, o) := by
  intro ps
  induction ps with
  | nil => intro _; rfl
  | cons po ps ih =>
    intro h
    rcases po with ⟨pat, o'⟩
    have hp : pat.isPrefixOf s = false := h (pat, o') (by simp)
    have hps : ∀ po ∈ ps, po.1.isPrefixOf s = false := fun po hm => h po (by simp [hm])
    rw [findOpenerHtmlAux_cons, hp]
    simp only [Bool.false_eq_true, if_false]
    cases hi : indexOf pat s with
    | none => simpa [better] using ih hps
    | some p =>
      have : ¬ p < 1 := by
        intro hlt
        have : p = 0 := by omega
        subst this
        have := indexOf_eq_zero hi
        simp_all
      simp only [better, this, if_false]
      exact ih hps

theorem findOpenerHtmlAux_shift (c : UInt8) (r : Bytes) :
    ∀ (ps : List (Bytes × Opener)) (best : Option (Nat × Opener)),
      (∀ po ∈ ps, po.1.isPrefixOf (c :: r) = false) →
      (∀ q o, best = some (q, o) → q > 0) →
      findOpenerHtmlAux (c :: r) ps (best.map shiftPos) = (findOpenerHtmlAux r ps best).map shiftPos := by
  intro ps
  induction ps with
  | nil => intro best _ _; rfl
  | cons po ps ih =>
    intro best h hb
    rcases po with ⟨pat, o⟩
    have hp : pat.isPrefixOf (c :: r) = false := h (pat, o) (by simp)
    have hps : ∀ po ∈ ps, po.1.isPrefixOf (c :: r) = false := fun po hm => h po (by simp [hm])
    rw [findOpenerHtmlAux_cons, findOpenerHtmlAux_cons, hp, indexOf_cons_of_not_prefix hp]
    simp only [Bool.false_eq_true, if_false]
    by_cases hr : pat.isPrefixOf r = true
    · -- found at position 0 of `r`, i.e. position 1 of `c :: r`
      have hi : indexOf pat r = some 0 := by
        cases r with
        | nil => cases pat <;> simp_all
        | cons d r' => exact indexOf_cons_of_prefix hr
      rw [if_pos hr, hi]
      have hbest : better (best.map shiftPos) (Option.map (· + 1) (some 0)) o = some (1, o) := by
        cases best with
        | none => simp [better]
        | some qo =>
          rcases qo with ⟨q, o'⟩
          have hq := hb q o' rfl
          have : 1 < q + 1 := by omega
          simp [better, shiftPos, this]
      rw [hbest]
      exact findOpenerHtmlAux_one (c :: r) o ps hps
    · rw [if_neg hr]
      cases hi : indexOf pat r with
      | none =>
        have : better (best.map shiftPos) (Option.map (· + 1) none) o = (better best none o).map shiftPos := by
          cases best <;> simp [better]
        rw [this]
        apply ih _ hps
        cases best with
        | none => simp [better]
        | some qo => simpa [better] using hb
      | some p =>
        have hp0 : p > 0 := by
          rcases Nat.eq_zero_or_pos p with h0 | h0
          · subst h0; exact absurd (indexOf_eq_zero hi) hr
          · exact h0
        have : better (best.map shiftPos) (Option.map (· + 1) (some p)) o
            = (better best (some p) o).map shiftPos := by
          cases best with
          | none => simp [better, shiftPos]
          | some qo =>
            rcases qo with ⟨q, o'⟩
            by_cases hlt : p < q <;> simp [better, shiftPos, hlt]
        rw [this]
        apply ih _ hps
        cases best with
        | none => intro q o' hq; simp [better] at hq; omega
        | some qo =>
          rcases qo with ⟨q, o'⟩
          have hq := hb q o' rfl
          intro q2 o2 h2
          simp only [better] at h2
          split at h2 <;> simp at h2 <;> omega

theorem findOpenerHtml_cons_of_no_prefix (c : UInt8) (r : Bytes)
    (h : ∀ po ∈ htmlPatterns, po.1.isPrefixOf (c :: r) = false) :
    findOpenerHtml (c :: r) = (findOpenerHtml r).map shiftPos := by
  have := findOpenerHtmlAux_shift c r htmlPatterns none h (by intro q o hq; cases hq)
  simpa [findOpenerHtml] using this

theorem findOpenerHtml_nil : findOpenerHtml [] = none := by
  simp [findOpenerHtml, htmlPatterns_eq, findOpenerHtmlAux, indexOf]

theorem findOpenerHtml_hit_var (r : Bytes) :
    findOpenerHtml (123 :: 123 :: r) = some (0, ⟨.var, r.head? == some 45⟩) := by
  rw [findOpenerHtml, htmlPatterns_eq]
  cases r with
  | nil => simp [findOpenerHtmlAux_cons, List.isPrefixOf]
  | cons x r' =>
    by_cases hx : x = 45
    · subst hx; simp [findOpenerHtmlAux_cons, List.isPrefixOf]
    · have : (45 == x) = false := by simpa using fun h => hx h.symm
      simp [findOpenerHtmlAux_cons, List.isPrefixOf, this, hx]

theorem findOpenerHtml_hit_block (r : Bytes) :
    findOpenerHtml (123 :: 37 :: r) = some (0, ⟨.block, r.head? == some 45⟩) := by
  rw [findOpenerHtml, htmlPatterns_eq]
  cases r with
  | nil => simp [findOpenerHtmlAux_cons, List.isPrefixOf]
  | cons x r' =>
    by_cases hx : x = 45
    · subst hx; simp [findOpenerHtmlAux_cons, List.isPrefixOf]
    · have : (45 == x) = false := by simpa using fun h => hx h.symm
      simp [findOpenerHtmlAux_cons, List.isPrefixOf, this, hx]

theorem findOpenerHtml_hit_comment (r : Bytes) :
    findOpenerHtml (123 :: 35 :: r) = some (0, ⟨.comment, false⟩) := by
  rw [findOpenerHtml, htmlPatterns_eq]
  simp [findOpenerHtmlAux_cons, List.isPrefixOf]

theorem findOpenerHtml_eq_opt (s : Bytes) : findOpenerHtml s = findOpenerOpt s := by
  induction s using findOpenerOpt.induct with
  | case1 r => rw [findOpenerOpt, findOpenerHtml_hit_var]
  | case2 r => rw [findOpenerOpt, findOpenerHtml_hit_block]
  | case3 r => rw [findOpenerOpt, findOpenerHtml_hit_comment]
  | case4 c r h1 h2 h3 ih =>
    rw [findOpenerOpt.eq_4 c r h1 h2 h3, findOpenerOpt_shift_eq, ← ih]
    apply findOpenerHtml_cons_of_no_prefix
    intro po hpo
    rw [htmlPatterns_eq] at hpo
    cases r with
    | nil => simp at hpo; rcases hpo with h | h | h | h | h <;> subst h <;> simp [List.isPrefixOf]
    | cons y r' =>
      have g1 : c = 123 → y ≠ 123 := fun hc hy => h1 r' hc (by rw [hy])
      have g2 : c = 123 → y ≠ 37 := fun hc hy => h2 r' hc (by rw [hy])
      have g3 : c = 123 → y ≠ 35 := fun hc hy => h3 r' hc (by rw [hy])
      simp at hpo
      rcases hpo with h | h | h | h | h <;> subst h <;> simp [List.isPrefixOf]
      all_goals (intro hc; subst hc)
      all_goals first
        | exact fun hy => absurd hy.symm (g1 rfl)
        | exact fun hy => absurd hy.symm (g2 rfl)
        | exact fun hy => absurd hy.symm (g3 rfl)
  | case5 => rw [findOpenerOpt]; exact findOpenerHtml_nil

/-! ## `tagEndHtml = tagEndOpt`: both equal a structural specification -/

theorem findCloser_eq_indexOf (a c : UInt8) (s : Bytes) : findCloser a c s = indexOf [a, c] s := by
  induction s with
  | nil => simp [findCloser, indexOf]
  | cons x r ih =>
    cases r with
    | nil => simp [findCloser, indexOf, List.isPrefixOf]
    | cons y r' =>
      rw [findCloser, ih]
      by_cases h : (x == a && y == c) = true
      · have : List.isPrefixOf [a, c] (x :: y :: r') = true := by
          simp only [Bool.and_eq_true, beq_iff_eq] at h
          simp [List.isPrefixOf, h.1, h.2]
        rw [if_pos h, indexOf_cons_of_prefix this]
      · have : List.isPrefixOf [a, c] (x :: y :: r') = false := by
          simp only [Bool.and_eq_true, beq_iff_eq, not_and] at h
          simp only [List.isPrefixOf, Bool.and_true, Bool.and_eq_false_imp, beq_iff_eq]
          intro h1
          simp only [beq_eq_false_iff_ne, ne_eq]
          exact fun h2 => h h1.symm h2.symm
        rw [if_neg h, indexOf_cons_of_not_prefix this]

def consTE (x : UInt8) (te : TagEnd) : TagEnd := ⟨x :: te.content, te.trim, te.consumed + 1⟩

/-- Structural specification of the end-of-tag search: the first position where the plain closer
    or (var/block only) the dashed closer starts. -/
def tagEndSpec (k : TagKind) : Bytes → Option TagEnd
  | [] => none
  | x :: r =>
    if List.isPrefixOf [closerOf k, 125] (x :: r) then some ⟨[], false, 2⟩
    else if k != .comment && List.isPrefixOf [45, closerOf k, 125] (x :: r) then some ⟨[], true, 3⟩
    else (tagEndSpec k r).map (consTE x)

theorem closerOf_ne_dash {k : TagKind} (h : k ≠ .comment) : closerOf k ≠ 45 := by
  cases k <;> simp_all [closerOf]

theorem indexOf_nil_cons (a : UInt8) (p : Bytes) : indexOf (a :: p) [] = none := by simp [indexOf]

theorem tagEndHtml_comment_eq_spec (rest : Bytes) : tagEndHtml .comment rest = tagEndSpec .comment rest := by
  induction rest with
  | nil => simp [tagEndHtml, tagEndSpec, indexOf]
  | cons x r ih =>
    have unfoldH : ∀ s, tagEndHtml .comment s =
        match indexOf [closerOf .comment, 125] s with
        | none => none
        | some e => some ⟨s.take e, false, e + 2⟩ := fun s => rfl
    rw [tagEndSpec, ← ih, unfoldH, unfoldH]
    by_cases hp : List.isPrefixOf [closerOf .comment, 125] (x :: r) = true
    · rw [indexOf_cons_of_prefix hp, if_pos hp]; rfl
    · simp only [Bool.not_eq_true] at hp
      rw [indexOf_cons_of_not_prefix hp, hp]
      cases indexOf [closerOf .comment, 125] r <;> simp [consTE]

theorem tagEndHtml_eq_spec (k : TagKind) (rest : Bytes) : tagEndHtml k rest = tagEndSpec k rest := by
  by_cases hk : k = .comment
  · subst hk; exact tagEndHtml_comment_eq_spec rest
  have hc := closerOf_ne_dash hk
  have hkb : (k != .comment) = true := by simpa using hk
  have unfoldH : ∀ s, tagEndHtml k s =
      match indexOf [closerOf k, 125] s, indexOf [45, closerOf k, 125] s with
      | some e1, none => some ⟨s.take e1, false, e1 + 2⟩
      | some e1, some e2 =>
        if e1 < e2 then some ⟨s.take e1, false, e1 + 2⟩ else some ⟨s.take e2, true, e2 + 3⟩
      | none, some e2 => some ⟨s.take e2, true, e2 + 3⟩
      | none, none => none := by
    intro s; cases k <;> first | rfl | exact absurd rfl hk
  induction rest with
  | nil => rw [unfoldH]; simp [tagEndSpec, indexOf]
  | cons x r ih =>
    rw [tagEndSpec, ← ih, unfoldH, unfoldH, hkb]
    by_cases hp : List.isPrefixOf [closerOf k, 125] (x :: r) = true
    · have hx : x = closerOf k := by
        simp only [List.isPrefixOf, Bool.and_eq_true, beq_iff_eq] at hp; exact hp.1.symm
      have hd : List.isPrefixOf [45, closerOf k, 125] (x :: r) = false := by
        simp only [List.isPrefixOf, Bool.and_eq_false_imp, beq_iff_eq]
        intro h; exact absurd (hx ▸ h.symm) hc
      rw [indexOf_cons_of_prefix hp, indexOf_cons_of_not_prefix hd, if_pos hp]
      cases indexOf [45, closerOf k, 125] r <;> simp
    · simp only [Bool.not_eq_true] at hp
      rw [hp, indexOf_cons_of_not_prefix hp]
      simp only [Bool.false_eq_true, if_false, Bool.true_and]
      by_cases hd : List.isPrefixOf [45, closerOf k, 125] (x :: r) = true
      · have hr : List.isPrefixOf [closerOf k, 125] r = true := by
          simp only [List.isPrefixOf_cons_cons, Bool.and_eq_true] at hd; exact hd.2
        have hi : indexOf [closerOf k, 125] r = some 0 := by
          cases r with
          | nil => simp [List.isPrefixOf] at hr
          | cons y r' => exact indexOf_cons_of_prefix hr
        rw [indexOf_cons_of_prefix hd, if_pos hd, hi]; simp
      · simp only [Bool.not_eq_true] at hd
        rw [indexOf_cons_of_not_prefix hd, hd]
        simp only [Bool.false_eq_true, if_false]
        cases indexOf [closerOf k, 125] r <;> cases indexOf [45, closerOf k, 125] r <;>
          simp [consTE]
        rename_i e1 e2
        by_cases hlt : e1 < e2 <;> simp [hlt, consTE] <;> omega

theorem indexOf_pos_ne_nil {pat s : Bytes} {e : Nat} (h : indexOf pat s = some e) (he : e > 0) : s ≠ [] := by
  intro hs; subst hs
  cases pat <;> simp [indexOf] at h
  omega

theorem tagEndOpt_step (k : TagKind) (x : UInt8) (t : Bytes) (e : Nat) (htne : t ≠ []) (he : e > 0) :
    (if (k != TagKind.comment && decide (e + 1 > 0) && (x :: t).getLast? == some 45) = true then
        some ({ content := (x :: t).dropLast, trim := true, consumed := e + 1 + 2 } : TagEnd)
      else some { content := x :: t, trim := false, consumed := e + 1 + 2 }) =
      Option.map (consTE x)
        (if (k != TagKind.comment && decide (e > 0) && t.getLast? == some 45) = true then
          some { content := t.dropLast, trim := true, consumed := e + 2 }
        else some { content := t, trim := false, consumed := e + 2 }) := by
  have h1 : (x :: t).getLast? = t.getLast? := by
    cases t with
    | nil => exact absurd rfl htne
    | cons y t' => simp [List.getLast?_cons_cons]
  have h2 : (x :: t).dropLast = x :: t.dropLast := by
    cases t with
    | nil => exact absurd rfl htne
    | cons y t' => simp
  rw [h1, h2]
  have : decide (e + 1 > 0) = true := by simp
  have h3 : decide (e > 0) = true := by simpa using he
  rw [this, h3]
  split <;> simp [consTE]

theorem tagEndOpt_eq_spec (k : TagKind) (rest : Bytes) : tagEndOpt k rest = tagEndSpec k rest := by
  induction rest with
  | nil => simp [tagEndOpt, tagEndSpec, findCloser]
  | cons x r ih =>
    rw [tagEndSpec, ← ih]
    simp only [tagEndOpt, findCloser_eq_indexOf]
    by_cases hp : List.isPrefixOf [closerOf k, 125] (x :: r) = true
    · rw [indexOf_cons_of_prefix hp, if_pos hp]; simp
    · simp only [Bool.not_eq_true] at hp
      rw [hp, indexOf_cons_of_not_prefix hp]
      simp only [Bool.false_eq_true, if_false]
      by_cases hd : (k != .comment && List.isPrefixOf [45, closerOf k, 125] (x :: r)) = true
      · rw [if_pos hd]
        simp only [Bool.and_eq_true] at hd
        have hr : List.isPrefixOf [closerOf k, 125] r = true := by
          have := hd.2
          simp only [List.isPrefixOf_cons_cons, Bool.and_eq_true] at this; exact this.2
        have hx : x = 45 := by
          have := hd.2
          simp only [List.isPrefixOf_cons_cons, Bool.and_eq_true, beq_iff_eq] at this; exact this.1.symm
        have hi : indexOf [closerOf k, 125] r = some 0 := by
          cases r with
          | nil => simp [List.isPrefixOf] at hr
          | cons y r' => exact indexOf_cons_of_prefix hr
        rw [hi]; subst hx; simp [hd.1]
      · rw [if_neg hd]
        cases hi : indexOf [closerOf k, 125] r with
        | none => simp
        | some e =>
          simp only [Option.map_some, List.take_succ_cons]
          rcases Nat.eq_zero_or_pos e with he | he
          · subst he
            have hr := indexOf_eq_zero hi
            have : ¬ ((k != .comment) = true ∧ x = 45) := by
              intro ⟨h1, h2⟩
              apply hd; subst h2
              simp [h1] ; simpa [List.isPrefixOf_cons_cons] using hr
            simp only [List.take_zero, List.getLast?_singleton]
            by_cases hk : (k != .comment) = true
            · have hx : x ≠ 45 := fun h => this ⟨hk, h⟩
              simp [hk, hx, consTE]
            · simp [hk, consTE]
          · have hne : r ≠ [] := indexOf_pos_ne_nil hi he
            have htne : r.take e ≠ [] := by
              cases r with
              | nil => exact absurd rfl hne
              | cons y r' => cases e with
                | zero => omega
                | succ e' => simp
            exact tagEndOpt_step k x (r.take e) e htne he

/-! ## Fuel adequacy and the fuel-free unfolding of the scanning loop -/

theorem Opener.len_ge (o : Opener) : 2 ≤ o.len := by unfold Opener.len; split <;> omega

theorem scanWith_fuel (f : Bytes → Option (Nat × Opener)) (g : TagKind → Bytes → Option TagEnd) :
    ∀ (n m : Nat) (s : Bytes), s.length < n → s.length < m → scanWith f g n s = scanWith f g m s := by
  intro n
  induction n with
  | zero => intro m s h; omega
  | succ n ih =>
    intro m s hn hm
    cases m with
    | zero => omega
    | succ m =>
      cases s with
      | nil => rw [scanWith.eq_2 _ _ _ (by omega), scanWith.eq_2 _ _ _ (by omega)]
      | cons c r =>
        rw [scanWith.eq_3 _ _ _ _ (by simp), scanWith.eq_3 _ _ _ _ (by simp)]
        cases f (c :: r) with
        | none => rfl
        | some io =>
          obtain ⟨i, o⟩ := io
          have hlen := o.len_ge
          simp only [List.length_cons] at hn hm
          have h1 : (List.drop (i + o.len) (c :: r)).length < n := by
            simp only [List.length_drop, List.length_cons]; omega
          have h1' : (List.drop (i + o.len) (c :: r)).length < m := by
            simp only [List.length_drop, List.length_cons]; omega
          simp only []
          rw [ih m _ h1 h1']
          split
          · rfl
          · cases g o.kind (List.drop (i + o.len) (c :: r)) with
            | none => rfl
            | some te =>
              have h2 : (List.drop te.consumed (List.drop (i + o.len) (c :: r))).length < n := by
                simp only [List.length_drop, List.length_cons]; omega
              have h2' : (List.drop te.consumed (List.drop (i + o.len) (c :: r))).length < m := by
                simp only [List.length_drop, List.length_cons]; omega
              simp only []
              rw [ih m _ h2 h2']

/-- the scanning loop with adequate fuel -/
def scanF (f : Bytes → Option (Nat × Opener)) (g : TagKind → Bytes → Option TagEnd) (s : Bytes) :
    Except ScanErr (List Token) := scanWith f g (s.length + 1) s

theorem scanWith_eq_scanF (f : Bytes → Option (Nat × Opener)) (g : TagKind → Bytes → Option TagEnd)
    (n : Nat) (s : Bytes) (h : s.length < n) : scanWith f g n s = scanF f g s :=
  scanWith_fuel f g n (s.length + 1) s h (by omega)

theorem scanHtml_eq_scanF (s : Bytes) : scanHtml s = scanF findOpenerHtml tagEndHtml s := rfl
theorem scanOpt_eq_scanF (s : Bytes) : scanOpt s = scanF findOpenerOpt tagEndOpt s := rfl

/-- `Except.map`, spelled as the `match` used in `scanWith` -/
def mapOk (F : List Token → List Token) (x : Except ScanErr (List Token)) : Except ScanErr (List Token) :=
  match x with
  | .ok ts => .ok (F ts)
  | .error e => .error e

@[simp] theorem mapOk_ok (F : List Token → List Token) (ts : List Token) : mapOk F (.ok ts) = .ok (F ts) := rfl
@[simp] theorem mapOk_error (F : List Token → List Token) (e : ScanErr) : mapOk F (.error e) = .error e := rfl
theorem mapOk_mapOk (F G : List Token → List Token) (x : Except ScanErr (List Token)) :
    mapOk F (mapOk G x) = mapOk (F ∘ G) x := by cases x <;> rfl

/-- text token for a chunk, omitted when the chunk is empty -/
def textTok (l : Bytes) : List Token := if l.length > 0 then [tk TEXT l] else []

theorem esc_false {s : Bytes} {i : Nat} (hb : ¬ (i > 0 ∧ (s.drop (i - 1)).head? = some 92)) :
    (decide (i > 0) && (s.drop (i - 1)).head? == some 92) = false := by
  by_cases h0 : i > 0
  · have hne : (s.drop (i - 1)).head? ≠ some 92 := fun h1 => hb ⟨h0, h1⟩
    rw [Bool.and_eq_false_iff]; right; exact beq_eq_false_iff_ne.mpr hne
  · rw [Bool.and_eq_false_iff]; left; simpa using h0

section unfold
variable (f : Bytes → Option (Nat × Opener)) (g : TagKind → Bytes → Option TagEnd)

theorem scanF_nil : scanF f g [] = .ok [tk EOF] := rfl

theorem scanF_none {s : Bytes} (hs : s ≠ []) (h : f s = none) : scanF f g s = .ok [tk TEXT s, tk EOF] := by
  rw [scanF, scanWith.eq_3 _ _ _ _ hs, h]

theorem scanF_esc {s : Bytes} {i : Nat} {o : Opener} (hs : s ≠ []) (h : f s = some (i, o))
    (hi : i > 0) (hb : (s.drop (i - 1)).head? = some 92) :
    scanF f g s = mapOk (fun ts => textTok (s.take (i - 1)) ++ tk TEXT o.text :: ts)
      (scanF f g (s.drop (i + o.len))) := by
  have hlen := o.len_ge
  have hpos : 0 < s.length := List.length_pos_iff.mpr hs
  have hl : (s.drop (i + o.len)).length < s.length := by
    simp only [List.length_drop]; omega
  rw [scanF, scanWith.eq_3 _ _ _ _ hs, h]
  simp only [hi, hb, decide_true, Bool.true_and, beq_self_eq_true, if_true]
  rw [scanWith_eq_scanF f g _ _ hl]
  have : textTok (s.take (i - 1)) = if i - 1 > 0 then [tk TEXT (s.take (i - 1))] else [] := by
    unfold textTok
    by_cases h0 : i - 1 > 0
    · have : (List.take (i - 1) s).length > 0 := by simp only [List.length_take]; omega
      rw [if_pos h0, if_pos this]
    · have : i - 1 = 0 := by omega
      simp [this]
  rw [this]; rfl

theorem scanF_tag_none {s : Bytes} {i : Nat} {o : Opener} (hs : s ≠ []) (h : f s = some (i, o))
    (hb : ¬ (i > 0 ∧ (s.drop (i - 1)).head? = some 92))
    (hg : g o.kind (s.drop (i + o.len)) = none) :
    scanF f g s = .error (errOf o.kind) := by
  rw [scanF, scanWith.eq_3 _ _ _ _ hs, h]
  have := esc_false hb
  simp only [this, Bool.false_eq_true, if_false, hg]

theorem scanF_tag {s : Bytes} {i : Nat} {o : Opener} {te : TagEnd} (hs : s ≠ []) (h : f s = some (i, o))
    (hi : i ≤ s.length)
    (hb : ¬ (i > 0 ∧ (s.drop (i - 1)).head? = some 92))
    (hg : g o.kind (s.drop (i + o.len)) = some te) :
    scanF f g s = mapOk (fun ts => textTok (s.take i) ++ tk o.startKind ::
        contentTokens o.kind te.content ++ tk (endKind o.kind te.trim) :: ts)
      (scanF f g ((s.drop (i + o.len)).drop te.consumed)) := by
  have hlen := o.len_ge
  have hpos : 0 < s.length := List.length_pos_iff.mpr hs
  have hl : ((s.drop (i + o.len)).drop te.consumed).length < s.length := by
    simp only [List.length_drop]; omega
  rw [scanF, scanWith.eq_3 _ _ _ _ hs, h]
  have := esc_false hb
  simp only [this, Bool.false_eq_true, if_false, hg]
  rw [scanWith_eq_scanF f g _ _ hl]
  have : textTok (s.take i) = if i > 0 then [tk TEXT (s.take i)] else [] := by
    unfold textTok
    by_cases h0 : i > 0
    · have : (List.take i s).length > 0 := by simp only [List.length_take]; omega
      rw [if_pos h0, if_pos this]
    · have : i = 0 := by omega
      simp [this]
  rw [this]; rfl

end unfold


/-! ## Literal text: `NoOpener`, `Lit` -/

def isOpen2 (y : UInt8) : Bool := y == 123 || y == 37 || y == 35

/-- an opener starts at the byte `a` followed by `r` -/
def opens (a : UInt8) (r : Bytes) : Bool := a == 123 && r.head?.any isOpen2

theorem fo_not_opens {a : UInt8} {r : Bytes} (h : opens a r = false) :
    findOpenerOpt (a :: r) = (findOpenerOpt r).map shiftPos := by
  rw [findOpenerOpt.eq_4 a r, findOpenerOpt_shift_eq]
  all_goals (intro r1 ha hr; subst ha; subst hr; simp [opens, isOpen2] at h)

theorem fo_opens {a : UInt8} {r : Bytes} (h : opens a r = true) : ∃ o, findOpenerOpt (a :: r) = some (0, o) := by
  cases r with
  | nil => simp [opens] at h
  | cons y r' =>
    simp only [opens, List.head?_cons, Option.any_some, Bool.and_eq_true, beq_iff_eq, isOpen2,
      Bool.or_eq_true] at h
    obtain ⟨ha, hy⟩ := h
    subst ha
    rcases hy with (hy | hy) | hy <;> subst hy <;> rw [findOpenerOpt] <;> exact ⟨_, rfl⟩

/-- no tag opener (`{{`, `{%`, `{#`) anywhere in `s` -/
def NoOpener (s : Bytes) : Prop := findOpenerOpt s = none
instance (s : Bytes) : Decidable (NoOpener s) := by unfold NoOpener; infer_instance

/-- literal text chunk: no opener inside, does not end in `{` (which could fuse with what follows)
    and does not end in a backslash (which would escape a following opener). May be empty. -/
def Lit (l : Bytes) : Prop := NoOpener l ∧ l.getLast? ≠ some 123 ∧ l.getLast? ≠ some 92
instance (l : Bytes) : Decidable (Lit l) := by unfold Lit; infer_instance

theorem noOpener_cons {a : UInt8} {t : Bytes} (h : NoOpener (a :: t)) : opens a t = false ∧ NoOpener t := by
  have hno : opens a t = false := by
    cases ho : opens a t with
    | false => rfl
    | true => obtain ⟨o, h'⟩ := fo_opens ho; rw [NoOpener, h'] at h; cases h
  refine ⟨hno, ?_⟩
  rw [NoOpener, fo_not_opens hno] at h
  cases h' : findOpenerOpt t <;> simp_all [NoOpener]

theorem noOpener_cons_iff {a : UInt8} {t : Bytes} : NoOpener (a :: t) ↔ opens a t = false ∧ NoOpener t := by
  refine ⟨noOpener_cons, fun ⟨h1, h2⟩ => ?_⟩
  rw [NoOpener, fo_not_opens h1, h2]; rfl

theorem fo_append {l : Bytes} (h1 : NoOpener l) (h2 : l.getLast? ≠ some 123) (s : Bytes) :
    findOpenerOpt (l ++ s) = (findOpenerOpt s).map (fun x => (x.1 + l.length, x.2)) := by
  induction l with
  | nil =>
    simp only [List.nil_append, List.length_nil, Nat.add_zero]
    cases findOpenerOpt s <;> rfl
  | cons a t ih =>
    obtain ⟨hno, hnt⟩ := noOpener_cons h1
    have hno' : opens a (t ++ s) = false := by
      cases t with
      | nil =>
        have : a ≠ 123 := by simpa using h2
        simp [opens, this]
      | cons c t' => simpa [opens] using hno
    have hl : t.getLast? ≠ some 123 := by
      cases t with
      | nil => simp
      | cons c t' => simpa [List.getLast?_cons_cons] using h2
    rw [List.cons_append, fo_not_opens hno', ih hnt hl]
    cases findOpenerOpt s <;> simp [shiftPos]; omega

theorem fo_bound {s : Bytes} {i : Nat} {o : Opener} (h : findOpenerOpt s = some (i, o)) : i + 2 ≤ s.length := by
  induction s generalizing i o with
  | nil => simp [findOpenerOpt] at h
  | cons a t ih =>
    cases ho : opens a t with
    | true =>
      obtain ⟨o', h'⟩ := fo_opens ho
      rw [h'] at h; cases h
      cases t with
      | nil => simp [opens] at ho
      | cons c t' => simp
    | false =>
      rw [fo_not_opens ho] at h
      cases h' : findOpenerOpt t with
      | none => simp [h'] at h
      | some io =>
        obtain ⟨j, o'⟩ := io
        simp [h', shiftPos] at h
        have := ih h'
        simp only [List.length_cons]; omega

/-- `NoOpener` says: no position holds `{` followed by `{`, `%` or `#`. -/
theorem noOpener_iff (s : List UInt8) :
    NoOpener s ↔ ∀ i : Nat, ¬ (s[i]? = some (123 : UInt8) ∧
      (s[i+1]? = some (123 : UInt8) ∨ s[i+1]? = some (37 : UInt8) ∨ s[i+1]? = some (35 : UInt8))) := by
  induction s with
  | nil => simp [NoOpener, findOpenerOpt]
  | cons a t ih =>
    rw [noOpener_cons_iff, ih]
    constructor
    · intro ⟨h1, h2⟩ i
      cases i with
      | zero =>
        intro ⟨ha, hy⟩
        simp only [List.getElem?_cons_zero, Option.some.injEq] at ha
        subst ha
        cases t with
        | nil => simp at hy
        | cons y t' =>
          simp only [opens, isOpen2, List.head?_cons, Option.any_some, beq_self_eq_true, Bool.true_and,
            Bool.or_eq_false_iff, beq_eq_false_iff_ne, ne_eq] at h1
          simp only [Nat.zero_add, List.getElem?_cons_succ, List.getElem?_cons_zero, Option.some.injEq] at hy
          rcases hy with hy | hy | hy <;> simp_all
      | succ j => simpa using h2 j
    · intro h
      refine ⟨?_, fun i => by simpa using h (i + 1)⟩
      have h0 := h 0
      cases t with
      | nil => simp [opens]
      | cons y t' =>
        simp only [List.getElem?_cons_zero, Option.some.injEq, Nat.zero_add, List.getElem?_cons_succ,
          not_and, not_or] at h0
        by_cases ha : a = 123
        · have := h0 ha
          simp [opens, isOpen2, ha, this]
        · simp [opens, ha]


/-! ## Tags -/

def dashIf (d : Bool) : Bytes := if d then [45] else []

/-- a tag as written in a template: opener (with or without dash), body, closer (with or without dash) -/
structure Tag where
  kind : TagKind
  otrim : Bool
  body : Bytes
  ctrim : Bool
deriving DecidableEq, Repr

def Tag.opener (t : Tag) : Opener := ⟨t.kind, t.otrim⟩
def Tag.closer (t : Tag) : Bytes := dashIf t.ctrim ++ [closerOf t.kind, 125]
def Tag.text (t : Tag) : Bytes := t.opener.text ++ t.body ++ t.closer
/-- the tokens a tag contributes -/
def Tag.tokens (t : Tag) : List Token :=
  tk t.opener.startKind :: contentTokens t.kind t.body ++ [tk (endKind t.kind t.ctrim)]

/-- Well-formed tag:
    * comments carry no dash flags (a dash next to `{#`/`#}` is part of the comment body);
    * the closer does not occur before its place (body free of the closer, and not ending in the closer's
      first byte so that no earlier closer is formed across the boundary);
    * an undashed var/block closer is not preceded by a `-` (that would *be* the dashed closer);
    * an undashed var/block opener is not followed by a `-` (that would be the dashed opener). -/
def WfTag (t : Tag) : Prop :=
  (t.kind = .comment → t.otrim = false ∧ t.ctrim = false) ∧
  indexOf [closerOf t.kind, 125] (t.body ++ dashIf t.ctrim ++ [closerOf t.kind]) = none ∧
  (t.kind ≠ .comment → t.ctrim = false → t.body.getLast? ≠ some 45) ∧
  (t.kind ≠ .comment → t.otrim = false → (t.body ++ dashIf t.ctrim).head? ≠ some 45)
instance (t : Tag) : Decidable (WfTag t) := by unfold WfTag; infer_instance

theorem Opener.text_length (o : Opener) (hc : o.kind = .comment → o.trim = false) : o.text.length = o.len := by
  rcases o with ⟨k, t⟩
  cases k <;> cases t <;> simp_all [Opener.text_eq, Opener.dashed, Opener.len]

theorem Opener.text_ne_nil (o : Opener) : o.text ≠ [] := by rw [Opener.text_eq]; simp

theorem fo_opener_text (o : Opener) (rest : Bytes) (hc : o.kind = .comment → o.trim = false)
    (hd : o.kind ≠ .comment → o.trim = false → rest.head? ≠ some 45) :
    findOpenerOpt (o.text ++ rest) = some (0, o) := by
  rcases o with ⟨k, t⟩
  rw [Opener.text_eq]
  cases k <;> cases t <;> simp_all [openCh, Opener.dashed, findOpenerOpt]

theorem indexOf_two (c d : UInt8) (A rest : Bytes) (h : indexOf [c, d] (A ++ [c]) = none) :
    indexOf [c, d] (A ++ c :: d :: rest) = some A.length := by
  induction A with
  | nil => exact indexOf_cons_of_prefix (by simp [List.isPrefixOf])
  | cons x A' ih =>
    have hnp : List.isPrefixOf [c, d] (x :: (A' ++ [c])) = false := by
      cases hp : List.isPrefixOf [c, d] (x :: (A' ++ [c])) with
      | false => rfl
      | true => rw [List.cons_append, indexOf_cons_of_prefix hp] at h; cases h
    rw [List.cons_append, indexOf_cons_of_not_prefix hnp] at h
    have h' : indexOf [c, d] (A' ++ [c]) = none := by
      cases hi : indexOf [c, d] (A' ++ [c]) <;> simp_all
    have hnp' : List.isPrefixOf [c, d] (x :: (A' ++ c :: d :: rest)) = false := by
      cases A' with
      | nil => simpa [List.isPrefixOf] using hnp
      | cons y A'' => simpa [List.isPrefixOf] using hnp
    rw [List.cons_append, indexOf_cons_of_not_prefix hnp', ih h']; simp

theorem tagEndOpt_body {t : Tag} (ht : WfTag t) (rest : Bytes) :
    tagEndOpt t.kind (t.body ++ t.closer ++ rest) = some ⟨t.body, t.ctrim, (t.body ++ t.closer).length⟩ := by
  obtain ⟨h1, h2, h3, h4⟩ := ht
  have hre : t.body ++ t.closer ++ rest = (t.body ++ dashIf t.ctrim) ++ closerOf t.kind :: 125 :: rest := by
    simp [Tag.closer]
  have hi := indexOf_two (closerOf t.kind) 125 (t.body ++ dashIf t.ctrim) rest h2
  unfold tagEndOpt
  rw [findCloser_eq_indexOf, hre, hi]
  simp only [List.take_left']
  cases hct : t.ctrim with
  | true =>
    have hk : t.kind ≠ .comment := by
      intro hk; have := (h1 hk).2; simp_all
    have hkb : (t.kind != .comment) = true := by simpa using hk
    simp [dashIf, hkb, Tag.closer, hct]
  | false =>
    simp only [dashIf, Bool.false_eq_true, if_false, List.append_nil]
    by_cases hk : t.kind = .comment
    · simp [hk, Tag.closer, dashIf, hct]
    · have := h3 hk hct
      have hkb : (t.kind != .comment) = true := by simpa using hk
      simp [hkb, this, Tag.closer, dashIf, hct]

theorem head_drop_pred (l X : Bytes) (hl : l ≠ []) : (List.drop (l.length - 1) (l ++ X)).head? = l.getLast? := by
  rcases List.eq_nil_or_concat l with rfl | ⟨init, z, rfl⟩
  · exact absurd rfl hl
  · simp

theorem Tag.text_ne_nil (t : Tag) : t.text ≠ [] := by
  unfold Tag.text; rw [Opener.text_eq]; simp

/-- how a tag is spelled, byte by byte -/
theorem Tag.text_eq (t : Tag) :
    t.text = 123 :: openCh t.kind :: (dashIf t.opener.dashed ++ t.body ++ dashIf t.ctrim ++ [closerOf t.kind, 125]) := by
  rw [Tag.text, Tag.closer, Opener.text_eq]
  cases t.opener.dashed <;> simp [Tag.opener, dashIf]

theorem scanOpt_step {l : Bytes} (hl : Lit l) {t : Tag} (ht : WfTag t) (rest : Bytes) :
    scanOpt (l ++ t.text ++ rest) = mapOk (fun ts => textTok l ++ t.tokens ++ ts) (scanOpt rest) := by
  obtain ⟨hl1, hl2, hl3⟩ := hl
  have hwf := ht
  obtain ⟨h1, h2, h3, h4⟩ := ht
  have hoc : t.opener.kind = .comment → t.opener.trim = false := fun hk => (h1 hk).1
  have hs : l ++ t.text ++ rest ≠ [] := by
    have := t.text_ne_nil
    simp [this]
  have hre : l ++ t.text ++ rest = l ++ (t.opener.text ++ (t.body ++ t.closer ++ rest)) := by
    simp [Tag.text]
  have hfo : findOpenerOpt (l ++ t.text ++ rest) = some (l.length, t.opener) := by
    rw [hre, fo_append hl1 hl2, fo_opener_text _ _ hoc]
    · simp
    · intro hk ho
      have hk' : t.kind ≠ .comment := hk
      have := h4 hk' ho
      cases hb : t.body with
      | nil =>
        cases hc : t.ctrim with
        | true => simp [hb, hc, dashIf] at this
        | false =>
          have := closerOf_ne_dash hk'
          simp [Tag.closer, dashIf, hc, this]
      | cons y b' => simpa [hb] using this
  have hi : l.length ≤ (l ++ t.text ++ rest).length := by simp
  have hb : ¬ (l.length > 0 ∧ (List.drop (l.length - 1) (l ++ t.text ++ rest)).head? = some 92) := by
    intro ⟨hpos, hh⟩
    have hne : l ≠ [] := List.length_pos_iff.mp hpos
    rw [List.append_assoc, head_drop_pred l _ hne] at hh
    exact hl3 hh
  have hdrop : List.drop (l.length + t.opener.len) (l ++ t.text ++ rest) = t.body ++ t.closer ++ rest := by
    rw [hre, ← Opener.text_length _ hoc, List.drop_append, List.drop_of_length_le (by omega)]
    simp
  have hg : tagEndOpt t.opener.kind (List.drop (l.length + t.opener.len) (l ++ t.text ++ rest)) =
      some ⟨t.body, t.ctrim, (t.body ++ t.closer).length⟩ := by
    rw [hdrop]; exact tagEndOpt_body hwf rest
  rw [scanOpt_eq_scanF, scanF_tag _ _ hs hfo hi hb hg, hdrop]
  have htake : List.take l.length (l ++ t.text ++ rest) = l := by rw [List.append_assoc, List.take_left' rfl]
  simp only [htake, List.drop_left']
  congr 1
  funext ts
  simp [Tag.tokens, Tag.opener]


/-! ## Text-only templates and literal padding -/

theorem scanOpt_nil : scanOpt [] = .ok [tk EOF] := rfl

theorem scanOpt_text_only {s : Bytes} (hs : s ≠ []) (h : NoOpener s) : scanOpt s = .ok [tk TEXT s, tk EOF] :=
  scanF_none _ _ hs h

/-- prepend `p` to the leading TEXT token, or add a TEXT token if the stream does not start with one -/
def extendHead (p : Bytes) (ts : List Token) : List Token :=
  match ts with
  | t :: r => if t.kind = TEXT then ⟨TEXT, p ++ t.val⟩ :: r else tk TEXT p :: t :: r
  | [] => [tk TEXT p]

/-- `s` starts with a backslash that escapes an opener at position 1 (`\{{`, `\{%`, `\{#`) -/
def EscStart (s : Bytes) : Prop := s.head? = some 92 ∧ (findOpenerOpt s).map Prod.fst = some 1
instance (s : Bytes) : Decidable (EscStart s) := by unfold EscStart; infer_instance

theorem drop_len_add (p s : Bytes) (n : Nat) : List.drop (n + p.length) (p ++ s) = List.drop n s := by
  induction p with
  | nil => simp
  | cons a t ih => simpa [← Nat.add_assoc] using ih

theorem take_len_add (p s : Bytes) (n : Nat) : List.take (n + p.length) (p ++ s) = p ++ List.take n s := by
  induction p with
  | nil => simp
  | cons a t ih => simpa [← Nat.add_assoc] using ih

theorem textTok_ne {l : Bytes} (h : l ≠ []) : textTok l = [tk TEXT l] := by
  have : l.length > 0 := List.length_pos_iff.mpr h
  simp [textTok, this]

theorem textTok_nil : textTok [] = [] := rfl

theorem Opener.startKind_ne_text (o : Opener) : o.startKind ≠ TEXT := by
  rcases o with ⟨k, t⟩; cases k <;> cases t <;> simp [Opener.startKind]

theorem scanOpt_pad {p : Bytes} (hp : Lit p) (hne : p ≠ []) (s : Bytes) (hs : ¬ EscStart s) :
    scanOpt (p ++ s) = mapOk (extendHead p) (scanOpt s) := by
  obtain ⟨hp1, hp2, hp3⟩ := hp
  by_cases hs0 : s = []
  · subst hs0
    rw [List.append_nil, scanOpt_text_only hne hp1, scanOpt_nil]; rfl
  have hps : p ++ s ≠ [] := by simp [hne]
  have hfa := fo_append hp1 hp2 s
  cases hf : findOpenerOpt s with
  | none =>
    rw [hf] at hfa
    rw [scanOpt_text_only hps hfa, scanOpt_text_only hs0 hf]; rfl
  | some io =>
    obtain ⟨i, o⟩ := io
    rw [hf] at hfa
    simp only [Option.map_some] at hfa
    have hib := fo_bound hf
    have hd1 : ∀ n, List.drop (i + p.length + n) (p ++ s) = List.drop (i + n) s := by
      intro n
      have : i + p.length + n = (i + n) + p.length := by omega
      rw [this, drop_len_add]
    by_cases hesc : i > 0 ∧ (s.drop (i - 1)).head? = some 92
    · -- escaped opener
      obtain ⟨hi0, hb⟩ := hesc
      have hi2 : i ≥ 2 := by
        rcases Nat.lt_or_ge i 2 with h | h
        · have : i = 1 := by omega
          subst this
          exfalso; apply hs
          refine ⟨by simpa using hb, by simp [hf]⟩
        · exact h
      have hb' : (List.drop (i + p.length - 1) (p ++ s)).head? = some 92 := by
        have : i + p.length - 1 = (i - 1) + p.length := by omega
        rw [this, drop_len_add]; exact hb
      have ht : List.take (i + p.length - 1) (p ++ s) = p ++ List.take (i - 1) s := by
        have : i + p.length - 1 = (i - 1) + p.length := by omega
        rw [this, take_len_add]
      have htne : List.take (i - 1) s ≠ [] := by
        intro h
        have := congrArg List.length h
        simp only [List.length_take, List.length_nil] at this
        omega
      rw [scanOpt_eq_scanF, scanOpt_eq_scanF, scanF_esc _ _ hps hfa (by omega) hb', scanF_esc _ _ hs0 hf hi0 hb,
        mapOk_mapOk, hd1, ht]
      congr 1
      funext ts
      have : p ++ List.take (i - 1) s ≠ [] := by simp [hne]
      simp [textTok_ne this, textTok_ne htne, extendHead, tk]
    · -- a real tag
      have hb' : ¬ (i + p.length > 0 ∧ (List.drop (i + p.length - 1) (p ++ s)).head? = some 92) := by
        intro ⟨_, hh⟩
        rcases Nat.eq_zero_or_pos i with h0 | h0
        · subst h0
          rw [Nat.zero_add, head_drop_pred p s hne] at hh
          exact hp3 hh
        · have : i + p.length - 1 = (i - 1) + p.length := by omega
          rw [this, drop_len_add] at hh
          exact hesc ⟨h0, hh⟩
      have ht : List.take (i + p.length) (p ++ s) = p ++ List.take i s := take_len_add p s i
      cases hg : tagEndOpt o.kind (List.drop (i + o.len) s) with
      | none =>
        have hg' : tagEndOpt o.kind (List.drop (i + p.length + o.len) (p ++ s)) = none := by rw [hd1]; exact hg
        rw [scanOpt_eq_scanF, scanOpt_eq_scanF, scanF_tag_none _ _ hps hfa hb' hg',
          scanF_tag_none _ _ hs0 hf hesc hg]; rfl
      | some te =>
        have hg' : tagEndOpt o.kind (List.drop (i + p.length + o.len) (p ++ s)) = some te := by rw [hd1]; exact hg
        rw [scanOpt_eq_scanF, scanOpt_eq_scanF,
          scanF_tag _ _ hps hfa (by simp only [List.length_append]; omega) hb' hg',
          scanF_tag _ _ hs0 hf (by omega) hesc hg, mapOk_mapOk, hd1, ht]
        congr 1
        funext ts
        have hpt : p ++ List.take i s ≠ [] := by simp [hne]
        rcases Nat.eq_zero_or_pos i with h0 | h0
        · subst h0
          have := o.startKind_ne_text
          simp [textTok_ne hne, textTok_nil, extendHead, tk, this]
        · have htne : List.take i s ≠ [] := by
            intro h
            have := congrArg List.length h
            simp only [List.length_take, List.length_nil] at this
            omega
          simp [textTok_ne hpt, textTok_ne htne, extendHead, tk]


/-! ## Whole templates as chunk/tag sequences -/

/-- a template spelled as `l₁ t₁ l₂ t₂ … lₙ tₙ last` -/
def spell : List (Bytes × Tag) → Bytes → Bytes
  | [], last => last
  | (l, t) :: ps, last => l ++ t.text ++ spell ps last

/-- the token stream such a template must produce -/
def expected : List (Bytes × Tag) → Bytes → List Token
  | [], last => textTok last ++ [tk EOF]
  | (l, t) :: ps, last => textTok l ++ t.tokens ++ expected ps last

theorem scanOpt_last {last : Bytes} (h : NoOpener last) : scanOpt last = .ok (textTok last ++ [tk EOF]) := by
  by_cases h0 : last = []
  · subst h0; rfl
  · rw [scanOpt_text_only h0 h, textTok_ne h0]; rfl

theorem scanOpt_chunks (ps : List (Bytes × Tag)) (last : Bytes)
    (h : ∀ lt ∈ ps, Lit lt.1 ∧ WfTag lt.2) (hlast : NoOpener last) :
    scanOpt (spell ps last) = .ok (expected ps last) := by
  induction ps with
  | nil => exact scanOpt_last hlast
  | cons lt ps ih =>
    obtain ⟨l, t⟩ := lt
    have h1 := h (l, t) (by simp)
    have h2 : ∀ lt ∈ ps, Lit lt.1 ∧ WfTag lt.2 := fun lt hm => h lt (by simp [hm])
    rw [spell, scanOpt_step h1.1 h1.2, ih h2]
    simp [expected]


/-- token kinds produced inside `{{ }}` / `{% %}`: NAME, NUMBER, STRING, OPERATOR, PUNCT -/
def ExprKind (k : Nat) : Prop := 7 ≤ k ∧ k ≤ 11
instance (k : Nat) : Decidable (ExprKind k) := by unfold ExprKind; infer_instance

theorem lexAux_kinds (fuel : Nat) (mode : LexMode) (esc : Bool) (s : Bytes) :
    ∀ t ∈ lexAux fuel mode esc s, ExprKind t.kind := by
  fun_induction lexAux fuel mode esc s <;> simp_all [tk, ExprKind] <;> decide

theorem lexExpr_kinds (s : Bytes) : ∀ t ∈ lexExpr s, ExprKind t.kind := lexAux_kinds _ _ _ _

theorem exprKind_name : ExprKind NAME := by decide
theorem exprKind_string : ExprKind STRING := by decide
theorem exprKind_punct : ExprKind PUNCT := by decide
theorem exprKind_operator : ExprKind OPERATOR := by decide

theorem tokenizeTemplatePath_kinds (p : Bytes) : ∀ t ∈ tokenizeTemplatePath p, ExprKind t.kind := by
  intro t ht
  unfold tokenizeTemplatePath at ht
  simp only at ht
  split at ht
  · split at ht
    · exact lexExpr_kinds _ t ht
    · simp only [List.mem_singleton] at ht; subst ht; exact exprKind_string
  · exact lexExpr_kinds _ t ht

theorem fromMacroTokens_kinds (m : Bytes) : ∀ t ∈ fromMacroTokens m, ExprKind t.kind := by
  intro t ht
  unfold fromMacroTokens at ht
  simp only at ht
  split at ht
  · simp only [List.mem_cons, List.not_mem_nil, or_false] at ht
    rcases ht with h | h | h <;> subst h <;> exact exprKind_name
  · simp only [List.mem_singleton] at ht; subst ht; exact exprKind_name

theorem intersperseComma_kinds (xs : List (List Token)) (h : ∀ x ∈ xs, ∀ t ∈ x, ExprKind t.kind) :
    ∀ t ∈ intersperseComma xs, ExprKind t.kind := by
  induction xs with
  | nil => intro t ht; simp [intersperseComma] at ht
  | cons x r ih =>
    cases r with
    | nil => intro t ht; simp only [intersperseComma] at ht; exact h x (by simp) t ht
    | cons y r' =>
      intro t ht
      simp only [intersperseComma, List.mem_append, List.mem_cons] at ht
      rcases ht with ht | ht | ht
      · exact h x (by simp) t ht
      · subst ht; exact exprKind_punct
      · exact ih (fun z hz => h z (by simp [hz])) t ht

/-- all tokens of a list have expression kinds -/
def AllK (ts : List Token) : Prop := ∀ t ∈ ts, ExprKind t.kind

theorem allK_nil : AllK [] := by intro t ht; cases ht
theorem allK_cons (a : Token) (r : List Token) : AllK (a :: r) ↔ ExprKind a.kind ∧ AllK r := by
  simp [AllK]
theorem allK_append (x y : List Token) : AllK (x ++ y) ↔ AllK x ∧ AllK y := by
  simp only [AllK, List.mem_append]
  exact ⟨fun h => ⟨fun t ht => h t (Or.inl ht), fun t ht => h t (Or.inr ht)⟩,
    fun ⟨h1, h2⟩ t ht => ht.elim (h1 t) (h2 t)⟩
theorem allK_lexExpr (s : Bytes) : AllK (lexExpr s) := lexExpr_kinds s
theorem allK_path (s : Bytes) : AllK (tokenizeTemplatePath s) := tokenizeTemplatePath_kinds s
theorem allK_macros (s : Bytes) : AllK (intersperseComma ((splitComma s).map fromMacroTokens)) := by
  refine intersperseComma_kinds _ ?_
  intro x hx
  simp only [List.mem_map] at hx
  obtain ⟨m, _, rfl⟩ := hx
  exact fromMacroTokens_kinds m
theorem exprKind_tk_name (v : Bytes) : ExprKind (tk NAME v).kind := exprKind_name
theorem exprKind_tk_punct (v : Bytes) : ExprKind (tk PUNCT v).kind := exprKind_punct
theorem exprKind_tk_operator (v : Bytes) : ExprKind (tk OPERATOR v).kind := exprKind_operator

theorem processBlockTag_allK (c : Bytes) : AllK (processBlockTag c) := by
  unfold processBlockTag
  simp only
  repeat' split
  all_goals
    simp only [allK_cons, allK_append, allK_nil, allK_lexExpr, allK_path, allK_macros, exprKind_tk_name,
      exprKind_tk_punct, exprKind_tk_operator, and_self]

theorem processBlockTag_kinds (c : Bytes) : ∀ t ∈ processBlockTag c, ExprKind t.kind :=
  processBlockTag_allK c

theorem contentTokens_kinds {k : TagKind} (hk : k ≠ .comment) (body : Bytes) :
    ∀ t ∈ contentTokens k body, ExprKind t.kind := by
  intro t ht
  cases k with
  | comment => exact absurd rfl hk
  | var =>
    simp only [contentTokens] at ht
    split at ht
    · simp at ht
    · exact lexExpr_kinds _ t ht
  | block => exact processBlockTag_kinds _ t ht


/-! ## Whitespace trimming -/

theorem dropWhileEnd_cons (p : UInt8 → Bool) (c : UInt8) (r : Bytes) :
    dropWhileEnd p (c :: r) = if (dropWhileEnd p r).isEmpty && p c then [] else c :: dropWhileEnd p r := by
  unfold dropWhileEnd
  rw [List.reverse_cons, List.dropWhile_append]
  by_cases h : (List.dropWhile p r.reverse).isEmpty = true
  · have h' : List.dropWhile p r.reverse = [] := List.isEmpty_iff.mp h
    rw [if_pos h, h']
    by_cases hc : p c = true <;> simp [hc]
  · have h' : List.dropWhile p r.reverse ≠ [] := fun e => h (List.isEmpty_iff.mpr e)
    rw [if_neg h]
    simp [h']

theorem dropWhileEnd_nil (p : UInt8 → Bool) : dropWhileEnd p [] = [] := rfl

theorem trimLeadWs_cons (c : UInt8) (r : Bytes) : trimLeadWs (c :: r) = if isWs c then trimLeadWs r else c :: r := by
  unfold trimLeadWs; rw [List.dropWhile_cons]

theorem trimTrailWs_cons (c : UInt8) (r : Bytes) :
    trimTrailWs (c :: r) = if (trimTrailWs r).isEmpty && isWs c then [] else c :: trimTrailWs r :=
  dropWhileEnd_cons isWs c r

theorem trimLeadWs_nil : trimLeadWs [] = [] := rfl
theorem trimTrailWs_nil : trimTrailWs [] = [] := rfl

/-- leading trim: `s = (maximal whitespace run) ++ trimLeadWs s` -/
theorem trimLeadWs_decomp (s : Bytes) : s = s.takeWhile isWs ++ trimLeadWs s :=
  (List.takeWhile_append_dropWhile (p := isWs) (l := s)).symm

theorem takeWhile_all (p : UInt8 → Bool) (s : Bytes) : ∀ c ∈ s.takeWhile p, p c = true := by
  induction s with
  | nil => intro c hc; simp at hc
  | cons a t ih =>
    intro c hc
    rw [List.takeWhile_cons] at hc
    by_cases ha : p a = true
    · rw [if_pos ha] at hc
      rcases List.mem_cons.mp hc with h | h
      · subst h; exact ha
      · exact ih c h
    · rw [if_neg ha] at hc; cases hc

theorem trimLeadWs_head (s : Bytes) : ∀ c, (trimLeadWs s).head? = some c → isWs c = false := by
  intro c hc
  induction s with
  | nil => simp [trimLeadWs] at hc
  | cons a t ih =>
    rw [trimLeadWs_cons] at hc
    by_cases ha : isWs a = true
    · rw [if_pos ha] at hc; exact ih hc
    · rw [if_neg ha] at hc
      simp only [List.head?_cons, Option.some.injEq] at hc
      subst hc; simpa using ha

/-- uniqueness: any split into a whitespace run and a rest that does not start with whitespace is *the* split -/
theorem trimLeadWs_unique (w t : Bytes) (hw : ∀ c ∈ w, isWs c = true) (ht : ∀ c, t.head? = some c → isWs c = false) :
    trimLeadWs (w ++ t) = t := by
  induction w with
  | nil =>
    cases t with
    | nil => rfl
    | cons a t' =>
      have := ht a rfl
      simp [trimLeadWs_cons, this]
  | cons a w' ih =>
    have ha := hw a (by simp)
    rw [List.cons_append, trimLeadWs_cons, if_pos ha]
    exact ih (fun c hc => hw c (by simp [hc]))

theorem trimTrailWs_eq (s : Bytes) : trimTrailWs s = (s.reverse.dropWhile isWs).reverse := rfl

/-- trailing trim: `s = trimTrailWs s ++ (maximal whitespace run)` -/
theorem trimTrailWs_decomp (s : Bytes) : s = trimTrailWs s ++ (s.reverse.takeWhile isWs).reverse := by
  have := congrArg List.reverse (List.takeWhile_append_dropWhile (p := isWs) (l := s.reverse))
  rw [List.reverse_append, List.reverse_reverse] at this
  exact this.symm

theorem trimTrailWs_last (s : Bytes) : ∀ c, (trimTrailWs s).getLast? = some c → isWs c = false := by
  intro c hc
  rw [trimTrailWs_eq, List.getLast?_reverse] at hc
  have := trimLeadWs_head s.reverse c hc
  exact this

theorem trimTrailWs_unique (t w : Bytes) (hw : ∀ c ∈ w, isWs c = true) (ht : ∀ c, t.getLast? = some c → isWs c = false) :
    trimTrailWs (t ++ w) = t := by
  rw [trimTrailWs_eq, List.reverse_append]
  have := trimLeadWs_unique w.reverse t.reverse (fun c hc => hw c (by simpa using hc))
    (fun c hc => ht c (by simpa [List.head?_reverse] using hc))
  unfold trimLeadWs at this
  rw [this, List.reverse_reverse]

theorem trimLeadWs_idem (s : Bytes) : trimLeadWs (trimLeadWs s) = trimLeadWs s := by
  have := trimLeadWs_unique [] (trimLeadWs s) (by simp) (trimLeadWs_head s)
  simpa using this

theorem trimTrailWs_idem (s : Bytes) : trimTrailWs (trimTrailWs s) = trimTrailWs s := by
  have := trimTrailWs_unique (trimTrailWs s) [] (by simp) (trimTrailWs_last s)
  simpa using this

theorem trim_comm (s : Bytes) : trimLeadWs (trimTrailWs s) = trimTrailWs (trimLeadWs s) := by
  induction s with
  | nil => rfl
  | cons c r ih =>
    by_cases hc : isWs c = true
    · rw [trimLeadWs_cons, if_pos hc, trimTrailWs_cons, hc, Bool.and_true]
      by_cases he : (trimTrailWs r).isEmpty = true
      · rw [if_pos he]
        have h' : trimTrailWs r = [] := List.isEmpty_iff.mp he
        rw [← ih, h']
      · rw [if_neg he, trimLeadWs_cons, if_pos hc, ih]
    · rw [trimLeadWs_cons, if_neg hc, trimTrailWs_cons]
      have : isWs c = false := by simpa using hc
      rw [this, Bool.and_false, if_neg (by simp), trimLeadWs_cons, if_neg hc]


/-! ## `applyWs` -/

def ltIf (c : Bool) (s : Bytes) : Bytes := if c then trimLeadWs s else s
def rtIf (c : Bool) (s : Bytes) : Bytes := if c then trimTrailWs s else s

/-- is the first token of `r` a trimming opener? -/
def nextTrim (r : List Token) : Bool :=
  match r with
  | n :: _ => isStartTrim n.kind
  | [] => false

theorem applyWsAux_text (tn : Bool) (t : Token) (r : List Token) (h : t.kind = TEXT) :
    applyWsAux tn (t :: r) = ⟨TEXT, rtIf (nextTrim r) (ltIf tn t.val)⟩ :: applyWsAux false r := by
  cases r with
  | nil => simp [applyWsAux, h, rtIf, ltIf, nextTrim]
  | cons n r' =>
    rw [applyWsAux]
    have : (t.kind == TEXT) = true := by simp [h]
    rw [if_pos this]
    cases hs : isStartTrim n.kind <;> cases tn <;> simp [rtIf, ltIf, nextTrim, hs]

theorem applyWsAux_other (tn : Bool) (t : Token) (r : List Token) (h : t.kind ≠ TEXT) :
    applyWsAux tn (t :: r) = t :: applyWsAux (isEndTrim t.kind) r := by
  simp [applyWsAux, h]

theorem applyWsAux_nil (tn : Bool) : applyWsAux tn [] = [] := rfl

theorem applyWsAux_length (tn : Bool) (ts : List Token) : (applyWsAux tn ts).length = ts.length := by
  induction ts generalizing tn with
  | nil => rfl
  | cons t r ih =>
    by_cases h : t.kind = TEXT
    · rw [applyWsAux_text _ _ _ h]; simp [ih]
    · rw [applyWsAux_other _ _ _ h]; simp [ih]

theorem applyWsAux_kinds (tn : Bool) (ts : List Token) :
    (applyWsAux tn ts).map (·.kind) = ts.map (·.kind) := by
  induction ts generalizing tn with
  | nil => rfl
  | cons t r ih =>
    by_cases h : t.kind = TEXT
    · rw [applyWsAux_text _ _ _ h]; simp [ih, h]
    · rw [applyWsAux_other _ _ _ h]; simp [ih]

theorem nextTrim_applyWsAux (tn : Bool) (r : List Token) : nextTrim (applyWsAux tn r) = nextTrim r := by
  cases r with
  | nil => rfl
  | cons t r' =>
    by_cases h : t.kind = TEXT
    · rw [applyWsAux_text _ _ _ h]; simp [nextTrim, h]
    · rw [applyWsAux_other _ _ _ h]; simp [nextTrim]

theorem trim_fix (a c : Bool) (v : Bytes) : rtIf c (ltIf a (rtIf c (ltIf a v))) = rtIf c (ltIf a v) := by
  cases a <;> cases c <;> simp only [rtIf, ltIf, if_true, if_false, Bool.false_eq_true]
  · exact trimTrailWs_idem v
  · exact trimLeadWs_idem v
  · rw [trim_comm, trimLeadWs_idem, trimTrailWs_idem]

theorem applyWsAux_idem (tn : Bool) (ts : List Token) : applyWsAux tn (applyWsAux tn ts) = applyWsAux tn ts := by
  induction ts generalizing tn with
  | nil => rfl
  | cons t r ih =>
    by_cases h : t.kind = TEXT
    · rw [applyWsAux_text _ _ _ h, applyWsAux_text _ _ _ rfl, nextTrim_applyWsAux, ih, trim_fix]
    · rw [applyWsAux_other _ _ _ h, applyWsAux_other _ _ _ h, ih]

/-- was the token before position `i` a trimming closer? (`tn` stands for "before position 0") -/
def prevTrim (tn : Bool) (ts : List Token) (i : Nat) : Bool :=
  match i with
  | 0 => tn
  | j + 1 => (ts[j]?).any fun t => isEndTrim t.kind

/-- is the token after position `i` a trimming opener? -/
def nextTrimAt (ts : List Token) (i : Nat) : Bool := (ts[i + 1]?).any fun t => isStartTrim t.kind

/-- what `applyWs` does to one token, given its two neighbours' verdicts -/
def wsTok (lead trail : Bool) (t : Token) : Token :=
  if t.kind = TEXT then ⟨TEXT, rtIf trail (ltIf lead t.val)⟩ else t

theorem isEndTrim_text : isEndTrim TEXT = false := by decide

theorem applyWsAux_getElem? (tn : Bool) (ts : List Token) (i : Nat) :
    (applyWsAux tn ts)[i]? = (ts[i]?).map (wsTok (prevTrim tn ts i) (nextTrimAt ts i)) := by
  induction ts generalizing tn i with
  | nil => simp [applyWsAux]
  | cons t r ih =>
    have hstep : ∀ j, (applyWsAux tn (t :: r))[j + 1]? = (applyWsAux (isEndTrim t.kind) r)[j]? := by
      intro j
      by_cases h : t.kind = TEXT
      · rw [applyWsAux_text _ _ _ h, h, isEndTrim_text]; simp
      · rw [applyWsAux_other _ _ _ h]; simp
    cases i with
    | zero =>
      have hn : nextTrimAt (t :: r) 0 = nextTrim r := by
        cases r <;> simp [nextTrimAt, nextTrim]
      by_cases h : t.kind = TEXT
      · rw [applyWsAux_text _ _ _ h]; simp [wsTok, h, prevTrim, hn]
      · rw [applyWsAux_other _ _ _ h]; simp [wsTok, h]
    | succ j =>
      rw [hstep, ih]
      have h1 : prevTrim (isEndTrim t.kind) r j = prevTrim tn (t :: r) (j + 1) := by
        cases j <;> simp [prevTrim]
      have h2 : nextTrimAt r j = nextTrimAt (t :: r) (j + 1) := by simp [nextTrimAt]
      rw [h1, h2]; simp


/-! ## Whitespace runs and `Lit` -/

theorem isWs_ne {c : UInt8} (h : isWs c = true) : c ≠ 123 ∧ c ≠ 92 := by
  simp only [isWs, Bool.or_eq_true, beq_iff_eq] at h
  rcases h with ((h | h) | h) | h <;> subst h <;> decide

theorem allWs_noOpener (w : Bytes) (hw : ∀ c ∈ w, isWs c = true) : NoOpener w := by
  induction w with
  | nil => rfl
  | cons a t ih =>
    rw [noOpener_cons_iff]
    refine ⟨?_, ih (fun c hc => hw c (by simp [hc]))⟩
    have := (isWs_ne (hw a (by simp))).1
    simp [opens, this]

theorem allWs_last (w : Bytes) (hw : ∀ c ∈ w, isWs c = true) : w.getLast? ≠ some 123 ∧ w.getLast? ≠ some 92 := by
  rcases List.eq_nil_or_concat w with rfl | ⟨init, z, rfl⟩
  · simp
  · have := isWs_ne (hw z (by simp))
    simp [this.1, this.2]

theorem getLast?_append_ne_nil (l l' : Bytes) (h : l' ≠ []) : (l ++ l').getLast? = l'.getLast? := by
  rw [List.getLast?_append]
  cases hl : l'.getLast? with
  | none => exact absurd (List.getLast?_eq_none_iff.mp hl) h
  | some x => rfl

theorem lit_ws_append {x w : Bytes} (hx : Lit x) (hw : ∀ c ∈ w, isWs c = true) : Lit (x ++ w) := by
  obtain ⟨h1, h2, h3⟩ := hx
  refine ⟨?_, ?_, ?_⟩
  · rw [NoOpener, fo_append h1 h2, allWs_noOpener w hw]; rfl
  · cases w with
    | nil => simpa using h2
    | cons a t => rw [getLast?_append_ne_nil _ _ (by simp)]; exact (allWs_last _ hw).1
  · cases w with
    | nil => simpa using h3
    | cons a t => rw [getLast?_append_ne_nil _ _ (by simp)]; exact (allWs_last _ hw).2

theorem noOpener_ws_prepend {x w : Bytes} (hx : NoOpener x) (hw : ∀ c ∈ w, isWs c = true) : NoOpener (w ++ x) := by
  have := allWs_last w hw
  rw [NoOpener, fo_append (allWs_noOpener w hw) this.1, hx]; rfl

theorem lit_ws_prepend {x w : Bytes} (hx : Lit x) (hw : ∀ c ∈ w, isWs c = true) : Lit (w ++ x) := by
  obtain ⟨h1, h2, h3⟩ := hx
  refine ⟨noOpener_ws_prepend h1 hw, ?_, ?_⟩
  · cases x with
    | nil => simpa using (allWs_last _ hw).1
    | cons a t => rw [getLast?_append_ne_nil _ _ (by simp)]; exact h2
  · cases x with
    | nil => simpa using (allWs_last _ hw).2
    | cons a t => rw [getLast?_append_ne_nil _ _ (by simp)]; exact h3

theorem lit_of_trimLead {l : Bytes} (h : Lit (trimLeadWs l)) : Lit l := by
  have := lit_ws_prepend h (takeWhile_all isWs l)
  rwa [← trimLeadWs_decomp] at this

theorem lit_of_trimTrail {l : Bytes} (h : Lit (trimTrailWs l)) : Lit l := by
  have := lit_ws_append h (w := (l.reverse.takeWhile isWs).reverse)
    (fun c hc => takeWhile_all isWs l.reverse c (by simpa using hc))
  rwa [← trimTrailWs_decomp] at this

theorem noOpener_of_trimLead {l : Bytes} (h : NoOpener (trimLeadWs l)) : NoOpener l := by
  have := noOpener_ws_prepend h (takeWhile_all isWs l)
  rwa [← trimLeadWs_decomp] at this

theorem lit_of_ltIf {c : Bool} {l : Bytes} (h : Lit (ltIf c l)) : Lit l := by
  cases c
  · exact h
  · exact lit_of_trimLead h

theorem lit_of_rtIf {c : Bool} {l : Bytes} (h : Lit (rtIf c l)) : Lit l := by
  cases c
  · exact h
  · exact lit_of_trimTrail h


/-! ## Removing dashes by hand (`undash`) and the token-level commutation -/

def Tag.plain (t : Tag) : Tag := { t with otrim := false, ctrim := false }
def Tag.opensTrim (t : Tag) : Bool := t.otrim && t.kind != .comment
def Tag.closesTrim (t : Tag) : Bool := t.ctrim && t.kind != .comment

/-- drop TEXT tokens with empty value (the parser turns them into text nodes that print nothing) -/
def dropEmptyText (ts : List Token) : List Token := ts.filter fun t => !(t.kind == TEXT && t.val.isEmpty)

/-- what the parser sees, up to empty TEXT tokens -/
def canon (ts : List Token) : List Token := dropEmptyText (normalise ts)

/-- the hand-trimmed, dash-free template: every chunk loses the whitespace run next to a dashed delimiter,
    every tag loses its dashes. `tn`: the chunk at the front is preceded by a dashed closer. -/
def undashPairs : Bool → List (Bytes × Tag) → List (Bytes × Tag)
  | _, [] => []
  | tn, (l, t) :: ps => (rtIf t.opensTrim (ltIf tn l), t.plain) :: undashPairs t.closesTrim ps

def lastFlag : Bool → List (Bytes × Tag) → Bool
  | tn, [] => tn
  | _, (_, t) :: ps => lastFlag t.closesTrim ps

def undashLast (tn : Bool) (ps : List (Bytes × Tag)) (last : Bytes) : Bytes := ltIf (lastFlag tn ps) last

theorem canon_append (a c : List Token) : canon (a ++ c) = canon a ++ canon c := by
  simp [canon, dropEmptyText, normalise]

theorem canon_cons (t : Token) (r : List Token) : canon (t :: r) = canon [t] ++ canon r :=
  canon_append [t] r

theorem isStartTrim_startKind (t : Tag) : isStartTrim t.opener.startKind = t.opensTrim := by
  rcases t with ⟨k, o, bd, c⟩; cases k <;> cases o <;> rfl

theorem isEndTrim_endKind (t : Tag) : isEndTrim (endKind t.kind t.ctrim) = t.closesTrim := by
  rcases t with ⟨k, o, bd, c⟩; cases k <;> cases c <;> rfl

theorem isEndTrim_startKind (o : Opener) : isEndTrim o.startKind = false := by
  rcases o with ⟨k, t⟩; cases k <;> cases t <;> decide

theorem endKind_ne_text (k : TagKind) (c : Bool) : endKind k c ≠ TEXT := by
  cases k <;> cases c <;> decide

theorem normKind_startKind (t : Tag) : normKind t.opener.startKind = t.plain.opener.startKind := by
  rcases t with ⟨k, o, bd, c⟩; cases k <;> cases o <;> rfl

theorem normKind_endKind (k : TagKind) (c : Bool) : normKind (endKind k c) = endKind k false := by
  cases k <;> cases c <;> decide

theorem exprKind_cases {k : Nat} (h : ExprKind k) : k = 7 ∨ k = 8 ∨ k = 9 ∨ k = 10 ∨ k = 11 := by
  obtain ⟨h1, h2⟩ := h; omega

theorem normKind_expr {k : Nat} (h : ExprKind k) : normKind k = k := by
  rcases exprKind_cases h with h | h | h | h | h <;> subst h <;> decide

theorem exprKind_ne_text {k : Nat} (h : ExprKind k) : k ≠ TEXT := by
  obtain ⟨h1, h2⟩ := h; show k ≠ 0; omega

theorem isEndTrim_expr {k : Nat} (h : ExprKind k) : isEndTrim k = false := by
  rcases exprKind_cases h with h | h | h | h | h <;> subst h <;> decide

theorem applyWsAux_inert (X Y : List Token) (hX : ∀ t ∈ X, ExprKind t.kind) :
    applyWsAux false (X ++ Y) = X ++ applyWsAux false Y := by
  induction X with
  | nil => rfl
  | cons t X' ih =>
    have ht := hX t (by simp)
    rw [List.cons_append, applyWsAux_other _ _ _ (exprKind_ne_text ht), isEndTrim_expr ht,
      ih (fun u hu => hX u (by simp [hu]))]
    rfl

theorem canon_inert (X : List Token) (hX : ∀ t ∈ X, ExprKind t.kind) : canon X = X := by
  induction X with
  | nil => rfl
  | cons t X' ih =>
    have ht := hX t (by simp)
    rw [canon_cons, ih (fun u hu => hX u (by simp [hu]))]
    have h1 := normKind_expr ht
    have h2 := exprKind_ne_text ht
    simp [canon, dropEmptyText, normalise, h1, h2]

theorem content_applyWs (t : Tag) (Y : List Token) :
    applyWsAux false (contentTokens t.kind t.body ++ tk (endKind t.kind t.ctrim) :: Y) =
      contentTokens t.kind t.body ++ tk (endKind t.kind t.ctrim) :: applyWsAux t.closesTrim Y := by
  by_cases hk : t.kind = .comment
  · have hc : t.closesTrim = false := by simp [Tag.closesTrim, hk]
    rw [hk, hc]
    simp only [contentTokens]
    split
    · simp only [List.nil_append]
      rw [applyWsAux_other _ _ _ (endKind_ne_text .comment t.ctrim)]; rfl
    · simp only [List.cons_append, List.nil_append]
      rw [applyWsAux_text _ _ _ rfl, applyWsAux_other _ _ _ (endKind_ne_text .comment t.ctrim)]
      rfl
  · rw [applyWsAux_inert _ _ (contentTokens_kinds hk t.body), applyWsAux_other _ _ _ (endKind_ne_text _ _)]
    have : isEndTrim (tk (endKind t.kind t.ctrim)).kind = t.closesTrim := isEndTrim_endKind t
    rw [this]

theorem content_canon (t : Tag) : canon (contentTokens t.kind t.body) = contentTokens t.kind t.body := by
  by_cases hk : t.kind = .comment
  · rw [hk]
    simp only [contentTokens]
    split
    · rfl
    · rename_i h
      simp [canon, dropEmptyText, normalise, tk, normKind, h]
  · exact canon_inert _ (contentTokens_kinds hk t.body)

theorem canon_text (v : Bytes) : canon [⟨TEXT, v⟩] = textTok v := by
  cases v with
  | nil => rfl
  | cons a r => simp [canon, dropEmptyText, normalise, textTok, tk, normKind]

theorem trims_nil (a c : Bool) : rtIf c (ltIf a []) = [] := by cases a <;> cases c <;> rfl

theorem applyWs_step (tn : Bool) (l : Bytes) (t : Tag) (E : List Token) :
    applyWsAux tn (textTok l ++ t.tokens ++ E) =
      (if l = [] then [] else [⟨TEXT, rtIf t.opensTrim (ltIf tn l)⟩]) ++
        ([tk t.opener.startKind] ++ (contentTokens t.kind t.body ++
          ([tk (endKind t.kind t.ctrim)] ++ applyWsAux t.closesTrim E))) := by
  have hre : t.tokens ++ E = tk t.opener.startKind ::
      (contentTokens t.kind t.body ++ tk (endKind t.kind t.ctrim) :: E) := by
    simp [Tag.tokens]
  have htag : ∀ tn', applyWsAux tn' (t.tokens ++ E) = [tk t.opener.startKind] ++ (contentTokens t.kind t.body ++
          ([tk (endKind t.kind t.ctrim)] ++ applyWsAux t.closesTrim E)) := by
    intro tn'
    rw [hre, applyWsAux_other _ _ _ (t.opener.startKind_ne_text)]
    have : isEndTrim (tk t.opener.startKind).kind = false := isEndTrim_startKind _
    rw [this, content_applyWs]
    rfl
  by_cases hl : l = []
  · subst hl
    rw [if_pos rfl, textTok_nil, List.nil_append, List.nil_append, htag]
  · rw [if_neg hl, textTok_ne hl, List.append_assoc, List.singleton_append, applyWsAux_text _ _ _ rfl, htag]
    have : nextTrim (t.tokens ++ E) = t.opensTrim := by
      rw [hre]; simp only [nextTrim, tk]; exact isStartTrim_startKind t
    rw [this]; rfl

theorem canon_step (tn : Bool) (l : Bytes) (t : Tag) (E : List Token) :
    canon (applyWsAux tn (textTok l ++ t.tokens ++ E)) =
      textTok (rtIf t.opensTrim (ltIf tn l)) ++ t.plain.tokens ++ canon (applyWsAux t.closesTrim E) := by
  rw [applyWs_step]
  simp only [canon_append]
  have h1 : canon (if l = [] then [] else [⟨TEXT, rtIf t.opensTrim (ltIf tn l)⟩]) =
      textTok (rtIf t.opensTrim (ltIf tn l)) := by
    by_cases hl : l = []
    · subst hl; rw [if_pos rfl, trims_nil]; rfl
    · rw [if_neg hl, canon_text]
  have h2 : canon [tk t.opener.startKind] = [tk t.plain.opener.startKind] := by
    have := t.plain.opener.startKind_ne_text
    simp [canon, dropEmptyText, normalise, tk, normKind_startKind, this]
  have h3 : canon [tk (endKind t.kind t.ctrim)] = [tk (endKind t.kind false)] := by
    have := endKind_ne_text t.kind false
    simp [canon, dropEmptyText, normalise, tk, normKind_endKind, this]
  rw [h1, h2, h3, content_canon]
  simp [Tag.tokens, Tag.plain]

theorem canon_expected (tn : Bool) (ps : List (Bytes × Tag)) (last : Bytes) :
    canon (applyWsAux tn (expected ps last)) = expected (undashPairs tn ps) (undashLast tn ps last) := by
  induction ps generalizing tn with
  | nil =>
    simp only [expected, undashPairs, undashLast, lastFlag]
    by_cases hl : last = []
    · subst hl
      have : ltIf tn [] = [] := by cases tn <;> rfl
      rw [this]; rfl
    · rw [textTok_ne hl, List.singleton_append, applyWsAux_text _ _ _ rfl, canon_cons, canon_text]
      rfl
  | cons lt ps ih =>
    obtain ⟨l, t⟩ := lt
    simp only [expected, undashPairs]
    rw [canon_step, ih]
    simp [undashLast, lastFlag]


/-! ## Transfer to `scanHtml`, heads of streams, corollaries about texts and delimiters -/

theorem scanHtml_eq_scanOpt (s : Bytes) : scanHtml s = scanOpt s := by
  have h1 : findOpenerHtml = findOpenerOpt := funext findOpenerHtml_eq_opt
  have h2 : tagEndHtml = tagEndOpt := funext fun k => funext fun r => by
    rw [tagEndHtml_eq_spec, tagEndOpt_eq_spec]
  unfold scanOpt scanHtml; rw [h1, h2]

theorem scan_eq_scanOpt (s : Bytes) : scan s = scanOpt s := by
  unfold scan; split
  · rfl
  · exact scanHtml_eq_scanOpt s

/-- `s` is empty or begins with a tag opener -/
def TagOrEnd (s : Bytes) : Prop := s = [] ∨ (findOpenerOpt s).map Prod.fst = some 0
instance (s : Bytes) : Decidable (TagOrEnd s) := by unfold TagOrEnd; infer_instance

theorem scanOpt_head_nontext {s : Bytes} (h : TagOrEnd s) {ts : List Token} (hs : scanOpt s = .ok ts) :
    ∃ t r, ts = t :: r ∧ t.kind ≠ TEXT := by
  rcases h with rfl | h
  · rw [scanOpt_nil] at hs; cases hs; exact ⟨_, _, rfl, by decide⟩
  · cases hf : findOpenerOpt s with
    | none => simp [hf] at h
    | some io =>
      obtain ⟨i, o⟩ := io
      simp only [hf, Option.map_some, Option.some.injEq] at h
      subst h
      have hs0 : s ≠ [] := by intro h0; subst h0; simp [findOpenerOpt] at hf
      have hb : ¬ (0 > 0 ∧ (s.drop (0 - 1)).head? = some 92) := by intro ⟨h, _⟩; omega
      rw [scanOpt_eq_scanF] at hs
      cases hg : tagEndOpt o.kind (List.drop (0 + o.len) s) with
      | none => rw [scanF_tag_none _ _ hs0 hf hb hg] at hs; cases hs
      | some te =>
        rw [scanF_tag _ _ hs0 hf (by omega) hb hg] at hs
        cases hr : scanF findOpenerOpt tagEndOpt (List.drop te.consumed (List.drop (0 + o.len) s)) with
        | error e => rw [hr] at hs; cases hs
        | ok ts' =>
          rw [hr] at hs
          simp only [mapOk_ok, List.take_zero, textTok_nil, List.nil_append, Except.ok.injEq] at hs
          exact ⟨_, _, hs.symm, o.startKind_ne_text⟩

theorem tagOrEnd_not_esc {s : Bytes} (h : TagOrEnd s) : ¬ EscStart s := by
  intro ⟨_, h2⟩
  rcases h with rfl | h
  · simp [findOpenerOpt] at h2
  · rw [h] at h2; cases h2

theorem extendHead_nontext (p : Bytes) {t : Token} (r : List Token) (h : t.kind ≠ TEXT) :
    extendHead p (t :: r) = tk TEXT p :: t :: r := by
  simp [extendHead, h]

/-- literal text in front of a tag (or of the end): one more TEXT token, nothing else -/
theorem scanOpt_pad_front {m : Bytes} (hm : Lit m) {s : Bytes} (hs : TagOrEnd s) :
    scanOpt (m ++ s) = mapOk (fun ts => textTok m ++ ts) (scanOpt s) := by
  by_cases h0 : m = []
  · subst h0
    rw [List.nil_append]
    cases scanOpt s <;> rfl
  · rw [scanOpt_pad hm h0 s (tagOrEnd_not_esc hs), textTok_ne h0]
    cases hr : scanOpt s with
    | error e => rfl
    | ok ts =>
      obtain ⟨t, r, rfl, ht⟩ := scanOpt_head_nontext hs hr
      simp [extendHead_nontext _ _ ht]

/-! ### texts outside comments, delimiter tokens -/

/-- values of the TEXT tokens that are not inside a comment (`inC`: currently inside one) -/
def outerTexts : Bool → List Token → List Bytes
  | _, [] => []
  | inC, t :: r =>
    if t.kind = COMMENT_START then outerTexts true r
    else if t.kind = COMMENT_END then outerTexts false r
    else if t.kind = TEXT ∧ inC = false then t.val :: outerTexts inC r
    else outerTexts inC r

def isDelimKind (k : Nat) : Bool :=
  k == VAR_START || k == VAR_END || k == BLOCK_START || k == BLOCK_END || k == COMMENT_START ||
  k == COMMENT_END || k == VAR_START_TRIM || k == VAR_END_TRIM || k == BLOCK_START_TRIM || k == BLOCK_END_TRIM

/-- the kinds of the delimiter tokens, in order -/
def delimKinds (ts : List Token) : List Nat := (ts.filter fun t => isDelimKind t.kind).map (·.kind)

theorem delimKinds_append (a c : List Token) : delimKinds (a ++ c) = delimKinds a ++ delimKinds c := by
  simp [delimKinds]

theorem exprKind_not_delim {k : Nat} (h : ExprKind k) : isDelimKind k = false := by
  rcases exprKind_cases h with h | h | h | h | h <;> subst h <;> decide

theorem outerTexts_inert (c : Bool) (X Y : List Token) (hX : ∀ t ∈ X, ExprKind t.kind) :
    outerTexts c (X ++ Y) = outerTexts c Y := by
  induction X with
  | nil => rfl
  | cons t X' ih =>
    have ht := hX t (by simp)
    have h1 : t.kind ≠ COMMENT_START := by
      rcases exprKind_cases ht with h | h | h | h | h <;> rw [h] <;> decide
    have h2 : t.kind ≠ COMMENT_END := by
      rcases exprKind_cases ht with h | h | h | h | h <;> rw [h] <;> decide
    have h3 := exprKind_ne_text ht
    rw [List.cons_append, outerTexts]
    simp only [h1, h2, h3, if_false, false_and]
    exact ih (fun u hu => hX u (by simp [hu]))

theorem delimKinds_inert (X : List Token) (hX : ∀ t ∈ X, ExprKind t.kind) : delimKinds X = [] := by
  induction X with
  | nil => rfl
  | cons t X' ih =>
    have := exprKind_not_delim (hX t (by simp))
    have ih' := ih (fun u hu => hX u (by simp [hu]))
    simp only [delimKinds] at ih' ⊢
    simp [this, ih']

theorem startKind_facts (k : TagKind) (o : Bool) (hk : k ≠ .comment) :
    (Opener.mk k o).startKind ≠ COMMENT_START ∧ (Opener.mk k o).startKind ≠ COMMENT_END ∧
      (Opener.mk k o).startKind ≠ TEXT := by
  cases k <;> cases o <;> first | exact absurd rfl hk | decide

theorem endKind_facts (k : TagKind) (c : Bool) (hk : k ≠ .comment) :
    endKind k c ≠ COMMENT_START ∧ endKind k c ≠ COMMENT_END ∧ endKind k c ≠ TEXT := by
  cases k <;> cases c <;> first | exact absurd rfl hk | decide

theorem outerTexts_tag (t : Tag) (E : List Token) : outerTexts false (t.tokens ++ E) = outerTexts false E := by
  have hre : t.tokens ++ E = tk t.opener.startKind ::
      (contentTokens t.kind t.body ++ tk (endKind t.kind t.ctrim) :: E) := by
    simp [Tag.tokens]
  rw [hre]
  by_cases hk : t.kind = .comment
  · have h1 : t.opener.startKind = COMMENT_START := by
      rcases t with ⟨k, o, bd, c⟩; simp only at hk; subst hk; cases o <;> rfl
    have h2 : endKind t.kind t.ctrim = COMMENT_END := by rw [hk]; cases t.ctrim <;> rfl
    rw [h1, h2, hk]
    simp only [contentTokens]
    split <;> simp [outerTexts, tk]
  · have h1 : t.opener.startKind ≠ COMMENT_START ∧ t.opener.startKind ≠ COMMENT_END ∧
        t.opener.startKind ≠ TEXT := startKind_facts t.kind t.otrim hk
    have h2 : endKind t.kind t.ctrim ≠ COMMENT_START ∧ endKind t.kind t.ctrim ≠ COMMENT_END ∧
        endKind t.kind t.ctrim ≠ TEXT := endKind_facts t.kind t.ctrim hk
    rw [outerTexts]
    simp only [tk, h1.1, h1.2.1, h1.2.2, if_false, false_and]
    rw [outerTexts_inert _ _ _ (contentTokens_kinds hk t.body), outerTexts]
    simp only [h2.1, h2.2.1, h2.2.2, if_false, false_and]

theorem outerTexts_textTok (l : Bytes) (E : List Token) :
    outerTexts false (textTok l ++ E) = (if l = [] then [] else [l]) ++ outerTexts false E := by
  by_cases hl : l = []
  · subst hl; rfl
  · rw [textTok_ne hl, if_neg hl]
    simp [outerTexts, tk]

theorem outerTexts_expected (ps : List (Bytes × Tag)) (last : Bytes) :
    outerTexts false (expected ps last) = ((ps.map (·.1)) ++ [last]).filter (fun l => l ≠ []) := by
  induction ps with
  | nil =>
    simp only [expected, List.map_nil, List.nil_append]
    rw [outerTexts_textTok]
    by_cases hl : last = [] <;> simp [hl, outerTexts, tk]
  | cons lt ps ih =>
    obtain ⟨l, t⟩ := lt
    simp only [expected, List.map_cons, List.cons_append]
    rw [List.append_assoc, outerTexts_textTok, outerTexts_tag, ih]
    by_cases hl : l = [] <;> simp [hl, List.filter_cons]

theorem delimKinds_textTok (l : Bytes) : delimKinds (textTok l) = [] := by
  by_cases hl : l = []
  · subst hl; rfl
  · rw [textTok_ne hl]; rfl

theorem delimKinds_tag (t : Tag) : delimKinds t.tokens = [t.opener.startKind, endKind t.kind t.ctrim] := by
  have hre : t.tokens = [tk t.opener.startKind] ++ contentTokens t.kind t.body ++ [tk (endKind t.kind t.ctrim)] := by
    simp [Tag.tokens]
  have h1 : isDelimKind t.opener.startKind = true := by
    rcases t with ⟨k, o, bd, c⟩; cases k <;> cases o <;> rfl
  have h2 : isDelimKind (endKind t.kind t.ctrim) = true := by
    rcases t with ⟨k, o, bd, c⟩; cases k <;> cases c <;> rfl
  have h3 : delimKinds (contentTokens t.kind t.body) = [] := by
    by_cases hk : t.kind = .comment
    · rw [hk]; simp only [contentTokens]; split <;> rfl
    · exact delimKinds_inert _ (contentTokens_kinds hk t.body)
  rw [hre, delimKinds_append, delimKinds_append, h3]
  simp [delimKinds, tk, h1, h2]

theorem delimKinds_expected (ps : List (Bytes × Tag)) (last : Bytes) :
    delimKinds (expected ps last) =
      ps.flatMap fun lt => [lt.2.opener.startKind, endKind lt.2.kind lt.2.ctrim] := by
  induction ps with
  | nil =>
    simp only [expected, List.flatMap_nil]
    rw [delimKinds_append, delimKinds_textTok]; rfl
  | cons lt ps ih =>
    obtain ⟨l, t⟩ := lt
    simp only [expected, List.flatMap_cons]
    rw [delimKinds_append, delimKinds_append, delimKinds_textTok, delimKinds_tag, ih]
    rfl


/-! ## `undash`: bookkeeping -/

theorem Tag.plain_plain (t : Tag) : t.plain.plain = t.plain := rfl
theorem Tag.plain_opensTrim (t : Tag) : t.plain.opensTrim = false := rfl
theorem Tag.plain_closesTrim (t : Tag) : t.plain.closesTrim = false := rfl

theorem undashPairs_idem (tn : Bool) (ps : List (Bytes × Tag)) :
    undashPairs false (undashPairs tn ps) = undashPairs tn ps := by
  induction ps generalizing tn with
  | nil => rfl
  | cons lt ps ih =>
    obtain ⟨l, t⟩ := lt
    simp only [undashPairs, Tag.plain_plain, Tag.plain_opensTrim, Tag.plain_closesTrim, ih]
    rfl

theorem lastFlag_undash (tn : Bool) (ps : List (Bytes × Tag)) :
    lastFlag false (undashPairs tn ps) = false := by
  induction ps generalizing tn with
  | nil => rfl
  | cons lt ps ih =>
    obtain ⟨l, t⟩ := lt
    simp only [undashPairs, lastFlag, Tag.plain_closesTrim, ih]

theorem undashLast_plain (tn : Bool) (ps : List (Bytes × Tag)) (L : Bytes) :
    undashLast false (undashPairs tn ps) L = L := by
  simp [undashLast, lastFlag_undash, ltIf]

/-- literal-ness of the hand-trimmed chunks implies literal-ness of the original chunks -/
theorem lit_of_undash (tn : Bool) (ps : List (Bytes × Tag)) (h : ∀ lt ∈ undashPairs tn ps, Lit lt.1) :
    ∀ lt ∈ ps, Lit lt.1 := by
  induction ps generalizing tn with
  | nil => intro lt hlt; cases hlt
  | cons lt0 ps ih =>
    obtain ⟨l, t⟩ := lt0
    intro lt hlt
    simp only [undashPairs, List.mem_cons, forall_eq_or_imp] at h
    rcases List.mem_cons.mp hlt with rfl | hm
    · exact lit_of_ltIf (lit_of_rtIf h.1)
    · exact ih _ h.2 lt hm

theorem wf_of_undash (tn : Bool) (ps : List (Bytes × Tag)) (h : ∀ lt ∈ ps, WfTag lt.2.plain) :
    ∀ lt ∈ undashPairs tn ps, WfTag lt.2 := by
  induction ps generalizing tn with
  | nil => intro lt hlt; cases hlt
  | cons lt0 ps ih =>
    obtain ⟨l, t⟩ := lt0
    intro lt hlt
    simp only [undashPairs] at hlt
    rcases List.mem_cons.mp hlt with rfl | hm
    · exact h (l, t) (by simp)
    · exact ih _ (fun x hx => h x (by simp [hx])) lt hm

theorem noOpener_of_ltIf {c : Bool} {l : Bytes} (h : NoOpener (ltIf c l)) : NoOpener l := by
  cases c
  · exact h
  · exact noOpener_of_trimLead h

/-- the token stream the parser sees, up to empty TEXT tokens -/
def tokenizeCanon (s : Bytes) : Except ScanErr (List Token) :=
  mapOk (fun ts => canon (applyWs ts)) (scanHtml s)

theorem tokenizeCanon_eq (s : Bytes) : tokenizeCanon s = mapOk dropEmptyText (tokenize s) := by
  unfold tokenizeCanon tokenize
  rw [scan_eq_scanOpt, scanHtml_eq_scanOpt]
  cases scanOpt s <;> rfl

/-- the dash-free template scans to a stream on which `applyWs`/`normalise` do nothing (up to empty texts) -/
theorem canon_expected_plain (tn : Bool) (ps : List (Bytes × Tag)) (L : Bytes) :
    canon (applyWs (expected (undashPairs tn ps) L)) = expected (undashPairs tn ps) L := by
  unfold applyWs
  rw [canon_expected, undashPairs_idem, undashLast_plain]

end Twig
