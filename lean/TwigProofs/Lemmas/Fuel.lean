/-
  TwigProofs.Lemmas.Fuel — helpers for C05 (termination / totality of the modelled front end):
  the fuel every parser function of `TwigModel.ParseExpr` / `TwigModel.ParseTpl` is given is enough,
  results do not depend on the fuel once it is enough, and `Err.fuel` in `TwigModel.Render` only
  ever comes out of a cross-template transfer.

  Everything lives in the namespace `Twig.Fuel`.
-/
import TwigModel.Render
namespace Twig
namespace Fuel

/-! ## generic predicates over `R = Except Err` -/

/-- the token list a parser result leaves -/
class HasRest (α : Type) where
  rest : α → List Token
instance : HasRest (List Token) := ⟨id⟩
instance {α β} [HasRest β] : HasRest (α × β) := ⟨fun p => HasRest.rest p.2⟩
export HasRest (rest)

@[simp] theorem rest_list (l : List Token) : rest l = l := rfl
@[simp] theorem rest_pair {α β} [HasRest β] (a : α) (x : β) : rest (a, x) = rest x := rfl
theorem rest_prod {α β} [HasRest β] (p : α × β) : rest p = rest p.2 := rfl

/-- the errors a parser may report: a parse error without cause sentinels, or "outside the model" -/
def IsParseErr (e : Err) : Prop := (∃ m, e = .error .parse [] m) ∨ (∃ w, e = .unsupported w)

theorem IsParseErr.ne_fuel {e : Err} (h : IsParseErr e) : e ≠ .fuel := by
  rcases h with ⟨m, rfl⟩ | ⟨w, rfl⟩ <;> intro h <;> cases h

/-- `Good P x`: if `x` is an error it is a parse error or `unsupported` (in particular not the fuel
    error), and if it is a success the length of the remaining token list satisfies `P`. -/
def Good {α} [HasRest α] (P : Nat → Prop) (x : R α) : Prop :=
  (∀ e, x = .error e → IsParseErr e) ∧ ∀ a, x = .ok a → P (rest a).length

theorem Good.nf {α} [HasRest α] {P : Nat → Prop} {x : R α} (h : Good P x) : x ≠ .error .fuel :=
  fun hx => (h.1 _ hx).ne_fuel rfl

theorem Good.bind {α β} [HasRest α] [HasRest β] {Q P : Nat → Prop} {x : R α} {g : α → R β}
    (hx : Good Q x) (hg : ∀ a, Q (rest a).length → Good P (g a)) : Good P (x >>= g) := by
  cases x with
  | error e =>
    refine ⟨?_, ?_⟩
    · intro e' h; have h' : (Except.error e : R β) = .error e' := h; cases h'; exact hx.1 _ rfl
    · intro a h; cases h
  | ok a => exact hg a (hx.2 a rfl)

theorem Good.pure {α} [HasRest α] {P : Nat → Prop} {a : α} (h : P (rest a).length) :
    Good P (Pure.pure a : R α) :=
  ⟨(by intro e h; cases h), (by intro a' h'; cases h'; exact h)⟩

theorem Good.ok {α} [HasRest α] {P : Nat → Prop} {a : α} (h : P (rest a).length) :
    Good P (.ok a : R α) :=
  ⟨(by intro e h; cases h), (by intro a' h'; cases h'; exact h)⟩

theorem Good.perr {α} [HasRest α] {P : Nat → Prop} (m : String) : Good P (Twig.perr m : R α) :=
  ⟨(by intro e h; cases h; exact .inl ⟨m, rfl⟩), (by intro a h; cases h)⟩

theorem Good.unsup {α} [HasRest α] {P : Nat → Prop} (m : String) :
    Good P (.error (.unsupported m) : R α) :=
  ⟨(by intro e h; cases h; exact .inr ⟨m, rfl⟩), (by intro a h; cases h)⟩

theorem Good.mono {α} [HasRest α] {Q P : Nat → Prop} {x : R α} (hx : Good Q x)
    (h : ∀ k, Q k → P k) : Good P x :=
  ⟨hx.1, fun a ha => h _ (hx.2 a ha)⟩

/-- fuel order: `x ⊑ y` if `x` ran out of fuel or `x = y` -/
def Le {α} (x y : R α) : Prop := x = .error .fuel ∨ x = y

theorem Le.refl {α} (x : R α) : Le x x := .inr rfl
theorem Le.fuel {α} (y : R α) : Le (.error .fuel) y := .inl rfl

theorem Le.bind {α β} {x x' : R α} {g g' : α → R β} (hx : Le x x') (hg : ∀ a, Le (g a) (g' a)) :
    Le (x >>= g) (x' >>= g') := by
  rcases hx with hx | hx
  · subst hx; exact .inl rfl
  · subst hx
    cases x with
    | error e => exact .inr rfl
    | ok a => exact hg a

theorem Le.eq {α} {x y : R α} (h : Le x y) (hx : x ≠ .error .fuel) : y = x := by
  rcases h with h | h
  · exact absurd h hx
  · exact h.symm

theorem Good.ite {α} [HasRest α] {P : Nat → Prop} {c : Prop} [Decidable c] {x y : R α}
    (hx : c → Good P x) (hy : ¬ c → Good P y) : Good P (if c then x else y) := by
  split
  · exact hx ‹_›
  · exact hy ‹_›

theorem Le.ite {α} {c : Prop} [Decidable c] {x y x' y' : R α}
    (hx : Le x x') (hy : Le y y') : Le (if c then x else y) (if c then x' else y') := by
  split
  · exact hx
  · exact hy

/-- normalise list lengths in all hypotheses and the goal, then `omega` -/
macro "lomega" : tactic =>
  `(tactic| ((try simp only [rest_pair, rest_prod, rest_list, List.length_cons, List.length_nil, List.length_drop] at *) <;> omega))

/-! ## `peekBinaryOperator` stays inside the token list -/

theorem nil_beq_in : (([] : Bytes) == b "in") = false := by decide +kernel
theorem nil_beq_defined : (([] : Bytes) == b "defined") = false := by decide +kernel
theorem nil_beq_not : (([] : Bytes) == b "not") = false := by decide +kernel
theorem nil_beq_with : (([] : Bytes) == b "with") = false := by decide +kernel

/-- what `peekBinaryOperator` reports fits in the token list -/
def PeekOk (n : Nat) : Peek → Prop
  | .op _ w => 1 ≤ w ∧ w ≤ n
  | .isT _ w => 1 ≤ w ∧ w ≤ n
  | .notDefined => 2 ≤ n
  | .none => True

theorem peekOk_one {n} (o) : PeekOk (n+1) (.op o 1) := ⟨Nat.le_refl _, by omega⟩
theorem peekOk_two {n} (o) : PeekOk (n+1+1) (.op o 2) := ⟨by omega, by omega⟩
theorem peekOk_t1 {n} (o) : PeekOk (n+1) (.isT o 1) := ⟨Nat.le_refl _, by omega⟩
theorem peekOk_t2 {n} (o) : PeekOk (n+1+1) (.isT o 2) := ⟨by omega, by omega⟩
theorem peekOk_nd {n} : PeekOk (n+1+1) .notDefined := by show 2 ≤ n+1+1; omega

theorem PeekOk.ite {n} {c : Prop} [Decidable c] {a b' : Peek} (ha : c → PeekOk n a) (hb : PeekOk n b') :
    PeekOk n (if c then a else b') := by
  split
  · exact ha ‹_›
  · exact hb

theorem peek_ok (ts : List Token) : PeekOk ts.length (peekBinary ts) := by
  cases ts with
  | nil => trivial
  | cons t r =>
    unfold peekBinary
    split
    · rename_i h; cases h
    rename_i t' r' heq; cases heq
    refine PeekOk.ite (fun _ => ?_) (PeekOk.ite (fun _ => trivial) ?_)
    · split
      · exact peekOk_one _
      · trivial
    cases r with
    | nil =>
      simp only [nil_beq_in, nil_beq_defined, nil_beq_not, nil_beq_with]
      repeat' first | trivial | exact peekOk_one _ | exact peekOk_t1 _ | (refine PeekOk.ite (fun h => ?_) ?_)
      all_goals (cases h)
    | cons n r' =>
      repeat' first | trivial | exact peekOk_one _ | exact peekOk_t1 _ | exact peekOk_two _ | exact peekOk_t2 _ | exact peekOk_nd | (refine PeekOk.ite (fun _ => ?_) ?_)

/-! ## the expression parser: the fuel `8 * tokens + d` is enough for every function -/

/-- the token list starts with `|` -/
def pipeHead : List Token → Bool
  | t :: _ => isP t 124
  | [] => false

/-- fuel `f` is enough for every function of the expression parser on every token list `ts` with
    `8 * ts.length + d ≤ f` (`d` per function): the result is `Good` (parse error / unsupported / success
    leaving at most — for the functions that must consume, strictly fewer than — `ts.length` tokens) -/
structure ExprGood (f : Nat) : Prop where
  expr : ∀ ts, 8 * ts.length + 4 ≤ f → Good (· < ts.length) (parseExpression f ts)
  cond : ∀ c ts, 8 * ts.length + 5 ≤ f → Good (· < ts.length) (parseConditional f c ts)
  bp : ∀ p ts, 8 * ts.length + 3 ≤ f → Good (· < ts.length) (parseBinaryPrec f p ts)
  loop : ∀ p l ts, 8 * ts.length + 3 ≤ f → Good (· ≤ ts.length) (parseLoop f p l ts)
  test : ∀ l neg nm ts, 8 * ts.length + 1 ≤ f → Good (· ≤ ts.length) (parseTest f l neg nm ts)
  args : ∀ c m ts, 8 * ts.length + 6 ≤ f → Good (· < ts.length) (parseArgs f c m ts)
  argsLoop : ∀ c m ts, 8 * ts.length + 5 ≤ f → Good (· < ts.length) (parseArgsLoop f c m ts)
  operand : ∀ ts, 8 * ts.length + 2 ≤ f → Good (· < ts.length) (parseOperand f ts)
  suffix : ∀ e ts, 8 * ts.length + 2 ≤ f → Good (· ≤ ts.length) (parseSuffix f e ts)
  filters : ∀ e ts, 8 * ts.length + 1 ≤ f →
    Good (fun k => k ≤ ts.length ∧ (pipeHead ts = true → k < ts.length)) (parseFilters f e ts)
  simple : ∀ ts, 8 * ts.length + 1 ≤ f → Good (· < ts.length) (parseSimple f ts)
  attrs : ∀ e ts, 8 * ts.length + 1 ≤ f → Good (· ≤ ts.length) (parseAttrs f e ts)
  map : ∀ ts, 8 * ts.length + 6 ≤ f → Good (· < ts.length) (parseMap f ts)
  mapLoop : ∀ ts, 8 * ts.length + 5 ≤ f → Good (· < ts.length) (parseMapLoop f ts)
  subs : ∀ e ts, 8 * ts.length + 1 ≤ f → Good (· ≤ ts.length) (parseSubs f e ts)

variable {f : Nat}

theorem expr_step (ih : ExprGood f) (ts) (h : 8 * ts.length + 4 ≤ f + 1) :
    Good (· < ts.length) (parseExpression (f+1) ts) := by
  rw [parseExpression]
  refine Good.bind (ih.bp _ _ (by omega)) ?_
  rintro ⟨e, r⟩ hr
  dsimp only
  split
  · refine Good.ite (fun _ => ?_) (fun _ => ?_)
    · refine Good.mono (ih.cond _ _ (by lomega)) ?_
      intro k hk; lomega
    · exact Good.pure hr
  · exact Good.pure hr

theorem cond_step (ih : ExprGood f) (c ts) (h : 8 * ts.length + 5 ≤ f + 1) :
    Good (· < ts.length) (parseConditional (f+1) c ts) := by
  rw [parseConditional]
  refine Good.bind (ih.expr _ (by omega)) ?_
  rintro ⟨e, r⟩ hr
  dsimp only
  split
  · refine Good.ite (fun _ => ?_) (fun _ => Good.perr _)
    refine Good.bind (ih.expr _ (by lomega)) ?_
    rintro ⟨e2, r2⟩ hr2
    apply Good.pure; lomega
  · exact Good.perr _

theorem bp_step (ih : ExprGood f) (p ts) (h : 8 * ts.length + 3 ≤ f + 1) :
    Good (· < ts.length) (parseBinaryPrec (f+1) p ts) := by
  rw [parseBinaryPrec]
  refine Good.bind (ih.operand _ (by omega)) ?_
  rintro ⟨e, r⟩ hr
  refine Good.mono (ih.loop _ _ _ (by lomega)) ?_
  intro k hk; lomega

theorem loop_step (ih : ExprGood f) (p l ts) (h : 8 * ts.length + 3 ≤ f + 1) :
    Good (· ≤ ts.length) (parseLoop (f+1) p l ts) := by
  rw [parseLoop]
  have hp := peek_ok ts
  split
  · exact Good.pure (Nat.le_refl _)
  · rename_i hpk; rw [hpk] at hp
    have hp : 2 ≤ ts.length := hp
    refine Good.mono (ih.loop _ _ _ (by lomega)) ?_
    intro k hk; lomega
  · rename_i neg w hpk; rw [hpk] at hp
    have hp : 1 ≤ w ∧ w ≤ ts.length := hp
    refine Good.ite (fun _ => Good.pure (Nat.le_refl _)) (fun _ => ?_)
    dsimp only
    split
    · rename_i n r' heq
      have hl := congrArg List.length heq
      refine Good.ite (fun _ => ?_) (fun _ => ?_)
      · refine Good.bind (ih.test _ _ _ _ (by lomega)) ?_
        rintro ⟨e, r2⟩ hr2
        refine Good.mono (ih.loop _ _ _ (by lomega)) ?_
        intro k hk; lomega
      · refine Good.bind (ih.bp _ _ (by lomega)) ?_
        rintro ⟨e, r2⟩ hr2
        refine Good.mono (ih.loop _ _ _ (by lomega)) ?_
        intro k hk; lomega
    · rename_i heq
      refine Good.bind (ih.bp _ _ (by lomega)) ?_
      rintro ⟨e, r2⟩ hr2
      refine Good.mono (ih.loop _ _ _ (by lomega)) ?_
      intro k hk; lomega
  · rename_i o w hpk; rw [hpk] at hp
    have hp : 1 ≤ w ∧ w ≤ ts.length := hp
    refine Good.ite (fun _ => Good.pure (Nat.le_refl _)) (fun _ => ?_)
    refine Good.bind (ih.bp _ _ (by lomega)) ?_
    rintro ⟨e, r2⟩ hr2
    refine Good.mono (ih.loop _ _ _ (by lomega)) ?_
    intro k hk; lomega

theorem test_step (ih : ExprGood f) (l neg nm ts) (h : 8 * ts.length + 1 ≤ f + 1) :
    Good (· ≤ ts.length) (parseTest (f+1) l neg nm ts) := by
  rw [parseTest.eq_def]; dsimp only
  split
  · refine Good.ite (fun _ => ?_) (fun _ => ?_)
    · refine Good.bind (ih.args _ _ _ (by lomega)) ?_
      rintro ⟨a, r⟩ hr; apply Good.pure; lomega
    · exact Good.pure (Nat.le_refl _)
  · exact Good.pure (Nat.le_refl _)

theorem args_step (ih : ExprGood f) (c m ts) (h : 8 * ts.length + 6 ≤ f + 1) :
    Good (· < ts.length) (parseArgs (f+1) c m ts) := by
  rw [parseArgs.eq_def]; dsimp only
  split
  · exact Good.perr _
  · refine Good.ite (fun _ => ?_) (fun _ => ?_)
    · apply Good.pure; lomega
    · exact ih.argsLoop _ _ _ (by lomega)

theorem argsLoop_step (ih : ExprGood f) (c m ts) (h : 8 * ts.length + 5 ≤ f + 1) :
    Good (· < ts.length) (parseArgsLoop (f+1) c m ts) := by
  rw [parseArgsLoop]
  refine Good.bind (ih.expr _ (by omega)) ?_
  rintro ⟨e, r⟩ hr
  dsimp only
  split
  · refine Good.ite (fun _ => ?_) (fun _ => Good.ite (fun _ => ?_) (fun _ => Good.perr _))
    · refine Good.bind (ih.argsLoop _ _ _ (by lomega)) ?_
      rintro ⟨es, r2⟩ hr2
      apply Good.pure; lomega
    · apply Good.pure; lomega
  · exact Good.perr _

theorem operand_step (ih : ExprGood f) (ts) (h : 8 * ts.length + 2 ≤ f + 1) :
    Good (· < ts.length) (parseOperand (f+1) ts) := by
  rw [parseOperand]
  refine Good.bind (ih.simple _ (by omega)) ?_
  rintro ⟨e, r⟩ hr
  refine Good.mono (ih.suffix _ _ (by lomega)) ?_
  intro k hk; lomega

theorem suffix_step (ih : ExprGood f) (e ts) (h : 8 * ts.length + 2 ≤ f + 1) :
    Good (· ≤ ts.length) (parseSuffix (f+1) e ts) := by
  rw [parseSuffix.eq_def]; dsimp only
  split
  · rename_i t r
    refine Good.ite (fun _ => ?_) (fun _ => Good.ite (fun hpipe => ?_) (fun _ => Good.pure (Nat.le_refl _)))
    · refine Good.bind (ih.expr _ (by lomega)) ?_
      rintro ⟨i, r1⟩ hr1
      dsimp only
      split
      · refine Good.ite (fun _ => ?_) (fun _ => Good.perr _)
        refine Good.mono (ih.suffix _ _ (by lomega)) ?_
        intro k hk; lomega
      · exact Good.perr _
    · refine Good.bind (ih.filters _ _ (by lomega)) ?_
      rintro ⟨e', r1⟩ hr1
      have hr1 := hr1.2 hpipe
      refine Good.mono (ih.suffix _ _ (by lomega)) ?_
      intro k hk; lomega
  · exact Good.pure (Nat.le_refl _)

theorem subs_step (ih : ExprGood f) (e ts) (h : 8 * ts.length + 1 ≤ f + 1) :
    Good (· ≤ ts.length) (parseSubs (f+1) e ts) := by
  rw [parseSubs.eq_def]; dsimp only
  split
  · rename_i t r
    refine Good.ite (fun _ => ?_) (fun _ => Good.pure (Nat.le_refl _))
    refine Good.bind (ih.expr _ (by lomega)) ?_
    rintro ⟨i, r1⟩ hr1
    dsimp only
    split
    · refine Good.ite (fun _ => ?_) (fun _ => Good.perr _)
      refine Good.mono (ih.subs _ _ (by lomega)) ?_
      intro k hk; lomega
    · exact Good.perr _
  · exact Good.pure (Nat.le_refl _)

theorem filters_step (ih : ExprGood f) (e ts) (h : 8 * ts.length + 1 ≤ f + 1) :
    Good (fun k => k ≤ ts.length ∧ (pipeHead ts = true → k < ts.length)) (parseFilters (f+1) e ts) := by
  rw [parseFilters.eq_def]; dsimp only
  split
  · rename_i t r
    refine Good.ite (fun _ => ?_) (fun hn => ?_)
    · split
      · rename_i n r'
        refine Good.ite (fun _ => ?_) (fun _ => Good.perr _)
        split
        · refine Good.ite (fun _ => ?_) (fun _ => ?_)
          · refine Good.bind (ih.args _ _ _ (by lomega)) ?_
            rintro ⟨a, r3⟩ hr3
            refine Good.mono (ih.filters _ _ (by lomega)) ?_
            intro k hk; exact ⟨by lomega, fun _ => by lomega⟩
          · refine Good.mono (ih.filters _ _ (by lomega)) ?_
            intro k hk; exact ⟨by lomega, fun _ => by lomega⟩
        · refine Good.mono (ih.filters _ _ (by lomega)) ?_
          intro k hk; exact ⟨by lomega, fun _ => by lomega⟩
      · exact Good.perr _
    · apply Good.pure
      exact ⟨Nat.le_refl _, fun hp => absurd hp hn⟩
  · apply Good.pure
    exact ⟨Nat.le_refl _, fun hp => by cases hp⟩

theorem attrs_step (ih : ExprGood f) (e ts) (h : 8 * ts.length + 1 ≤ f + 1) :
    Good (· ≤ ts.length) (parseAttrs (f+1) e ts) := by
  rw [parseAttrs.eq_def]; dsimp only
  split
  · rename_i d r
    refine Good.ite (fun _ => ?_) (fun _ => Good.pure (Nat.le_refl _))
    split
    · rename_i n r'
      refine Good.ite (fun _ => ?_) (fun _ => Good.perr _)
      split
      · refine Good.ite (fun _ => ?_) (fun _ => ?_)
        · refine Good.bind (ih.args _ _ _ (by lomega)) ?_
          rintro ⟨a, r3⟩ hr3
          refine Good.mono (ih.attrs _ _ (by lomega)) ?_
          intro k hk; lomega
        · refine Good.mono (ih.attrs _ _ (by lomega)) ?_
          intro k hk; lomega
      · refine Good.mono (ih.attrs _ _ (by lomega)) ?_
        intro k hk; lomega
    · exact Good.perr _
  · exact Good.pure (Nat.le_refl _)

theorem map_step (ih : ExprGood f) (ts) (h : 8 * ts.length + 6 ≤ f + 1) :
    Good (· < ts.length) (parseMap (f+1) ts) := by
  rw [parseMap.eq_def]; dsimp only
  split
  · exact Good.perr _
  · refine Good.ite (fun _ => ?_) (fun _ => ?_)
    · apply Good.pure; lomega
    · refine Good.bind (ih.mapLoop _ (by lomega)) ?_
      rintro ⟨kvs, r⟩ hr
      exact Good.pure hr

theorem mapLoop_step (ih : ExprGood f) (ts) (h : 8 * ts.length + 5 ≤ f + 1) :
    Good (· < ts.length) (parseMapLoop (f+1) ts) := by
  rw [parseMapLoop]
  refine Good.bind (ih.expr _ (by omega)) ?_
  rintro ⟨k, r⟩ hr
  dsimp only
  split
  · refine Good.ite (fun _ => ?_) (fun _ => Good.perr _)
    refine Good.bind (ih.expr _ (by lomega)) ?_
    rintro ⟨v, r2⟩ hr2
    dsimp only
    split
    · refine Good.ite (fun _ => ?_) (fun _ => Good.ite (fun _ => ?_) (fun _ => Good.perr _))
      · refine Good.bind (ih.mapLoop _ (by lomega)) ?_
        rintro ⟨kvs, r4⟩ hr4
        apply Good.pure; lomega
      · apply Good.pure; lomega
    · exact Good.perr _
  · exact Good.perr _

theorem simple_step (ih : ExprGood f) (ts) (h : 8 * ts.length + 1 ≤ f + 1) :
    Good (· < ts.length) (parseSimple (f+1) ts) := by
  rw [parseSimple.eq_def]; dsimp only
  split
  · exact Good.perr _
  rename_i t r
  have hsimple : ∀ (g : Expr × List Token → R (Expr × List Token)),
      (∀ e r', r'.length < r.length → Good (· < (t :: r).length) (g (e, r'))) →
      Good (· < (t :: r).length) (parseSimple f r >>= g) := by
    intro g hg
    refine Good.bind (ih.simple _ (by lomega)) ?_
    rintro ⟨e, r'⟩ hr
    exact hg e r' hr
  refine Good.ite (fun _ => ?_) (fun _ => ?_)
  · refine hsimple _ (fun e r' hr => ?_)
    dsimp only
    refine Good.bind (ih.subs _ _ (by lomega)) ?_
    rintro ⟨e', r''⟩ hr2
    apply Good.pure; lomega
  refine Good.ite (fun _ => ?_) (fun _ => ?_)
  · refine hsimple _ (fun e r' hr => ?_)
    dsimp only
    refine Good.bind (ih.subs _ _ (by lomega)) ?_
    rintro ⟨e', r''⟩ hr2
    apply Good.pure; lomega
  refine Good.ite (fun _ => ?_) (fun _ => ?_)
  · refine hsimple _ (fun e r' hr => ?_)
    dsimp only
    refine Good.bind (ih.subs _ _ (by lomega)) ?_
    rintro ⟨e', r''⟩ hr2
    apply Good.pure; lomega
  refine Good.ite (fun _ => ?_) (fun _ => ?_)
  · apply Good.pure; lomega
  refine Good.ite (fun _ => ?_) (fun _ => ?_)
  · apply Good.pure; lomega
  refine Good.ite (fun _ => ?_) (fun _ => ?_)
  · refine Good.ite (fun _ => ?_) (fun _ => ?_)
    · apply Good.pure; lomega
    refine Good.ite (fun _ => ?_) (fun _ => ?_)
    · apply Good.pure; lomega
    refine Good.ite (fun _ => ?_) (fun _ => ?_)
    · apply Good.pure; lomega
    split
    · refine Good.ite (fun _ => ?_) (fun _ => ?_)
      · refine Good.bind (ih.args _ _ _ (by lomega)) ?_
        rintro ⟨a, r3⟩ hr3
        apply Good.pure; lomega
      · refine Good.mono (ih.attrs _ _ (by lomega)) ?_
        intro k hk; lomega
    · apply Good.pure; lomega
  refine Good.ite (fun _ => ?_) (fun _ => ?_)
  · refine Good.bind (ih.args _ _ _ (by lomega)) ?_
    rintro ⟨a, r3⟩ hr3
    apply Good.pure; lomega
  refine Good.ite (fun _ => ?_) (fun _ => ?_)
  · refine Good.mono (ih.map _ (by lomega)) ?_
    intro k hk; lomega
  refine Good.ite (fun _ => ?_) (fun _ => Good.perr _)
  refine Good.bind (ih.expr _ (by lomega)) ?_
  rintro ⟨e, r1⟩ hr1
  dsimp only
  split
  · refine Good.ite (fun _ => ?_) (fun _ => Good.perr _)
    apply Good.pure; lomega
  · exact Good.perr _

theorem exprGood : ∀ f, ExprGood f
  | 0 => by
    constructor <;> intros <;> omega
  | f+1 =>
    have ih := exprGood f
    ⟨expr_step ih, cond_step ih, bp_step ih, loop_step ih, test_step ih, args_step ih, argsLoop_step ih,
     operand_step ih, suffix_step ih, filters_step ih, simple_step ih, attrs_step ih, map_step ih,
     mapLoop_step ih, subs_step ih⟩

/-! ## the expression parser: more fuel never changes a non-fuel result -/

/-- one more unit of fuel: each function either ran out of fuel or returns the same -/
structure ExprMono (f : Nat) : Prop where
  expr : ∀ ts, Le (parseExpression f ts) (parseExpression (f+1) ts)
  cond : ∀ c ts, Le (parseConditional f c ts) (parseConditional (f+1) c ts)
  bp : ∀ p ts, Le (parseBinaryPrec f p ts) (parseBinaryPrec (f+1) p ts)
  loop : ∀ p l ts, Le (parseLoop f p l ts) (parseLoop (f+1) p l ts)
  test : ∀ l neg nm ts, Le (parseTest f l neg nm ts) (parseTest (f+1) l neg nm ts)
  args : ∀ c m ts, Le (parseArgs f c m ts) (parseArgs (f+1) c m ts)
  argsLoop : ∀ c m ts, Le (parseArgsLoop f c m ts) (parseArgsLoop (f+1) c m ts)
  operand : ∀ ts, Le (parseOperand f ts) (parseOperand (f+1) ts)
  suffix : ∀ e ts, Le (parseSuffix f e ts) (parseSuffix (f+1) e ts)
  filters : ∀ e ts, Le (parseFilters f e ts) (parseFilters (f+1) e ts)
  simple : ∀ ts, Le (parseSimple f ts) (parseSimple (f+1) ts)
  attrs : ∀ e ts, Le (parseAttrs f e ts) (parseAttrs (f+1) e ts)
  map : ∀ ts, Le (parseMap f ts) (parseMap (f+1) ts)
  mapLoop : ∀ ts, Le (parseMapLoop f ts) (parseMapLoop (f+1) ts)
  subs : ∀ e ts, Le (parseSubs f e ts) (parseSubs (f+1) e ts)

macro "le_auto" ih:ident : tactic => `(tactic| repeat' first
  | exact Le.refl (pure _)
  | exact Le.refl (perr _)
  | exact Le.refl (Except.error _)
  | exact ($ih).expr _ | exact ($ih).cond _ _ | exact ($ih).bp _ _ | exact ($ih).loop _ _ _
  | exact ($ih).test _ _ _ _ | exact ($ih).args _ _ _ | exact ($ih).argsLoop _ _ _
  | exact ($ih).operand _ | exact ($ih).suffix _ _ | exact ($ih).subs _ _ | exact ($ih).filters _ _ | exact ($ih).simple _
  | exact ($ih).attrs _ _ | exact ($ih).map _ | exact ($ih).mapLoop _
  | refine Le.ite ?_ ?_
  | (refine Le.bind ?_ (fun _ => ?_))
  | split)

theorem expr_mono (ih : ExprMono f) (ts) : Le (parseExpression (f+1) ts) (parseExpression (f+1+1) ts) := by
  rw [parseExpression.eq_def (f+1), parseExpression.eq_def (f+1+1)]; dsimp only
  le_auto ih

theorem cond_mono (ih : ExprMono f) (c ts) : Le (parseConditional (f+1) c ts) (parseConditional (f+1+1) c ts) := by
  rw [parseConditional.eq_def (f+1), parseConditional.eq_def (f+1+1)]; dsimp only
  le_auto ih

theorem bp_mono (ih : ExprMono f) (p ts) : Le (parseBinaryPrec (f+1) p ts) (parseBinaryPrec (f+1+1) p ts) := by
  rw [parseBinaryPrec.eq_def (f+1), parseBinaryPrec.eq_def (f+1+1)]; dsimp only
  le_auto ih

theorem loop_mono (ih : ExprMono f) (p l ts) : Le (parseLoop (f+1) p l ts) (parseLoop (f+1+1) p l ts) := by
  rw [parseLoop.eq_def (f+1), parseLoop.eq_def (f+1+1)]; dsimp only
  le_auto ih

theorem test_mono (ih : ExprMono f) (l neg nm ts) : Le (parseTest (f+1) l neg nm ts) (parseTest (f+1+1) l neg nm ts) := by
  rw [parseTest.eq_def (f+1), parseTest.eq_def (f+1+1)]; dsimp only
  le_auto ih

theorem args_mono (ih : ExprMono f) (c m ts) : Le (parseArgs (f+1) c m ts) (parseArgs (f+1+1) c m ts) := by
  rw [parseArgs.eq_def (f+1), parseArgs.eq_def (f+1+1)]; dsimp only
  le_auto ih

theorem argsLoop_mono (ih : ExprMono f) (c m ts) : Le (parseArgsLoop (f+1) c m ts) (parseArgsLoop (f+1+1) c m ts) := by
  rw [parseArgsLoop.eq_def (f+1), parseArgsLoop.eq_def (f+1+1)]; dsimp only
  le_auto ih

theorem operand_mono (ih : ExprMono f) (ts) : Le (parseOperand (f+1) ts) (parseOperand (f+1+1) ts) := by
  rw [parseOperand.eq_def (f+1), parseOperand.eq_def (f+1+1)]; dsimp only
  le_auto ih

theorem suffix_mono (ih : ExprMono f) (e ts) : Le (parseSuffix (f+1) e ts) (parseSuffix (f+1+1) e ts) := by
  rw [parseSuffix.eq_def (f+1), parseSuffix.eq_def (f+1+1)]; dsimp only
  le_auto ih

theorem subs_mono (ih : ExprMono f) (e ts) : Le (parseSubs (f+1) e ts) (parseSubs (f+1+1) e ts) := by
  rw [parseSubs.eq_def (f+1), parseSubs.eq_def (f+1+1)]; dsimp only
  le_auto ih

theorem filters_mono (ih : ExprMono f) (e ts) : Le (parseFilters (f+1) e ts) (parseFilters (f+1+1) e ts) := by
  rw [parseFilters.eq_def (f+1), parseFilters.eq_def (f+1+1)]; dsimp only
  le_auto ih

theorem simple_mono (ih : ExprMono f) (ts) : Le (parseSimple (f+1) ts) (parseSimple (f+1+1) ts) := by
  rw [parseSimple.eq_def (f+1), parseSimple.eq_def (f+1+1)]; dsimp only
  le_auto ih

theorem attrs_mono (ih : ExprMono f) (e ts) : Le (parseAttrs (f+1) e ts) (parseAttrs (f+1+1) e ts) := by
  rw [parseAttrs.eq_def (f+1), parseAttrs.eq_def (f+1+1)]; dsimp only
  le_auto ih

theorem map_mono (ih : ExprMono f) (ts) : Le (parseMap (f+1) ts) (parseMap (f+1+1) ts) := by
  rw [parseMap.eq_def (f+1), parseMap.eq_def (f+1+1)]; dsimp only
  le_auto ih

theorem mapLoop_mono (ih : ExprMono f) (ts) : Le (parseMapLoop (f+1) ts) (parseMapLoop (f+1+1) ts) := by
  rw [parseMapLoop.eq_def (f+1), parseMapLoop.eq_def (f+1+1)]; dsimp only
  le_auto ih

theorem exprMono : ∀ f, ExprMono f
  | 0 => by constructor <;> intros <;> exact Le.fuel _
  | f+1 =>
    have ih := exprMono f
    ⟨expr_mono ih, cond_mono ih, bp_mono ih, loop_mono ih, test_mono ih, args_mono ih, argsLoop_mono ih, operand_mono ih, suffix_mono ih, filters_mono ih, simple_mono ih, attrs_mono ih, map_mono ih, mapLoop_mono ih, subs_mono ih⟩

/-! ## the template parser: fuel `tokens + 1` is enough for every function -/

theorem good_expr (ts : List Token) : Good (· < ts.length) (parseExpression (exprFuel ts) ts) :=
  (exprGood _).expr ts (by unfold exprFuel; omega)

theorem good_expectK (k : Nat) (m : String) (ts : List Token) : Good (· < ts.length) (expectK k m ts) := by
  unfold expectK
  split
  · refine Good.ite (fun _ => ?_) (fun _ => Good.perr _)
    apply Good.ok; lomega
  · exact Good.perr _

theorem good_expectTag (n m : String) (ts : List Token) : Good (· < ts.length) (expectTag n m ts) := by
  unfold expectTag
  split
  · refine Good.ite (fun _ => ?_) (fun _ => Good.perr _)
    apply Good.ok; lomega
  · exact Good.perr _

theorem verbInner_len (endK ct sp) : ∀ (first : Bool) (ts : List Token) (s r),
    verbInner endK ct sp first ts = some (s, r) → r.length < ts.length
  | _, [], s, r, h => by simp [verbInner] at h
  | first, t :: ts, s, r, h => by
    rw [verbInner] at h
    split at h
    · cases h; lomega
    · dsimp only at h
      split at h
      · rename_i s' r' heq
        cases h
        have := verbInner_len endK ct sp false ts _ _ heq
        lomega
      · cases h

theorem good_verbBody : ∀ (f : Nat) (ts : List Token), ts.length + 1 ≤ f → Good (· ≤ ts.length) (verbBody f ts)
  | 0, ts, h => by omega
  | f+1, [], h => by rw [verbBody.eq_def]; exact Good.perr _
  | f+1, t :: r, h => by
    rw [verbBody.eq_def]; dsimp only
    refine Good.ite (fun _ => ?_) (fun _ => ?_)
    · refine Good.bind (good_expectK _ _ _) (fun r' hr => ?_)
      apply Good.pure; lomega
    · split
      · exact Good.perr _
      · rename_i s r' heq
        have hr' : r'.length ≤ r.length := by
          revert heq
          (repeat' split) <;> intro heq
          · cases heq; exact Nat.le_refl _
          all_goals first
            | (cases heq; exact Nat.le_refl _)
            | (simp only [Option.map_eq_some_iff] at heq
               obtain ⟨⟨s1, r1⟩, h1, h2⟩ := heq
               cases h2
               exact Nat.le_of_lt (verbInner_len _ _ _ _ _ _ _ h1))
        refine Good.ite (fun _ => Good.perr _) (fun _ => ?_)
        refine Good.bind (good_verbBody f r' (by lomega)) (fun x hx => ?_)
        apply Good.pure; lomega

theorem Good.pure_bind {α β} [HasRest β] {P : Nat → Prop} {a : α} {g : α → R β}
    (h : Good P (g a)) : Good P (Pure.pure a >>= g) := h

theorem Good.matchExcept {α β} [HasRest α] [HasRest β] {Q P : Nat → Prop} {x : R α} {g : α → R β}
    (hx : Good Q x) (hg : ∀ a, Q (rest a).length → Good P (g a)) :
    Good P (match x with | .ok a => g a | .error e => .error e) := by
  cases x with
  | error e => exact ⟨fun e' h => by cases h; exact hx.1 _ rfl, fun a h => by cases h⟩
  | ok a => exact hg a (hx.2 a rfl)

theorem dropWhile_len {α} (p : α → Bool) (l : List α) : (l.dropWhile p).length ≤ l.length := by
  have h := congrArg List.length (List.takeWhile_append_dropWhile (p := p) (l := l))
  rw [List.length_append] at h; omega

theorem dropWhile_cons_len {α} {p : α → Bool} {l : List α} {x : α} {y : List α}
    (h : l.dropWhile p = x :: y) : y.length < l.length := by
  have := dropWhile_len p l
  rw [h, List.length_cons] at this; omega

theorem Good.perr_bind {α β : Type} [HasRest β] {P : Nat → Prop} (m : String) (g : α → R β) :
    Good P ((Twig.perr m : R α) >>= g) :=
  ⟨(by intro e h; cases h; exact .inl ⟨m, rfl⟩), (by intro a h; cases h)⟩

theorem Good.len_of {α} [HasRest α] {P : Nat → Prop} {x : R α} {a : α} (h : Good P x) (hx : x = .ok a) :
    P (rest a).length := h.2 a hx

theorem Good.error_of {α β} [HasRest α] [HasRest β] {Q P : Nat → Prop} {x : R α} {e : Err}
    (h : Good Q x) (hx : x = .error e) : Good P (.error e : R β) :=
  ⟨(by intro e' h'; cases h'; exact h.1 _ hx), (by intro a h'; cases h')⟩

/-- fuel `f` is enough for every function of the template parser on every token list with
    `ts.length + 1 ≤ f` (every recursive call is on a strictly shorter list) -/
structure TplGood (f : Nat) : Prop where
  outer : ∀ ts, ts.length + 1 ≤ f → Good (· ≤ ts.length) (parseOuter f ts)
  tag : ∀ nm ts, ts.length + 1 ≤ f → Good (· ≤ ts.length) (parseTag f nm ts)
  ifTail : ∀ he ts, ts.length + 1 ≤ f → Good (· ≤ ts.length) (parseIfTail f he ts)
  inclOpts : ∀ o ts, ts.length + 1 ≤ f → Good (· ≤ ts.length) (parseIncludeOpts f o ts)
  withBraces : ∀ ts, ts.length + 1 ≤ f → Good (· ≤ ts.length) (parseWithBraces f ts)
  withPlain : ∀ ts, ts.length + 1 ≤ f → Good (· ≤ ts.length) (parseWithPlain f ts)
  macroParams : ∀ ts, ts.length + 1 ≤ f → Good (· ≤ ts.length) (parseMacroParams f ts)
  fromNames : ∀ ts, ts.length + 1 ≤ f → Good (· ≤ ts.length) (parseFromNames f ts)

theorem TplGood.withBracesDW {f} (ih : TplGood f) (p : Token → Bool) (ts : List Token) (h : ts.length + 1 ≤ f) :
    Good (· ≤ ts.length) (parseWithBraces f (ts.dropWhile p)) := by
  have := dropWhile_len p ts
  refine Good.mono (ih.withBraces _ (by omega)) (fun k hk => by omega)

/-- `lomega` after turning a `dropWhile … = x :: y` / `parseFromNames … = ok …` hypothesis into a length fact -/
macro "lomegaT" ih:ident : tactic => `(tactic| (
  (try (have := dropWhile_cons_len ‹List.dropWhile _ _ = _ :: _›));
  (try (have hfn := ‹parseFromNames _ _ = Except.ok _›; have := Good.len_of (($ih).fromNames _ (by lomega)) hfn));
  lomega))

macro "good_auto" ih:ident : tactic => `(tactic| repeat' first
  | with_reducible exact Good.perr _
  | with_reducible exact Good.unsup _
  | with_reducible exact Good.perr_bind _ _
  | ((with_reducible apply Good.pure); lomegaT $ih)
  | (have hfn := ‹parseFromNames _ _ = Except.error _›; (with_reducible refine Good.error_of (($ih).fromNames _ ?_) hfn); lomega)
  | with_reducible refine Good.ite (fun _ => ?_) (fun _ => ?_)
  | ((with_reducible refine Good.pure_bind ?_); try dsimp only)
  | ((with_reducible refine Good.bind (good_expr _) ?_); rintro ⟨_, _⟩ _; try dsimp only)
  | ((with_reducible refine Good.bind (good_expectK _ _ _) ?_); rintro _ _; try dsimp only)
  | ((with_reducible refine Good.bind (good_expectTag _ _ _) ?_); rintro _ _; try dsimp only)
  | ((with_reducible refine Good.bind (good_verbBody _ _ (Nat.le_refl _)) ?_); rintro ⟨_, _⟩ _; try dsimp only)
  | ((with_reducible refine Good.bind (($ih).outer _ ?_) ?_); lomega; rintro ⟨_, _⟩ _; try dsimp only)
  | ((with_reducible refine Good.bind (($ih).tag _ _ ?_) ?_); lomega; rintro ⟨_, _⟩ _; try dsimp only)
  | ((with_reducible refine Good.bind (($ih).ifTail _ _ ?_) ?_); lomega; rintro ⟨_, _⟩ _; try dsimp only)
  | ((with_reducible refine Good.bind (($ih).inclOpts _ _ ?_) ?_); lomega; rintro ⟨_, _⟩ _; try dsimp only)
  | ((with_reducible refine Good.bind (($ih).withBraces _ ?_) ?_); lomega; rintro ⟨_, _, _⟩ _; try dsimp only)
  | ((with_reducible refine Good.bind (($ih).withBracesDW _ _ ?_) ?_); lomega; rintro ⟨_, _, _⟩ _; try dsimp only)
  | ((with_reducible refine Good.bind (($ih).withPlain _ ?_) ?_); lomega; rintro ⟨_, _, _⟩ _; try dsimp only)
  | ((with_reducible refine Good.bind (($ih).macroParams _ ?_) ?_); lomega; rintro ⟨_, _, _, _⟩ _; try dsimp only)
  | ((with_reducible refine Good.bind (($ih).fromNames _ ?_) ?_); lomega; rintro ⟨_, _⟩ _; try dsimp only)
  | ((with_reducible refine Good.mono (($ih).outer _ ?_) (fun _ _ => ?_)) <;> lomegaT $ih)
  | ((with_reducible refine Good.mono (($ih).ifTail _ _ ?_) (fun _ _ => ?_)) <;> lomega)
  | ((with_reducible refine Good.mono (($ih).inclOpts _ _ ?_) (fun _ _ => ?_)) <;> lomega)
  | ((with_reducible refine Good.mono (($ih).fromNames _ ?_) (fun _ _ => ?_)) <;> lomega)
  | split)

theorem outer_step (ih : TplGood f) : ∀ (ts : List Token), ts.length + 1 ≤ f + 1 →
    Good (· ≤ ts.length) (parseOuter (f+1) ts)
  | [], _ => by rw [parseOuter.eq_def]; exact Good.pure (Nat.le_refl _)
  | t :: r, h => by
    rw [parseOuter.eq_def]; dsimp only
    good_auto ih

theorem tag_step (ih : TplGood f) (nm ts) (h : ts.length + 1 ≤ f + 1) :
    Good (· ≤ ts.length) (parseTag (f+1) nm ts) := by
  rw [parseTag.eq_def]; dsimp only
  good_auto ih

theorem ifTail_step (ih : TplGood f) (he ts) (h : ts.length + 1 ≤ f + 1) :
    Good (· ≤ ts.length) (parseIfTail (f+1) he ts) := by
  rw [parseIfTail.eq_def]; dsimp only
  good_auto ih

theorem inclOpts_step (ih : TplGood f) (o ts) (h : ts.length + 1 ≤ f + 1) :
    Good (· ≤ ts.length) (parseIncludeOpts (f+1) o ts) := by
  rw [parseIncludeOpts.eq_def]; dsimp only
  good_auto ih

theorem withBraces_step (ih : TplGood f) (ts) (h : ts.length + 1 ≤ f + 1) :
    Good (· ≤ ts.length) (parseWithBraces (f+1) ts) := by
  rw [parseWithBraces.eq_def]; dsimp only
  good_auto ih

theorem withPlain_step (ih : TplGood f) (ts) (h : ts.length + 1 ≤ f + 1) :
    Good (· ≤ ts.length) (parseWithPlain (f+1) ts) := by
  rw [parseWithPlain.eq_def]; dsimp only
  good_auto ih

theorem macroParams_step (ih : TplGood f) (ts) (h : ts.length + 1 ≤ f + 1) :
    Good (· ≤ ts.length) (parseMacroParams (f+1) ts) := by
  rw [parseMacroParams.eq_def]; dsimp only
  good_auto ih

theorem fromNames_step (ih : TplGood f) (ts) (h : ts.length + 1 ≤ f + 1) :
    Good (· ≤ ts.length) (parseFromNames (f+1) ts) := by
  rw [parseFromNames.eq_def]; dsimp only
  good_auto ih

theorem tplGood : ∀ f, TplGood f
  | 0 => by constructor <;> intros <;> omega
  | f+1 =>
    have ih := tplGood f
    ⟨outer_step ih, tag_step ih, ifTail_step ih, inclOpts_step ih, withBraces_step ih, withPlain_step ih, macroParams_step ih, fromNames_step ih⟩

/-! ## the template parser: more fuel never changes a non-fuel result -/

theorem Le.ok_of {α} {x y : R α} {a : α} (h : Le x y) (hx : x = .ok a) : y = .ok a := by
  rcases h with h | h
  · rw [h] at hx; cases hx
  · rw [← h]; exact hx

theorem Le.error_of {α} {x y : R α} {e : Err} (h : Le x y) (hx : x = .error e) : e = .fuel ∨ y = .error e := by
  rcases h with h | h
  · rw [h] at hx; cases hx; exact .inl rfl
  · rw [← h]; exact .inr hx

/-- one more unit of fuel: each function either ran out of fuel or returns the same -/
structure TplMono (f : Nat) : Prop where
  outer : ∀ ts, Le (parseOuter f ts) (parseOuter (f+1) ts)
  tag : ∀ nm ts, Le (parseTag f nm ts) (parseTag (f+1) nm ts)
  ifTail : ∀ he ts, Le (parseIfTail f he ts) (parseIfTail (f+1) he ts)
  inclOpts : ∀ o ts, Le (parseIncludeOpts f o ts) (parseIncludeOpts (f+1) o ts)
  withBraces : ∀ ts, Le (parseWithBraces f ts) (parseWithBraces (f+1) ts)
  withPlain : ∀ ts, Le (parseWithPlain f ts) (parseWithPlain (f+1) ts)
  macroParams : ∀ ts, Le (parseMacroParams f ts) (parseMacroParams (f+1) ts)
  fromNames : ∀ ts, Le (parseFromNames f ts) (parseFromNames (f+1) ts)

macro "le_autoT" ih:ident : tactic => `(tactic| repeat' first
  | with_reducible exact Le.refl (pure _)
  | with_reducible exact Le.refl (perr _)
  | with_reducible exact Le.refl (Except.error _)
  | with_reducible exact Le.refl (parseExpression _ _)
  | with_reducible exact Le.refl (expectK _ _ _)
  | with_reducible exact Le.refl (expectTag _ _ _)
  | with_reducible exact Le.refl (verbBody _ _)
  | with_reducible exact ($ih).outer _ | with_reducible exact ($ih).tag _ _
  | with_reducible exact ($ih).ifTail _ _ | with_reducible exact ($ih).inclOpts _ _
  | with_reducible exact ($ih).withBraces _ | with_reducible exact ($ih).withPlain _
  | with_reducible exact ($ih).macroParams _ | with_reducible exact ($ih).fromNames _
  | with_reducible refine Le.ite ?_ ?_
  | (with_reducible refine Le.bind ?_ (fun _ => ?_))
  | (have h1 := ‹parseFromNames _ _ = Except.ok _›; rw [Le.ok_of (($ih).fromNames _) h1]; try dsimp only)
  | (have h1 := ‹parseFromNames _ _ = Except.error _›
     rcases Le.error_of (($ih).fromNames _) h1 with h2 | h2
     · (subst h2; exact Le.fuel _)
     · (rw [h2]; exact Le.refl _))
  | split)

theorem outer_mono (ih : TplMono f) : ∀ (ts : List Token), Le (parseOuter (f+1) ts) (parseOuter (f+1+1) ts)
  | [] => by rw [parseOuter.eq_def (f+1), parseOuter.eq_def (f+1+1)]; exact Le.refl _
  | t :: r => by
    rw [parseOuter.eq_def (f+1), parseOuter.eq_def (f+1+1)]; dsimp only
    le_autoT ih

theorem tag_monoT (ih : TplMono f) (nm ts) : Le (parseTag (f+1) nm ts) (parseTag (f+1+1) nm ts) := by
  rw [parseTag.eq_def (f+1), parseTag.eq_def (f+1+1)]; dsimp only
  le_autoT ih

theorem ifTail_monoT (ih : TplMono f) (he ts) : Le (parseIfTail (f+1) he ts) (parseIfTail (f+1+1) he ts) := by
  rw [parseIfTail.eq_def (f+1), parseIfTail.eq_def (f+1+1)]; dsimp only
  le_autoT ih

theorem inclOpts_monoT (ih : TplMono f) (o ts) : Le (parseIncludeOpts (f+1) o ts) (parseIncludeOpts (f+1+1) o ts) := by
  rw [parseIncludeOpts.eq_def (f+1), parseIncludeOpts.eq_def (f+1+1)]; dsimp only
  le_autoT ih

theorem withBraces_monoT (ih : TplMono f) (ts) : Le (parseWithBraces (f+1) ts) (parseWithBraces (f+1+1) ts) := by
  rw [parseWithBraces.eq_def (f+1), parseWithBraces.eq_def (f+1+1)]; dsimp only
  le_autoT ih

theorem withPlain_monoT (ih : TplMono f) (ts) : Le (parseWithPlain (f+1) ts) (parseWithPlain (f+1+1) ts) := by
  rw [parseWithPlain.eq_def (f+1), parseWithPlain.eq_def (f+1+1)]; dsimp only
  le_autoT ih

theorem macroParams_monoT (ih : TplMono f) (ts) : Le (parseMacroParams (f+1) ts) (parseMacroParams (f+1+1) ts) := by
  rw [parseMacroParams.eq_def (f+1), parseMacroParams.eq_def (f+1+1)]; dsimp only
  le_autoT ih

theorem fromNames_monoT (ih : TplMono f) (ts) : Le (parseFromNames (f+1) ts) (parseFromNames (f+1+1) ts) := by
  rw [parseFromNames.eq_def (f+1), parseFromNames.eq_def (f+1+1)]; dsimp only
  le_autoT ih

theorem tplMono : ∀ f, TplMono f
  | 0 => by constructor <;> intros <;> exact Le.fuel _
  | f+1 =>
    have ih := tplMono f
    ⟨outer_mono ih, tag_monoT ih, ifTail_monoT ih, inclOpts_monoT ih, withBraces_monoT ih, withPlain_monoT ih, macroParams_monoT ih, fromNames_monoT ih⟩

/-! ## iterating one-step monotonicity -/

theorem Le.iter {α} (F : Nat → R α) (h : ∀ f, Le (F f) (F (f+1))) {f f' : Nat} (hf : f ≤ f')
    (hne : F f ≠ .error .fuel) : F f' = F f := by
  induction f' with
  | zero => have : f = 0 := by omega
            subst this; rfl
  | succ k ih =>
    by_cases hk : f ≤ k
    · have e := ih hk
      have := (h k).eq (by rw [e]; exact hne)
      rw [this, e]
    · have : f = k + 1 := by omega
      subst this; rfl

/-- every function of the block returns, with fuel `f' ≥ f`, what it returned with fuel `f`, unless that was the fuel error -/
structure ExprStable (f f' : Nat) : Prop where
  expr : ∀ ts, parseExpression f ts ≠ .error .fuel → parseExpression f' ts = parseExpression f ts
  cond : ∀ c ts, parseConditional f c ts ≠ .error .fuel → parseConditional f' c ts = parseConditional f c ts
  bp : ∀ p ts, parseBinaryPrec f p ts ≠ .error .fuel → parseBinaryPrec f' p ts = parseBinaryPrec f p ts
  loop : ∀ p l ts, parseLoop f p l ts ≠ .error .fuel → parseLoop f' p l ts = parseLoop f p l ts
  test : ∀ l neg nm ts, parseTest f l neg nm ts ≠ .error .fuel → parseTest f' l neg nm ts = parseTest f l neg nm ts
  args : ∀ c m ts, parseArgs f c m ts ≠ .error .fuel → parseArgs f' c m ts = parseArgs f c m ts
  argsLoop : ∀ c m ts, parseArgsLoop f c m ts ≠ .error .fuel → parseArgsLoop f' c m ts = parseArgsLoop f c m ts
  operand : ∀ ts, parseOperand f ts ≠ .error .fuel → parseOperand f' ts = parseOperand f ts
  suffix : ∀ e ts, parseSuffix f e ts ≠ .error .fuel → parseSuffix f' e ts = parseSuffix f e ts
  filters : ∀ e ts, parseFilters f e ts ≠ .error .fuel → parseFilters f' e ts = parseFilters f e ts
  simple : ∀ ts, parseSimple f ts ≠ .error .fuel → parseSimple f' ts = parseSimple f ts
  attrs : ∀ e ts, parseAttrs f e ts ≠ .error .fuel → parseAttrs f' e ts = parseAttrs f e ts
  map : ∀ ts, parseMap f ts ≠ .error .fuel → parseMap f' ts = parseMap f ts
  mapLoop : ∀ ts, parseMapLoop f ts ≠ .error .fuel → parseMapLoop f' ts = parseMapLoop f ts
  subs : ∀ e ts, parseSubs f e ts ≠ .error .fuel → parseSubs f' e ts = parseSubs f e ts

theorem exprStable {f f' : Nat} (h : f ≤ f') : ExprStable f f' :=
  ⟨fun ts hne => Le.iter (fun k => parseExpression k ts) (fun k => (exprMono k).expr ts) h hne,
   fun c ts hne => Le.iter (fun k => parseConditional k c ts) (fun k => (exprMono k).cond c ts) h hne,
   fun p ts hne => Le.iter (fun k => parseBinaryPrec k p ts) (fun k => (exprMono k).bp p ts) h hne,
   fun p l ts hne => Le.iter (fun k => parseLoop k p l ts) (fun k => (exprMono k).loop p l ts) h hne,
   fun l neg nm ts hne => Le.iter (fun k => parseTest k l neg nm ts) (fun k => (exprMono k).test l neg nm ts) h hne,
   fun c m ts hne => Le.iter (fun k => parseArgs k c m ts) (fun k => (exprMono k).args c m ts) h hne,
   fun c m ts hne => Le.iter (fun k => parseArgsLoop k c m ts) (fun k => (exprMono k).argsLoop c m ts) h hne,
   fun ts hne => Le.iter (fun k => parseOperand k ts) (fun k => (exprMono k).operand ts) h hne,
   fun e ts hne => Le.iter (fun k => parseSuffix k e ts) (fun k => (exprMono k).suffix e ts) h hne,
   fun e ts hne => Le.iter (fun k => parseFilters k e ts) (fun k => (exprMono k).filters e ts) h hne,
   fun ts hne => Le.iter (fun k => parseSimple k ts) (fun k => (exprMono k).simple ts) h hne,
   fun e ts hne => Le.iter (fun k => parseAttrs k e ts) (fun k => (exprMono k).attrs e ts) h hne,
   fun ts hne => Le.iter (fun k => parseMap k ts) (fun k => (exprMono k).map ts) h hne,
   fun ts hne => Le.iter (fun k => parseMapLoop k ts) (fun k => (exprMono k).mapLoop ts) h hne,
   fun e ts hne => Le.iter (fun k => parseSubs k e ts) (fun k => (exprMono k).subs e ts) h hne⟩

/-- every function of the block returns, with fuel `f' ≥ f`, what it returned with fuel `f`, unless that was the fuel error -/
structure TplStable (f f' : Nat) : Prop where
  outer : ∀ ts, parseOuter f ts ≠ .error .fuel → parseOuter f' ts = parseOuter f ts
  tag : ∀ nm ts, parseTag f nm ts ≠ .error .fuel → parseTag f' nm ts = parseTag f nm ts
  ifTail : ∀ he ts, parseIfTail f he ts ≠ .error .fuel → parseIfTail f' he ts = parseIfTail f he ts
  inclOpts : ∀ o ts, parseIncludeOpts f o ts ≠ .error .fuel → parseIncludeOpts f' o ts = parseIncludeOpts f o ts
  withBraces : ∀ ts, parseWithBraces f ts ≠ .error .fuel → parseWithBraces f' ts = parseWithBraces f ts
  withPlain : ∀ ts, parseWithPlain f ts ≠ .error .fuel → parseWithPlain f' ts = parseWithPlain f ts
  macroParams : ∀ ts, parseMacroParams f ts ≠ .error .fuel → parseMacroParams f' ts = parseMacroParams f ts
  fromNames : ∀ ts, parseFromNames f ts ≠ .error .fuel → parseFromNames f' ts = parseFromNames f ts

theorem tplStable {f f' : Nat} (h : f ≤ f') : TplStable f f' :=
  ⟨fun ts hne => Le.iter (fun k => parseOuter k ts) (fun k => (tplMono k).outer ts) h hne,
   fun nm ts hne => Le.iter (fun k => parseTag k nm ts) (fun k => (tplMono k).tag nm ts) h hne,
   fun he ts hne => Le.iter (fun k => parseIfTail k he ts) (fun k => (tplMono k).ifTail he ts) h hne,
   fun o ts hne => Le.iter (fun k => parseIncludeOpts k o ts) (fun k => (tplMono k).inclOpts o ts) h hne,
   fun ts hne => Le.iter (fun k => parseWithBraces k ts) (fun k => (tplMono k).withBraces ts) h hne,
   fun ts hne => Le.iter (fun k => parseWithPlain k ts) (fun k => (tplMono k).withPlain ts) h hne,
   fun ts hne => Le.iter (fun k => parseMacroParams k ts) (fun k => (tplMono k).macroParams ts) h hne,
   fun ts hne => Le.iter (fun k => parseFromNames k ts) (fun k => (tplMono k).fromNames ts) h hne⟩

/-! ## the lexer and `strings.TrimSpace` loops: fuel ≥ length is enough -/

theorem trimLeftGo_succ : ∀ (f : Nat) (s : Bytes), s.length ≤ f → trimLeftGo (f+1) s = trimLeftGo f s
  | 0, s, h => by
    have : s = [] := List.eq_nil_of_length_eq_zero (by omega)
    subst this; rfl
  | f+1, s, h => by
    rw [trimLeftGo, trimLeftGo]
    split
    · rfl
    · rename_i hn
      have hs : s.length ≠ 0 := by
        intro h0
        have : s = [] := List.eq_nil_of_length_eq_zero h0
        subst this; exact hn rfl
      have hn' : leadSpaceLen s ≠ 0 := hn
      refine trimLeftGo_succ f _ ?_
      rw [List.length_drop]
      generalize leadSpaceLen s = n at *
      generalize List.length s = L at *
      omega

theorem trimRightRev_succ : ∀ (f : Nat) (s : Bytes), s.length ≤ f → trimRightRev (f+1) s = trimRightRev f s
  | 0, s, h => by
    have : s = [] := List.eq_nil_of_length_eq_zero (by omega)
    subst this; rfl
  | f+1, s, h => by
    rw [trimRightRev, trimRightRev]
    split
    · rfl
    · rename_i hn
      have hs : s.length ≠ 0 := by
        intro h0
        have : s = [] := List.eq_nil_of_length_eq_zero h0
        subst this; exact hn rfl
      have hn' : trailSpaceLen s ≠ 0 := hn
      refine trimRightRev_succ f _ ?_
      rw [List.length_drop]
      generalize trailSpaceLen s = n at *
      generalize List.length s = L at *
      omega

theorem fuel_stable {α : Type} (F : Nat → α) (n : Nat) (h : ∀ f, n ≤ f → F (f+1) = F f) :
    ∀ f, n ≤ f → F f = F n := by
  intro f hf
  induction f with
  | zero => have : n = 0 := by omega
            subst this; rfl
  | succ k ih =>
    by_cases hk : n ≤ k
    · rw [h k hk]; exact ih hk
    · have : n = k + 1 := by omega
      subst this; rfl

theorem trimLeftGo_fuel (s : Bytes) (f : Nat) (h : s.length ≤ f) : trimLeftGo f s = trimLeftGo s.length s :=
  fuel_stable (fun f => trimLeftGo f s) s.length (fun f hf => trimLeftGo_succ f s hf) f h

theorem trimRightRev_fuel (s : Bytes) (f : Nat) (h : s.length ≤ f) : trimRightRev f s = trimRightRev s.length s :=
  fuel_stable (fun f => trimRightRev f s) s.length (fun f hf => trimRightRev_succ f s hf) f h

theorem lexAux_succ : ∀ (f : Nat) (s : Bytes), s.length ≤ f → ∀ m p, lexAux (f+1) m p s = lexAux f m p s
  | 0, s, h, m, p => by
    have : s = [] := List.eq_nil_of_length_eq_zero (by omega)
    subst this; rw [lexAux.eq_def, lexAux.eq_def]
  | f+1, [], h, m, p => by rw [lexAux.eq_def, lexAux.eq_def]
  | f+1, c :: r, h, m, p => by
    have ih : ∀ (s' : Bytes), s'.length ≤ r.length → ∀ m p, lexAux (f+1) m p s' = lexAux f m p s' :=
      fun s' hs' m p => lexAux_succ f s' (by simp at h; omega) m p
    rw [lexAux.eq_def (f+1+1), lexAux.eq_def (f+1)]
    dsimp only
    have hdw : ∀ q : UInt8 → Bool, (r.dropWhile q).length ≤ r.length := fun q => dropWhile_len q r
    split
    · split
      · rw [ih r (Nat.le_refl _)]
      · rw [ih r (Nat.le_refl _)]
    · split
      · rw [ih r (Nat.le_refl _)]
      split
      · split
        · split
          · rw [ih _ (by simp)]
          · rw [ih _ (Nat.le_refl _)]
        · rfl
      split
      · rw [ih r (Nat.le_refl _)]
      split
      · rw [ih r (Nat.le_refl _)]
      split
      · rw [ih _ (hdw _)]
      split
      · split
        · rename_i r2 heq
          have h1 := hdw isDigit
          rw [heq] at h1
          have h2 := dropWhile_len isDigit r2
          rw [ih _ (by simp at h1; omega)]
        · rw [ih _ (hdw _)]
      · rw [ih r (Nat.le_refl _)]

theorem lexAux_fuel (s : Bytes) (m p) (f : Nat) (h : s.length ≤ f) : lexAux f m p s = lexAux s.length m p s :=
  fuel_stable (fun f => lexAux f m p s) s.length (fun f hf => lexAux_succ f s hf m p) f h

/-! ## rendering: `Err.fuel` only comes out of a cross-template transfer -/

/-- "not the fuel error" -/
def NF {α} (x : R α) : Prop := x ≠ .error .fuel

theorem NF.ok {α} (a : α) : NF (.ok a : R α) := by intro h; cases h
theorem NF.pure {α} (a : α) : NF (Pure.pure a : R α) := by intro h; cases h
theorem NF.rerr {α} (m : String) : NF (Twig.rerr m : R α) := by intro h; cases h
theorem NF.unsup {α} (m : String) : NF (Twig.unsup m : R α) := by intro h; cases h
theorem NF.secErr {α} (m : String) : NF (Twig.secErr m : R α) := by intro h; cases h
theorem NF.err {α} (c : ErrClass) (l : List Nat) (m : String) : NF (.error (.error c l m) : R α) := by
  intro h; cases h
theorem NF.unsupE {α} (m : String) : NF (.error (.unsupported m) : R α) := by intro h; cases h

theorem NF.bind {α β} {x : R α} {g : α → R β} (hx : NF x) (hg : ∀ a, NF (g a)) : NF (x >>= g) := by
  cases x with
  | error e => intro h; have h' : (Except.error e : R β) = .error .fuel := h; cases h'; exact hx rfl
  | ok a => exact hg a

theorem NF.ite {α} {c : Prop} [Decidable c] {x y : R α} (hx : NF x) (hy : NF y) : NF (if c then x else y) := by
  split
  · exact hx
  · exact hy

theorem NF.of_eq {α β} {x : R α} {e : Err} (hx : NF x) (h : x = .error e) : NF (.error e : R β) := by
  intro h'; cases h'; exact hx h

macro "nf_core" : tactic => `(tactic| first
  | with_reducible exact NF.ok _
  | with_reducible exact NF.pure _
  | with_reducible exact NF.rerr _
  | with_reducible exact NF.unsup _
  | with_reducible exact NF.secErr _
  | with_reducible exact NF.err _ _ _
  | with_reducible exact NF.unsupE _
  | assumption
  | with_reducible refine NF.ite ?_ ?_
  | (with_reducible refine NF.bind ?_ (fun _ => ?_)))

theorem nf_num (i : Int) : NF (num i) := by unfold num; repeat' first | nf_core | split

theorem nf_toNumber (v : Val) : NF (toNumber v) := by
  unfold toNumber; repeat' first | nf_core | split

mutual
theorem nf_fmtV : ∀ v : Val, NF (fmtV v)
  | .null => by rw [fmtV]; nf_core
  | .bool _ => by rw [fmtV]; nf_core
  | .int _ => by rw [fmtV]; nf_core
  | .str _ => by rw [fmtV]; nf_core
  | .list xs => by rw [fmtV]; exact NF.bind (nf_fmtVs xs) (fun _ => NF.ok _)
  | .map kvs => by rw [fmtV]; exact NF.bind (nf_fmtKVs kvs) (fun _ => NF.ok _)
  | .macro _ _ => by simp only [fmtV]; nf_core
  | .callable _ _ _ => by simp only [fmtV]; nf_core
  | .parentFn => by simp only [fmtV]; nf_core
theorem nf_fmtVs : ∀ vs : List Val, NF (fmtVs vs)
  | [] => by rw [fmtVs]; nf_core
  | [x] => by rw [fmtVs]; exact nf_fmtV x
  | x :: y :: r => by
    simp only [fmtVs]; exact NF.bind (nf_fmtV x) (fun _ => NF.bind (nf_fmtVs (y :: r)) (fun _ => NF.ok _))
theorem nf_fmtKVs : ∀ kvs : List (Bytes × Val), NF (fmtKVs kvs)
  | [] => by rw [fmtKVs]; nf_core
  | [(k, v)] => by rw [fmtKVs]; exact NF.bind (nf_fmtV v) (fun _ => NF.ok _)
  | (k, v) :: y :: r => by
    simp only [fmtKVs]; exact NF.bind (nf_fmtV v) (fun _ => NF.bind (nf_fmtKVs (y :: r)) (fun _ => NF.ok _))
end

theorem nf_toStr (v : Val) : NF (toStr v) := by
  unfold toStr; split <;> first | nf_core | exact nf_fmtV _

macro "nf_auto" : tactic => `(tactic| repeat' first
  | nf_core
  | with_reducible exact nf_num _
  | with_reducible exact nf_toNumber _
  | with_reducible exact nf_toStr _
  | split)

theorem nf_valEquals (a c : Val) : NF (valEquals a c) := by unfold valEquals; nf_auto

theorem nf_anyM {α} (p : α → R Bool) (hp : ∀ a, NF (p a)) : ∀ l : List α, NF (anyM p l)
  | [] => by rw [anyM]; nf_core
  | x :: r => by
    rw [anyM]; refine NF.bind (hp x) (fun _ => ?_)
    split
    · nf_core
    · exact nf_anyM p hp r

theorem nf_valContains (c i : Val) : NF (valContains c i) := by
  unfold valContains
  repeat' first | nf_core | exact nf_toStr _ | exact nf_anyM _ (fun _ => nf_valEquals _ _) _ | split

theorem nf_arith (l r : Val) (f : Int → Int → R Val) (hf : ∀ x y, NF (f x y)) : NF (arith l r f) := by
  unfold arith; repeat' first | nf_core | exact nf_toNumber _ | exact hf _ _ | split

theorem nf_cmp (l r : Val) (f : Int → Int → Bool) : NF (cmp l r f) := by
  unfold cmp; nf_auto

theorem nf_binop (op : BinOp) (l r : Val) : NF (binop op l r) := by
  unfold binop
  split
  all_goals first
    | exact nf_cmp _ _ _
    | (refine nf_arith _ _ _ (fun _ _ => ?_); nf_auto)
    | (repeat' first | nf_core | exact nf_num _ | exact nf_toNumber _ | exact nf_toStr _
                     | exact nf_valEquals _ _ | exact nf_valContains _ _ | split)

theorem nf_toIntV (v : Val) : NF (toIntV v) := by unfold toIntV; nf_auto

theorem nf_mapM' {α β} (f : α → R β) (hf : ∀ a, NF (f a)) : ∀ l : List α, NF (mapM' f l)
  | [] => by rw [mapM']; nf_core
  | x :: r => by
    rw [mapM']; exact NF.bind (hf x) (fun _ => NF.bind (nf_mapM' f hf r) (fun _ => NF.ok _))

theorem nf_runeCount (s : Bytes) : NF (runeCount s) := by unfold runeCount; nf_auto

theorem nf_resOfFlt (r : Flt.Res) : NF (resOfFlt r) := by unfold resOfFlt; nf_auto

theorem nf_sliceIntArg (a : Val) : NF (sliceIntArg a) := by unfold sliceIntArg; nf_auto

theorem nf_sliceFilter (v : Val) (a : List Val) : NF (sliceFilter v a) := by
  unfold sliceFilter
  repeat' first | nf_core | with_reducible exact nf_sliceIntArg _ | split

theorem nf_sortFilter (v : Val) : NF (sortFilter v) := by
  unfold sortFilter
  repeat' first | nf_core | with_reducible exact nf_resOfFlt _ | split

theorem nf_splitFilter (v : Val) (a : List Val) : NF (splitFilter v a) := by
  unfold splitFilter
  repeat' first | nf_core | with_reducible exact nf_resOfFlt _ | split

theorem nf_capitalizeFilter (v : Val) : NF (capitalizeFilter v) := by unfold capitalizeFilter; nf_auto

/-- for the `Option (R _)` tables of built-ins -/
def NFO {α} (o : Option (R α)) : Prop := ∀ r, o = some r → NF r
theorem NFO.none {α} : NFO (none : Option (R α)) := by intro r h; cases h
theorem NFO.some {α} {r : R α} (h : NF r) : NFO (some r) := by intro r' h'; cases h'; exact h
theorem NFO.ite {α} {c : Prop} [Decidable c] {x y : Option (R α)} (hx : NFO x) (hy : NFO y) :
    NFO (if c then x else y) := by
  split
  · exact hx
  · exact hy

macro "nf_leaf" : tactic => `(tactic| repeat' first
  | nf_core
  | with_reducible exact nf_num _
  | with_reducible exact nf_toNumber _
  | with_reducible exact nf_toStr _
  | with_reducible exact nf_toIntV _
  | with_reducible exact nf_runeCount _
  | with_reducible exact nf_mapM' _ nf_toStr _
  | with_reducible exact nf_sliceFilter _ _
  | with_reducible exact nf_sortFilter _
  | with_reducible exact nf_splitFilter _ _
  | with_reducible exact nf_capitalizeFilter _
  | split)

theorem nf_builtinFilter (n : Bytes) (v : Val) (a : List Val) : NFO (builtinFilter n v a) := by
  unfold builtinFilter
  repeat' first | exact NFO.none | refine NFO.ite ?_ ?_ | refine NFO.some ?_
  all_goals nf_leaf

theorem nf_builtinFunction (n : Bytes) (a : List Val) : NFO (builtinFunction n a) := by
  unfold builtinFunction
  repeat' first | exact NFO.none | refine NFO.ite ?_ ?_ | refine NFO.some ?_
  all_goals nf_leaf

theorem nf_builtinTest (n : Bytes) (v : Val) (a : List Val) : NFO (builtinTest n v a) := by
  unfold builtinTest
  repeat' first | exact NFO.none | refine NFO.ite ?_ ?_ | refine NFO.some ?_
  all_goals nf_leaf

theorem nf_invokeSpy (E : Env) (k n st) : NF (invokeSpy E k n st) := by unfold invokeSpy; nf_leaf

theorem nf_allowedCheck (E : Env) (st a n w) : NF (allowedCheck E st a n w) := by unfold allowedCheck; nf_leaf

theorem nf_applyFilter (E : Env) (n v a st) : NF (applyFilter E n v a st) := by
  unfold applyFilter
  repeat' first | nf_core | exact nf_invokeSpy _ _ _ _ | exact nf_builtinFilter _ _ _ _ ‹_› | split

theorem nf_applyChain (E : Env) : ∀ ch v st, NF (applyChain E ch v st)
  | [], v, st => by rw [applyChain]; nf_core
  | (n, a) :: r, v, st => by
    rw [applyChain]; exact NF.bind (nf_applyFilter E n v a st) (fun _ => nf_applyChain E r _ _)

theorem nf_callFunction (E : Env) (n a st) : NF (callFunction E n a st) := by
  unfold callFunction
  repeat' first | nf_core | exact nf_invokeSpy _ _ _ _ | exact nf_builtinFunction _ _ _ ‹_› | split

theorem nf_getItem (c i : Val) : NF (getItem c i) := by unfold getItem; nf_leaf

theorem nf_forItems (v : Val) : NF (forItems v) := by unfold forItems; nf_leaf

theorem nf_bindFrom (lib) : ∀ names acc, NF (bindFrom lib names acc)
  | [], acc => by rw [bindFrom]; nf_core
  | (m, t) :: r, acc => by
    rw [bindFrom]; split
    · exact nf_bindFrom lib r _
    · nf_core

macro "nf_eval" : tactic => `(tactic| repeat' first
  | nf_core
  | with_reducible exact nf_toNumber _
  | with_reducible exact nf_toStr _
  | with_reducible exact nf_binop _ _ _
  | with_reducible exact nf_getItem _ _
  | with_reducible exact nf_allowedCheck _ _ _ _ _
  | with_reducible exact nf_applyChain _ _ _ _
  | with_reducible exact nf_callFunction _ _ _ _
  | with_reducible exact nf_invokeSpy _ _ _ _
  | exact nf_builtinTest _ _ _ _ ‹_›
  | split)

mutual
theorem nf_evalX (E : Env) : ∀ (ap : Bool) (e : Expr) (st : St), NF (evalX E ap e st)
  | _, .null, st => by simp only [evalX]; nf_core
  | _, .bool _, st => by simp only [evalX]; nf_core
  | _, .int _, st => by simp only [evalX]; nf_core
  | _, .str _, st => by simp only [evalX]; nf_core
  | _, .unsup _, st => by simp only [evalX]; nf_core
  | _, .var n, st => by simp only [evalX]; nf_eval
  | _, .unary op e, st => by
    simp only [evalX]
    refine NF.bind (nf_evalX E true e st) (fun _ => ?_)
    nf_eval
  | _, .binary op l r, st => by
    simp only [evalX]
    refine NF.bind (nf_evalX E true l st) (fun _ => ?_)
    refine NF.ite (NF.pure _) (NF.ite (NF.pure _) ?_)
    refine NF.bind (nf_evalX E true r _) (fun _ => ?_)
    nf_eval
  | _, .badBinary l r, st => by
    simp only [evalX]
    refine NF.bind (nf_evalX E true l st) (fun _ => ?_)
    refine NF.bind (nf_evalX E true r _) (fun _ => ?_)
    nf_eval
  | _, .cond c t f, st => by
    simp only [evalX]
    refine NF.bind (nf_evalX E true c st) (fun _ => ?_)
    exact NF.ite (nf_evalX E true t _) (nf_evalX E true f _)
  | _, .attr e name, st => by
    simp only [evalX]
    exact NF.bind (nf_evalX E true e st) (fun _ => NF.pure _)
  | _, .item e i, st => by
    simp only [evalX]
    refine NF.bind (nf_evalX E true e st) (fun _ => ?_)
    refine NF.bind (nf_evalX E true i _) (fun _ => ?_)
    nf_eval
  | ap, .filter e name args, st => by
    simp only [evalX]
    repeat' first
      | nf_core
      | with_reducible exact nf_allowedCheck _ _ _ _ _
      | with_reducible exact nf_evalArgs E args _
      | with_reducible exact nf_evalX E false e _
      | with_reducible exact nf_applyChain _ _ _ _
      | split
  | _, .call name args, st => by
    simp only [evalX]
    refine NF.bind (nf_allowedCheck _ _ _ _ _) (fun _ => ?_)
    split
    · exact NF.bind (nf_evalArgs E args st) (fun _ => NF.pure _)
    · refine NF.bind (nf_evalArgs E args st) (fun _ => ?_)
      nf_eval
  | _, .mcall obj name args, st => by
    simp only [evalX]
    refine NF.bind (nf_allowedCheck _ _ _ _ _) (fun _ => ?_)
    refine NF.bind (nf_evalX E true obj st) (fun _ => ?_)
    refine NF.bind (nf_evalArgs E args _) (fun _ => ?_)
    nf_eval
  | ap, .test e name args, st => by
    cases e
    case attr obj a =>
      simp only [evalX]
      split
      · split
        · nf_core
        · rename_i heq
          exact NF.of_eq (nf_evalX E true obj st) heq
        · nf_eval
      · refine NF.bind (nf_evalX E true (.attr obj a) st) (fun _ => ?_)
        refine NF.bind (nf_evalArgs E args _) (fun _ => ?_)
        nf_eval
    case var n =>
      simp only [evalX]
      split
      · nf_eval
      · refine NF.bind ?_ (fun _ => ?_)
        · nf_eval
        refine NF.bind (nf_evalArgs E args _) (fun _ => ?_)
        nf_eval
    all_goals
      rw [evalX.eq_18 E ap st _ name args (by intro _ _ hh; cases hh) (by intro _ hh; cases hh)]
      split
      · refine NF.bind (nf_evalX E true _ st) (fun _ => ?_)
        refine NF.bind (nf_evalArgs E args _) (fun _ => ?_)
        nf_eval
      · refine NF.bind (nf_evalX E true _ st) (fun _ => ?_)
        refine NF.bind (nf_evalArgs E args _) (fun _ => ?_)
        nf_eval
  | _, .array items, st => by
    simp only [evalX]
    exact NF.bind (nf_evalArgs E items st) (fun _ => NF.pure _)
  | _, .hash items, st => by
    simp only [evalX]
    exact NF.bind (nf_evalPairs E items st) (fun _ => NF.pure _)

theorem nf_evalArgs (E : Env) : ∀ (es : List Expr) (st : St), NF (evalArgs E es st)
  | [], st => by simp only [evalArgs]; nf_core
  | e :: es, st => by
    simp only [evalArgs]
    exact NF.bind (nf_evalX E true e st) (fun _ => NF.bind (nf_evalArgs E es _) (fun _ => NF.pure _))

theorem nf_evalPairs (E : Env) : ∀ (es : List Expr) (st : St), NF (evalPairs E es st)
  | [], st => by simp only [evalPairs]; nf_core
  | [_], st => by simp only [evalPairs]; nf_core
  | k :: v :: es, st => by
    simp only [evalPairs]
    refine NF.bind (nf_evalX E true k st) (fun _ => ?_)
    refine NF.bind (nf_toStr _) (fun _ => ?_)
    refine NF.bind (nf_evalX E true v _) (fun _ => ?_)
    exact NF.bind (nf_evalPairs E es _) (fun _ => NF.pure _)
end

theorem nf_evalExpr (E : Env) (e st) : NF (evalExpr E e st) := by
  unfold evalExpr; exact NF.bind (nf_evalX E true e st) (fun _ => NF.pure _)

/-! ### rendering one template body: a fuel error can only come out of `go` -/

theorem nf_printVal (go : Go) (hgo : ∀ tr st, NF (go tr st)) (v : Val) (st : St) : NF (printVal go v st) := by
  unfold printVal
  split
  · exact hgo _ _
  · split
    · nf_core
    · dsimp only
      split
      · nf_core
      · exact NF.bind (hgo _ _) (fun _ => NF.pure _)
  · exact NF.bind (nf_toStr _) (fun _ => NF.pure _)

theorem nf_loopOver (f : St → R Out) (hf : ∀ st, NF (f st)) (kv : Option Bytes) (vv : Bytes) (n : Nat) :
    ∀ (i : Nat) (items : List (Val × Val)) (st : St), NF (loopOver f kv vv n i items st)
  | _, [], st => by simp only [loopOver]; nf_core
  | i, (k, v) :: r, st => by
    simp only [loopOver]
    exact NF.bind (hf _) (fun _ => NF.bind (nf_loopOver f hf kv vv n (i+1) r _) (fun _ => NF.pure _))

macro "nf_render" : tactic => `(tactic| repeat' first
  | nf_core
  | with_reducible exact nf_toStr _
  | with_reducible exact nf_evalX _ _ _ _
  | with_reducible exact nf_evalArgs _ _ _
  | with_reducible exact nf_forItems _
  | with_reducible exact nf_bindFrom _ _ _
  | with_reducible exact nf_applyFilter _ _ _ _ _
  | split)

section
variable (E : Env) (go : Go) (hgo : ∀ tr st, NF (go tr st))
include hgo
set_option linter.unusedSectionVars false

mutual
theorem nf_renderNode (tpl : Bytes) : ∀ (n : Node) (st : St), NF (renderNode E go tpl n st)
  | .text s, st => by simp only [renderNode]; nf_core
  | .verbatim s, st => by simp only [renderNode]; nf_core
  | .print e, st => by
    simp only [renderNode]
    exact NF.bind (nf_evalX E true e st) (fun _ => nf_printVal go hgo _ _)
  | .ifN c t e, st => by
    simp only [renderNode]
    refine NF.bind (nf_evalX E true c st) (fun _ => ?_)
    exact NF.ite (nf_renderNodes tpl t _) (nf_renderNodes tpl e _)
  | .forN key val seq body els, st => by
    simp only [renderNode]
    refine NF.bind (nf_evalX E true seq st) (fun _ => ?_)
    refine NF.bind (nf_forItems _) (fun _ => ?_)
    split
    · exact nf_renderNodes tpl els _
    · exact nf_renderNodes tpl els _
    · refine NF.bind (nf_loopOver _ (fun s => nf_renderNodes tpl body s) _ _ _ _ _ _) (fun _ => ?_)
      nf_core
  | .setN name e, st => by
    simp only [renderNode]; exact NF.bind (nf_evalX E true e st) (fun _ => NF.pure _)
  | .doN e, st => by
    simp only [renderNode]; exact NF.bind (nf_evalX E true e st) (fun _ => NF.pure _)
  | .block name body, st => by
    simp only [renderNode]
    split
    · nf_core
    · exact NF.bind (hgo _ _) (fun _ => NF.pure _)
  | .extends e, st => by
    simp only [renderNode]
    repeat' first | nf_core | exact hgo _ _ | exact nf_toStr _ | exact nf_evalX _ _ _ _ | split
  | .include te names exprs im only sb, st => by
    simp only [renderNode]
    repeat' first | nf_core | exact hgo _ _ | exact nf_toStr _ | exact nf_evalX _ _ _ _
                  | exact nf_evalArgs _ _ _ | split
  | .macro name _ _ _ _, st => by simp only [renderNode]; nf_core
  | .importN te alias, st => by
    simp only [renderNode]
    repeat' first | nf_core | exact hgo _ _ | exact nf_toStr _ | exact nf_evalX _ _ _ _ | split
  | .fromN te names, st => by
    simp only [renderNode]
    repeat' first | nf_core | exact hgo _ _ | exact nf_toStr _ | exact nf_evalX _ _ _ _
                  | exact nf_bindFrom _ _ _ | split
  | .apply filter body, st => by
    simp only [renderNode]
    refine NF.bind (nf_renderNodes tpl body st) (fun _ => ?_)
    refine NF.bind (nf_applyFilter _ _ _ _ _) (fun _ => ?_)
    exact NF.bind (nf_toStr _) (fun _ => NF.pure _)
  | .spaceless _, st => by simp only [renderNode]; nf_core

theorem nf_renderNodes (tpl : Bytes) : ∀ (ns : List Node) (st : St), NF (renderNodes E go tpl ns st)
  | [], st => by simp only [renderNodes]; nf_core
  | n :: r, st => by
    simp only [renderNodes]
    exact NF.bind (nf_renderNode tpl n st) (fun _ => NF.bind (nf_renderNodes tpl r _) (fun _ => NF.pure _))
end

theorem nf_renderRoot (tpl : Bytes) (st : St) : NF (renderRoot E go tpl st) := by
  unfold renderRoot
  split
  · nf_core
  · split
    · exact nf_renderNode E go hgo tpl _ _
    · exact nf_renderNodes E go hgo tpl _ _

omit hgo in
theorem nf_bindParams (dn : List Bytes) (de : List Expr) :
    ∀ (ps : List Bytes) (as : List Val) (st : St) (acc : List (Bytes × Val)), NF (bindParams E dn de ps as st acc)
  | [], _, st, acc => by simp only [bindParams]; nf_core
  | p :: ps, a :: as, st, acc => by simp only [bindParams]; exact nf_bindParams dn de ps as st _
  | p :: ps, [], st, acc => by
    simp only [bindParams]
    split
    · exact NF.bind (nf_evalExpr E _ _) (fun _ => nf_bindParams dn de ps [] _ _)
    · exact nf_bindParams dn de ps [] st _

theorem nf_callMacro (tpl name : Bytes) (args : List Val) (st : St) : NF (callMacro E go tpl name args st) := by
  unfold callMacro
  repeat' first | nf_core | exact hgo _ _ | exact nf_bindParams E _ _ _ _ _ _ | split

end

/-- a fuel error of `run` at level `f+1` is a fuel error of some transfer at level `f` -/
theorem run_fuel_step (E : Env) (f : Nat) (tr : Transfer) (st : St)
    (h : run E (f+1) tr st = .error .fuel) : ∃ tr' st', run E f tr' st' = .error .fuel := by
  apply Classical.byContradiction
  intro hne
  have hgo : ∀ tr st, NF (run E f tr st) := fun tr' st' hfu => hne ⟨tr', st', hfu⟩
  cases tr with
  | root tpl => exact nf_renderRoot E _ hgo tpl st (by simpa only [run] using h)
  | body tpl nodes => exact nf_renderNodes E _ hgo tpl nodes st (by simpa only [run] using h)
  | macroCall tpl name args => exact nf_callMacro E _ hgo tpl name args st (by simpa only [run] using h)

/-! ### more fuel never changes a non-fuel rendering result -/

macro "le_render" hgo:ident : tactic => `(tactic| repeat' first
  | with_reducible exact Le.refl _
  | with_reducible exact $hgo _ _
  | with_reducible refine Le.ite ?_ ?_
  | (with_reducible refine Le.bind ?_ (fun _ => ?_))
  | split)

theorem le_printVal {go go' : Go} (hgo : ∀ tr st, Le (go tr st) (go' tr st)) (v : Val) (st : St) :
    Le (printVal go v st) (printVal go' v st) := by
  unfold printVal
  split
  · exact hgo _ _
  · split
    · exact Le.refl _
    · dsimp only
      split
      · exact Le.refl _
      · exact Le.bind (hgo _ _) (fun _ => Le.refl _)
  · exact Le.refl _

theorem le_loopOver {f f' : St → R Out} (hf : ∀ st, Le (f st) (f' st)) (kv : Option Bytes) (vv : Bytes) (n : Nat) :
    ∀ (i : Nat) (items : List (Val × Val)) (st : St),
      Le (loopOver f kv vv n i items st) (loopOver f' kv vv n i items st)
  | _, [], st => by simp only [loopOver]; exact Le.refl _
  | i, (k, v) :: r, st => by
    simp only [loopOver]
    exact Le.bind (hf _) (fun _ => Le.bind (le_loopOver hf kv vv n (i+1) r _) (fun _ => Le.refl _))

section
variable (E : Env) {go go' : Go} (hgo : ∀ tr st, Le (go tr st) (go' tr st))
include hgo
set_option linter.unusedSectionVars false

mutual
theorem le_renderNode (tpl : Bytes) : ∀ (n : Node) (st : St),
    Le (renderNode E go tpl n st) (renderNode E go' tpl n st)
  | .text s, st => by simp only [renderNode]; exact Le.refl _
  | .verbatim s, st => by simp only [renderNode]; exact Le.refl _
  | .print e, st => by
    simp only [renderNode]
    exact Le.bind (Le.refl _) (fun _ => le_printVal hgo _ _)
  | .ifN c t e, st => by
    simp only [renderNode]
    refine Le.bind (Le.refl _) (fun _ => ?_)
    exact Le.ite (le_renderNodes tpl t _) (le_renderNodes tpl e _)
  | .forN key val seq body els, st => by
    simp only [renderNode]
    refine Le.bind (Le.refl _) (fun _ => ?_)
    refine Le.bind (Le.refl _) (fun _ => ?_)
    split
    · exact le_renderNodes tpl els _
    · exact le_renderNodes tpl els _
    · refine Le.bind (le_loopOver (fun s => le_renderNodes tpl body s) _ _ _ _ _ _) (fun _ => ?_)
      exact Le.refl _
  | .setN name e, st => by simp only [renderNode]; exact Le.refl _
  | .doN e, st => by simp only [renderNode]; exact Le.refl _
  | .block name body, st => by
    simp only [renderNode]
    split
    · exact Le.refl _
    · exact Le.bind (hgo _ _) (fun _ => Le.refl _)
  | .extends e, st => by simp only [renderNode]; le_render hgo
  | .include te names exprs im only sb, st => by simp only [renderNode]; le_render hgo
  | .macro name _ _ _ _, st => by simp only [renderNode]; exact Le.refl _
  | .importN te alias, st => by simp only [renderNode]; le_render hgo
  | .fromN te names, st => by simp only [renderNode]; le_render hgo
  | .apply filter body, st => by
    simp only [renderNode]
    exact Le.bind (le_renderNodes tpl body st) (fun _ => Le.refl _)
  | .spaceless _, st => by simp only [renderNode]; exact Le.refl _

theorem le_renderNodes (tpl : Bytes) : ∀ (ns : List Node) (st : St),
    Le (renderNodes E go tpl ns st) (renderNodes E go' tpl ns st)
  | [], st => by simp only [renderNodes]; exact Le.refl _
  | n :: r, st => by
    simp only [renderNodes]
    exact Le.bind (le_renderNode tpl n st) (fun _ => Le.bind (le_renderNodes tpl r _) (fun _ => Le.refl _))
end

theorem le_renderRoot (tpl : Bytes) (st : St) : Le (renderRoot E go tpl st) (renderRoot E go' tpl st) := by
  unfold renderRoot
  split
  · exact Le.refl _
  · split
    · exact le_renderNode E hgo tpl _ _
    · exact le_renderNodes E hgo tpl _ _

theorem le_callMacro (tpl name : Bytes) (args : List Val) (st : St) :
    Le (callMacro E go tpl name args st) (callMacro E go' tpl name args st) := by
  unfold callMacro
  le_render hgo

end

theorem run_le (E : Env) : ∀ (f : Nat) (tr : Transfer) (st : St), Le (run E f tr st) (run E (f+1) tr st)
  | 0, tr, st => by
    have : run E 0 tr st = .error .fuel := by cases tr <;> rfl
    rw [this]; exact Le.fuel _
  | f+1, .root tpl, st => by
    simp only [run]; exact le_renderRoot E (fun tr st => run_le E f tr st) tpl st
  | f+1, .body tpl nodes, st => by
    simp only [run]; exact le_renderNodes E (fun tr st => run_le E f tr st) tpl nodes st
  | f+1, .macroCall tpl name args, st => by
    simp only [run]; exact le_callMacro E (fun tr st => run_le E f tr st) tpl name args st

theorem run_stable (E : Env) {f f' : Nat} (h : f ≤ f') (tr : Transfer) (st : St)
    (hne : run E f tr st ≠ .error .fuel) : run E f' tr st = run E f tr st :=
  Le.iter (fun k => run E k tr st) (fun k => run_le E k tr st) h hne

end Fuel
end Twig
