/-
  TwigProofs.Lemmas.RenderBasic — shared helpers for proofs about `TwigModel.Render`:
  bind inversion in `R = Except Err`, frame lemmas (what expression evaluation can change in `St`),
  key/value list lemmas (`getKV`/`setKV`), unfolding lemmas for `renderNode` per constructor.
-/
import TwigModel.Render
namespace Twig

/-! ## bind inversion in `Except` -/

theorem bind_ok {ε α β} {x : Except ε α} {f : α → Except ε β} {b : β}
    (h : (x >>= f) = .ok b) : ∃ a, x = .ok a ∧ f a = .ok b := by
  cases x with
  | error e => simp [bind, Except.bind] at h
  | ok a => exact ⟨a, rfl, h⟩

theorem bind_error {ε α β} {x : Except ε α} {f : α → Except ε β} {e : ε}
    (h : x = .error e) : (x >>= f) = .error e := by
  subst h; rfl

theorem bind_ok_eq {ε α β} {x : Except ε α} {f : α → Except ε β} {a : α}
    (h : x = .ok a) : (x >>= f) = f a := by
  subst h; rfl

@[simp] theorem ok_bind {ε α β} (a : α) (f : α → Except ε β) : ((Except.ok a : Except ε α) >>= f) = f a := rfl
@[simp] theorem error_bind {ε α β} (e : ε) (f : α → Except ε β) :
    ((Except.error e : Except ε α) >>= f) = .error e := rfl
@[simp] theorem pure_eq_ok {ε α} (a : α) : (pure a : Except ε α) = .ok a := rfl

/-! ## key/value lists -/

theorem getKV_setKV_same {α} (k : Bytes) (v : α) (kvs : List (Bytes × α)) :
    getKV k (setKV k v kvs) = some v := by
  simp [getKV, setKV]

theorem getKV_filter_ne {α} (k k' : Bytes) (kvs : List (Bytes × α)) (h : k' ≠ k) :
    getKV k' (kvs.filter (·.1 != k)) = getKV k' kvs := by
  induction kvs with
  | nil => rfl
  | cons p r ih =>
    simp only [List.filter]
    by_cases hp : p.1 = k
    · have : (p.1 != k) = false := by simp [hp]
      rw [this]
      simp only [getKV, List.find?] at ih ⊢
      have : (p.1 == k') = false := by
        simp only [beq_eq_false_iff_ne, ne_eq]; intro hh; exact h (hh ▸ hp)
      rw [this]; exact ih
    · have : (p.1 != k) = true := by simp [hp]
      rw [this]
      simp only [getKV, List.find?] at ih ⊢
      cases hq : (p.1 == k') with
      | true => rfl
      | false => exact ih

theorem getKV_filter_same {α} (k : Bytes) (kvs : List (Bytes × α)) :
    getKV k (kvs.filter (·.1 != k)) = none := by
  induction kvs with
  | nil => rfl
  | cons p r ih =>
    simp only [List.filter]
    by_cases hp : p.1 = k
    · have : (p.1 != k) = false := by simp [hp]
      rw [this]; exact ih
    · have : (p.1 != k) = true := by simp [hp]
      rw [this]
      simp only [getKV, List.find?] at ih ⊢
      have : (p.1 == k) = false := by simpa using hp
      rw [this]; exact ih

theorem getKV_setKV_ne {α} (k k' : Bytes) (v : α) (kvs : List (Bytes × α)) (h : k' ≠ k) :
    getKV k' (setKV k v kvs) = getKV k' kvs := by
  have hk : (k == k') = false := by simpa using (Ne.symm h)
  have := getKV_filter_ne k k' kvs h
  simp only [getKV, setKV, List.find?, hk] at this ⊢
  exact this

theorem Ctx.getVar_setVar_same (c : Ctx) (k : Bytes) (v : Val) : (c.setVar k v).getVar k = v := by
  simp [Ctx.getVar, Ctx.setVar, getKV_setKV_same]

theorem Ctx.getVar_setVar_ne (c : Ctx) (k k' : Bytes) (v : Val) (h : k' ≠ k) :
    (c.setVar k v).getVar k' = c.getVar k' := by
  simp [Ctx.getVar, Ctx.setVar, getKV_setKV_ne k k' v c.vars h]

/-! ## frame lemmas: expression evaluation never changes the context -/

@[simp] theorem St.emit_ctx (st : St) (k : CbKind) (n : Bytes) (s : Bool) : (st.emit k n s).ctx = st.ctx := rfl

theorem invokeSpy_ctx {E k n st st'} (h : invokeSpy E k n st = .ok st') : st'.ctx = st.ctx := by
  unfold invokeSpy at h
  split at h
  · cases h
  · cases h; rfl

theorem applyFilter_ctx {E n v a st r st'} (h : applyFilter E n v a st = .ok (r, st')) : st'.ctx = st.ctx := by
  unfold applyFilter at h
  split at h
  · cases h
  · split at h
    · obtain ⟨s1, h1, h⟩ := bind_ok h
      cases h; exact invokeSpy_ctx h1
    · split at h
      · obtain ⟨x, _, h⟩ := bind_ok h
        cases h; rfl
      · cases h

theorem applyChain_ctx {E} : ∀ {ch v st r st'}, applyChain E ch v st = .ok (r, st') → st'.ctx = st.ctx
  | [], v, st, r, st', h => by simp only [applyChain, pure_eq_ok] at h; cases h; rfl
  | (n, a) :: ch, v, st, r, st', h => by
    simp only [applyChain] at h
    obtain ⟨⟨v1, st1⟩, h1, h⟩ := bind_ok h
    exact (applyChain_ctx h).trans (applyFilter_ctx h1)

theorem callFunction_ctx {E n a st r st'} (h : callFunction E n a st = .ok (r, st')) : st'.ctx = st.ctx := by
  unfold callFunction at h
  split at h
  · cases h
  · split at h
    · cases h; rfl
    · split at h
      · obtain ⟨s1, h1, h⟩ := bind_ok h
        cases h; exact invokeSpy_ctx h1
      · split at h
        · obtain ⟨x, _, h⟩ := bind_ok h
          cases h; rfl
        · split at h
          · cases h; rfl
          · cases h

/-! **Key frame lemma** `evalX_ctx`: evaluating an expression (any expression, any state, with or without applying
    the outer filter chain) leaves the render context untouched — it can only extend the trace and
    the spy-call counter. -/
mutual
theorem evalX_ctx (E : Env) : ∀ (apply : Bool) (e : Expr) {st r st'},
    evalX E apply e st = .ok (r, st') → st'.ctx = st.ctx
  | _, .null, st, r, st', h => by simp only [evalX, pure_eq_ok] at h; cases h; rfl
  | _, .bool _, st, r, st', h => by simp only [evalX, pure_eq_ok] at h; cases h; rfl
  | _, .int _, st, r, st', h => by simp only [evalX, pure_eq_ok] at h; cases h; rfl
  | _, .str _, st, r, st', h => by simp only [evalX, pure_eq_ok] at h; cases h; rfl
  | _, .unsup _, st, r, st', h => by simp only [evalX, unsup] at h; cases h
  | _, .var n, st, r, st', h => by
    simp only [evalX] at h
    split at h
    · cases h; rfl
    · split at h
      · cases h; rfl
      · split at h <;> (cases h; rfl)
  | _, .unary op e, st, r, st', h => by
    simp only [evalX] at h
    obtain ⟨⟨⟨v, _⟩, st1⟩, h1, h⟩ := bind_ok h
    have := evalX_ctx E true e h1
    cases op
    · simp only [pure_eq_ok] at h; cases h; exact this
    · simp only at h
      obtain ⟨x, _, h⟩ := bind_ok h
      cases h; exact this
    · simp only at h
      obtain ⟨x, _, h⟩ := bind_ok h
      cases h; exact this
  | _, .binary op l r', st, r, st', h => by
    simp only [evalX] at h
    obtain ⟨⟨⟨lv, _⟩, st1⟩, h1, h⟩ := bind_ok h
    have i1 := evalX_ctx E true l h1
    simp only at h
    split at h
    · cases h; exact i1
    · split at h
      · cases h; exact i1
      · obtain ⟨⟨⟨rv, _⟩, st2⟩, h2, h⟩ := bind_ok h
        have i2 := evalX_ctx E true r' h2
        obtain ⟨x, _, h⟩ := bind_ok h
        cases h; exact i2.trans i1
  | _, .badBinary l r', st, r, st', h => by
    simp only [evalX] at h
    obtain ⟨⟨_, st1⟩, h1, h⟩ := bind_ok h
    obtain ⟨⟨_, st2⟩, h2, h⟩ := bind_ok h
    cases h
  | _, .cond c t f, st, r, st', h => by
    simp only [evalX] at h
    obtain ⟨⟨⟨cv, _⟩, st1⟩, h1, h⟩ := bind_ok h
    have i1 := evalX_ctx E true c h1
    simp only at h
    split at h
    · exact (evalX_ctx E true t h).trans i1
    · exact (evalX_ctx E true f h).trans i1
  | _, .attr e name, st, r, st', h => by
    simp only [evalX] at h
    obtain ⟨⟨⟨o, _⟩, st1⟩, h1, h⟩ := bind_ok h
    cases h; exact evalX_ctx E true e h1
  | _, .item e i, st, r, st', h => by
    simp only [evalX] at h
    obtain ⟨⟨⟨c, _⟩, st1⟩, h1, h⟩ := bind_ok h
    obtain ⟨⟨⟨iv, _⟩, st2⟩, h2, h⟩ := bind_ok h
    obtain ⟨x, _, h⟩ := bind_ok h
    cases h; exact (evalX_ctx E true i h2).trans (evalX_ctx E true e h1)
  | apply, .filter e name args, st, r, st', h => by
    simp only [evalX] at h
    cases apply
    · simp only [Bool.false_eq_true, if_false] at h
      obtain ⟨⟨av, st1⟩, h1, h⟩ := bind_ok h
      obtain ⟨⟨⟨base, inner⟩, st2⟩, h2, h⟩ := bind_ok h
      cases h
      exact (evalX_ctx E false e h2).trans (evalArgs_ctx E args h1)
    · simp only [if_true] at h
      obtain ⟨u, _, h⟩ := bind_ok h
      obtain ⟨⟨av, st1⟩, h1, h⟩ := bind_ok h
      obtain ⟨⟨⟨base, inner⟩, st2⟩, h2, h⟩ := bind_ok h
      obtain ⟨⟨v, st3⟩, h3, h⟩ := bind_ok h
      cases h
      exact (applyChain_ctx h3).trans ((evalX_ctx E false e h2).trans (evalArgs_ctx E args h1))
  | _, .call name args, st, r, st', h => by
    simp only [evalX] at h
    obtain ⟨u, _, h⟩ := bind_ok h
    split at h
    · obtain ⟨⟨av, st1⟩, h1, h⟩ := bind_ok h
      cases h; exact evalArgs_ctx E args h1
    · obtain ⟨⟨av, st1⟩, h1, h⟩ := bind_ok h
      obtain ⟨⟨v, st2⟩, h2, h⟩ := bind_ok h
      cases h; exact (callFunction_ctx h2).trans (evalArgs_ctx E args h1)
  | _, .mcall obj name args, st, r, st', h => by
    simp only [evalX] at h
    obtain ⟨u, _, h⟩ := bind_ok h
    obtain ⟨⟨⟨o, _⟩, st1⟩, h1, h⟩ := bind_ok h
    obtain ⟨⟨av, st2⟩, h2, h⟩ := bind_ok h
    have i := (evalArgs_ctx E args h2).trans (evalX_ctx E true obj h1)
    simp only at h
    split at h
    · cases h; exact i
    · split at h
      · cases h; exact i
      · obtain ⟨⟨v, st3⟩, h3, h⟩ := bind_ok h
        cases h; exact (callFunction_ctx h3).trans i
  | ap, .test e name args, st, r, st', h => by
    have tail : ∀ {v : Val} {st2 : St}, st2.ctx = st.ctx → ∀ {av : List Val},
        (if E.spyTests.contains name = true then do
            let st3 ← invokeSpy E CbKind.test name st2
            pure ((Val.bool true, ([] : List (Bytes × List Val))), st3)
          else
            match builtinTest name v av with
            | some r => do
              let x ← r
              pure ((Val.bool x, []), st2.emit CbKind.test name false)
            | none => rerr "test not found") = .ok (r, st') → st'.ctx = st.ctx := by
      intro v st2 i av h
      split at h
      · obtain ⟨st3, h3, h⟩ := bind_ok h
        cases h; exact (invokeSpy_ctx h3).trans i
      · split at h
        · obtain ⟨x, _, h⟩ := bind_ok h
          cases h; exact i
        · cases h
    cases e
    case attr obj a =>
      simp only [evalX] at h
      split at h
      · split at h
        · cases h; rfl
        · cases h
        · rename_i o x st1 h1
          have i1 : st1.ctx = st.ctx := evalX_ctx E true obj h1
          split at h <;> (cases h; exact i1)
      · obtain ⟨⟨⟨o, _⟩, st1⟩, h1, h⟩ := bind_ok h
        obtain ⟨⟨⟨o', _⟩, st1'⟩, h1', h1⟩ := bind_ok h1
        cases h1
        obtain ⟨⟨av, st2⟩, h3, h⟩ := bind_ok h
        exact tail ((evalArgs_ctx E args h3).trans (evalX_ctx E true obj h1')) h
    case var n =>
      simp only [evalX] at h
      split at h
      · split at h <;> (cases h; rfl)
      · obtain ⟨⟨⟨v, _⟩, st1⟩, h1, h⟩ := bind_ok h
        have i1 : st1.ctx = st.ctx := by
          split at h1
          · cases h1; rfl
          · split at h1
            · cases h1; rfl
            · split at h1 <;> (cases h1; rfl)
        obtain ⟨⟨av, st2⟩, h3, h⟩ := bind_ok h
        exact tail ((evalArgs_ctx E args h3).trans i1) h
    all_goals
      rw [evalX.eq_18 E ap st _ name args (by intro _ _ hh; cases hh) (by intro _ hh; cases hh)] at h
      split at h
      · obtain ⟨⟨⟨v, _⟩, st1⟩, h1, h⟩ := bind_ok h
        obtain ⟨⟨_, st2⟩, h2, h⟩ := bind_ok h
        cases h
        exact (evalArgs_ctx E args h2).trans (evalX_ctx E true _ h1)
      · obtain ⟨⟨⟨v, _⟩, st1⟩, h1, h⟩ := bind_ok h
        obtain ⟨⟨av, st2⟩, h2, h⟩ := bind_ok h
        exact tail ((evalArgs_ctx E args h2).trans (evalX_ctx E true _ h1)) h
  | _, .array items, st, r, st', h => by
    simp only [evalX] at h
    obtain ⟨⟨vs, st1⟩, h1, h⟩ := bind_ok h
    cases h; exact evalArgs_ctx E items h1
  | _, .hash items, st, r, st', h => by
    simp only [evalX] at h
    obtain ⟨⟨vs, st1⟩, h1, h⟩ := bind_ok h
    cases h; exact evalPairs_ctx E items h1

theorem evalArgs_ctx (E : Env) : ∀ (es : List Expr) {st r st'},
    evalArgs E es st = .ok (r, st') → st'.ctx = st.ctx
  | [], st, r, st', h => by simp only [evalArgs, pure_eq_ok] at h; cases h; rfl
  | e :: es, st, r, st', h => by
    simp only [evalArgs] at h
    obtain ⟨⟨⟨v, _⟩, st1⟩, h1, h⟩ := bind_ok h
    obtain ⟨⟨vs, st2⟩, h2, h⟩ := bind_ok h
    cases h; exact (evalArgs_ctx E es h2).trans (evalX_ctx E true e h1)

theorem evalPairs_ctx (E : Env) : ∀ (es : List Expr) {st r st'},
    evalPairs E es st = .ok (r, st') → st'.ctx = st.ctx
  | [], st, r, st', h => by simp only [evalPairs, pure_eq_ok] at h; cases h; rfl
  | [_], st, r, st', h => by simp only [evalPairs, pure_eq_ok] at h; cases h; rfl
  | k :: v :: es, st, r, st', h => by
    simp only [evalPairs] at h
    obtain ⟨⟨⟨kv, _⟩, st1⟩, h1, h⟩ := bind_ok h
    obtain ⟨key, _, h⟩ := bind_ok h
    obtain ⟨⟨⟨vv, _⟩, st2⟩, h2, h⟩ := bind_ok h
    obtain ⟨⟨rest, st3⟩, h3, h⟩ := bind_ok h
    cases h; exact (evalPairs_ctx E es h3).trans ((evalX_ctx E true v h2).trans (evalX_ctx E true k h1))
end


/-! ## `evalExpr` and the unfolding of `renderNode` per constructor -/

theorem evalExpr_ctx {E e st v st'} (h : evalExpr E e st = .ok (v, st')) : st'.ctx = st.ctx := by
  unfold evalExpr at h
  obtain ⟨⟨⟨v', _⟩, st1⟩, h1, h⟩ := bind_ok h
  cases h; exact evalX_ctx E true e h1

theorem evalExpr_ok_iff {E e st v st'} :
    evalExpr E e st = .ok (v, st') ↔ ∃ ch, evalX E true e st = .ok ((v, ch), st') := by
  unfold evalExpr
  constructor
  · intro h
    obtain ⟨⟨⟨v', ch⟩, st1⟩, h1, h⟩ := bind_ok h
    cases h; exact ⟨ch, h1⟩
  · rintro ⟨ch, h⟩; rw [h]; rfl

theorem evalExpr_error_iff {E e st err} :
    evalExpr E e st = .error err ↔ evalX E true e st = .error err := by
  unfold evalExpr
  cases h : evalX E true e st with
  | error e' => simp
  | ok a => obtain ⟨⟨v, ch⟩, st1⟩ := a; simp

/-- bind over `evalX` where the continuation ignores the pending filter chain = bind over `evalExpr` -/
theorem evalX_bind_eq {β} (E : Env) (e : Expr) (st : St) (k : Val → St → R β) :
    (evalX E true e st >>= fun x => k x.1.1 x.2) = (evalExpr E e st >>= fun y => k y.1 y.2) := by
  unfold evalExpr
  cases evalX E true e st with
  | error e' => rfl
  | ok a => rfl

theorem renderNodes_nil (E go tpl st) : renderNodes E go tpl [] st = .ok ([], st) := by
  simp only [renderNodes, pure_eq_ok]

theorem renderNodes_cons (E go tpl n r st) :
    renderNodes E go tpl (n :: r) st =
      (renderNode E go tpl n st >>= fun x => renderNodes E go tpl r x.2 >>= fun y => .ok (x.1 ++ y.1, y.2)) := by
  simp only [renderNodes]; rfl

theorem renderNodes_singleton (E go tpl n st) :
    renderNodes E go tpl [n] st = renderNode E go tpl n st := by
  rw [renderNodes_cons]
  cases renderNode E go tpl n st with
  | error e => rfl
  | ok a => simp [renderNodes_nil]

theorem renderNodes_append (E go tpl) : ∀ (a c : List Node) (st : St),
    renderNodes E go tpl (a ++ c) st =
      (renderNodes E go tpl a st >>= fun x => renderNodes E go tpl c x.2 >>= fun y => .ok (x.1 ++ y.1, y.2))
  | [], c, st => by
    simp only [List.nil_append, renderNodes_nil, ok_bind]
    cases renderNodes E go tpl c st with
    | error e => rfl
    | ok a => rfl
  | n :: a, c, st => by
    simp only [List.cons_append, renderNodes_cons]
    cases renderNode E go tpl n st with
    | error e => rfl
    | ok x =>
      simp only [ok_bind, renderNodes_append E go tpl a c x.2]
      cases renderNodes E go tpl a x.2 with
      | error e => rfl
      | ok y =>
        simp only [ok_bind]
        cases renderNodes E go tpl c y.2 with
        | error e => rfl
        | ok z => simp [List.append_assoc]

theorem renderNode_text (E go tpl s st) : renderNode E go tpl (.text s) st = .ok (s, st) := by
  simp only [renderNode, pure_eq_ok]

theorem renderNode_if (E go tpl c t e st) :
    renderNode E go tpl (.ifN c t e) st =
      (evalExpr E c st >>= fun y =>
        if toBool y.1 then renderNodes E go tpl t y.2 else renderNodes E go tpl e y.2) := by
  simp only [renderNode]
  exact evalX_bind_eq E c st (fun v s => if toBool v then renderNodes E go tpl t s else renderNodes E go tpl e s)

theorem renderNode_set (E go tpl x e st) :
    renderNode E go tpl (.setN x e) st =
      (evalExpr E e st >>= fun y => .ok ([], { y.2 with ctx := y.2.ctx.setVar x y.1 })) := by
  simp only [renderNode]
  exact evalX_bind_eq E e st (fun v s => .ok ([], { s with ctx := s.ctx.setVar x v }))

/-- the epilogue of a `for` node: put back the `loop` variable the context's own map had before -/
def restoreLoop (outer : Option Val) (c : Ctx) : Ctx :=
  match outer with
  | some l => c.setVar (b "loop") l
  | none => c.delVar (b "loop")

theorem renderNode_for (E go tpl key val seq body els st) :
    renderNode E go tpl (.forN key val seq body els) st =
      (evalExpr E seq st >>= fun y =>
        forItems y.1 >>= fun its =>
          match its with
          | none => renderNodes E go tpl els y.2
          | some [] => renderNodes E go tpl els y.2
          | some items =>
            loopOver (fun s => renderNodes E go tpl body s) key val items.length 0 items y.2 >>= fun z =>
              .ok (z.1, { z.2 with ctx := restoreLoop (getKV (b "loop") y.2.ctx.vars) z.2.ctx })) := by
  simp only [renderNode]
  rw [← evalX_bind_eq E seq st (fun v s => forItems v >>= fun its =>
          match its with
          | none => renderNodes E go tpl els s
          | some [] => renderNodes E go tpl els s
          | some items =>
            loopOver (fun s => renderNodes E go tpl body s) key val items.length 0 items s >>= fun z =>
              .ok (z.1, { z.2 with ctx := restoreLoop (getKV (b "loop") s.ctx.vars) z.2.ctx }))]
  rfl

theorem Ctx.getMacro_setVar (c : Ctx) (k v x) : (c.setVar k v).getMacro x = c.getMacro x := rfl

/-- What the expression `.var n` reads (`EvaluateExpression` on a `VariableNode`): a variable bound
    anywhere in the context chain (possibly to null) wins; then an engine global; then a visible macro
    of that name (as a macro value); otherwise nil. -/
def readVar (E : Env) (c : Ctx) (n : Bytes) : Val :=
  if c.hasVar n then c.getVar n
  else match getKV n E.globals with
    | some g => g
    | none => match c.getMacro n with
      | some (t, m) => .macro t m
      | none => c.getVar n

/-- **Variable evaluation, all cases**: `.var n` never fails, never changes the state, has no pending
    filter chain, and its value is `readVar`. -/
theorem evalX_var (E : Env) (ap : Bool) (n : Bytes) (st : St) :
    evalX E ap (.var n) st = .ok ((readVar E st.ctx n, []), st) := by
  simp only [evalX, readVar]
  split
  · rfl
  · cases getKV n E.globals with
    | some g => rfl
    | none =>
      cases st.ctx.getMacro n with
      | some tm => rfl
      | none => rfl

theorem evalExpr_var_eq (E : Env) (n : Bytes) (st : St) :
    evalExpr E (.var n) st = .ok (readVar E st.ctx n, st) := by
  simp only [evalExpr, evalX_var]; rfl

theorem readVar_of_hasVar {E : Env} {c : Ctx} {n : Bytes} (h : c.hasVar n = true) :
    readVar E c n = c.getVar n := by
  simp only [readVar, h, if_true]

theorem readVar_of_global {E : Env} {c : Ctx} {n : Bytes} {g : Val} (h : c.hasVar n = false)
    (hg : getKV n E.globals = some g) : readVar E c n = g := by
  simp only [readVar, h, hg, Bool.false_eq_true, if_false]

theorem readVar_of_none {E : Env} {c : Ctx} {n : Bytes} (hg : getKV n E.globals = none)
    (hm : c.getMacro n = none) : readVar E c n = c.getVar n := by
  simp only [readVar, hg, hm]; split <;> rfl

/-- reading a variable / an attribute of a variable: a variable that is defined (own map or parent
    chain) shadows a global and a macro of the same name; a name that is neither a global nor a macro
    reads through `getVar` (nil).  The global case is `evalExpr_var_global`; all cases at once:
    `evalExpr_var_eq`. -/
theorem evalExpr_var {E : Env} {x : Bytes} {st : St}
    (h : st.ctx.hasVar x = true ∨ (getKV x E.globals = none ∧ st.ctx.getMacro x = none)) :
    evalExpr E (.var x) st = .ok (st.ctx.getVar x, st) := by
  rw [evalExpr_var_eq]
  rcases h with h | ⟨hg, hm⟩
  · rw [readVar_of_hasVar h]
  · rw [readVar_of_none hg hm]

theorem evalExpr_var_global {E : Env} {x : Bytes} {st : St} {g : Val}
    (h : st.ctx.hasVar x = false) (hg : getKV x E.globals = some g) :
    evalExpr E (.var x) st = .ok (g, st) := by
  rw [evalExpr_var_eq, readVar_of_global h hg]

theorem evalExpr_var_attr_eq (E : Env) (x a : Bytes) (st : St) :
    evalExpr E (.attr (.var x) a) st = .ok (getAttr (readVar E st.ctx x) a, st) := by
  have h : evalX E true (.attr (.var x) a) st =
      (evalX E true (.var x) st >>= fun p => pure ((getAttr p.1.1 a, []), p.2)) := by
    simp only [evalX]
  simp only [evalExpr, h, evalX_var, ok_bind, pure_eq_ok]

theorem evalExpr_var_attr {E : Env} {x a : Bytes} {st : St}
    (h : st.ctx.hasVar x = true ∨ (getKV x E.globals = none ∧ st.ctx.getMacro x = none)) :
    evalExpr E (.attr (.var x) a) st = .ok (getAttr (st.ctx.getVar x) a, st) := by
  rw [evalExpr_var_attr_eq]
  rcases h with h | ⟨hg, hm⟩
  · rw [readVar_of_hasVar h]
  · rw [readVar_of_none hg hm]

theorem Ctx.hasVar_setVar_same (c : Ctx) (k : Bytes) (v : Val) : (c.setVar k v).hasVar k = true := by
  simp [Ctx.hasVar, Ctx.setVar, getKV_setKV_same]

/-- `hasVar`, spelled out: some scope of the chain (the own map or a parent's) has an entry for the
    name — whatever the entry's value is, null included -/
theorem Ctx.hasVar_iff (c : Ctx) (k : Bytes) :
    c.hasVar k = true ↔
      (getKV k c.vars).isSome = true ∨ ∃ s ∈ c.parents, (getKV k s.vars).isSome = true := by
  simp only [Ctx.hasVar, Bool.or_eq_true, List.any_eq_true]

theorem scopesVar_of_unbound (k : Bytes) : ∀ (ps : List Scope),
    ps.any (fun s => (getKV k s.vars).isSome) = false → scopesVar k ps = .null
  | [], _ => rfl
  | s :: r, h => by
    simp only [List.any_cons, Bool.or_eq_false_iff] at h
    simp only [scopesVar]
    cases hs : getKV k s.vars with
    | some v => rw [hs] at h; cases h.1
    | none => exact scopesVar_of_unbound k r h.2

/-- a name no scope binds reads as null through `getVar` -/
theorem Ctx.getVar_of_not_hasVar {c : Ctx} {k : Bytes} (h : c.hasVar k = false) : c.getVar k = .null := by
  simp only [Ctx.hasVar, Bool.or_eq_false_iff] at h
  simp only [Ctx.getVar]
  cases hs : getKV k c.vars with
  | some v => rw [hs] at h; cases h.1
  | none => exact scopesVar_of_unbound k c.parents h.2

/-- **`x is defined`, all cases**: true iff some scope of the chain binds `x` (to anything, null
    included) or an engine global `x` exists; never an error, no state change, the arguments are not
    evaluated. -/
theorem evalX_defined_var (E : Env) (ap : Bool) (n : Bytes) (args : List Expr) (st : St) :
    evalX E ap (.test (.var n) (b "defined") args) st =
      .ok ((.bool (st.ctx.hasVar n || (getKV n E.globals).isSome), []), st) := by
  simp only [evalX, beq_self_eq_true, if_true]
  cases hv : st.ctx.hasVar n with
  | true => rfl
  | false =>
    cases hg : getKV n E.globals with
    | some g => rfl
    | none =>
      simp only [Option.isSome_none, Bool.or_false, Bool.false_eq_true, if_false,
        Ctx.getVar_of_not_hasVar hv, pure_eq_ok]

end Twig
