/-
  TwigProofs.Lemmas.RenderInherit — helpers for C10 (inheritance) and C12 (macros) over the frozen
  core model `TwigModel.Render`.  Everything lives in the namespace `Twig.Inh` so that the small
  generic lemmas duplicated here (bind inversion, key/value lists) do not clash with other agents' files.
-/
import TwigModel.Render
namespace Twig
namespace Inh

/-! ## bind inversion in `Except` -/

theorem bind_ok {ε α β} {x : Except ε α} {f : α → Except ε β} {b : β}
    (h : (x >>= f) = .ok b) : ∃ a, x = .ok a ∧ f a = .ok b := by
  cases x with
  | error e => simp [bind, Except.bind] at h
  | ok a => exact ⟨a, rfl, h⟩

theorem ok_bind {ε α β} (a : α) (f : α → Except ε β) : ((Except.ok a : Except ε α) >>= f) = f a := rfl
theorem error_bind {ε α β} (e : ε) (f : α → Except ε β) :
    ((Except.error e : Except ε α) >>= f) = .error e := rfl
theorem pure_eq_ok {ε α} (a : α) : (pure a : Except ε α) = .ok a := rfl

/-! ## expression evaluation never changes the context -/

theorem emit_ctx (st : St) (k : CbKind) (n : Bytes) (s : Bool) : (st.emit k n s).ctx = st.ctx := rfl

theorem invokeSpy_ctx {E k n st st'} (h : invokeSpy E k n st = .ok st') : st'.ctx = st.ctx := by
  unfold invokeSpy at h
  split at h
  · cases h
  · cases h; rfl

theorem applyFilter_ctx {E n v a st r st'} (h : applyFilter E n v a st = .ok (r, st')) :
    st'.ctx = st.ctx := by
  unfold applyFilter at h
  split at h
  · cases h
  · split at h
    · obtain ⟨s1, h1, h⟩ := bind_ok h
      cases h; exact invokeSpy_ctx h1
    · split at h
      · obtain ⟨x, _, h⟩ := bind_ok h
        cases h; rfl
      · cases h

theorem applyChain_ctx {E} : ∀ {ch v st r st'}, applyChain E ch v st = .ok (r, st') → st'.ctx = st.ctx
  | [], v, st, r, st', h => by simp only [applyChain, pure_eq_ok] at h; cases h; rfl
  | (n, a) :: ch, v, st, r, st', h => by
    simp only [applyChain] at h
    obtain ⟨⟨v1, st1⟩, h1, h⟩ := bind_ok h
    exact (applyChain_ctx h).trans (applyFilter_ctx h1)

theorem callFunction_ctx {E n a st r st'} (h : callFunction E n a st = .ok (r, st')) :
    st'.ctx = st.ctx := by
  unfold callFunction at h
  split at h
  · cases h
  · split at h
    · cases h; rfl
    · split at h
      · obtain ⟨s1, h1, h⟩ := bind_ok h
        cases h; exact invokeSpy_ctx h1
      · split at h
        · obtain ⟨x, _, h⟩ := bind_ok h
          cases h; rfl
        · split at h
          · cases h; rfl
          · cases h

/-- the common tail of the `.test` case of `evalX` (evaluate operand and arguments, run the test) -/
theorem test_tail (E : Env) {e : Expr} {args : List Expr} {name : Bytes} {st : St} {r st'}
    (he : ∀ ap st r st', evalX E ap e st = .ok (r, st') → st'.ctx = st.ctx)
    (ha : ∀ st r st', evalArgs E args st = .ok (r, st') → st'.ctx = st.ctx)
    (h : (do
      let ((v, _), st1) ← evalX E true e st
      let (av, st2) ← evalArgs E args st1
      if E.spyTests.contains name then do
        let st3 ← invokeSpy E .test name st2
        pure ((Val.bool true, ([] : List (Bytes × List Val))), st3)
      else match builtinTest name v av with
        | some r => do let x ← r; pure ((.bool x, []), st2.emit .test name false)
        | none => rerr "test not found") = .ok (r, st')) : st'.ctx = st.ctx := by
  obtain ⟨⟨⟨v, fl⟩, st1⟩, h1, h⟩ := bind_ok h
  obtain ⟨⟨av, st2⟩, h2, h⟩ := bind_ok h
  have i1 := he _ _ _ _ h1
  have i2 := ha _ _ _ h2
  dsimp only at h
  split at h
  · obtain ⟨st3, h3, h⟩ := bind_ok h
    cases h; exact (invokeSpy_ctx h3).trans (i2.trans i1)
  · split at h
    · obtain ⟨x, _, h⟩ := bind_ok h
      cases h; exact i2.trans i1
    · simp only [rerr] at h; cases h

/-- the `defined` test on an operand that is neither an attribute access nor a variable -/
theorem test_defined_other (E : Env) {e : Expr} {args : List Expr} {name : Bytes} {st : St} {r st'}
    (he : ∀ ap st r st', evalX E ap e st = .ok (r, st') → st'.ctx = st.ctx)
    (ha : ∀ st r st', evalArgs E args st = .ok (r, st') → st'.ctx = st.ctx)
    (h : (do
        let ((v, _), st1) ← evalX E true e st
        let (_, st2) ← evalArgs E args st1
        pure ((Val.bool (match v with | .null => false | _ => true), ([] : List (Bytes × List Val))),
          st2.emit .test name false)) = .ok (r, st')) : st'.ctx = st.ctx := by
  obtain ⟨⟨⟨v, fl⟩, st1⟩, h1, h⟩ := bind_ok h
  obtain ⟨⟨av, st2⟩, h2, h⟩ := bind_ok h
  cases h
  exact (ha _ _ _ h2).trans (he _ _ _ _ h1)

theorem attr_sub_ctx (E : Env) {obj : Expr} {a : Bytes}
    (he : ∀ ap st r st', evalX E ap (.attr obj a) st = .ok (r, st') → st'.ctx = st.ctx)
    {st : St} {r st'} (h : evalX E true obj st = .ok (r, st')) : st'.ctx = st.ctx := by
  obtain ⟨o, fl⟩ := r
  have : evalX E true (.attr obj a) st = .ok ((getAttr o a, []), st') := by
    simp only [evalX, h, ok_bind, pure_eq_ok]
  exact he _ _ _ _ this

theorem test_ctx (E : Env) {e : Expr} {args : List Expr} {name : Bytes} {ap : Bool} {st : St} {r st'}
    (he : ∀ ap st r st', evalX E ap e st = .ok (r, st') → st'.ctx = st.ctx)
    (ha : ∀ st r st', evalArgs E args st = .ok (r, st') → st'.ctx = st.ctx)
    (h : evalX E ap (.test e name args) st = .ok (r, st')) : st'.ctx = st.ctx := by
  cases e with
  | attr obj a =>
    simp only [evalX] at h
    split at h
    · split at h
      · cases h; rfl
      · cases h
      · rename_i o fl st1 h1
        have i1 := attr_sub_ctx E he h1
        split at h <;> (cases h; exact i1)
    · exact test_tail E he ha h
  | var n =>
    simp only [evalX] at h
    split at h
    · split at h <;> (cases h; rfl)
    · exact test_tail E he ha h
  | _ =>
    simp only [evalX] at h
    split at h
    · exact test_defined_other E he ha h
    · exact test_tail E he ha h

mutual
theorem evalX_ctx (E : Env) : ∀ (e : Expr) (ap : Bool) (st : St) r st',
    evalX E ap e st = .ok (r, st') → st'.ctx = st.ctx
  | .null, ap, st, r, st', h => by simp only [evalX, pure_eq_ok] at h; cases h; rfl
  | .bool _, ap, st, r, st', h => by simp only [evalX, pure_eq_ok] at h; cases h; rfl
  | .int _, ap, st, r, st', h => by simp only [evalX, pure_eq_ok] at h; cases h; rfl
  | .str _, ap, st, r, st', h => by simp only [evalX, pure_eq_ok] at h; cases h; rfl
  | .unsup _, ap, st, r, st', h => by simp only [evalX, unsup] at h; cases h
  | .var n, ap, st, r, st', h => by
    simp only [evalX, pure_eq_ok] at h
    split at h
    · cases h; rfl
    · split at h
      · cases h; rfl
      · split at h <;> (cases h; rfl)
  | .unary op e, ap, st, r, st', h => by
    simp only [evalX] at h
    obtain ⟨⟨⟨v, fl⟩, st1⟩, h1, h⟩ := bind_ok h
    have := evalX_ctx E e _ _ _ _ h1
    dsimp only at h
    split at h
    · cases h; exact this
    · obtain ⟨x, _, h⟩ := bind_ok h; cases h; exact this
    · obtain ⟨x, _, h⟩ := bind_ok h; cases h; exact this
  | .binary op l r', ap, st, r, st', h => by
    simp only [evalX] at h
    obtain ⟨⟨⟨v, fl⟩, st1⟩, h1, h⟩ := bind_ok h
    have i1 := evalX_ctx E l _ _ _ _ h1
    dsimp only at h
    split at h
    · cases h; exact i1
    · split at h
      · cases h; exact i1
      · obtain ⟨⟨⟨v2, fl2⟩, st2⟩, h2, h⟩ := bind_ok h
        have i2 := evalX_ctx E r' _ _ _ _ h2
        obtain ⟨x, _, h⟩ := bind_ok h
        cases h; exact i2.trans i1
  | .badBinary l r', ap, st, r, st', h => by
    simp only [evalX] at h
    obtain ⟨⟨_, st1⟩, h1, h⟩ := bind_ok h
    obtain ⟨⟨_, st2⟩, h2, h⟩ := bind_ok h
    simp only [rerr] at h; cases h
  | .cond c t f, ap, st, r, st', h => by
    simp only [evalX] at h
    obtain ⟨⟨⟨v, fl⟩, st1⟩, h1, h⟩ := bind_ok h
    have i1 := evalX_ctx E c _ _ _ _ h1
    dsimp only at h
    split at h
    · exact (evalX_ctx E t _ _ _ _ h).trans i1
    · exact (evalX_ctx E f _ _ _ _ h).trans i1
  | .attr e name, ap, st, r, st', h => by
    simp only [evalX] at h
    obtain ⟨⟨⟨v, fl⟩, st1⟩, h1, h⟩ := bind_ok h
    have i1 := evalX_ctx E e _ _ _ _ h1
    cases h; exact i1
  | .item e i, ap, st, r, st', h => by
    simp only [evalX] at h
    obtain ⟨⟨⟨v, fl⟩, st1⟩, h1, h⟩ := bind_ok h
    obtain ⟨⟨⟨v2, fl2⟩, st2⟩, h2, h⟩ := bind_ok h
    obtain ⟨x, _, h⟩ := bind_ok h
    have i1 := evalX_ctx E e _ _ _ _ h1
    have i2 := evalX_ctx E i _ _ _ _ h2
    cases h; exact i2.trans i1
  | .filter e name args, ap, st, r, st', h => by
    cases ap
    · simp only [evalX, Bool.false_eq_true, if_false] at h
      obtain ⟨⟨av, st1⟩, h1, h⟩ := bind_ok h
      obtain ⟨⟨⟨base, inner⟩, st2⟩, h2, h⟩ := bind_ok h
      have i1 := evalArgs_ctx E args _ _ _ h1
      have i2 := evalX_ctx E e _ _ _ _ h2
      cases h; exact i2.trans i1
    · simp only [evalX, if_true] at h
      obtain ⟨_, _, h⟩ := bind_ok h
      obtain ⟨⟨av, st1⟩, h1, h⟩ := bind_ok h
      obtain ⟨⟨⟨base, inner⟩, st2⟩, h2, h⟩ := bind_ok h
      have i1 := evalArgs_ctx E args _ _ _ h1
      have i2 := evalX_ctx E e _ _ _ _ h2
      obtain ⟨⟨v, st3⟩, h3, h⟩ := bind_ok h
      cases h; exact (applyChain_ctx h3).trans (i2.trans i1)
  | .call name args, ap, st, r, st', h => by
    simp only [evalX] at h
    obtain ⟨_, _, h⟩ := bind_ok h
    split at h
    · obtain ⟨⟨av, st1⟩, h1, h⟩ := bind_ok h
      cases h; exact evalArgs_ctx E args _ _ _ h1
    · obtain ⟨⟨av, st1⟩, h1, h⟩ := bind_ok h
      obtain ⟨⟨v, st2⟩, h2, h⟩ := bind_ok h
      cases h; exact (callFunction_ctx h2).trans (evalArgs_ctx E args _ _ _ h1)
  | .mcall obj name args, ap, st, r, st', h => by
    simp only [evalX] at h
    obtain ⟨_, _, h⟩ := bind_ok h
    obtain ⟨⟨⟨o, fl⟩, st1⟩, h1, h⟩ := bind_ok h
    obtain ⟨⟨av, st2⟩, h2, h⟩ := bind_ok h
    have i1 := evalX_ctx E obj _ _ _ _ h1
    have i2 := evalArgs_ctx E args _ _ _ h2
    dsimp only at h
    split at h
    · cases h; exact i2.trans i1
    · split at h
      · cases h; exact i2.trans i1
      · obtain ⟨⟨v, st3⟩, h3, h⟩ := bind_ok h
        cases h; exact (callFunction_ctx h3).trans (i2.trans i1)
  | .test e name args, ap, st, r, st', h =>
    test_ctx E (fun ap st r st' => evalX_ctx E e ap st r st')
      (fun st r st' => evalArgs_ctx E args st r st') h
  | .array items, ap, st, r, st', h => by
    simp only [evalX] at h
    obtain ⟨⟨vs, st1⟩, h1, h⟩ := bind_ok h
    cases h; exact evalArgs_ctx E items _ _ _ h1
  | .hash items, ap, st, r, st', h => by
    simp only [evalX] at h
    obtain ⟨⟨vs, st1⟩, h1, h⟩ := bind_ok h
    cases h; exact evalPairs_ctx E items _ _ _ h1

theorem evalArgs_ctx (E : Env) : ∀ (es : List Expr) (st : St) r st',
    evalArgs E es st = .ok (r, st') → st'.ctx = st.ctx
  | [], st, r, st', h => by simp only [evalArgs, pure_eq_ok] at h; cases h; rfl
  | e :: es, st, r, st', h => by
    simp only [evalArgs] at h
    obtain ⟨⟨⟨v, fl⟩, st1⟩, h1, h⟩ := bind_ok h
    obtain ⟨⟨vs, st2⟩, h2, h⟩ := bind_ok h
    cases h
    exact (evalArgs_ctx E es _ _ _ h2).trans (evalX_ctx E e _ _ _ _ h1)

theorem evalPairs_ctx (E : Env) : ∀ (es : List Expr) (st : St) r st',
    evalPairs E es st = .ok (r, st') → st'.ctx = st.ctx
  | [], st, r, st', h => by simp only [evalPairs, pure_eq_ok] at h; cases h; rfl
  | [_], st, r, st', h => by simp only [evalPairs, pure_eq_ok] at h; cases h; rfl
  | k :: v :: es, st, r, st', h => by
    simp only [evalPairs] at h
    obtain ⟨⟨⟨kv, fl⟩, st1⟩, h1, h⟩ := bind_ok h
    obtain ⟨key, _, h⟩ := bind_ok h
    obtain ⟨⟨⟨vv, fl2⟩, st2⟩, h2, h⟩ := bind_ok h
    obtain ⟨⟨rest, st3⟩, h3, h⟩ := bind_ok h
    cases h
    exact (evalPairs_ctx E es _ _ _ h3).trans ((evalX_ctx E v _ _ _ _ h2).trans (evalX_ctx E k _ _ _ _ h1))
end

/-! ## the frame: rendering nodes changes only `vars` and `macros` of the context -/

/-- everything of a context except its own variables and macros -/
def core (c : Ctx) : List (Bytes × List BlockDef) × List BlockDef × Nat × Bool × List Scope × Bool × Bool :=
  (c.blockDefs, c.chain, c.level, c.inBlock, c.parents, c.sandboxed, c.inside)

theorem core_blockDefs {c c' : Ctx} (h : core c' = core c) : c'.blockDefs = c.blockDefs := by
  simp only [core, Prod.mk.injEq] at h; exact h.1
theorem core_chain {c c' : Ctx} (h : core c' = core c) : c'.chain = c.chain := by
  simp only [core, Prod.mk.injEq] at h; exact h.2.1
theorem core_level {c c' : Ctx} (h : core c' = core c) : c'.level = c.level := by
  simp only [core, Prod.mk.injEq] at h; exact h.2.2.1
theorem core_inBlock {c c' : Ctx} (h : core c' = core c) : c'.inBlock = c.inBlock := by
  simp only [core, Prod.mk.injEq] at h; exact h.2.2.2.1
theorem core_parents {c c' : Ctx} (h : core c' = core c) : c'.parents = c.parents := by
  simp only [core, Prod.mk.injEq] at h; exact h.2.2.2.2.1

/-- what the frame lemma needs to know about the transfer function: rendering a body or calling a
    macro leaves the core of the context alone.  (A `.root` transfer registers blocks; every caller
    restores its own context afterwards, so nothing is required of it.) -/
structure GoFr (go : Go) : Prop where
  body : ∀ t ns st o st', go (.body t ns) st = .ok (o, st') → core st'.ctx = core st.ctx
  mac : ∀ t n a st o st', go (.macroCall t n a) st = .ok (o, st') → core st'.ctx = core st.ctx

theorem printVal_fr {go : Go} (hg : GoFr go) {v st o st'} (h : printVal go v st = .ok (o, st')) :
    core st'.ctx = core st.ctx := by
  unfold printVal at h
  split at h
  · exact hg.mac _ _ _ _ _ _ h
  · split at h
    · simp only [rerr] at h; cases h
    · dsimp only at h
      split at h
      · simp only [rerr] at h; cases h
      · obtain ⟨⟨o1, st1⟩, h1, h⟩ := bind_ok h
        have i1 := hg.body _ _ _ _ _ h1
        cases h
        simp only [core, Prod.mk.injEq] at i1 ⊢
        obtain ⟨a1, a2, a3, a4, a5, a6, a7⟩ := i1
        exact ⟨a1, a2, by omega, a4, a5, a6, a7⟩
  · obtain ⟨s, _, h⟩ := bind_ok h
    cases h; rfl

theorem loopOver_fr {f : St → R Out} (hf : ∀ s o s', f s = .ok (o, s') → core s'.ctx = core s.ctx)
    (kv : Option Bytes) (vv : Bytes) (n : Nat) :
    ∀ (items : List (Val × Val)) (i : Nat) (st : St) o st',
      loopOver f kv vv n i items st = .ok (o, st') → core st'.ctx = core st.ctx
  | [], i, st, o, st', h => by simp only [loopOver, pure_eq_ok] at h; cases h; rfl
  | (k, v) :: r, i, st, o, st', h => by
    simp only [loopOver] at h
    obtain ⟨⟨o1, st1⟩, h1, h⟩ := bind_ok h
    obtain ⟨⟨o2, st2⟩, h2, h⟩ := bind_ok h
    cases h
    have i1 := hf _ _ _ h1
    have i2 := loopOver_fr hf kv vv n r _ _ _ _ h2
    rw [i2, i1]
    cases kv <;> rfl

mutual
theorem renderNode_fr (E : Env) {go : Go} (hg : GoFr go) (tpl : Bytes) :
    ∀ (n : Node) (st : St) o st', renderNode E go tpl n st = .ok (o, st') → core st'.ctx = core st.ctx
  | .text s, st, o, st', h => by simp only [renderNode, pure_eq_ok] at h; cases h; rfl
  | .verbatim s, st, o, st', h => by simp only [renderNode, pure_eq_ok] at h; cases h; rfl
  | .print e, st, o, st', h => by
    simp only [renderNode] at h
    obtain ⟨⟨⟨v, fl⟩, st1⟩, h1, h⟩ := bind_ok h
    rw [printVal_fr hg h, evalX_ctx E _ _ _ _ _ h1]
  | .ifN c t e, st, o, st', h => by
    simp only [renderNode] at h
    obtain ⟨⟨⟨v, fl⟩, st1⟩, h1, h⟩ := bind_ok h
    dsimp only at h
    split at h
    · rw [renderNodes_fr E hg tpl t _ _ _ h, evalX_ctx E _ _ _ _ _ h1]
    · rw [renderNodes_fr E hg tpl e _ _ _ h, evalX_ctx E _ _ _ _ _ h1]
  | .forN key val seq body els, st, o, st', h => by
    simp only [renderNode] at h
    obtain ⟨⟨⟨v, fl⟩, st1⟩, h1, h⟩ := bind_ok h
    obtain ⟨items, _, h⟩ := bind_ok h
    have i1 := evalX_ctx E _ _ _ _ _ h1
    dsimp only at h
    split at h
    · rw [renderNodes_fr E hg tpl els _ _ _ h, i1]
    · rw [renderNodes_fr E hg tpl els _ _ _ h, i1]
    · obtain ⟨⟨o2, st2⟩, h2, h⟩ := bind_ok h
      have i2 := loopOver_fr (fun s o s' hs => renderNodes_fr E hg tpl body s o s' hs) _ _ _ _ _ _ _ _ h2
      cases h
      rw [← i1, ← i2]
      dsimp only
      split <;> rfl
  | .setN name e, st, o, st', h => by
    simp only [renderNode] at h
    obtain ⟨⟨⟨v, fl⟩, st1⟩, h1, h⟩ := bind_ok h
    cases h
    rw [← evalX_ctx E _ _ _ _ _ h1]; rfl
  | .doN e, st, o, st', h => by
    simp only [renderNode] at h
    obtain ⟨⟨_, st1⟩, h1, h⟩ := bind_ok h
    cases h
    rw [← evalX_ctx E _ _ _ _ _ h1]
  | .block name body, st, o, st', h => by
    simp only [renderNode] at h
    split at h
    · cases h; rfl
    · obtain ⟨⟨o1, st1⟩, h1, h⟩ := bind_ok h
      have i1 := hg.body _ _ _ _ _ h1
      cases h
      simp only [core, Prod.mk.injEq] at i1 ⊢
      obtain ⟨a1, a2, a3, a4, a5, a6, a7⟩ := i1
      exact ⟨a1, trivial, trivial, trivial, a5, a6, a7⟩
  | .extends e, st, o, st', h => by
    simp only [renderNode] at h
    obtain ⟨⟨⟨v, fl⟩, st1⟩, h1, h⟩ := bind_ok h
    obtain ⟨name, _, h⟩ := bind_ok h
    dsimp only at h
    split at h
    · cases h
    · obtain ⟨⟨o2, st2⟩, h2, h⟩ := bind_ok h
      cases h
      rw [← evalX_ctx E _ _ _ _ _ h1]
  | .include te names exprs ignoreMissing only sandboxed, st, o, st', h => by
    simp only [renderNode] at h
    obtain ⟨⟨⟨v, fl⟩, st1⟩, h1, h⟩ := bind_ok h
    obtain ⟨name, _, h⟩ := bind_ok h
    have i1 := evalX_ctx E _ _ _ _ _ h1
    dsimp only at h
    split at h
    · split at h
      · cases h; rw [i1]
      · cases h
    · split at h
      · simp only [rerr] at h; cases h
      · obtain ⟨⟨vals, st2⟩, h2, h⟩ := bind_ok h
        obtain ⟨⟨o3, st3⟩, h3, h⟩ := bind_ok h
        cases h
        rw [← i1, ← evalArgs_ctx E _ _ _ _ h2]
  | .macro name _ _ _ _, st, o, st', h => by
    simp only [renderNode, pure_eq_ok] at h; cases h; rfl
  | .importN te alias, st, o, st', h => by
    simp only [renderNode] at h
    obtain ⟨⟨⟨v, fl⟩, st1⟩, h1, h⟩ := bind_ok h
    obtain ⟨name, _, h⟩ := bind_ok h
    have i1 := evalX_ctx E _ _ _ _ _ h1
    dsimp only at h
    split at h
    · cases h
    · obtain ⟨⟨o2, st2⟩, h2, h⟩ := bind_ok h
      cases h
      rw [← i1]; rfl
  | .fromN te names, st, o, st', h => by
    simp only [renderNode] at h
    obtain ⟨⟨⟨v, fl⟩, st1⟩, h1, h⟩ := bind_ok h
    obtain ⟨name, _, h⟩ := bind_ok h
    have i1 := evalX_ctx E _ _ _ _ _ h1
    dsimp only at h
    split at h
    · cases h
    · obtain ⟨⟨o2, st2⟩, h2, h⟩ := bind_ok h
      obtain ⟨ms, _, h⟩ := bind_ok h
      cases h
      rw [← i1]; rfl
  | .apply filter body, st, o, st', h => by
    simp only [renderNode] at h
    obtain ⟨⟨o1, st1⟩, h1, h⟩ := bind_ok h
    obtain ⟨⟨v, st2⟩, h2, h⟩ := bind_ok h
    obtain ⟨s, _, h⟩ := bind_ok h
    cases h
    rw [applyFilter_ctx h2, renderNodes_fr E hg tpl body _ _ _ h1]
  | .spaceless _, st, o, st', h => by simp only [renderNode, unsup] at h; cases h

theorem renderNodes_fr (E : Env) {go : Go} (hg : GoFr go) (tpl : Bytes) :
    ∀ (ns : List Node) (st : St) o st', renderNodes E go tpl ns st = .ok (o, st') → core st'.ctx = core st.ctx
  | [], st, o, st', h => by simp only [renderNodes, pure_eq_ok] at h; cases h; rfl
  | n :: r, st, o, st', h => by
    simp only [renderNodes] at h
    obtain ⟨⟨o1, st1⟩, h1, h⟩ := bind_ok h
    obtain ⟨⟨o2, st2⟩, h2, h⟩ := bind_ok h
    cases h
    rw [renderNodes_fr E hg tpl r _ _ _ h2, renderNode_fr E hg tpl n _ _ _ h1]
end

/-! ## macro calls restore the caller's context; `run` satisfies the frame -/

theorem callMacro_ctx {E : Env} {go : Go} {tpl name args st o st'}
    (h : callMacro E go tpl name args st = .ok (o, st')) : st'.ctx = st.ctx := by
  unfold callMacro at h
  split at h
  · simp only [unsup] at h; cases h
  · split at h
    · simp only [unsup] at h; cases h
    · split at h
      · simp only [unsup] at h; cases h
      · obtain ⟨⟨vars, st1⟩, h1, h⟩ := bind_ok h
        obtain ⟨⟨o2, st2⟩, h2, h⟩ := bind_ok h
        cases h; rfl

theorem run_fr (E : Env) : ∀ f, GoFr (run E f)
  | 0 => ⟨fun _ _ _ _ _ h => by (simp only [run] at h; cases h),
          fun _ _ _ _ _ _ h => by (simp only [run] at h; cases h)⟩
  | f+1 => ⟨fun t ns st o st' h => by
              simp only [run] at h
              exact renderNodes_fr E (run_fr E f) t ns st o st' h,
            fun t n a st o st' h => by
              simp only [run] at h
              rw [callMacro_ctx h]⟩

/-! ## key/value lists -/

theorem getKV_setKV_same {α} (k : Bytes) (v : α) (kvs : List (Bytes × α)) :
    getKV k (setKV k v kvs) = some v := by
  simp [getKV, setKV]

theorem getKV_filter_ne {α} {k k' : Bytes} (kvs : List (Bytes × α)) (h : k' ≠ k) :
    getKV k' (kvs.filter (·.1 != k)) = getKV k' kvs := by
  induction kvs with
  | nil => rfl
  | cons p r ih =>
    simp only [getKV] at ih ⊢
    by_cases hp : p.1 = k
    · have h1 : (p.1 != k) = false := by simp [hp]
      have h2 : (p.1 == k') = false := by
        simp only [beq_eq_false_iff_ne, ne_eq]; intro hh; exact h (hh ▸ hp)
      simp only [List.filter, h1, List.find?, h2]; exact ih
    · have h1 : (p.1 != k) = true := by simp [hp]
      simp only [List.filter, h1, List.find?]
      cases (p.1 == k') with
      | true => rfl
      | false => exact ih

theorem getKV_setKV_ne {α} {k k' : Bytes} (v : α) (kvs : List (Bytes × α)) (h : k' ≠ k) :
    getKV k' (setKV k v kvs) = getKV k' kvs := by
  have hk : (k == k') = false := by simpa using (Ne.symm h)
  have := getKV_filter_ne kvs h
  simp only [getKV, setKV, List.find?, hk] at this ⊢
  exact this

/-! ## C10: block registration -/

/-- SPEC: the top-level definitions of block `nm` in a template, in source order -/
def topDefs (tpl : Bytes) (nodes : List Node) (nm : Bytes) : List BlockDef :=
  nodes.filterMap fun n => match n with
    | .block name body => if name == nm then some ⟨tpl, name, body⟩ else none
    | _ => none

/-- SPEC: the definitions of block `nm` along an extends chain given most derived template first -/
def defsOf (chain : List (Bytes × List Node)) (nm : Bytes) : List BlockDef :=
  chain.flatMap fun p => topDefs p.1 p.2 nm

theorem topDefs_cons_block (tpl name : Bytes) (body r nm) :
    topDefs tpl (.block name body :: r) nm =
      if name == nm then ⟨tpl, name, body⟩ :: topDefs tpl r nm else topDefs tpl r nm := by
  simp only [topDefs, List.filterMap_cons]
  split <;> simp_all

theorem topDefs_cons_other (tpl : Bytes) (n : Node) (r nm) (h : ∀ name body, n ≠ .block name body) :
    topDefs tpl (n :: r) nm = topDefs tpl r nm := by
  cases n <;> first | rfl | exact absurd rfl (h _ _)

theorem registerBlocks_cons_other (tpl : Bytes) (n : Node) (r D) (h : ∀ name body, n ≠ .block name body) :
    registerBlocks tpl (n :: r) D = registerBlocks tpl r D := by
  cases n <;> first | rfl | exact absurd rfl (h _ _)

/-- what `registerBlocks` does, per block name: the template's own top-level definitions are
    appended BEHIND whatever was registered before (the descendants' definitions) -/
theorem registerBlocks_get (tpl : Bytes) : ∀ (nodes : List Node) (D : List (Bytes × List BlockDef)) (nm : Bytes),
    (getKV nm (registerBlocks tpl nodes D)).getD [] = (getKV nm D).getD [] ++ topDefs tpl nodes nm := by
  intro nodes
  induction nodes with
  | nil => intro D nm; simp [registerBlocks, topDefs]
  | cons n r ih =>
    intro D nm
    by_cases hb : ∃ name body, n = .block name body
    · obtain ⟨name, body, rfl⟩ := hb
      simp only [registerBlocks, topDefs_cons_block]
      rw [ih]
      by_cases hn : name = nm
      · subst hn
        simp [getKV_setKV_same]
      · have : (name == nm) = false := by simpa using hn
        simp only [this]
        rw [getKV_setKV_ne _ _ (Ne.symm hn)]
        rfl
    · have hb' : ∀ name body, n ≠ .block name body := fun a c hh => hb ⟨a, c, hh⟩
      rw [registerBlocks_cons_other _ _ _ _ hb', topDefs_cons_other _ _ _ _ hb']
      exact ih D nm

theorem topDefs_tpl {tpl nodes nm d} (h : d ∈ topDefs tpl nodes nm) : d.tpl = tpl ∧ d.name = nm := by
  simp only [topDefs, List.mem_filterMap] at h
  obtain ⟨n, _, hn⟩ := h
  split at hn
  · split at hn
    · cases hn; rename_i hh; exact ⟨rfl, by simpa using hh⟩
    · cases hn
  · cases hn

/-- register a whole chain (most derived template first) -/
def regAll (chain : List (Bytes × List Node)) (D : List (Bytes × List BlockDef)) : List (Bytes × List BlockDef) :=
  chain.foldl (fun D p => registerBlocks p.1 p.2 D) D

theorem regAll_get : ∀ (chain : List (Bytes × List Node)) (D : List (Bytes × List BlockDef)) (nm : Bytes),
    (getKV nm (regAll chain D)).getD [] = (getKV nm D).getD [] ++ defsOf chain nm
  | [], D, nm => by simp [regAll, defsOf]
  | p :: r, D, nm => by
    have := regAll_get r (registerBlocks p.1 p.2 D) nm
    simp only [regAll, List.foldl_cons, defsOf, List.flatMap_cons] at this ⊢
    rw [this, registerBlocks_get, List.append_assoc]

/-! ## C10: walking an extends chain down to the base template -/

/-- replace the context of the result state (what every transfer site does after `go` returns) -/
def restoreCtx (c : Ctx) (r : R Out) : R Out := do
  let (o, st2) ← r
  pure (o, { st2 with ctx := c })

theorem restoreCtx_restoreCtx (c c' : Ctx) (r : R Out) : restoreCtx c (restoreCtx c' r) = restoreCtx c r := by
  cases r with
  | error e => rfl
  | ok a => rfl

theorem restoreCtx_ok {c : Ctx} {r : R Out} {o st'} (h : restoreCtx c r = .ok (o, st')) :
    ∃ st2, r = .ok (o, st2) ∧ st' = { st2 with ctx := c } := by
  cases r with
  | error e => cases h
  | ok a => obtain ⟨o2, st2⟩ := a; cases h; exact ⟨st2, rfl, rfl⟩

/-- the parent-name expression `e` evaluates to the template name `name`, without touching the state,
    in every context an extends chain is walked in: own variables `vars` — whatever macros and enclosing
    scopes (an extending template may itself have been included) the context has.
    Covers static names (`Link_str`) and names taken from a variable of the own scope (`Link_var`). -/
def Link (E : Env) (vars : List (Bytes × Val)) (e : Expr) (name : Bytes) : Prop :=
  ∀ st : St, st.ctx.vars = vars →
    ∃ v fl, evalX E true e st = .ok ((v, fl), st) ∧ toStr v = .ok name

theorem Link_str (E : Env) (vars) (name : Bytes) : Link E vars (.str name) name :=
  fun _ _ => ⟨.str name, [], rfl, rfl⟩

theorem getKV_nil {α} (k : Bytes) : getKV k ([] : List (Bytes × α)) = none := rfl

theorem Link_var (E : Env) (vars) (x name : Bytes) (h : getKV x vars = some (.str name)) :
    Link E vars (.var x) name := by
  intro st hv
  refine ⟨.str name, [], ?_, rfl⟩
  simp only [evalX, Ctx.hasVar, Ctx.getVar, hv, h, Option.isSome_some, Bool.true_or, if_true, pure_eq_ok]

/-- `T₀ extends T₁ extends … extends T_k` (most derived first): every template is registered under its
    name, every non-last one hands over to the next one, the last one has no `extends` -/
def ChainOK (E : Env) (vars : List (Bytes × Val)) : List (Bytes × List Node) → Prop
  | [] => False
  | [p] => E.tpl? p.1 = some p.2 ∧ lastExtends p.2 = none
  | p :: q :: rest =>
    E.tpl? p.1 = some p.2 ∧ (∃ e, lastExtends p.2 = some e ∧ Link E vars e q.1) ∧ isRelative q.1 = false ∧
      ChainOK E vars (q :: rest)

/-- the base (last) template of a non-empty chain -/
def lastTpl : (Bytes × List Node) → List (Bytes × List Node) → Bytes × List Node
  | p, [] => p
  | _, q :: r => lastTpl q r

theorem lastTpl_eq_getLast (p : Bytes × List Node) (r : List (Bytes × List Node)) :
    lastTpl p r = (p :: r).getLast (List.cons_ne_nil _ _) := by
  induction r generalizing p with
  | nil => rfl
  | cons q r ih => simp only [lastTpl, ih, List.getLast_cons_cons]

/-- the context the base template of a chain of length ≥ 2 is rendered in: the variables of the most
    derived template's context and its enclosing scopes (none for a top-level render; the includer's for an
    extending template that was included), the sandbox flags, and the block table of the whole chain -/
def chainCtx (E : Env) (chain : List (Bytes × List Node)) (c : Ctx) : Ctx :=
  { vars := c.vars, parents := c.parents, sandboxed := E.F.propExtends && c.sandboxed, inside := c.inside,
    blockDefs := regAll chain c.blockDefs }

/-- state after `renderRoot` registered the template's blocks -/
def regSt (tpl : Bytes) (nodes : List Node) (st : St) : St :=
  { st with ctx := { st.ctx with blockDefs := registerBlocks tpl nodes st.ctx.blockDefs } }

/-- state the `extends` node hands to the parent's root -/
def extSt (E : Env) (st : St) : St :=
  { st with ctx := { freshCtx st.ctx.vars (E.F.propExtends && st.ctx.sandboxed) st.ctx.inside with
                      blockDefs := st.ctx.blockDefs, parents := st.ctx.parents } }

theorem renderRoot_extends {E : Env} {go : Go} {tpl : Bytes} {nodes : List Node} {e : Expr} (st : St)
    (ht : E.tpl? tpl = some nodes) (he : lastExtends nodes = some e) :
    renderRoot E go tpl st = renderNode E go tpl (.extends e) (regSt tpl nodes st) := by
  simp only [renderRoot, ht, he, regSt]

theorem renderRoot_base {E : Env} {go : Go} {tpl : Bytes} {nodes : List Node} (st : St)
    (ht : E.tpl? tpl = some nodes) (he : lastExtends nodes = none) :
    renderRoot E go tpl st = renderNodes E go tpl nodes (regSt tpl nodes st) := by
  simp only [renderRoot, ht, he, regSt]

/-- the `extends` node: evaluate the parent's name, transfer to the parent's root in a fresh context
    holding a copy of the variables and the collected block table, restore the context afterwards -/
theorem extends_eq {E : Env} {go : Go} {tpl : Bytes} {e : Expr} {st : St} {v fl} {name : Bytes} {T' : List Node}
    (h1 : evalX E true e st = .ok ((v, fl), st)) (h2 : toStr v = .ok name)
    (hrel : isRelative name = false) (ht : E.tpl? name = some T') :
    renderNode E go tpl (.extends e) st = restoreCtx st.ctx (go (.root name) (extSt E st)) := by
  simp only [renderNode, h1, ok_bind, h2, resolveTpl_of_not_relative hrel, ht, Option.map_some]
  rfl

theorem chain_walk (E : Env) (vars : List (Bytes × Val)) :
    ∀ (rest : List (Bytes × List Node)) (p q : Bytes × List Node) (st : St) (f : Nat),
      ChainOK E vars (p :: q :: rest) → st.ctx.vars = vars →
      run E (f + (rest.length + 2)) (.root p.1) st =
        restoreCtx (regSt p.1 p.2 st).ctx
          (renderNodes E (run E f) (lastTpl q rest).1 (lastTpl q rest).2
            { st with ctx := chainCtx E (p :: q :: rest) st.ctx })
  | [], p, q, st, f, hc, hv => by
    obtain ⟨htp, ⟨e, hle, hlink⟩, hrel, htq, hlq⟩ := hc
    show run E ((f + 1) + 1) (.root p.1) st = _
    simp only [run]
    rw [renderRoot_extends st htp hle]
    obtain ⟨v, fl, h1, h2⟩ := hlink (regSt p.1 p.2 st) hv
    rw [extends_eq h1 h2 hrel htq]
    simp only [run]
    rw [renderRoot_base _ htq hlq]
    rfl
  | r :: rest, p, q, st, f, hc, hv => by
    obtain ⟨htp, ⟨e, hle, hlink⟩, hrel, hc'⟩ := hc
    have htq : E.tpl? q.1 = some q.2 := hc'.1
    show run E ((f + (rest.length + 2)) + 1) (.root p.1) st = _
    simp only [run]
    rw [renderRoot_extends st htp hle]
    obtain ⟨v, fl, h1, h2⟩ := hlink (regSt p.1 p.2 st) hv
    rw [extends_eq h1 h2 hrel htq]
    have ih := chain_walk E vars rest q r (extSt E (regSt p.1 p.2 st)) f hc' hv
    rw [ih, restoreCtx_restoreCtx]
    have : ∀ x y : Bool, (x && (x && y)) = (x && y) := by decide
    simp only [chainCtx, regSt, extSt, freshCtx, regAll, List.foldl_cons, lastTpl, this]

/-! ## C10: what a block node renders -/

/-- SPEC: the definition list a block node of template `tpl` works with, given the registered
    definitions `defs` of its name: `defs` itself when the node is registered (the last definition
    is this template's), otherwise `defs` followed by the node's own body -/
def specChain (tpl nm : Bytes) (body : List Node) (defs : List BlockDef) : List BlockDef :=
  if (defs.getLast?.map (·.tpl == tpl)).getD false then defs else defs ++ [⟨tpl, nm, body⟩]

/-- state a block body is rendered in -/
def blockSt (st : St) (ch : List BlockDef) : St :=
  { st with ctx := { st.ctx with chain := ch, level := 0, inBlock := true } }

/-- put the enclosing block's bookkeeping back -/
def unblock (saved : Ctx) (r : R Out) : R Out := do
  let (o, st1) ← r
  pure (o, { st1 with ctx := { st1.ctx with chain := saved.chain, level := saved.level, inBlock := saved.inBlock } })

theorem specChain_ne_nil (tpl nm body defs) : specChain tpl nm body defs ≠ [] := by
  unfold specChain
  split
  · rename_i h
    intro hd; subst hd; simp at h
  · simp

theorem block_eq (E : Env) (go : Go) (tpl nm : Bytes) (body : List Node) (st : St) :
    renderNode E go tpl (.block nm body) st =
      unblock st.ctx (go (.body ((specChain tpl nm body ((getKV nm st.ctx.blockDefs).getD [])).headD ⟨tpl, nm, body⟩).tpl
                                ((specChain tpl nm body ((getKV nm st.ctx.blockDefs).getD [])).headD ⟨tpl, nm, body⟩).body)
        (blockSt st (specChain tpl nm body ((getKV nm st.ctx.blockDefs).getD [])))) := by
  simp only [renderNode]
  generalize (getKV nm st.ctx.blockDefs).getD [] = defs
  cases defs with
  | nil => rfl
  | cons d r =>
    unfold specChain
    cases hl : (d :: r).getLast? with
    | none => simp at hl
    | some l =>
      simp only [Option.map, Option.getD]
      by_cases hx : (l.tpl == tpl) = true
      · simp only [hx, if_true]; rfl
      · simp only [hx]; rfl

theorem specChain_registered {tpl nm : Bytes} {body : List Node} {pre own : List BlockDef}
    (hown : own ≠ []) (h : ∀ d ∈ own, d.tpl = tpl) :
    specChain tpl nm body (pre ++ own) = pre ++ own := by
  unfold specChain
  rw [List.getLast?_append]
  cases hl : own.getLast? with
  | none => simp [List.getLast?_eq_none_iff] at hl; exact absurd hl hown
  | some l =>
    have : l.tpl = tpl := h l (List.mem_of_getLast? hl)
    simp [this]

theorem specChain_unregistered {tpl nm : Bytes} {body : List Node} {defs : List BlockDef}
    (h : ∀ d ∈ defs, d.tpl ≠ tpl) :
    specChain tpl nm body defs = defs ++ [⟨tpl, nm, body⟩] := by
  unfold specChain
  cases hl : defs.getLast? with
  | none => simp
  | some l =>
    have : l.tpl ≠ tpl := h l (List.mem_of_getLast? hl)
    simp [this]

theorem defsOf_append (c1 c2 : List (Bytes × List Node)) (nm : Bytes) :
    defsOf (c1 ++ c2) nm = defsOf c1 nm ++ defsOf c2 nm := by
  simp [defsOf, List.flatMap_append]

theorem defsOf_tpl {chain nm d} (h : d ∈ defsOf chain nm) : ∃ p ∈ chain, d.tpl = p.1 := by
  simp only [defsOf, List.mem_flatMap] at h
  obtain ⟨p, hp, hd⟩ := h
  exact ⟨p, hp, (topDefs_tpl hd).1⟩

/-- In the base template of a chain with pairwise distinct template names, a block node that is
    either THE top-level definition of its name or not a top-level definition at all works with:
    the definitions of its name in the strict descendants (most derived first), then its own body. -/
theorem specChain_in_base (chain : List (Bytes × List Node)) (hne : chain ≠ [])
    (hnd : (chain.map (·.1)).Nodup) (nm : Bytes) (body : List Node)
    (h : topDefs (chain.getLast hne).1 (chain.getLast hne).2 nm = [⟨(chain.getLast hne).1, nm, body⟩] ∨
         topDefs (chain.getLast hne).1 (chain.getLast hne).2 nm = []) :
    specChain (chain.getLast hne).1 nm body (defsOf chain nm) =
      defsOf chain.dropLast nm ++ [⟨(chain.getLast hne).1, nm, body⟩] := by
  have hsplit : chain = chain.dropLast ++ [chain.getLast hne] := (List.dropLast_concat_getLast hne).symm
  have hdesc : ∀ d ∈ defsOf chain.dropLast nm, d.tpl ≠ (chain.getLast hne).1 := by
    intro d hd heq
    obtain ⟨p, hp, hdp⟩ := defsOf_tpl hd
    rw [hsplit, List.map_append, List.nodup_append] at hnd
    exact hnd.2.2 p.1 (List.mem_map_of_mem hp) (chain.getLast hne).1 (by simp) (hdp ▸ heq)
  have hdefs : defsOf chain nm = defsOf chain.dropLast nm ++
      topDefs (chain.getLast hne).1 (chain.getLast hne).2 nm := by
    conv => lhs; rw [hsplit]
    rw [defsOf_append]; simp [defsOf]
  rw [hdefs]
  rcases h with h | h
  · rw [h]
    exact specChain_registered (by simp) (by simp)
  · rw [h, List.append_nil]
    exact specChain_unregistered hdesc

/-! ### the parser's no-duplicate-block check makes a top-level block THE definition of its name -/

theorem hasDup_append {a c : List Bytes} (h : hasDup (a ++ c) = false) :
    hasDup a = false ∧ hasDup c = false ∧ ∀ x ∈ a, x ∉ c := by
  induction a with
  | nil => simp [hasDup] at h ⊢; exact h
  | cons x r ih =>
    simp only [List.cons_append, hasDup, Bool.or_eq_false_iff] at h
    obtain ⟨h1, h2⟩ := h
    obtain ⟨i1, i2, i3⟩ := ih h2
    have h1' : x ∉ r ++ c := by simpa using h1
    rw [List.mem_append, not_or] at h1'
    refine ⟨?_, i2, ?_⟩
    · simp only [hasDup, Bool.or_eq_false_iff]; exact ⟨by simpa using h1'.1, i1⟩
    · intro y hy
      rcases List.mem_cons.1 hy with rfl | hy
      · exact h1'.2
      · exact i3 y hy

theorem blockNamesL_cons (n : Node) (r : List Node) : blockNamesL (n :: r) = blockNames n ++ blockNamesL r := by
  simp only [blockNamesL]

theorem mem_blockNamesL_of_top {nm : Bytes} {body : List Node} {nodes : List Node}
    (h : Node.block nm body ∈ nodes) : nm ∈ blockNamesL nodes := by
  induction nodes with
  | nil => cases h
  | cons n r ih =>
    rw [blockNamesL_cons, List.mem_append]
    rcases List.mem_cons.1 h with rfl | h
    · left; simp [blockNames]
    · right; exact ih h

theorem mem_blockNamesL_of_topDefs {tpl nm : Bytes} {nodes : List Node} {d}
    (h : d ∈ topDefs tpl nodes nm) : nm ∈ blockNamesL nodes := by
  simp only [topDefs, List.mem_filterMap] at h
  obtain ⟨n, hn, hd⟩ := h
  split at hd
  · split at hd
    · rename_i name body hh
      have : name = nm := by simpa using hh
      subst this
      exact mem_blockNamesL_of_top hn
    · cases hd
  · cases hd

theorem topDefs_unique {tpl nm : Bytes} {body : List Node} :
    ∀ {nodes : List Node}, hasDup (blockNamesL nodes) = false → Node.block nm body ∈ nodes →
      topDefs tpl nodes nm = [⟨tpl, nm, body⟩] := by
  intro nodes
  induction nodes with
  | nil => intro _ h; cases h
  | cons n r ih =>
    intro hd hm
    rw [blockNamesL_cons] at hd
    obtain ⟨h1, h2, h3⟩ := hasDup_append hd
    rcases List.mem_cons.1 hm with heq | hm'
    · subst heq
      rw [topDefs_cons_block]
      simp only [beq_self_eq_true, if_true, List.cons.injEq, true_and]
      cases ht : topDefs tpl r nm with
      | nil => rfl
      | cons d _ =>
        have : nm ∈ blockNamesL r := mem_blockNamesL_of_topDefs (ht ▸ List.mem_cons_self)
        exact absurd this (h3 nm (by simp [blockNames]))
    · by_cases hb : ∃ name body', n = .block name body'
      · obtain ⟨name, body', rfl⟩ := hb
        rw [topDefs_cons_block]
        have hne : name ≠ nm := by
          intro he; subst he
          exact h3 name (by simp [blockNames]) (mem_blockNamesL_of_top hm')
        have : (name == nm) = false := by simpa using hne
        simp only [this]
        exact ih h2 hm'
      · have hb' : ∀ name body, n ≠ .block name body := fun a c hh => hb ⟨a, c, hh⟩
        rw [topDefs_cons_other _ _ _ _ hb']
        exact ih h2 hm'

/-! ## C10: `parent()` -/

/-- state the next definition up the chain is rendered in: the same state, one level up -/
def parentSt (st : St) : St := { st with ctx := { st.ctx with level := st.ctx.level + 1 } }

def unparent (lvl : Nat) (r : R Out) : R Out := do
  let (o, st1) ← r
  pure (o, { st1 with ctx := { st1.ctx with level := lvl } })

theorem parent_eq (go : Go) (st : St) (d : BlockDef) (hin : st.ctx.inBlock = true)
    (hd : st.ctx.chain[st.ctx.level + 1]? = some d) :
    printVal go .parentFn st = unparent st.ctx.level (go (.body d.tpl d.body) (parentSt st)) := by
  have hdrop : ∃ tl, st.ctx.chain.drop (st.ctx.level + 1) = d :: tl := by
    have := List.head?_drop (l := st.ctx.chain) (i := st.ctx.level + 1)
    rw [hd] at this
    cases hh : st.ctx.chain.drop (st.ctx.level + 1) with
    | nil => rw [hh] at this; cases this
    | cons x tl => rw [hh] at this; simp at this; exact ⟨tl, by rw [this]⟩
  obtain ⟨tl, hdrop⟩ := hdrop
  unfold printVal
  dsimp only
  rw [if_neg (by simp [hin])]
  simp only [hdrop, Nat.add_sub_cancel]
  rfl

theorem parent_none (go : Go) (st : St) (hin : st.ctx.inBlock = true)
    (hd : st.ctx.chain[st.ctx.level + 1]? = none) :
    printVal go .parentFn st = rerr "no parent block content found" := by
  have hdrop : st.ctx.chain.drop (st.ctx.level + 1) = [] := by
    rw [List.drop_eq_nil_iff]; exact List.getElem?_eq_none_iff.1 hd
  simp only [printVal, hin, Bool.not_true, Bool.false_eq_true, if_false, hdrop]

theorem parent_outside (go : Go) (st : St) (hin : st.ctx.inBlock = false) :
    printVal go .parentFn st = rerr "parent() function can only be used within a block" := by
  simp only [printVal, hin, Bool.not_false, if_true]

/-- `{{ parent() }}` evaluates to the `parent()` closure and prints it (outside a sandbox that forbids
    `parent`, and when no macro is called `parent`) -/
theorem print_parent_eq (E : Env) (go : Go) (tpl : Bytes) (st : St)
    (hden : denied E st.ctx E.allowedFunctions (b "parent") = false)
    (hmac : st.ctx.getMacro (b "parent") = none) :
    renderNode E go tpl (.print (.call (b "parent") [])) st =
      printVal go .parentFn (st.emit .function (b "parent") false) := by
  simp only [renderNode, evalX, allowedCheck, hden, Bool.and_false, Bool.false_eq_true, if_false, ok_bind,
    hmac, evalArgs, pure_eq_ok, callFunction, beq_self_eq_true, if_true, Bool.false_and]

/-! ## C10: the children of a template that extends are not rendered -/

/-- the only top-level nodes of an extending template that matter -/
def keepForChild : Node → Bool
  | .block _ _ => true
  | .extends _ => true
  | _ => false

theorem registerBlocks_filter (tpl : Bytes) : ∀ (nodes : List Node) (D : List (Bytes × List BlockDef)),
    registerBlocks tpl (nodes.filter keepForChild) D = registerBlocks tpl nodes D := by
  intro nodes
  induction nodes with
  | nil => intro D; rfl
  | cons n r ih =>
    intro D
    cases n <;> simp only [List.filter, keepForChild, registerBlocks, ih]

theorem lastExtends_filter : ∀ (nodes : List Node), lastExtends (nodes.filter keepForChild) = lastExtends nodes := by
  intro nodes
  induction nodes with
  | nil => rfl
  | cons n r ih =>
    cases n <;> simp only [List.filter, keepForChild, lastExtends, ih]

/-- `renderRoot` after the template lookup -/
def rootWith (E : Env) (go : Go) (tpl : Bytes) (nodes : List Node) (st : St) : R Out :=
  match lastExtends nodes with
  | some e => renderNode E go tpl (.extends e) (regSt tpl nodes st)
  | none => renderNodes E go tpl nodes (regSt tpl nodes st)

theorem renderRoot_eq_rootWith {E : Env} {go : Go} {tpl : Bytes} {nodes : List Node} (st : St)
    (ht : E.tpl? tpl = some nodes) : renderRoot E go tpl st = rootWith E go tpl nodes st := by
  cases h : lastExtends nodes <;> simp only [renderRoot, ht, rootWith, regSt, h]

theorem rootWith_filter (E : Env) (go : Go) (tpl : Bytes) (nodes : List Node) (st : St)
    (he : lastExtends nodes ≠ none) :
    rootWith E go tpl nodes st = rootWith E go tpl (nodes.filter keepForChild) st := by
  unfold rootWith
  rw [lastExtends_filter]
  cases h : lastExtends nodes with
  | none => exact absurd h he
  | some e => simp only [regSt, registerBlocks_filter]

/-! ## sequences -/

theorem renderNodes_append (E : Env) (go : Go) (tpl : Bytes) : ∀ (xs ys : List Node) (st : St),
    renderNodes E go tpl (xs ++ ys) st =
      (renderNodes E go tpl xs st >>= fun r1 =>
        renderNodes E go tpl ys r1.2 >>= fun r2 => pure (r1.1 ++ r2.1, r2.2))
  | [], ys, st => by
    simp only [List.nil_append, renderNodes, pure_eq_ok, ok_bind]
    cases renderNodes E go tpl ys st with
    | error e => rfl
    | ok a => rfl
  | n :: r, ys, st => by
    simp only [List.cons_append, renderNodes]
    cases renderNode E go tpl n st with
    | error e => rfl
    | ok a =>
      simp only [ok_bind]
      rw [renderNodes_append E go tpl r ys a.2]
      cases renderNodes E go tpl r a.2 with
      | error e => rfl
      | ok a2 =>
        simp only [ok_bind, pure_eq_ok]
        cases renderNodes E go tpl ys a2.2 with
        | error e => rfl
        | ok a3 => simp only [ok_bind, List.append_assoc]

/-! ## C12: parameter binding -/

theorem evalExpr_ctx {E : Env} {e : Expr} {st : St} {v st'} (h : evalExpr E e st = .ok (v, st')) :
    st'.ctx = st.ctx := by
  unfold evalExpr at h
  obtain ⟨⟨⟨v1, fl⟩, st1⟩, h1, h⟩ := bind_ok h
  cases h
  exact evalX_ctx E _ _ _ _ _ h1

/-- SPEC: the values the parameters receive, in parameter order: the argument when there is one,
    else the parameter's default expression evaluated in the CALLER's state, else null -/
def paramVals (E : Env) (dn : List Bytes) (de : List Expr) : List Bytes → List Val → St → R (List Val × St)
  | [], _, st => .ok ([], st)
  | _ :: ps, a :: as, st => do
    let (vs, st') ← paramVals E dn de ps as st
    pure (a :: vs, st')
  | p :: ps, [], st =>
    match lookupDefault p dn de with
    | some e => do
      let (v, st1) ← evalExpr E e st
      let (vs, st2) ← paramVals E dn de ps [] st1
      pure (v :: vs, st2)
    | none => do
      let (vs, st') ← paramVals E dn de ps [] st
      pure (.null :: vs, st')

/-- SPEC: bind names to values one after the other; a later binding of a name replaces an earlier one -/
def bindAll (pvs : List (Bytes × Val)) (acc : List (Bytes × Val)) : List (Bytes × Val) :=
  pvs.foldl (fun acc pv => setKV pv.1 pv.2 acc) acc

theorem bindParams_eq (E : Env) (dn : List Bytes) (de : List Expr) :
    ∀ (ps : List Bytes) (as : List Val) (st : St) (acc : List (Bytes × Val)),
      bindParams E dn de ps as st acc =
        (paramVals E dn de ps as st >>= fun r => pure (bindAll (ps.zip r.1) acc, r.2))
  | [], as, st, acc => by simp only [bindParams, paramVals, ok_bind, pure_eq_ok, List.zip_nil_left, bindAll, List.foldl_nil]
  | p :: ps, a :: as, st, acc => by
    simp only [bindParams, paramVals]
    rw [bindParams_eq E dn de ps as st]
    cases paramVals E dn de ps as st with
    | error e => rfl
    | ok r => rfl
  | p :: ps, [], st, acc => by
    simp only [bindParams, paramVals]
    cases lookupDefault p dn de with
    | none =>
      simp only
      rw [bindParams_eq E dn de ps [] st]
      cases paramVals E dn de ps [] st with
      | error e => rfl
      | ok r => rfl
    | some e =>
      simp only
      cases evalExpr E e st with
      | error e => rfl
      | ok r =>
        simp only [ok_bind]
        rw [bindParams_eq E dn de ps [] r.2]
        cases paramVals E dn de ps [] r.2 with
        | error e => rfl
        | ok r => rfl

theorem paramVals_length (E : Env) (dn : List Bytes) (de : List Expr) :
    ∀ (ps : List Bytes) (as : List Val) (st : St) vals st',
      paramVals E dn de ps as st = .ok (vals, st') → vals.length = ps.length ∧ st'.ctx = st.ctx
  | [], as, st, vals, st', h => by simp only [paramVals] at h; cases h; exact ⟨rfl, rfl⟩
  | p :: ps, a :: as, st, vals, st', h => by
    simp only [paramVals] at h
    obtain ⟨⟨vs, st1⟩, h1, h⟩ := bind_ok h
    cases h
    obtain ⟨i1, i2⟩ := paramVals_length E dn de ps as st _ _ h1
    exact ⟨by simp [i1], i2⟩
  | p :: ps, [], st, vals, st', h => by
    simp only [paramVals] at h
    split at h
    · obtain ⟨⟨v, st1⟩, h1, h⟩ := bind_ok h
      obtain ⟨⟨vs, st2⟩, h2, h⟩ := bind_ok h
      cases h
      obtain ⟨i1, i2⟩ := paramVals_length E dn de ps [] _ _ _ h2
      exact ⟨by simp [i1], i2.trans (evalExpr_ctx h1)⟩
    · obtain ⟨⟨vs, st1⟩, h1, h⟩ := bind_ok h
      cases h
      obtain ⟨i1, i2⟩ := paramVals_length E dn de ps [] _ _ _ h1
      exact ⟨by simp [i1], i2⟩

/-- arguments first (extra ones dropped), then the defaults of the remaining parameters -/
theorem paramVals_split (E : Env) (dn : List Bytes) (de : List Expr) :
    ∀ (ps : List Bytes) (as : List Val) (st : St),
      paramVals E dn de ps as st =
        (paramVals E dn de (ps.drop as.length) [] st >>= fun r => pure (as.take ps.length ++ r.1, r.2))
  | [], as, st => by simp [paramVals, ok_bind, pure_eq_ok]
  | p :: ps, [], st => by
    simp only [List.length_nil, List.drop_zero, List.take_nil, List.nil_append]
    cases paramVals E dn de (p :: ps) [] st with
    | error e => rfl
    | ok r => rfl
  | p :: ps, a :: as, st => by
    simp only [paramVals, List.length_cons, List.drop_succ_cons, List.take_succ_cons]
    rw [paramVals_split E dn de ps as st]
    cases paramVals E dn de (ps.drop as.length) [] st with
    | error e => rfl
    | ok r => rfl

/-- the defaults: parameter by parameter, null without a default, else the default expression
    evaluated in a state that has the caller's context -/
theorem paramVals_nil_get (E : Env) (dn : List Bytes) (de : List Expr) :
    ∀ (ps : List Bytes) (st : St) vals st', paramVals E dn de ps [] st = .ok (vals, st') →
      ∀ (i : Nat) (p : Bytes), ps[i]? = some p →
        (lookupDefault p dn de = none → vals[i]? = some Val.null) ∧
        (∀ e, lookupDefault p dn de = some e →
          ∃ sti v st'', sti.ctx = st.ctx ∧ evalExpr E e sti = .ok (v, st'') ∧ vals[i]? = some v)
  | [], st, vals, st', h, i, p, hp => by simp at hp
  | q :: ps, st, vals, st', h, i, p, hp => by
    simp only [paramVals] at h
    cases hq : lookupDefault q dn de with
    | none =>
      rw [hq] at h
      obtain ⟨⟨vs, st1⟩, h1, h⟩ := bind_ok h
      cases h
      cases i with
      | zero =>
        simp only [List.getElem?_cons_zero, Option.some.injEq] at hp; subst hp
        exact ⟨fun _ => rfl, fun e he => by (rw [hq] at he; cases he)⟩
      | succ i =>
        simp only [List.getElem?_cons_succ] at hp ⊢
        exact paramVals_nil_get E dn de ps st _ _ h1 i p hp
    | some e0 =>
      rw [hq] at h
      obtain ⟨⟨v, st1⟩, h1, h⟩ := bind_ok h
      obtain ⟨⟨vs, st2⟩, h2, h⟩ := bind_ok h
      cases h
      cases i with
      | zero =>
        simp only [List.getElem?_cons_zero, Option.some.injEq] at hp; subst hp
        refine ⟨fun hn => by (rw [hq] at hn; cases hn), fun e he => ?_⟩
        rw [hq] at he; cases he
        exact ⟨st, v, st1, rfl, h1, rfl⟩
      | succ i =>
        simp only [List.getElem?_cons_succ] at hp ⊢
        obtain ⟨a1, a2⟩ := paramVals_nil_get E dn de ps st1 _ _ h2 i p hp
        refine ⟨a1, fun e he => ?_⟩
        obtain ⟨sti, v', st'', c1, c2, c3⟩ := a2 e he
        exact ⟨sti, v', st'', c1.trans (evalExpr_ctx h1), c2, c3⟩

/-- when evaluating the defaults does not change the state, the values are in closed form -/
def defaultVal (E : Env) (dn : List Bytes) (de : List Expr) (st : St) (p : Bytes) : Val :=
  match lookupDefault p dn de with
  | some e => match evalExpr E e st with
    | .ok (v, _) => v
    | .error _ => .null
  | none => .null

theorem paramVals_nil_pure (E : Env) (dn : List Bytes) (de : List Expr) (st : St) :
    ∀ (ps : List Bytes), (∀ p ∈ ps, ∀ e, lookupDefault p dn de = some e → ∃ v, evalExpr E e st = .ok (v, st)) →
      paramVals E dn de ps [] st = .ok (ps.map (defaultVal E dn de st), st)
  | [], _ => rfl
  | p :: ps, h => by
    have ih := paramVals_nil_pure E dn de st ps (fun q hq => h q (List.mem_cons_of_mem _ hq))
    simp only [paramVals, List.map_cons, defaultVal]
    cases hq : lookupDefault p dn de with
    | none => simp only [ih, ok_bind, pure_eq_ok]
    | some e =>
      obtain ⟨v, hv⟩ := h p List.mem_cons_self e hq
      simp only [hv, ok_bind, ih, pure_eq_ok]

/-! ### `bindAll`: the last binding of a name wins -/

theorem bindAll_append (l1 l2 : List (Bytes × Val)) (acc) :
    bindAll (l1 ++ l2) acc = bindAll l2 (bindAll l1 acc) := by
  simp [bindAll, List.foldl_append]

theorem bindAll_get_notin : ∀ (l : List (Bytes × Val)) (acc : List (Bytes × Val)) (k : Bytes),
    k ∉ l.map (·.1) → getKV k (bindAll l acc) = getKV k acc
  | [], acc, k, _ => rfl
  | pv :: r, acc, k, h => by
    simp only [List.map_cons, List.mem_cons, not_or] at h
    have := bindAll_get_notin r (setKV pv.1 pv.2 acc) k h.2
    simp only [bindAll, List.foldl_cons] at this ⊢
    rw [this, getKV_setKV_ne _ _ h.1]

/-- the binding of a name is the one of its LAST occurrence -/
theorem bindAll_get_last (pre post : List (Bytes × Val)) (k : Bytes) (v : Val) (acc : List (Bytes × Val))
    (h : k ∉ post.map (·.1)) : getKV k (bindAll (pre ++ (k, v) :: post) acc) = some v := by
  rw [bindAll_append]
  show getKV k (bindAll post (setKV k v (bindAll pre acc))) = some v
  rw [bindAll_get_notin _ _ _ h, getKV_setKV_same]

theorem bindAll_get_idx (l : List (Bytes × Val)) (acc : List (Bytes × Val)) (i : Nat) (hi : i < l.length)
    (h : l[i].1 ∉ (l.drop (i + 1)).map (·.1)) : getKV l[i].1 (bindAll l acc) = some l[i].2 := by
  have hs : l = l.take i ++ (l[i].1, l[i].2) :: l.drop (i + 1) := by
    conv => lhs; rw [← List.take_append_drop i l]
    congr 1
    exact List.drop_eq_getElem_cons hi
  have := bindAll_get_last (l.take i) (l.drop (i + 1)) l[i].1 l[i].2 acc h
  rw [← hs] at this
  exact this

/-- exactly the bound names are defined -/
theorem bindAll_keys : ∀ (l : List (Bytes × Val)) (acc : List (Bytes × Val)) (k : Bytes),
    (getKV k (bindAll l acc)).isSome = true ↔ (k ∈ l.map (·.1) ∨ (getKV k acc).isSome = true)
  | [], acc, k => by simp [bindAll]
  | pv :: r, acc, k => by
    have := bindAll_keys r (setKV pv.1 pv.2 acc) k
    simp only [bindAll, List.foldl_cons] at this ⊢
    rw [this]
    by_cases hk : k = pv.1
    · subst hk; simp [getKV_setKV_same]
    · rw [getKV_setKV_ne _ _ hk]
      simp [hk]

/-! ## C12: what `callMacro` does -/

/-- the context a macro body runs in: own variables = the bound parameters, the top-level macros of
    the defining template, the caller's scope chain for reading -/
def macroCtx (E : Env) (tpl : Bytes) (nodes : List Node) (c : Ctx) (vars : List (Bytes × Val)) : Ctx :=
  { vars := vars, macros := (topMacroNames nodes).map (fun m => (m, tpl, m)),
    parents := c.asScope :: c.parents, sandboxed := E.F.propMacro && c.sandboxed, inside := c.inside }

def bodyHasOpener (body : List Node) : Bool :=
  body.any (fun n => match n with | .text s => containsOpener s | _ => false)

theorem callMacro_eq {E : Env} {go : Go} {tpl name : Bytes} {args : List Val} {st : St} {nodes params dn de body}
    (ht : E.tpl? tpl = some nodes) (hm : findMacro nodes name = some (params, dn, de, body))
    (hb : bodyHasOpener body = false) :
    callMacro E go tpl name args st =
      (bindParams E dn de params args st [] >>= fun r =>
        restoreCtx st.ctx (go (.body tpl body) { r.2 with ctx := macroCtx E tpl nodes st.ctx r.1 })) := by
  simp only [callMacro, ht, hm]
  split
  · rename_i h
    have : bodyHasOpener body = true := by
      unfold bodyHasOpener
      rw [← h]; congr; try (funext n; cases n <;> rfl)
    rw [hb] at this; cases this
  · rfl

theorem macroCtx_getVar_param {E tpl nodes c vars} {k : Bytes} {v : Val} (h : getKV k vars = some v) :
    (macroCtx E tpl nodes c vars).getVar k = v := by
  simp only [Ctx.getVar, macroCtx, h]

theorem macroCtx_getVar_outer {E tpl nodes c vars} {k : Bytes} (h : getKV k vars = none) :
    (macroCtx E tpl nodes c vars).getVar k = c.getVar k := by
  simp only [Ctx.getVar, macroCtx, h, scopesVar, Ctx.asScope]

theorem getKV_map_self (tpl : Bytes) : ∀ (names : List Bytes) (s : Bytes), s ∈ names →
    getKV s (names.map (fun m => (m, tpl, m))) = some (tpl, s)
  | [], s, h => by cases h
  | n :: r, s, h => by
    by_cases hn : n = s
    · subst hn; simp [getKV]
    · have hs : s ∈ r := by
        rcases List.mem_cons.1 h with h | h
        · exact absurd h.symm hn
        · exact h
      have := getKV_map_self tpl r s hs
      simp only [getKV, List.map_cons, List.find?] at this ⊢
      have hb : (n == s) = false := by simpa using hn
      rw [hb]; exact this

theorem macroCtx_getMacro_sibling {E tpl nodes c vars} {s : Bytes} (h : s ∈ topMacroNames nodes) :
    (macroCtx E tpl nodes c vars).getMacro s = some (tpl, s) := by
  simp only [Ctx.getMacro, macroCtx, getKV_map_self tpl _ s h]

theorem findMacro_snoc_macro (ns : List Node) (m : Bytes) (ps dn : List Bytes) (de : List Expr) (body : List Node)
    (name : Bytes) :
    findMacro (ns ++ [.macro m ps dn de body]) name =
      if m == name then some (ps, dn, de, body) else findMacro ns name := by
  simp [findMacro, List.foldl_append]

theorem findMacro_snoc_other (ns : List Node) (n : Node) (name : Bytes)
    (h : ∀ m ps dn de body, n ≠ .macro m ps dn de body) : findMacro (ns ++ [n]) name = findMacro ns name := by
  cases n <;> first | exact absurd rfl (h _ _ _ _ _) | (simp [findMacro, List.foldl_append])

theorem topMacroNames_snoc_macro (ns : List Node) (m : Bytes) (ps dn : List Bytes) (de : List Expr) (body : List Node) :
    topMacroNames (ns ++ [.macro m ps dn de body]) = topMacroNames ns ++ [m] := by
  simp [topMacroNames, List.filterMap_append]

theorem topMacroNames_snoc_other (ns : List Node) (n : Node)
    (h : ∀ m ps dn de body, n ≠ .macro m ps dn de body) : topMacroNames (ns ++ [n]) = topMacroNames ns := by
  cases n <;> first | exact absurd rfl (h _ _ _ _ _) | (simp [topMacroNames, List.filterMap_append])

theorem findMacro_isSome_aux (name : Bytes) : ∀ (ns pre : List Node),
    (findMacro (pre ++ ns) name).isSome = true ↔
      ((findMacro pre name).isSome = true ∨ name ∈ topMacroNames ns) := by
  intro ns
  induction ns with
  | nil => intro pre; simp [topMacroNames]
  | cons n r ih =>
    intro pre
    have hsplit : pre ++ n :: r = (pre ++ [n]) ++ r := by simp
    rw [hsplit, ih]
    by_cases hb : ∃ m ps dn de body, n = .macro m ps dn de body
    · obtain ⟨m, ps, dn, de, body, rfl⟩ := hb
      rw [findMacro_snoc_macro]
      have ht : topMacroNames (.macro m ps dn de body :: r) = m :: topMacroNames r := by simp [topMacroNames]
      rw [ht]
      by_cases hm : m = name
      · subst hm; simp
      · have : (m == name) = false := by simpa using hm
        simp [this, Ne.symm hm]
    · have hb' : ∀ m ps dn de body, n ≠ .macro m ps dn de body := fun a c d e f hh => hb ⟨a, c, d, e, f, hh⟩
      rw [findMacro_snoc_other _ _ _ hb']
      have ht : topMacroNames (n :: r) = topMacroNames r := by
        cases n <;> first | exact absurd rfl (hb' _ _ _ _ _) | (simp [topMacroNames])
      rw [ht]

/-- `findMacro` finds a macro exactly for the names of the top-level macros -/
theorem findMacro_isSome (nodes : List Node) (name : Bytes) :
    (findMacro nodes name).isSome = true ↔ name ∈ topMacroNames nodes := by
  have := findMacro_isSome_aux name nodes []
  simpa [findMacro] using this

/-! ## C12: the routes to a macro -/

theorem getMacro_setKV_same (c : Ctx) (k : Bytes) (v : Bytes × Bytes) :
    ({ c with macros := setKV k v c.macros } : Ctx).getMacro k = some v := by
  simp only [Ctx.getMacro, getKV_setKV_same]

theorem getMacro_setKV_ne (c : Ctx) {k k' : Bytes} (v : Bytes × Bytes) (h : k' ≠ k) :
    ({ c with macros := setKV k v c.macros } : Ctx).getMacro k' = c.getMacro k' := by
  simp only [Ctx.getMacro, getKV_setKV_ne _ _ h]

/-- a `{% macro %}` node registers the macro under its name, pointing at the template it stands in -/
theorem macro_node_eq (E : Env) (go : Go) (tpl nm : Bytes) (ps dn : List Bytes) (de : List Expr) (body : List Node)
    (st : St) :
    renderNode E go tpl (.macro nm ps dn de body) st =
      .ok ([], { st with ctx := { st.ctx with macros := setKV nm (tpl, nm) st.ctx.macros } }) := rfl

/-- `name(args)` where `name` resolves to a macro (directly defined, or bound by `from … import`) -/
theorem route_call {E : Env} {ap : Bool} {nm : Bytes} {args : List Expr} {st st1 : St} {av : List Val} {L m : Bytes}
    (hallow : denied E st.ctx E.allowedFunctions nm = false)
    (hmac : st.ctx.getMacro nm = some (L, m))
    (hargs : evalArgs E args st = .ok (av, st1)) :
    evalX E ap (.call nm args) st = .ok ((.callable L m av, []), st1) := by
  simp only [evalX, allowedCheck, hallow, Bool.and_false, Bool.false_eq_true, if_false, ok_bind, hmac, hargs,
    pure_eq_ok]

theorem builtinFunction_none {nm : Bytes} (av : List Val) (h1 : nm ≠ b "range") (h2 : nm ≠ b "length") :
    builtinFunction nm av = none := by
  have e1 : (nm == b "range") = false := by simpa using h1
  have e2 : (nm == b "length") = false := by simpa using h2
  simp only [builtinFunction, e1, e2, Bool.false_eq_true, if_false]

/-- a macro name that no function-call mechanism claims before the macro lookup of `CallFunction`.
    Since `.mcall` consults the visible macros BEFORE `CallFunction` (and `.call` always did), none of
    the call routes of `evalX` needs this any more; it only remains the hypothesis of
    `callFunction_macro`, the statement about `CallFunction` itself. -/
def plainName (E : Env) (nm : Bytes) : Prop :=
  nm ≠ b "parent" ∧ nm ≠ b "range" ∧ nm ≠ b "length" ∧ E.spyFunctions.contains nm = false

/-- `CallFunction` falls back to the macro lookup -/
theorem callFunction_macro {E : Env} {nm : Bytes} {av : List Val} {st : St} {L m : Bytes}
    (hplain : plainName E nm) (hmac : st.ctx.getMacro nm = some (L, m)) :
    callFunction E nm av st = .ok (.callable L m av, st) := by
  obtain ⟨h1, h2, h3, h4⟩ := hplain
  have e1 : (nm == b "parent") = false := by simpa using h1
  simp only [callFunction, hmac, Option.isNone_some, Bool.and_false, Bool.false_eq_true, if_false, e1, h4,
    builtinFunction_none av h2 h3, pure_eq_ok]

/-- `obj.name(args)` where `obj` is not a module (e.g. `_self`): a visible macro `name` is found
    before `CallFunction` is consulted — also when `name` is `range`, `length`, `parent` or a
    registered function (no `plainName` hypothesis) -/
theorem route_mcall_function {E : Env} {ap : Bool} {obj : Expr} {nm : Bytes} {args : List Expr} {st st1 : St}
    {o : Val} {fl} {av : List Val} {L m : Bytes}
    (hallow : denied E st.ctx E.allowedFunctions nm = false)
    (hobj : evalX E true obj st = .ok ((o, fl), st))
    (hnomod : ∀ kvs, o ≠ .map kvs)
    (hargs : evalArgs E args st = .ok (av, st1))
    (hmac : st.ctx.getMacro nm = some (L, m)) :
    evalX E ap (.mcall obj nm args) st = .ok ((.callable L m av, []), st1) := by
  have hctx : st1.ctx = st.ctx := evalArgs_ctx E _ _ _ _ hargs
  have hmac1 : st1.ctx.getMacro nm = some (L, m) := by rw [hctx]; exact hmac
  simp only [evalX, allowedCheck, hallow, Bool.and_false, Bool.false_eq_true, if_false, ok_bind, hobj, hargs]
  cases o with
  | map kvs => exact absurd rfl (hnomod kvs)
  | _ => simp only [hmac1, pure_eq_ok]

/-! ### evaluating a name: a variable shadows a global, a global shadows a macro of the same name -/

theorem evalVar_of_hasVar {E : Env} {ap : Bool} {n : Bytes} {st : St} (h : st.ctx.hasVar n = true) :
    evalX E ap (.var n) st = .ok ((st.ctx.getVar n, []), st) := by
  simp only [evalX, h, if_true, pure_eq_ok]

/-- a name no scope of the chain binds reads as the engine global of that name, if there is one -/
theorem evalVar_of_global {E : Env} {ap : Bool} {n : Bytes} {st : St} {g : Val}
    (h : st.ctx.hasVar n = false) (hg : getKV n E.globals = some g) :
    evalX E ap (.var n) st = .ok ((g, []), st) := by
  simp only [evalX, h, hg, Bool.false_eq_true, if_false, pure_eq_ok]

theorem evalVar_of_noMacro {E : Env} {ap : Bool} {n : Bytes} {st : St}
    (hg : st.ctx.hasVar n = true ∨ getKV n E.globals = none) (h : st.ctx.getMacro n = none) :
    evalX E ap (.var n) st = .ok ((st.ctx.getVar n, []), st) := by
  rcases hg with hg | hg
  · exact evalVar_of_hasVar hg
  · simp only [evalX, h, hg, pure_eq_ok]
    split <;> rfl

/-- a name evaluates, whatever it is bound to or not: never an error, never a state change, no
    pending filter chain -/
theorem evalVar_total (E : Env) (ap : Bool) (n : Bytes) (st : St) :
    ∃ o, evalX E ap (.var n) st = .ok ((o, []), st) := by
  simp only [evalX, pure_eq_ok]
  split
  · exact ⟨_, rfl⟩
  · cases getKV n E.globals with
    | some g => exact ⟨_, rfl⟩
    | none =>
      cases st.ctx.getMacro n with
      | some tm => exact ⟨_, rfl⟩
      | none => exact ⟨_, rfl⟩

/-- the value of a name is independent of `apply` -/
theorem evalVar_apply (E : Env) (ap ap' : Bool) (n : Bytes) (st : St) :
    evalX E ap (.var n) st = evalX E ap' (.var n) st := by
  simp only [evalX]

/-- a name bound (in the chain) to something that is not a map does not evaluate to a map -/
theorem evalVar_not_map_of_hasVar {E : Env} {n : Bytes} {st : St} (h : st.ctx.hasVar n = true)
    (hv : ∀ kvs, st.ctx.getVar n ≠ .map kvs) :
    ∀ kvs, evalX E true (.var n) st ≠ .ok ((.map kvs, []), st) := by
  intro kvs hh
  rw [evalVar_of_hasVar h] at hh
  simp only [Except.ok.injEq, Prod.mk.injEq, and_true] at hh
  exact hv kvs hh

theorem scopesVar_ne_null {k : Bytes} : ∀ {ps : List Scope}, scopesVar k ps ≠ .null →
    ps.any (fun s => (getKV k s.vars).isSome) = true
  | [], h => absurd rfl h
  | s :: r, h => by
    simp only [scopesVar] at h
    simp only [List.any_cons, Bool.or_eq_true]
    cases hs : getKV k s.vars with
    | some v => left; rfl
    | none => rw [hs] at h; right; exact scopesVar_ne_null h

/-- a name that reads as something other than null is a defined variable -/
theorem hasVar_of_getVar_ne_null {c : Ctx} {k : Bytes} (h : c.getVar k ≠ .null) : c.hasVar k = true := by
  simp only [Ctx.getVar] at h
  simp only [Ctx.hasVar, Bool.or_eq_true]
  cases hs : getKV k c.vars with
  | some v => left; rfl
  | none => rw [hs] at h; right; exact scopesVar_ne_null h

/-- an unbound name does not evaluate to a map unless a global of that name holds one (a macro of
    that name reads as a macro value, nothing reads as null) -/
theorem evalVar_not_map_of_unbound {E : Env} {n : Bytes} {st : St} (h : st.ctx.hasVar n = false)
    (hg : ∀ kvs, getKV n E.globals ≠ some (.map kvs)) :
    ∀ kvs, evalX E true (.var n) st ≠ .ok ((.map kvs, []), st) := by
  intro kvs hh
  simp only [evalX, h, Bool.false_eq_true, if_false, pure_eq_ok] at hh
  cases hG : getKV n E.globals with
  | some g =>
    rw [hG] at hh
    simp only [Except.ok.injEq, Prod.mk.injEq, and_true] at hh
    exact hg kvs (by rw [hG, hh])
  | none =>
    rw [hG] at hh
    have hnull : st.ctx.getVar n = .null := by
      cases hn : st.ctx.getVar n with
      | null => rfl
      | _ => exact absurd (hasVar_of_getVar_ne_null (by rw [hn]; exact fun h => by cases h)) (by rw [h]; exact Bool.false_ne_true)
    rw [hnull] at hh
    cases hM : st.ctx.getMacro n with
    | some tm => rw [hM] at hh; cases hh
    | none => rw [hM] at hh; cases hh

/-- `_self.name(args)`: whatever the name `_self` evaluates to (a context variable, else an engine
    global, else a macro value, else null) is not a module map; then the visible macro `name` is
    called — whatever `name` is (also `range`, `length`, `parent`, a registered function) -/
theorem route_self {E : Env} {ap : Bool} {nm : Bytes} {args : List Expr} {st st1 : St}
    {av : List Val} {L m : Bytes}
    (hallow : denied E st.ctx E.allowedFunctions nm = false)
    (hself : ∀ kvs, evalX E true (.var (b "_self")) st ≠ .ok ((.map kvs, []), st))
    (hargs : evalArgs E args st = .ok (av, st1))
    (hmac : st.ctx.getMacro nm = some (L, m)) :
    evalX E ap (.mcall (.var (b "_self")) nm args) st = .ok ((.callable L m av, []), st1) := by
  obtain ⟨o, ho⟩ := evalVar_total E true (b "_self") st
  refine route_mcall_function (o := o) (fl := []) hallow ho ?_ hargs hmac
  intro kvs hk
  exact hself kvs (by rw [ho, hk])

/-- `lib.name(args)` where the variable `lib` holds a module map (made by `import … as lib`); a macro
    that happens to be called `lib` too does not matter: the variable shadows it -/
theorem route_import {E : Env} {ap : Bool} {lib nm : Bytes} {args : List Expr} {st st1 : St}
    {kvs : List (Bytes × Val)} {av : List Val} {L m : Bytes}
    (hallow : denied E st.ctx E.allowedFunctions nm = false)
    (hlibv : st.ctx.getVar lib = .map kvs)
    (hmod : mapGet nm kvs = some (.macro L m))
    (hargs : evalArgs E args st = .ok (av, st1)) :
    evalX E ap (.mcall (.var lib) nm args) st = .ok ((.callable L m av, []), st1) := by
  have hv : st.ctx.hasVar lib = true := hasVar_of_getVar_ne_null (by rw [hlibv]; exact fun h => by cases h)
  simp only [evalX, allowedCheck, hallow, Bool.and_false, Bool.false_eq_true, if_false, ok_bind,
    pure_eq_ok, hv, if_true, hlibv, hargs, hmod]

/-- printing the closure of a macro call calls the macro -/
theorem printVal_callable (go : Go) (L m : Bytes) (av : List Val) (st : St) :
    printVal go (.callable L m av) st = go (.macroCall L m av) st := rfl

/-! ### module maps (`import … as`) -/

/-- the module map `import` stores in the alias variable -/
def modOf (macros : List (Bytes × Bytes × Bytes)) : List (Bytes × Val) :=
  macros.foldl (fun acc m => mapInsert m.1 (.macro m.2.1 m.2.2) acc) []

theorem mapGet_mapInsert_same (k : Bytes) (v : Val) : ∀ (l : List (Bytes × Val)), mapGet k (mapInsert k v l) = some v
  | [] => by simp [mapGet, mapInsert]
  | (k', v') :: r => by
    simp only [mapInsert]
    split
    · simp [mapGet]
    · split
      · simp [mapGet]
      · rename_i hne _
        have ih := mapGet_mapInsert_same k v r
        have : (k' == k) = false := by
          simp only [beq_eq_false_iff_ne, ne_eq]
          intro h; exact hne (by simp [h])
        simp only [mapGet, List.find?, this] at ih ⊢
        exact ih

theorem mapGet_mapInsert_ne {k k' : Bytes} (v : Val) (h : k' ≠ k) :
    ∀ (l : List (Bytes × Val)), mapGet k' (mapInsert k v l) = mapGet k' l
  | [] => by
    have : (k == k') = false := by simpa using (Ne.symm h)
    simp [mapGet, mapInsert, this]
  | (k1, v1) :: r => by
    have hk : (k == k') = false := by simpa using (Ne.symm h)
    simp only [mapInsert]
    split
    · rename_i heq
      have : k = k1 := by simpa using heq
      subst this
      simp [mapGet, List.find?, hk]
    · split
      · simp [mapGet, List.find?, hk]
      · have ih := mapGet_mapInsert_ne v h r
        simp only [mapGet, List.find?] at ih ⊢
        cases (k1 == k') with
        | true => rfl
        | false => exact ih

theorem modOf_get_aux (k t n : Bytes) : ∀ (macros : List (Bytes × Bytes × Bytes)) (acc : List (Bytes × Val)),
    (∀ e ∈ macros, e.1 = k → e.2 = (t, n)) →
    ((∃ e ∈ macros, e.1 = k) ∨ mapGet k acc = some (.macro t n)) →
    mapGet k (macros.foldl (fun acc m => mapInsert m.1 (.macro m.2.1 m.2.2) acc) acc) = some (.macro t n)
  | [], acc, _, h => by
    rcases h with ⟨e, he, _⟩ | h
    · cases he
    · exact h
  | e :: r, acc, hall, h => by
    rw [List.foldl_cons]
    apply modOf_get_aux k t n r _ (fun e' he' => hall e' (List.mem_cons_of_mem _ he'))
    by_cases hk : e.1 = k
    · right
      have := hall e List.mem_cons_self hk
      rw [hk, this]
      exact mapGet_mapInsert_same k _ _
    · rcases h with ⟨e', he', hk'⟩ | h
      · rcases List.mem_cons.1 he' with rfl | he'
        · exact absurd hk' hk
        · left; exact ⟨e', he', hk'⟩
      · right
        rw [mapGet_mapInsert_ne _ (Ne.symm hk)]
        exact h

/-- a module map sends `k` to the macro all entries for `k` agree on -/
theorem modOf_get {k t n : Bytes} {macros : List (Bytes × Bytes × Bytes)}
    (hall : ∀ e ∈ macros, e.1 = k → e.2 = (t, n)) (hex : ∃ e ∈ macros, e.1 = k) :
    mapGet k (modOf macros) = some (.macro t n) :=
  modOf_get_aux k t n macros [] hall (Or.inl hex)

theorem getKV_mem {α} {k : Bytes} {v : α} {l : List (Bytes × α)} (h : getKV k l = some v) : (k, v) ∈ l := by
  simp only [getKV, Option.map_eq_some_iff] at h
  obtain ⟨e, he, hv⟩ := h
  have h1 := List.mem_of_find?_eq_some he
  have h2 := List.find?_some he
  have : e.1 = k := by simpa using h2
  rw [← this, ← hv]; exact h1

theorem nodup_map_inj {α β} (f : α → β) : ∀ {l : List α}, (l.map f).Nodup → ∀ {x y}, x ∈ l → y ∈ l → f x = f y → x = y
  | [], _, _, _, hx, _, _ => by cases hx
  | a :: r, hnd, x, y, hx, hy, hf => by
    simp only [List.map_cons, List.nodup_cons, List.mem_map, not_exists, not_and] at hnd
    rcases List.mem_cons.1 hx with hx' | hx' <;> rcases List.mem_cons.1 hy with hy' | hy'
    · rw [hx', hy']
    · subst hx'; exact absurd hf.symm (hnd.1 y hy')
    · subst hy'; exact absurd hf (hnd.1 x hx')
    · exact nodup_map_inj f hnd.2 hx' hy' hf

/-- with pairwise distinct keys the module map agrees with the macro table -/
theorem modOf_get_nodup {k t n : Bytes} {macros : List (Bytes × Bytes × Bytes)}
    (hnd : (macros.map (·.1)).Nodup) (h : getKV k macros = some (t, n)) :
    mapGet k (modOf macros) = some (.macro t n) := by
  have hm := getKV_mem h
  refine modOf_get (fun e he hk => ?_) ⟨_, hm, rfl⟩
  have := nodup_map_inj (·.1) hnd he hm hk
  rw [this]

/-! ### `import` and `from … import` nodes -/

/-- state the library template's root is rendered in by `import` / `from` -/
def libSt (st : St) (sandboxed : Bool) : St :=
  { st with ctx := freshCtx [] sandboxed st.ctx.inside }

theorem import_eq {E : Env} {go : Go} {tpl : Bytes} {te : Expr} {alias : Bytes} {st st1 st2 : St} {v fl}
    {L : Bytes} {T : List Node} {o2 : Bytes}
    (h1 : evalX E true te st = .ok ((v, fl), st1)) (h2 : toStr v = .ok L)
    (hrel : isRelative L = false) (ht : E.tpl? L = some T)
    (hgo : go (.root L) (libSt st1 (E.F.propImport && st1.ctx.sandboxed)) = .ok (o2, st2)) :
    renderNode E go tpl (.importN te alias) st =
      .ok ([], { st2 with ctx := st1.ctx.setVar alias (.map (modOf st2.ctx.macros)) }) := by
  unfold libSt at hgo
  simp only [renderNode, h1, ok_bind, h2, resolveTpl_of_not_relative hrel, ht, Option.map_some, hgo, pure_eq_ok, modOf]

theorem from_eq {E : Env} {go : Go} {tpl : Bytes} {te : Expr} {names : List (Bytes × Bytes)} {st st1 st2 : St} {v fl}
    {L : Bytes} {T : List Node} {o2 : Bytes} {ms}
    (h1 : evalX E true te st = .ok ((v, fl), st1)) (h2 : toStr v = .ok L)
    (hrel : isRelative L = false) (ht : E.tpl? L = some T)
    (hgo : go (.root L) (libSt st1 (E.F.propFrom && st1.ctx.sandboxed)) = .ok (o2, st2))
    (hb : bindFrom st2.ctx.macros names st1.ctx.macros = .ok ms) :
    renderNode E go tpl (.fromN te names) st =
      .ok ([], { st2 with ctx := { st1.ctx with macros := ms } }) := by
  unfold libSt at hgo
  simp only [renderNode, h1, ok_bind, h2, resolveTpl_of_not_relative hrel, ht, Option.map_some, hgo, pure_eq_ok, hb]

/-- `from … import`: the target name `a` is bound to what the library has under `m`, provided every
    request for the target `a` names the same library macro -/
theorem bindFrom_get {lib : List (Bytes × Bytes × Bytes)} {m a : Bytes} :
    ∀ (names : List (Bytes × Bytes)) (acc ms : List (Bytes × Bytes × Bytes)),
      bindFrom lib names acc = .ok ms → (∀ m', (m', a) ∈ names → m' = m) →
      ((m, a) ∈ names ∨ getKV a acc = getKV m lib) → getKV a ms = getKV m lib
  | [], acc, ms, h, _, hor => by
    simp only [bindFrom] at h; cases h
    rcases hor with h | h
    · cases h
    · exact h
  | (m1, a1) :: r, acc, ms, h, hcons, hor => by
    simp only [bindFrom] at h
    cases hl : getKV m1 lib with
    | none => rw [hl] at h; simp only [rerr] at h; cases h
    | some ref =>
      rw [hl] at h
      refine bindFrom_get r _ ms h (fun m' hm' => hcons m' (List.mem_cons_of_mem _ hm')) ?_
      by_cases ha : a1 = a
      · subst ha
        have : m1 = m := hcons m1 List.mem_cons_self
        subst this
        right; rw [getKV_setKV_same, hl]
      · rcases hor with h' | h'
        · rcases List.mem_cons.1 h' with h' | h'
          · cases h'; exact absurd rfl ha
          · left; exact h'
        · right; rw [getKV_setKV_ne _ _ (Ne.symm ha)]; exact h'

theorem bindFrom_single {lib : List (Bytes × Bytes × Bytes)} {m a : Bytes} {ref} (acc)
    (h : getKV m lib = some ref) : bindFrom lib [(m, a)] acc = .ok (setKV a ref acc) := by
  simp only [bindFrom, h]

/-! ### macro libraries: templates made of macro definitions (and text) only -/

def isMacroLib (nodes : List Node) : Bool :=
  nodes.all fun n => match n with
    | .macro _ _ _ _ _ => true
    | .text _ => true
    | _ => false

def libText : List Node → Bytes
  | [] => []
  | .text s :: r => s ++ libText r
  | _ :: r => libText r

/-- the macro table after the macros `names` of template `tpl` have been registered in order -/
def regMacros (tpl : Bytes) (names : List Bytes) (ms : List (Bytes × Bytes × Bytes)) : List (Bytes × Bytes × Bytes) :=
  names.foldl (fun acc m => setKV m (tpl, m) acc) ms

theorem lib_renderNodes (E : Env) (go : Go) (tpl : Bytes) : ∀ (nodes : List Node) (st : St),
    isMacroLib nodes = true →
    renderNodes E go tpl nodes st =
      .ok (libText nodes, { st with ctx := { st.ctx with macros := regMacros tpl (topMacroNames nodes) st.ctx.macros } })
  | [], st, _ => rfl
  | n :: r, st, h => by
    simp only [isMacroLib, List.all_cons, Bool.and_eq_true] at h
    have ih := fun st' => lib_renderNodes E go tpl r st' (by simpa [isMacroLib] using h.2)
    cases n with
    | text s =>
      simp only [renderNodes, renderNode, pure_eq_ok, ok_bind, ih]
      rfl
    | «macro» nm ps dn de body =>
      simp only [renderNodes, macro_node_eq, ok_bind, ih, pure_eq_ok]
      rfl
    | _ => simp at h

theorem lib_lastExtends : ∀ (nodes : List Node), isMacroLib nodes = true → lastExtends nodes = none
  | [], _ => rfl
  | n :: r, h => by
    simp only [isMacroLib, List.all_cons, Bool.and_eq_true] at h
    have ih := lib_lastExtends r (by simpa [isMacroLib] using h.2)
    cases n <;> first | (simp at h; done) | simp only [lastExtends, ih]

theorem lib_registerBlocks (tpl : Bytes) : ∀ (nodes : List Node) (D : List (Bytes × List BlockDef)),
    isMacroLib nodes = true → registerBlocks tpl nodes D = D
  | [], _, _ => rfl
  | n :: r, D, h => by
    simp only [isMacroLib, List.all_cons, Bool.and_eq_true] at h
    have ih := lib_registerBlocks tpl r D (by simpa [isMacroLib] using h.2)
    cases n <;> first | (simp at h; done) | simp only [registerBlocks, ih]

/-- rendering the root of a macro library: its text, and its macros registered -/
theorem lib_renderRoot {E : Env} {go : Go} {L : Bytes} {nodes : List Node} (st : St)
    (ht : E.tpl? L = some nodes) (hlib : isMacroLib nodes = true) :
    renderRoot E go L st =
      .ok (libText nodes, { st with ctx := { st.ctx with macros := regMacros L (topMacroNames nodes) st.ctx.macros } }) := by
  rw [renderRoot_base st ht (lib_lastExtends nodes hlib), lib_renderNodes E go L nodes _ hlib]
  simp only [regSt, lib_registerBlocks L nodes _ hlib]

theorem regMacros_spec (tpl : Bytes) : ∀ (names : List Bytes) (ms : List (Bytes × Bytes × Bytes)),
    (∀ e ∈ ms, e.2 = (tpl, e.1)) →
    (∀ e ∈ regMacros tpl names ms, e.2 = (tpl, e.1)) ∧
    (∀ m ∈ names, getKV m (regMacros tpl names ms) = some (tpl, m))
  | [], ms, h => ⟨h, fun _ hm => by cases hm⟩
  | n :: r, ms, h => by
    have hs : ∀ e ∈ setKV n (tpl, n) ms, e.2 = (tpl, e.1) := by
      intro e he
      simp only [setKV, List.mem_cons, List.mem_filter] at he
      rcases he with rfl | he
      · rfl
      · exact h e he.1
    obtain ⟨i1, i2⟩ := regMacros_spec tpl r (setKV n (tpl, n) ms) hs
    refine ⟨i1, fun m hm => ?_⟩
    rcases List.mem_cons.1 hm with rfl | hm
    · -- registered first, possibly re-registered later: either way the entry is (tpl, m)
      by_cases hr : m ∈ r
      · exact i2 m hr
      · have : getKV m (regMacros tpl r (setKV m (tpl, m) ms)) = getKV m (setKV m (tpl, m) ms) := by
          clear i1 i2 hs hm
          generalize setKV m (tpl, m) ms = acc
          induction r generalizing acc with
          | nil => rfl
          | cons x r ih =>
            simp only [List.mem_cons, not_or] at hr
            simp only [regMacros, List.foldl_cons] at ih ⊢
            rw [ih hr.2, getKV_setKV_ne _ _ hr.1]
        show getKV m (regMacros tpl r (setKV m (tpl, m) ms)) = some (tpl, m)
        rw [this, getKV_setKV_same]
    · exact i2 m hm

/-- the module map of a macro library sends every top-level macro name to that macro -/
theorem lib_module (L : Bytes) (nodes : List Node) {m : Bytes} (hm : m ∈ topMacroNames nodes) :
    mapGet m (modOf (regMacros L (topMacroNames nodes) [])) = some (.macro L m) ∧
    getKV m (regMacros L (topMacroNames nodes) []) = some (L, m) := by
  obtain ⟨i1, i2⟩ := regMacros_spec L (topMacroNames nodes) [] (fun _ h => by cases h)
  have hg := i2 m hm
  refine ⟨modOf_get (fun e he hk => ?_) ⟨_, getKV_mem hg, rfl⟩, hg⟩
  rw [i1 e he, hk]

/-! ## macro tables keep pairwise distinct names

  (In Go the table is a map; in the model it is an association list that is only ever extended with
  `setKV`.  This invariant is what makes the module map of `import` agree with the table lookup.) -/

def KN (ms : List (Bytes × Bytes × Bytes)) : Prop := (ms.map (·.1)).Nodup

theorem KN_nil : KN [] := List.nodup_nil

theorem setKV_kn {k : Bytes} {v : Bytes × Bytes} {ms : List (Bytes × Bytes × Bytes)} (h : KN ms) :
    KN (setKV k v ms) := by
  unfold KN setKV
  rw [List.map_cons, List.nodup_cons]
  constructor
  · intro hk
    obtain ⟨e, he, hek⟩ := List.mem_map.1 hk
    have := (List.mem_filter.1 he).2
    simp at this
    exact this hek
  · exact h.sublist (List.Sublist.map _ List.filter_sublist)

theorem bindFrom_kn {lib : List (Bytes × Bytes × Bytes)} : ∀ (names : List (Bytes × Bytes)) (acc ms),
    bindFrom lib names acc = .ok ms → KN acc → KN ms
  | [], acc, ms, h, hk => by simp only [bindFrom] at h; cases h; exact hk
  | (m, a) :: r, acc, ms, h, hk => by
    simp only [bindFrom] at h
    split at h
    · exact bindFrom_kn r _ ms h (setKV_kn hk)
    · simp only [rerr] at h; cases h

structure GoKN (go : Go) : Prop where
  body : ∀ t ns st o st', go (.body t ns) st = .ok (o, st') → KN st.ctx.macros → KN st'.ctx.macros
  mac : ∀ t n a st o st', go (.macroCall t n a) st = .ok (o, st') → KN st.ctx.macros → KN st'.ctx.macros

theorem printVal_kn {go : Go} (hg : GoKN go) {v st o st'} (h : printVal go v st = .ok (o, st'))
    (hk : KN st.ctx.macros) : KN st'.ctx.macros := by
  unfold printVal at h
  split at h
  · exact hg.mac _ _ _ _ _ _ h hk
  · split at h
    · simp only [rerr] at h; cases h
    · dsimp only at h
      split at h
      · simp only [rerr] at h; cases h
      · obtain ⟨⟨o1, st1⟩, h1, h⟩ := bind_ok h
        have i1 := hg.body _ _ _ _ _ h1 hk
        cases h
        exact i1
  · obtain ⟨s, _, h⟩ := bind_ok h
    cases h; exact hk

theorem loopOver_kn {f : St → R Out} (hf : ∀ s o s', f s = .ok (o, s') → KN s.ctx.macros → KN s'.ctx.macros)
    (kv : Option Bytes) (vv : Bytes) (n : Nat) :
    ∀ (items : List (Val × Val)) (i : Nat) (st : St) o st',
      loopOver f kv vv n i items st = .ok (o, st') → KN st.ctx.macros → KN st'.ctx.macros
  | [], i, st, o, st', h, hk => by simp only [loopOver, pure_eq_ok] at h; cases h; exact hk
  | (k, v) :: r, i, st, o, st', h, hk => by
    simp only [loopOver] at h
    obtain ⟨⟨o1, st1⟩, h1, h⟩ := bind_ok h
    obtain ⟨⟨o2, st2⟩, h2, h⟩ := bind_ok h
    cases h
    refine loopOver_kn hf kv vv n r _ _ _ _ h2 (hf _ _ _ h1 ?_)
    cases kv <;> exact hk

mutual
theorem renderNode_kn (E : Env) {go : Go} (hg : GoKN go) (tpl : Bytes) :
    ∀ (n : Node) (st : St) o st', renderNode E go tpl n st = .ok (o, st') →
      KN st.ctx.macros → KN st'.ctx.macros
  | .text s, st, o, st', h, hk => by simp only [renderNode, pure_eq_ok] at h; cases h; exact hk
  | .verbatim s, st, o, st', h, hk => by simp only [renderNode, pure_eq_ok] at h; cases h; exact hk
  | .print e, st, o, st', h, hk => by
    simp only [renderNode] at h
    obtain ⟨⟨⟨v, fl⟩, st1⟩, h1, h⟩ := bind_ok h
    exact printVal_kn hg h (by rw [evalX_ctx E _ _ _ _ _ h1]; exact hk)
  | .ifN c t e, st, o, st', h, hk => by
    simp only [renderNode] at h
    obtain ⟨⟨⟨v, fl⟩, st1⟩, h1, h⟩ := bind_ok h
    have hk1 : KN st1.ctx.macros := by rw [evalX_ctx E _ _ _ _ _ h1]; exact hk
    dsimp only at h
    split at h
    · exact renderNodes_kn E hg tpl t _ _ _ h hk1
    · exact renderNodes_kn E hg tpl e _ _ _ h hk1
  | .forN key val seq body els, st, o, st', h, hk => by
    simp only [renderNode] at h
    obtain ⟨⟨⟨v, fl⟩, st1⟩, h1, h⟩ := bind_ok h
    obtain ⟨items, _, h⟩ := bind_ok h
    have hk1 : KN st1.ctx.macros := by rw [evalX_ctx E _ _ _ _ _ h1]; exact hk
    dsimp only at h
    split at h
    · exact renderNodes_kn E hg tpl els _ _ _ h hk1
    · exact renderNodes_kn E hg tpl els _ _ _ h hk1
    · obtain ⟨⟨o2, st2⟩, h2, h⟩ := bind_ok h
      have i2 := loopOver_kn (fun s o s' hs => renderNodes_kn E hg tpl body s o s' hs) _ _ _ _ _ _ _ _ h2 hk1
      cases h
      dsimp only
      split <;> exact i2
  | .setN name e, st, o, st', h, hk => by
    simp only [renderNode] at h
    obtain ⟨⟨⟨v, fl⟩, st1⟩, h1, h⟩ := bind_ok h
    cases h
    show KN st1.ctx.macros
    rw [evalX_ctx E _ _ _ _ _ h1]; exact hk
  | .doN e, st, o, st', h, hk => by
    simp only [renderNode] at h
    obtain ⟨⟨_, st1⟩, h1, h⟩ := bind_ok h
    cases h
    rw [evalX_ctx E _ _ _ _ _ h1]; exact hk
  | .block name body, st, o, st', h, hk => by
    simp only [renderNode] at h
    split at h
    · cases h; exact hk
    · obtain ⟨⟨o1, st1⟩, h1, h⟩ := bind_ok h
      have i1 := hg.body _ _ _ _ _ h1 hk
      cases h
      exact i1
  | .extends e, st, o, st', h, hk => by
    simp only [renderNode] at h
    obtain ⟨⟨⟨v, fl⟩, st1⟩, h1, h⟩ := bind_ok h
    obtain ⟨name, _, h⟩ := bind_ok h
    dsimp only at h
    split at h
    · cases h
    · obtain ⟨⟨o2, st2⟩, h2, h⟩ := bind_ok h
      cases h
      show KN st1.ctx.macros
      rw [evalX_ctx E _ _ _ _ _ h1]; exact hk
  | .include te names exprs ignoreMissing only sandboxed, st, o, st', h, hk => by
    simp only [renderNode] at h
    obtain ⟨⟨⟨v, fl⟩, st1⟩, h1, h⟩ := bind_ok h
    obtain ⟨name, _, h⟩ := bind_ok h
    have hk1 : KN st1.ctx.macros := by rw [evalX_ctx E _ _ _ _ _ h1]; exact hk
    dsimp only at h
    split at h
    · split at h
      · cases h; exact hk1
      · cases h
    · split at h
      · simp only [rerr] at h; cases h
      · obtain ⟨⟨vals, st2⟩, h2, h⟩ := bind_ok h
        obtain ⟨⟨o3, st3⟩, h3, h⟩ := bind_ok h
        cases h
        show KN st2.ctx.macros
        rw [evalArgs_ctx E _ _ _ _ h2]; exact hk1
  | .macro name _ _ _ _, st, o, st', h, hk => by
    simp only [renderNode, pure_eq_ok] at h; cases h; exact setKV_kn hk
  | .importN te alias, st, o, st', h, hk => by
    simp only [renderNode] at h
    obtain ⟨⟨⟨v, fl⟩, st1⟩, h1, h⟩ := bind_ok h
    obtain ⟨name, _, h⟩ := bind_ok h
    have hk1 : KN st1.ctx.macros := by rw [evalX_ctx E _ _ _ _ _ h1]; exact hk
    dsimp only at h
    split at h
    · cases h
    · obtain ⟨⟨o2, st2⟩, h2, h⟩ := bind_ok h
      cases h
      exact hk1
  | .fromN te names, st, o, st', h, hk => by
    simp only [renderNode] at h
    obtain ⟨⟨⟨v, fl⟩, st1⟩, h1, h⟩ := bind_ok h
    obtain ⟨name, _, h⟩ := bind_ok h
    have hk1 : KN st1.ctx.macros := by rw [evalX_ctx E _ _ _ _ _ h1]; exact hk
    dsimp only at h
    split at h
    · cases h
    · obtain ⟨⟨o2, st2⟩, h2, h⟩ := bind_ok h
      obtain ⟨ms, hms, h⟩ := bind_ok h
      cases h
      exact bindFrom_kn _ _ _ hms hk1
  | .apply filter body, st, o, st', h, hk => by
    simp only [renderNode] at h
    obtain ⟨⟨o1, st1⟩, h1, h⟩ := bind_ok h
    obtain ⟨⟨v, st2⟩, h2, h⟩ := bind_ok h
    obtain ⟨s, _, h⟩ := bind_ok h
    cases h
    rw [applyFilter_ctx h2]
    exact renderNodes_kn E hg tpl body _ _ _ h1 hk
  | .spaceless _, st, o, st', h, hk => by simp only [renderNode, unsup] at h; cases h

theorem renderNodes_kn (E : Env) {go : Go} (hg : GoKN go) (tpl : Bytes) :
    ∀ (ns : List Node) (st : St) o st', renderNodes E go tpl ns st = .ok (o, st') →
      KN st.ctx.macros → KN st'.ctx.macros
  | [], st, o, st', h, hk => by simp only [renderNodes, pure_eq_ok] at h; cases h; exact hk
  | n :: r, st, o, st', h, hk => by
    simp only [renderNodes] at h
    obtain ⟨⟨o1, st1⟩, h1, h⟩ := bind_ok h
    obtain ⟨⟨o2, st2⟩, h2, h⟩ := bind_ok h
    cases h
    exact renderNodes_kn E hg tpl r _ _ _ h2 (renderNode_kn E hg tpl n _ _ _ h1 hk)
end

theorem run_kn (E : Env) : ∀ f, GoKN (run E f)
  | 0 => ⟨fun _ _ _ _ _ h => by (simp only [run] at h; cases h),
          fun _ _ _ _ _ _ h => by (simp only [run] at h; cases h)⟩
  | f+1 => ⟨fun t ns st o st' h hk => by
              simp only [run] at h
              exact renderNodes_kn E (run_kn E f) t ns st o st' h hk,
            fun t n a st o st' h hk => by
              simp only [run] at h
              rw [callMacro_ctx h]; exact hk⟩

/-- rendering a template's root (through the real transfer function) keeps the macro names distinct -/
theorem run_root_kn (E : Env) (f : Nat) (L : Bytes) (st : St) {o st'}
    (h : run E f (.root L) st = .ok (o, st')) (hk : KN st.ctx.macros) : KN st'.ctx.macros := by
  cases f with
  | zero => simp only [run] at h; cases h
  | succ f =>
    simp only [run, renderRoot] at h
    split at h
    · cases h
    · split at h
      · exact renderNode_kn E (run_kn E f) L _ _ _ _ h hk
      · exact renderNodes_kn E (run_kn E f) L _ _ _ _ h hk

/-! ## end-to-end evaluation of sources (for the non-vacuity examples) -/

/-- parse the given sources into an environment (`none` when one of them does not parse) -/
def envOfSources (srcs : List (String × String)) : Option Env :=
  (srcs.mapM fun (n, s) => match parseTemplate (b s) with
    | .ok ns => some (b n, ns)
    | .error _ => none).map fun ts => { tpls := ts }

/-- `Engine.Render(main, vars)` over parsed sources: the output, or `none` on any failure -/
def renderSources (srcs : List (String × String)) (main : String) (vars : List (Bytes × Val) := []) : Option Bytes :=
  match envOfSources srcs with
  | some E => match renderTop E (b main) vars with
    | .ok (o, _) => some o
    | .error _ => none
  | none => none

/-- the failure class of a render over parsed sources -/
def renderSourcesFails (srcs : List (String × String)) (main : String) : Bool :=
  match envOfSources srcs with
  | some E => match renderTop E (b main) [] with
    | .error (.error .render _ _) => true
    | _ => false
  | none => false

end Inh
end Twig
