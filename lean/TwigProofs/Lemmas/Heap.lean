/-
  Lemmas for C18: the frame rule for traces of heap operations, slices and `append`, the copy made by
  NewRenderContext.  Core Lean only.
-/
import TwigModel.Heap
namespace Twig.Heap

@[simp] theorem set_mem_ne (h : Heap) {a x : Nat} (v : Int) (hne : x ≠ a) : (h.set a v).mem x = h.mem x := by
  simp [Heap.set, hne]

@[simp] theorem set_mem_eq (h : Heap) (a : Nat) (v : Int) : (h.set a v).mem a = v := by
  simp [Heap.set]

@[simp] theorem set_next (h : Heap) (a : Nat) (v : Int) : (h.set a v).next = h.next := rfl

theorem step_next_ge (base : Nat) (h : Heap) (op : Op) : h.next ≤ (step base h op).next := by
  cases op <;> simp [step]

theorem run_next_ge (base : Nat) : ∀ (t : List Op) (h : Heap), h.next ≤ (run base t h).next
  | [], h => Nat.le_refl _
  | op :: t, h => by
    have := run_next_ge base t (step base h op)
    have := step_next_ge base h op
    simp only [run, List.foldl_cons] at *
    omega

theorem exec_next_ge (t : List Op) (h : Heap) : h.next ≤ (exec t h).next := run_next_ge _ t h

theorem noCallerWrites_cons (op : Op) (t : List Op) :
    noCallerWrites (op :: t) = true ↔
      (∀ tg, op.target? = some tg → tg.isCaller = false) ∧ noCallerWrites t = true := by
  simp only [noCallerWrites, List.all_cons, Bool.and_eq_true]
  constructor
  · rintro ⟨h₁, h₂⟩
    refine ⟨?_, h₂⟩
    intro tg htg
    rw [htg] at h₁
    simpa using h₁
  · rintro ⟨h₁, h₂⟩
    refine ⟨?_, h₂⟩
    cases htg : op.target? with
    | none => rfl
    | some tg => simp [h₁ tg htg]

/-- one step of a trace that does not target caller cells leaves the caller's region alone -/
theorem step_frame (base : Nat) (R L : Nat → Prop) (hR : ∀ a, R a → a < base) (hdis : ∀ a, L a → ¬ R a)
    (h : Heap) (op : Op) (hnc : ∀ tg, op.target? = some tg → tg.isCaller = false)
    (hlib : ∀ a, op.target? = some (.lib a) → L a) :
    ∀ a, R a → (step base h op).mem a = h.mem a := by
  intro a ha
  have key : ∀ tg, op.target? = some tg → a ≠ tg.addr base := by
    intro tg htg
    cases tg with
    | fresh off => have := hR a ha; simp [Target.addr]; omega
    | lib x =>
      intro e
      have e' : a = x := e
      exact hdis x (hlib x htg) (e' ▸ ha)
    | caller x => have := hnc _ htg; simp [Target.isCaller] at this
  cases op with
  | alloc n => rfl
  | write tg v => exact set_mem_ne _ _ (key tg rfl)
  | copyFrom tg src => exact set_mem_ne _ _ (key tg rfl)

theorem run_frame (base : Nat) (R L : Nat → Prop) (hR : ∀ a, R a → a < base) (hdis : ∀ a, L a → ¬ R a) :
    ∀ (t : List Op), noCallerWrites t = true → LibOk L t → ∀ (h : Heap) a, R a → (run base t h).mem a = h.mem a
  | [], _, _, _, _, _ => rfl
  | op :: t, hnc, hlib, h, a, ha => by
    rw [noCallerWrites_cons] at hnc
    have ih := run_frame base R L hR hdis t hnc.2
      (fun o ho x hx => hlib o (List.mem_cons_of_mem _ ho) x hx) (step base h op) a ha
    have hs := step_frame base R L hR hdis h op hnc.1 (fun x hx => hlib op (by simp) x hx) a ha
    simp only [run, List.foldl_cons] at ih ⊢
    rw [ih, hs]

/-- **frame rule for one trace** -/
theorem exec_frame (R L : Nat → Prop) (h : Heap) (hreg : Regions R L h) (t : List Op)
    (hnc : noCallerWrites t = true) (hlib : LibOk L t) : ∀ a, R a → (exec t h).mem a = h.mem a :=
  run_frame h.next R L hreg.callerAllocated hreg.disjoint t hnc hlib h

theorem regions_mono (R L : Nat → Prop) (h h' : Heap) (hreg : Regions R L h) (hle : h.next ≤ h'.next) :
    Regions R L h' :=
  ⟨fun a ha => Nat.lt_of_lt_of_le (hreg.callerAllocated a ha) hle, hreg.disjoint⟩

/-- **frame rule, compositional over sequencing**: each call is only known to write cells that are fresh
    relative to *its own* entry (or library-owned); the caller's region survives the whole sequence -/
theorem execCalls_frame (R L : Nat → Prop) : ∀ (ts : List (List Op)) (h : Heap), Regions R L h →
    (∀ t ∈ ts, noCallerWrites t = true ∧ LibOk L t) → ∀ a, R a → (execCalls ts h).mem a = h.mem a
  | [], _, _, _, _, _ => rfl
  | t :: ts, h, hreg, hall, a, ha => by
    have ht := hall t (by simp)
    have h₁ := exec_frame R L h hreg t ht.1 ht.2 a ha
    have hreg' := regions_mono R L h (exec t h) hreg (exec_next_ge t h)
    have ih := execCalls_frame R L ts (exec t h) hreg' (fun t' ht' => hall t' (List.mem_cons_of_mem _ ht')) a ha
    simp only [execCalls, List.foldl_cons] at ih ⊢
    rw [ih, h₁]

theorem run_append (base : Nat) (t₁ t₂ : List Op) (h : Heap) :
    run base (t₁ ++ t₂) h = run base t₂ (run base t₁ h) := by
  simp [run, List.foldl_append]

theorem noCallerWrites_append (t₁ t₂ : List Op) :
    noCallerWrites (t₁ ++ t₂) = (noCallerWrites t₁ && noCallerWrites t₂) := by
  simp [noCallerWrites, List.all_append]

/-! ### slices -/

theorem window_addrOf (s : Slice) (a b i : Nat) : (s.window a b).addrOf i = s.addrOf (a + i) := by
  simp [Slice.window, Slice.addrOf]; omega

theorem windowFull_addrOf (s : Slice) (a b i : Nat) : (s.windowFull a b).addrOf i = s.addrOf (a + i) := by
  simp [Slice.windowFull, Slice.addrOf]; omega

theorem copyCells_below (h : Heap) (dst src : Nat) : ∀ (n : Nat) (x : Nat), x < dst →
    (copyCells h dst src n).mem x = h.mem x
  | 0, _, _ => rfl
  | n + 1, x, hx => by
    rw [copyCells, set_mem_ne _ _ (by omega)]
    exact copyCells_below h dst src n x hx

theorem copyCells_next (h : Heap) (dst src : Nat) : ∀ n, (copyCells h dst src n).next = h.next
  | 0 => rfl
  | n + 1 => by rw [copyCells, set_next, copyCells_next h dst src n]

theorem copyCells_at (h : Heap) (dst src : Nat) : ∀ (n i : Nat), i < n →
    (copyCells h dst src n).mem (dst + i) = h.mem (src + i)
  | 0, _, hi => by omega
  | n + 1, i, hi => by
    rw [copyCells]
    by_cases e : i = n
    · subst e; simp
    · rw [set_mem_ne _ _ (by omega)]
      exact copyCells_at h dst src n i (by omega)

/-! ### the context copy -/

theorem run_copyRange (base src : Nat) (h : Heap) :
    ∀ (n : Nat), src + n ≤ base →
      let h' := run base ((List.range n).map fun i => Op.copyFrom (.fresh i) (src + i)) h
      (∀ i, i < n → h'.mem (base + i) = h.mem (src + i)) ∧ (∀ x, x < base → h'.mem x = h.mem x) ∧ h'.next = h.next
  | 0, _ => by simp [run]
  | n + 1, hle => by
    have ih := run_copyRange base src h n (by omega)
    simp only [List.range_succ, List.map_append, List.map_cons, List.map_nil, run_append] at ih ⊢
    obtain ⟨ih₁, ih₂, ih₃⟩ := ih
    refine ⟨?_, ?_, ?_⟩
    · intro i hi
      simp only [run, List.foldl_cons, List.foldl_nil, step, Target.addr]
      by_cases e : i = n
      · subst e
        rw [set_mem_eq]
        exact ih₂ (src + i) (by omega)
      · rw [set_mem_ne _ _ (by omega)]
        exact ih₁ i (by omega)
    · intro x hx
      simp only [run, List.foldl_cons, List.foldl_nil, step, Target.addr]
      rw [set_mem_ne _ _ (by omega)]
      exact ih₂ x hx
    · simp only [run, List.foldl_cons, List.foldl_nil, step, set_next]
      exact ih₃

end Twig.Heap
