/-
  Lemmas for C03: one permutation-invariance lemma per loop schema of TwigModel.MapOrder, the
  "sorted permutations are equal" lemma, properties of Go's string order, and the date-format lemmas.
  Core Lean only.
-/
import TwigModel.MapOrder
namespace Twig.MapOrder

/-! ### generic list facts -/

/-- a function whose image of `l` has no duplicates is injective on `l` -/
theorem inj_of_nodup_map {α β : Type} (f : α → β) :
    ∀ (l : List α), (l.map f).Nodup → ∀ x ∈ l, ∀ y ∈ l, f x = f y → x = y
  | [], _, _, hx, _, _, _ => by simp at hx
  | a :: t, hn, x, hx, y, hy, hxy => by
    rw [List.map_cons, List.nodup_cons] at hn
    rcases List.mem_cons.mp hx with rfl | hx'
    · rcases List.mem_cons.mp hy with rfl | hy'
      · rfl
      · exact absurd (List.mem_map.mpr ⟨y, hy', hxy.symm⟩) hn.1
    · rcases List.mem_cons.mp hy with rfl | hy'
      · exact absurd (List.mem_map.mpr ⟨x, hx', hxy⟩) hn.1
      · exact inj_of_nodup_map f t hn.2 x hx' y hy' hxy

/-- Two lists sorted by a relation that is antisymmetric on their members and that are permutations of
    each other are equal.  (No transitivity, totality or duplicate-freeness needed.) -/
theorem eq_of_sorted_perm {α : Type} (le : α → α → Prop) :
    ∀ (l₁ l₂ : List α), (∀ a ∈ l₁, ∀ c ∈ l₁, le a c → le c a → a = c) →
      l₁.Pairwise le → l₂.Pairwise le → l₁.Perm l₂ → l₁ = l₂
  | [], l₂, _, _, _, p => p.nil_eq
  | a :: t₁, [], _, _, _, p => by simpa using p.length_eq
  | a :: t₁, c :: t₂, anti, h₁, h₂, p => by
    rw [List.pairwise_cons] at h₁ h₂
    have hac : a = c := by
      have ha : a ∈ c :: t₂ := p.mem_iff.mp (by simp)
      have hc : c ∈ a :: t₁ := p.mem_iff.mpr (by simp)
      rcases List.mem_cons.mp ha with rfl | ha'
      · rfl
      · rcases List.mem_cons.mp hc with rfl | hc'
        · rfl
        · exact anti a (by simp) c hc (h₁.1 c hc') (h₂.1 a ha')
    subst hac
    congr 1
    exact eq_of_sorted_perm le t₁ t₂
      (fun x hx y hy => anti x (List.mem_cons_of_mem _ hx) y (List.mem_cons_of_mem _ hy))
      h₁.2 h₂.2 p.cons_inv

section
variable {κ ν κ' ν' ε : Type}

theorem insert_comm [DecidableEq κ] (m : GoMap κ ν) {k₁ k₂ : κ} (v₁ v₂ : ν) (h : k₁ ≠ k₂) :
    (m.insert k₁ v₁).insert k₂ v₂ = (m.insert k₂ v₂).insert k₁ v₁ := by
  funext k
  simp only [GoMap.insert]
  by_cases h₁ : k = k₁ <;> by_cases h₂ : k = k₂ <;> simp [h₁, h₂]
  · subst h₁; subst h₂; exact absurd rfl h
  · intro e; exact absurd e h
  · intro e; exact absurd e.symm h

theorem erase_comm [DecidableEq κ] (m : GoMap κ ν) (k₁ k₂ : κ) :
    (m.erase k₁).erase k₂ = (m.erase k₂).erase k₁ := by
  funext k
  simp only [GoMap.erase]
  by_cases h₁ : k = k₁ <;> by_cases h₂ : k = k₂ <;> simp [h₁, h₂]

/-! ### schema lemmas -/

/-- copyAll: copying every entry of a map into another map gives the same map whatever the order -/
theorem schema_copyAll_perm [DecidableEq κ] (dst : GoMap κ ν) (o₁ o₂ : List (κ × ν))
    (hp : o₁.Perm o₂) (hu : UniqueKeys o₁) : copyAll dst o₁ = copyAll dst o₂ := by
  unfold copyAll
  apply hp.foldl_eq'
  intro x hx y hy z
  by_cases hxy : x = y
  · subst hxy; rfl
  · apply insert_comm
    intro hk
    exact hxy (inj_of_nodup_map Prod.fst o₁ hu x hx y hy hk)

/-- deleteAll: deleting every key gives the same map whatever the order (no hypothesis needed) -/
theorem schema_deleteAll_perm [DecidableEq κ] (m : GoMap κ ν) (o₁ o₂ : List (κ × ν)) (hp : o₁.Perm o₂) :
    deleteAll m o₁ = deleteAll m o₂ := by
  unfold deleteAll
  apply hp.foldl_eq'
  intro x _ y _ z
  exact erase_comm z x.1 y.1

theorem keyedCopy_eq_copyAll [DecidableEq κ'] (g : κ → κ') (h : κ → ν → ν') (dst : GoMap κ' ν') (o : List (κ × ν)) :
    keyedCopy g h dst o = copyAll dst (o.map fun e => (g e.1, h e.1 e.2)) := by
  unfold keyedCopy copyAll
  rw [List.foldl_map]

/-- keyedCopy: order independent **provided the transformed keys are pairwise distinct** -/
theorem schema_keyedCopy_perm [DecidableEq κ'] (g : κ → κ') (h : κ → ν → ν') (dst : GoMap κ' ν') (o₁ o₂ : List (κ × ν))
    (hp : o₁.Perm o₂) (hinj : (o₁.map fun e => g e.1).Nodup) :
    keyedCopy g h dst o₁ = keyedCopy g h dst o₂ := by
  rw [keyedCopy_eq_copyAll, keyedCopy_eq_copyAll]
  apply schema_copyAll_perm _ _ _ (hp.map _)
  unfold UniqueKeys
  rw [List.map_map]
  exact hinj

/-- the successfully evaluated entries -/
def okVals (ev : κ × ν → Except ε (κ' × ν')) (es : List (κ × ν)) : List (κ' × ν') :=
  es.filterMap fun e => match ev e with | .ok r => some r | .error _ => none

def evOk (ev : κ × ν → Except ε (κ' × ν')) (e : κ × ν) : Bool :=
  match ev e with | .ok _ => true | .error _ => false

theorem evalKeyedCopy_ok [DecidableEq κ'] (ev : κ × ν → Except ε (κ' × ν')) :
    ∀ (es : List (κ × ν)) (m : GoMap κ' ν'), es.all (evOk ev) = true →
      evalKeyedCopy ev m es = .ok (copyAll m (okVals ev es))
  | [], m, _ => rfl
  | e :: es, m, h => by
    rw [List.all_cons, Bool.and_eq_true] at h
    have he := h.1
    unfold evOk at he
    cases hev : ev e with
    | error x => rw [hev] at he; cases he
    | ok r =>
      obtain ⟨k, x⟩ := r
      have ih := evalKeyedCopy_ok ev es (m.insert k x) h.2
      simp only [evalKeyedCopy, evalStep, hev, okVals, List.filterMap_cons, copyAll, List.foldl_cons]
      simpa [okVals, copyAll] using ih

theorem evalKeyedCopy_err [DecidableEq κ'] (ev : κ × ν → Except ε (κ' × ν')) :
    ∀ (es : List (κ × ν)) (m : GoMap κ' ν'), es.all (evOk ev) = false →
      (evalKeyedCopy ev m es).toOption = none
  | [], m, h => by simp at h
  | e :: es, m, h => by
    cases hev : ev e with
    | error x => simp [evalKeyedCopy, evalStep, hev, Except.toOption]
    | ok r =>
      obtain ⟨k, x⟩ := r
      have h' : es.all (evOk ev) = false := by
        rw [List.all_cons] at h
        have : evOk ev e = true := by simp [evOk, hev]
        simpa [this] using h
      simpa [evalKeyedCopy, evalStep, hev] using evalKeyedCopy_err ev es (m.insert k x) h'

/-- evalKeyedCopy: whether the loop fails does not depend on the order, and when it succeeds the
    resulting map does not either **provided the evaluated keys are pairwise distinct**.
    (Which error is returned when several entries fail does depend on the order; `toOption` drops it.) -/
theorem schema_evalKeyedCopy_perm [DecidableEq κ'] (ev : κ × ν → Except ε (κ' × ν')) (dst : GoMap κ' ν')
    (o₁ o₂ : List (κ × ν)) (hp : o₁.Perm o₂) (hinj : UniqueKeys (okVals ev o₁)) :
    (evalKeyedCopy ev dst o₁).toOption = (evalKeyedCopy ev dst o₂).toOption := by
  cases hall : o₁.all (evOk ev) with
  | true =>
    have hall₂ : o₂.all (evOk ev) = true := by rw [← hp.all_eq]; exact hall
    rw [evalKeyedCopy_ok ev o₁ dst hall, evalKeyedCopy_ok ev o₂ dst hall₂]
    congr 1
    exact congrArg _ (schema_copyAll_perm dst _ _ (hp.filterMap _) hinj)
  | false =>
    have hall₂ : o₂.all (evOk ev) = false := by rw [← hp.all_eq]; exact hall
    rw [evalKeyedCopy_err ev o₁ dst hall, evalKeyedCopy_err ev o₂ dst hall₂]

theorem okVals_keys_sublist (ev : ν → Except ε ν') :
    ∀ (es : List (κ × ν)),
      ((okVals (fun e : κ × ν => match ev e.2 with | .ok x => Except.ok (e.1, x) | .error x => .error x) es).map Prod.fst).Sublist
        (es.map Prod.fst)
  | [] => by simp [okVals]
  | e :: es => by
    have ih := okVals_keys_sublist ev es
    cases hev : ev e.2 with
    | error x =>
      simp only [okVals, List.filterMap_cons, hev, List.map_cons]
      exact List.Sublist.cons _ ih
    | ok x =>
      simp only [okVals, List.filterMap_cons, hev, List.map_cons]
      exact List.Sublist.cons_cons _ ih

/-- evalCopyAll (`include … with {…}`): keys are kept, so distinct keys of the source suffice -/
theorem schema_evalCopyAll_perm [DecidableEq κ] (ev : ν → Except ε ν') (dst : GoMap κ ν') (o₁ o₂ : List (κ × ν))
    (hp : o₁.Perm o₂) (hu : UniqueKeys o₁) :
    (evalCopyAll ev dst o₁).toOption = (evalCopyAll ev dst o₂).toOption := by
  unfold evalCopyAll
  apply schema_evalKeyedCopy_perm _ _ _ _ hp
  exact (okVals_keys_sublist ev o₁).nodup hu

theorem anyMatch_eq_any (p : κ × ν → Bool) : ∀ (o : List (κ × ν)), anyMatch p o = o.any p
  | [] => rfl
  | e :: es => by
    rw [anyMatch, List.any_cons, anyMatch_eq_any p es]
    cases p e <;> simp

/-- anyMatch: "is there an entry satisfying p" does not depend on the order -/
theorem schema_anyMatch_perm (p : κ × ν → Bool) (o₁ o₂ : List (κ × ν)) (hp : o₁.Perm o₂) :
    anyMatch p o₁ = anyMatch p o₂ := by
  rw [anyMatch_eq_any, anyMatch_eq_any, hp.any_eq]

/-- uniformStore: storing the same constant through every value commutes -/
theorem schema_uniformStore_perm {α β : Type} [DecidableEq α] (addr : ν → α) (c : β) (heap : α → β)
    (o₁ o₂ : List (κ × ν)) (hp : o₁.Perm o₂) :
    uniformStore addr c heap o₁ = uniformStore addr c heap o₂ := by
  unfold uniformStore
  apply hp.foldl_eq'
  intro x _ y _ z
  funext a
  by_cases h₁ : a = addr x.2 <;> by_cases h₂ : a = addr y.2 <;> simp [h₁, h₂]

end

/-! ### strict total orders; Go's string order -/

/-- what the schemas `minKey` and `collectThenSort` need of the comparison -/
structure StrictTotal {α : Type} (lt : α → α → Bool) : Prop where
  asymm : ∀ a c, lt a c = true → lt c a = false
  trans : ∀ a c d, lt a c = true → lt c d = true → lt a d = true
  connected : ∀ a c, lt a c = false → lt c a = false → a = c

theorem bytesLt_irrefl : ∀ (a : Bytes), bytesLt a a = false
  | [] => rfl
  | x :: xs => by simp [bytesLt, bytesLt_irrefl xs]

theorem bytesLt_asymm : ∀ (a c : Bytes), bytesLt a c = true → bytesLt c a = false
  | [], [], h => by simp [bytesLt] at h
  | [], _ :: _, _ => rfl
  | _ :: _, [], h => by simp [bytesLt] at h
  | x :: xs, y :: ys, h => by
    simp only [bytesLt, Bool.or_eq_true, decide_eq_true_eq, Bool.and_eq_true, beq_iff_eq] at h
    simp only [bytesLt, Bool.or_eq_false_iff, decide_eq_false_iff_not, Bool.and_eq_false_iff]
    rcases h with h | ⟨h, h'⟩
    · constructor
      · omega
      · left; simp; omega
    · constructor
      · omega
      · right; exact bytesLt_asymm xs ys h'

theorem bytesLt_trans : ∀ (a c d : Bytes), bytesLt a c = true → bytesLt c d = true → bytesLt a d = true
  | [], [], _, h, _ => by simp [bytesLt] at h
  | [], _ :: _, [], _, h => by simp [bytesLt] at h
  | [], _ :: _, _ :: _, _, _ => rfl
  | _ :: _, [], _, h, _ => by simp [bytesLt] at h
  | _ :: _, _ :: _, [], _, h => by simp [bytesLt] at h
  | x :: xs, y :: ys, z :: zs, h₁, h₂ => by
    simp only [bytesLt, Bool.or_eq_true, decide_eq_true_eq, Bool.and_eq_true, beq_iff_eq] at h₁ h₂ ⊢
    rcases h₁ with h₁ | ⟨e₁, h₁⟩ <;> rcases h₂ with h₂ | ⟨e₂, h₂⟩
    · left; omega
    · left; omega
    · left; omega
    · right; exact ⟨by omega, bytesLt_trans xs ys zs h₁ h₂⟩

theorem bytesLt_connected : ∀ (a c : Bytes), bytesLt a c = false → bytesLt c a = false → a = c
  | [], [], _, _ => rfl
  | [], _ :: _, h, _ => by simp [bytesLt] at h
  | _ :: _, [], _, h => by simp [bytesLt] at h
  | x :: xs, y :: ys, h₁, h₂ => by
    simp only [bytesLt, Bool.or_eq_false_iff, decide_eq_false_iff_not, Bool.and_eq_false_iff] at h₁ h₂
    have hxy : x.toNat = y.toNat := by omega
    have hx : x = y := UInt8.toNat_inj.mp hxy
    subst hx
    have t₁ : bytesLt xs ys = false := by
      rcases h₁.2 with h | h
      · simp at h
      · exact h
    have t₂ : bytesLt ys xs = false := by
      rcases h₂.2 with h | h
      · simp at h
      · exact h
    rw [bytesLt_connected xs ys t₁ t₂]

/-- Go's `<` on strings is a strict total order -/
theorem bytesLt_strictTotal : StrictTotal bytesLt :=
  ⟨bytesLt_asymm, bytesLt_trans, bytesLt_connected⟩

theorem natLt_strictTotal : StrictTotal (fun a c : Nat => decide (a < c)) :=
  ⟨by intro a c; simp; omega, by intro a c d; simp; omega, by intro a c; simp; omega⟩

theorem intLt_strictTotal : StrictTotal (fun a c : Int => decide (a < c)) :=
  ⟨by intro a c; simp; omega, by intro a c d; simp; omega, by intro a c; simp; omega⟩

section
variable {κ ν : Type}

theorem minKeyStep_comm (lt : κ → κ → Bool) (hlt : StrictTotal lt) (z : Option κ) (x y : κ) :
    minKeyStep lt (minKeyStep lt z x) y = minKeyStep lt (minKeyStep lt z y) x := by
  have A := hlt.asymm
  have T := hlt.trans
  have C := hlt.connected
  cases z with
  | none =>
    simp only [minKeyStep]
    cases hyx : lt y x <;> cases hxy : lt x y <;> simp
    · exact (C x y hxy hyx)
    · exact absurd (A y x hyx) (by rw [hxy]; decide)
  | some f =>
    cases hxf : lt x f <;> cases hyf : lt y f <;> cases hxy : lt x y <;> cases hyx : lt y x <;>
      simp [minKeyStep, hxf, hyf, hxy, hyx]
    all_goals first
      | exact C x y hxy hyx
      | exact (C x y hxy hyx).symm
      | exact absurd (A y x hyx) (by rw [hxy]; decide)
      | exact absurd (T y x f hyx hxf) (by rw [hyf]; decide)
      | exact absurd (T x y f hxy hyf) (by rw [hxf]; decide)

/-- minKey: the least key does not depend on the order -/
theorem schema_minKey_perm (lt : κ → κ → Bool) (hlt : StrictTotal lt) (o₁ o₂ : List (κ × ν))
    (hp : o₁.Perm o₂) : minKey lt o₁ = minKey lt o₂ := by
  unfold minKey
  apply hp.foldl_eq'
  intro x _ y _ z
  exact (minKeyStep_comm lt hlt z y.1 x.1).symm

/-- collectThenSort: whatever sorting function meets the contract of package sort, and whatever order
    the keys were collected in, the sorted slice is the same — if `less` is connected on the keys -/
theorem schema_collectThenSort_perm (less : κ → κ → Bool) (sort : List κ → List κ)
    (hs : SortSpec less sort) (o₁ o₂ : List (κ × ν)) (hp : o₁.Perm o₂)
    (hconn : ∀ a ∈ o₁.map Prod.fst, ∀ c ∈ o₁.map Prod.fst, less c a = false → less a c = false → a = c) :
    collectThenSort sort o₁ = collectThenSort sort o₂ := by
  unfold collectThenSort
  obtain ⟨p₁, s₁⟩ := hs (o₁.map Prod.fst)
  obtain ⟨p₂, s₂⟩ := hs (o₂.map Prod.fst)
  apply eq_of_sorted_perm (fun a c => less c a = false) _ _ _ s₁ s₂
  · exact p₁.trans ((hp.map _).trans p₂.symm)
  · intro a ha c hc
    exact hconn a (p₁.mem_iff.mp ha) c (p₁.mem_iff.mp hc)

/-- the same with different sort functions on the two sides (e.g. two runs of an unstable sort) -/
theorem sorted_unique (less : κ → κ → Bool) (ks s₁ s₂ : List κ)
    (hconn : ∀ a ∈ ks, ∀ c ∈ ks, less c a = false → less a c = false → a = c)
    (h₁ : SortedBy less s₁) (h₂ : SortedBy less s₂) (p₁ : s₁.Perm ks) (p₂ : s₂.Perm ks) : s₁ = s₂ := by
  apply eq_of_sorted_perm (fun a c => less c a = false) _ _ _ h₁ h₂ (p₁.trans p₂.symm)
  intro a ha c hc
  exact hconn a (p₁.mem_iff.mp ha) c (p₁.mem_iff.mp hc)

end

/-! ### lexicographic products -/

/-- `x < y` on pairs: first components by `la`, equal first components by `lb` -/
def lexLt {α β : Type} [DecidableEq α] (la : α → α → Bool) (lb : β → β → Bool) (x y : α × β) : Bool :=
  la x.1 y.1 || (decide (x.1 = y.1) && lb x.2 y.2)

theorem StrictTotal.irrefl {α : Type} {lt : α → α → Bool} (h : StrictTotal lt) (a : α) : lt a a = false := by
  cases e : lt a a with
  | false => rfl
  | true => have := h.asymm a a e; rw [e] at this; cases this

theorem StrictTotal.lex {α β : Type} [DecidableEq α] {la : α → α → Bool} {lb : β → β → Bool}
    (ha : StrictTotal la) (hb : StrictTotal lb) : StrictTotal (lexLt la lb) := by
  refine ⟨?_, ?_, ?_⟩
  · intro x y h
    simp only [lexLt, Bool.or_eq_true, Bool.and_eq_true, decide_eq_true_eq] at h
    simp only [lexLt, Bool.or_eq_false_iff, Bool.and_eq_false_iff, decide_eq_false_iff_not]
    rcases h with h | ⟨e, h⟩
    · refine ⟨ha.asymm _ _ h, Or.inl ?_⟩
      intro e; rw [e, ha.irrefl] at h; cases h
    · refine ⟨?_, Or.inr (hb.asymm _ _ h)⟩
      rw [e]; exact ha.irrefl _
  · intro x y z h₁ h₂
    simp only [lexLt, Bool.or_eq_true, Bool.and_eq_true, decide_eq_true_eq] at h₁ h₂ ⊢
    rcases h₁ with h₁ | ⟨e₁, h₁⟩ <;> rcases h₂ with h₂ | ⟨e₂, h₂⟩
    · exact Or.inl (ha.trans _ _ _ h₁ h₂)
    · exact Or.inl (by rw [← e₂]; exact h₁)
    · exact Or.inl (by rw [e₁]; exact h₂)
    · exact Or.inr ⟨e₁.trans e₂, hb.trans _ _ _ h₁ h₂⟩
  · intro x y h₁ h₂
    simp only [lexLt, Bool.or_eq_false_iff, Bool.and_eq_false_iff, decide_eq_false_iff_not] at h₁ h₂
    have e : x.1 = y.1 := ha.connected _ _ h₁.1 h₂.1
    have t₁ : lb x.2 y.2 = false := by
      rcases h₁.2 with h | h
      · exact absurd e h
      · exact h
    have t₂ : lb y.2 x.2 = false := by
      rcases h₂.2 with h | h
      · exact absurd e.symm h
      · exact h
    exact Prod.ext e (hb.connected _ _ t₁ t₂)

/-! ### the comparator of sortedMapKeys -/

/-- The sort key the comparator works with: `keyLess a c` is the lexicographic order of the ranks
    (`keyLess_eq_rank`).  NaN keys sort before all other floats; string ranks use the first, `other`
    keys all three byte strings. -/
abbrev Rank := Nat × Int × Bytes × Bytes × Bytes

def GoKey.rank : GoKey → Rank
  | .int i => (0, i, [], [], [])
  | .uint n => (1, (n : Int), [], [], [])
  | .nan _ => (2, 0, [], [], [])
  | .float r => (3, r, [], [], [])
  | .str s => (4, 0, s, [], [])
  | .other _ _ p t g => (5, 0, p, t, g)

def rankLt : Rank → Rank → Bool :=
  lexLt (fun a c : Nat => decide (a < c)) (lexLt (fun a c : Int => decide (a < c))
    (lexLt bytesLt (lexLt bytesLt bytesLt)))

theorem rankLt_strictTotal : StrictTotal rankLt :=
  natLt_strictTotal.lex (intLt_strictTotal.lex (bytesLt_strictTotal.lex
    (bytesLt_strictTotal.lex bytesLt_strictTotal)))

theorem keyLess_eq_rank (a c : GoKey) : keyLess a c = rankLt a.rank c.rank := by
  cases a <;> cases c <;>
    simp [keyLess, rankLt, lexLt, GoKey.rank, GoKey.cls, bytesLt_irrefl]
  all_goals try exact decide_eq_decide.mpr Iff.rfl
  case other.other i se p t g j se' q u h =>
    by_cases hpq : p = q
    · subst hpq
      by_cases htu : t = u
      · subst htu; simp [bytesLt_irrefl]
      · simp [htu, bytesLt_irrefl]
    · simp [hpq]

theorem StrictTotal.negTrans {α : Type} {lt : α → α → Bool} (h : StrictTotal lt) (a c d : α) :
    lt c a = false → lt d c = false → lt d a = false := by
  intro h₁ h₂
  cases hda : lt d a with
  | false => rfl
  | true =>
    cases hac : lt a c with
    | true => exact absurd (h.trans d a c hda hac) (by rw [h₂]; decide)
    | false =>
      have e := h.connected a c hac h₁
      subst e
      exact absurd hda (by rw [h₂]; decide)

theorem keyLess_negTrans (a c d : GoKey) :
    keyLess c a = false → keyLess d c = false → keyLess d a = false := by
  simp only [keyLess_eq_rank]
  exact rankLt_strictTotal.negTrans _ _ _

theorem keyLess_asymm (a c : GoKey) : keyLess a c = true → keyLess c a = false := by
  simp only [keyLess_eq_rank]
  exact rankLt_strictTotal.asymm _ _

/-- keys that the comparator cannot tell apart have the same rank -/
theorem rank_eq_of_tied (a c : GoKey) (h₁ : keyLess c a = false) (h₂ : keyLess a c = false) :
    a.rank = c.rank := by
  rw [keyLess_eq_rank] at h₁ h₂
  exact rankLt_strictTotal.connected _ _ h₂ h₁

/-- keys compared by value with equal ranks are the same key, or both NaN -/
theorem obs_eq_of_rank_eq_byValue (a c : GoKey) (ha : a.byValue = true) (hc : c.byValue = true)
    (h : a.rank = c.rank) : a.obs = c.obs := by
  cases a <;> cases c <;> simp [GoKey.rank, GoKey.byValue] at h ha hc <;> simp [GoKey.obs, h]
  omega

theorem keyLess_connected_byValue (a c : GoKey) (ha : a.byValue = true) (hc : c.byValue = true)
    (h₁ : keyLess c a = false) (h₂ : keyLess a c = false) : a.obs = c.obs :=
  obs_eq_of_rank_eq_byValue a c ha hc (rank_eq_of_tied a c h₁ h₂)

theorem obs_of_selfEq (k : GoKey) (h : k.selfEq = true) : k.obs = k := by
  cases k <;> simp [GoKey.selfEq] at h <;> simp [GoKey.obs]
  rename_i i se p t g
  subst h; rfl

theorem selfEq_obs (k : GoKey) : k.obs.selfEq = k.selfEq := by
  cases k <;> try rfl
  rename_i i se p t g
  cases se <;> rfl

/-- the comparator does not look at what `obs` forgets -/
theorem keyLess_obs (a c : GoKey) : keyLess a c = keyLess a.obs c.obs := by
  have r : ∀ k : GoKey, k.obs.rank = k.rank := by
    intro k
    cases k <;> try rfl
    rename_i i se p t g
    cases se <;> rfl
  rw [keyLess_eq_rank, keyLess_eq_rank, r, r]

/-- `MapIndex` depends on a key only through what can be observed of it -/
theorem mapIndex_obs {ν : Type} (es : List (GoKey × ν)) (k : GoKey) : mapIndex es k.obs = mapIndex es k := by
  cases hs : k.selfEq with
  | true => rw [obs_of_selfEq k hs]
  | false => simp [mapIndex, selfEq_obs, hs]

theorem obs_obs (k : GoKey) : k.obs.obs = k.obs := by
  cases k <;> try rfl
  case other i se p t g => cases se <;> rfl

theorem mergeStep_obs {ν κ' : Type} [DecidableEq κ'] (g : GoKey → κ') (es : List (GoKey × ν)) (m : GoMap κ' ν)
    (k : GoKey) : mergeStep g es m k.obs = mergeStep g es m k := by
  unfold mergeStep
  rw [mapIndex_obs, obs_obs]

/-- Two sorted permutations of the same keys agree on every function of the keys that the comparator
    factors through and on whose values it is connected.  (With `f = id` this is `sorted_unique`.) -/
theorem sorted_map_unique {α β : Type} (less : α → α → Bool) (f : α → β) (lessβ : β → β → Bool)
    (hf : ∀ a c, less a c = lessβ (f a) (f c)) (ks s₁ s₂ : List α)
    (hconn : ∀ a ∈ ks, ∀ c ∈ ks, less c a = false → less a c = false → f a = f c)
    (h₁ : SortedBy less s₁) (h₂ : SortedBy less s₂) (p₁ : s₁.Perm ks) (p₂ : s₂.Perm ks) :
    s₁.map f = s₂.map f := by
  apply sorted_unique lessβ (ks.map f) (s₁.map f) (s₂.map f) _ _ _ (p₁.map f) (p₂.map f)
  · intro x hx y hy hyx hxy
    obtain ⟨a, ha, rfl⟩ := List.mem_map.mp hx
    obtain ⟨c, hc, rfl⟩ := List.mem_map.mp hy
    rw [← hf] at hyx hxy
    exact hconn a ha c hc hyx hxy
  · unfold SortedBy at h₁ ⊢
    rw [List.pairwise_map]
    exact h₁.imp (by intro a c h; rw [← hf]; exact h)
  · unfold SortedBy at h₂ ⊢
    rw [List.pairwise_map]
    exact h₂.imp (by intro a c h; rw [← hf]; exact h)

/-- the executable reference sort meets the contract of package sort -/
theorem sortKeys_spec : SortSpec keyLess sortKeys := by
  intro l
  refine ⟨List.mergeSort_perm _ _, ?_⟩
  unfold SortedBy sortKeys
  have := List.pairwise_mergeSort (le := fun a c : GoKey => !keyLess c a)
    (by
      intro a c d h₁ h₂
      simp only [Bool.not_eq_true'] at h₁ h₂ ⊢
      exact keyLess_negTrans a c d h₁ h₂)
    (by
      intro a c
      cases h : keyLess a c with
      | false => simp
      | true => simp [keyLess_asymm a c h])
    l
  exact this.imp (by intro a c h; simpa using h)

/-! ### source-order evaluation: the last store under a key wins -/

section
variable {κ ν : Type}

/-- after `for … { dst[k] = v }` over `l` *in this order*, a key holds the value of the last entry of `l`
    with that key, else what `dst` held -/
theorem copyAll_apply [DecidableEq κ] : ∀ (l : List (κ × ν)) (dst : GoMap κ ν) (k : κ),
    copyAll dst l k = match l.reverse.find? (fun e => e.1 = k) with
      | some e => some e.2
      | none => dst k
  | [], dst, k => by simp [copyAll]
  | e :: l, dst, k => by
    have ih := copyAll_apply l (dst.insert e.1 e.2) k
    simp only [copyAll, List.foldl_cons] at ih ⊢
    rw [ih, List.reverse_cons, List.find?_append]
    cases h : l.reverse.find? (fun e => decide (e.1 = k)) with
    | some x => simp
    | none =>
      by_cases hk : e.1 = k
      · simp [GoMap.insert, hk]
      · have hk' : ¬ k = e.1 := fun x => hk x.symm
        simp [GoMap.insert, hk, hk']

end

/-! ### date format -/

theorem convertLoop_eq (tbl : CharTable) : ∀ (fmt acc : List Char),
    convertLoop tbl acc fmt = acc ++ fmt.flatMap (dateLookup tbl)
  | [], acc => by simp [convertLoop]
  | c :: cs, acc => by
    rw [convertLoop, convertLoop_eq tbl cs, List.flatMap_cons, List.append_assoc]

theorem lookup_of_mem {α β : Type} [DecidableEq α] : ∀ (l : List (α × β)) (k : α) (g : β),
    (l.map Prod.fst).Nodup → (k, g) ∈ l → l.lookup k = some g
  | [], _, _, _, h => by simp at h
  | (k', g') :: t, k, g, hn, h => by
    rw [List.map_cons, List.nodup_cons] at hn
    rcases List.mem_cons.mp h with heq | h'
    · cases heq; simp [List.lookup]
    · have hne : k ≠ k' := by
        intro e; subst e
        exact hn.1 (List.mem_map.mpr ⟨(k, g), h', rfl⟩)
      have : (k == k') = false := by simpa using hne
      rw [List.lookup, this]
      exact lookup_of_mem t k g hn.2 h'

theorem mem_of_lookup {α β : Type} [DecidableEq α] : ∀ (l : List (α × β)) (k : α) (g : β),
    l.lookup k = some g → (k, g) ∈ l
  | [], _, _, h => by simp [List.lookup] at h
  | (k', g') :: t, k, g, h => by
    by_cases e : k = k'
    · subst e; simp [List.lookup] at h; simp [h]
    · have : (k == k') = false := by simpa using e
      rw [List.lookup, this] at h
      exact List.mem_cons_of_mem _ (mem_of_lookup t k g h)

/-- a lookup in a Go map does not depend on the order in which the entries are stored or visited -/
theorem lookup_perm {α β : Type} [DecidableEq α] (l₁ l₂ : List (α × β)) (hp : l₁.Perm l₂)
    (hn : (l₁.map Prod.fst).Nodup) (k : α) : l₁.lookup k = l₂.lookup k := by
  have hn₂ : (l₂.map Prod.fst).Nodup := (hp.map _).nodup_iff.mp hn
  cases h₁ : l₁.lookup k with
  | some g =>
    exact (lookup_of_mem l₂ k g hn₂ (hp.mem_iff.mp (mem_of_lookup l₁ k g h₁))).symm
  | none =>
    cases h₂ : l₂.lookup k with
    | none => rfl
    | some g =>
      have := lookup_of_mem l₁ k g hn (hp.mem_iff.mpr (mem_of_lookup l₂ k g h₂))
      rw [h₁] at this; cases this

end Twig.MapOrder
