/-
  TwigProofs.Lemmas.LiftLoc — locality and fuel monotonicity of the expression parser (part of the helpers for TwigProofs/Lift.lean).
-/
import TwigProofs.Lemmas.LiftBase
namespace Twig
namespace Lift

/-! ## locality of the expression parser: it never looks past the first token that is not an expression token -/

/-- the end token of a tag as the scanner emits it: kind `VAR_END` or `BLOCK_END`, empty value.  No expression
    parser accepts it; the empty value matters for `includeSepOk`, which looks at the value of a token whatever
    its kind. -/
def EndTok (d : Token) : Prop := (d.kind = VAR_END ∨ d.kind = BLOCK_END) ∧ d.val = []

theorem EndTok.notExpr {d : Token} (h : EndTok d) : ¬ ExprKind d.kind := by
  unfold ExprKind
  rcases h.1 with h | h <;> rw [h] <;> decide

theorem EndTok.kinds {d : Token} (h : EndTok d) :
    d.kind ≠ NAME ∧ d.kind ≠ NUMBER ∧ d.kind ≠ STRING ∧ d.kind ≠ OPERATOR ∧ d.kind ≠ PUNCT := by
  rcases h.1 with h | h <;> rw [h] <;> decide

theorem EndTok.notText {d : Token} (h : EndTok d) : d.kind ≠ TEXT := by
  rcases h.1 with h | h <;> rw [h] <;> decide

theorem EndTok.sepOk {d : Token} (h : EndTok d) : includeSepOk d = false := by
  have hk := h.kinds
  simp [includeSepOk, hk.2.2.2.1, hk.2.2.2.2, h.2]

theorem EndTok.isP {d : Token} (h : EndTok d) (c : UInt8) : isP d c = false := by
  simp [Twig.isP, h.kinds.2.2.2.2]
theorem EndTok.isName {d : Token} (h : EndTok d) (s : String) : isName d s = false := by
  simp [Twig.isName, h.kinds.1]
theorem EndTok.stop {d : Token} (h : EndTok d) : StopTok d := ⟨h.kinds.1, h.kinds.2.2.2.1, h.kinds.2.2.2.2⟩

/-- `ts` and `ts'` are the same expression tokens followed by the same end token, then `r` resp. `r'` -/
def TS (r r' ts ts' : List Token) : Prop :=
  ∃ xs d, AllK xs ∧ EndTok d ∧ ts = xs ++ d :: r ∧ ts' = xs ++ d :: r'

theorem TS.cases {r r' ts ts' : List Token} (h : TS r r' ts ts') :
    (∃ d, EndTok d ∧ ts = d :: r ∧ ts' = d :: r') ∨
    (∃ x t t', ExprKind x.kind ∧ ts = x :: t ∧ ts' = x :: t' ∧ TS r r' t t') := by
  obtain ⟨xs, d, hk, hd, rfl, rfl⟩ := h
  cases xs with
  | nil => exact .inl ⟨d, hd, rfl, rfl⟩
  | cons x xs =>
    rw [allK_cons] at hk
    exact .inr ⟨x, xs ++ d :: r, xs ++ d :: r', hk.1, rfl, rfl, xs, d, hk.2, hd, rfl, rfl⟩

theorem TS.end_ {r r' : List Token} {d : Token} (hd : EndTok d) : TS r r' (d :: r) (d :: r') :=
  ⟨[], d, allK_nil, hd, rfl, rfl⟩

theorem TS.cons {r r' t t' : List Token} {x : Token} (hx : ExprKind x.kind) (h : TS r r' t t') :
    TS r r' (x :: t) (x :: t') := by
  obtain ⟨xs, d, hk, hd, rfl, rfl⟩ := h
  exact ⟨x :: xs, d, (allK_cons x xs).mpr ⟨hx, hk⟩, hd, rfl, rfl⟩

/-- results agree: same error, or same value with rests that are again `TS`-related -/
def RRel {α} (r r' : List Token) (x y : R (α × List Token)) : Prop :=
  match x, y with
  | .ok (a, u), .ok (a', u') => a = a' ∧ TS r r' u u'
  | .error e, .error e' => e = e'
  | _, _ => False

theorem RRel.ok {α} {r r' u u' : List Token} (a : α) (h : TS r r' u u') :
    RRel r r' (.ok (a, u) : R (α × List Token)) (.ok (a, u')) := ⟨rfl, h⟩
theorem RRel.pure {α} {r r' u u' : List Token} (a : α) (h : TS r r' u u') :
    RRel r r' (pure (a, u) : R (α × List Token)) (pure (a, u')) := ⟨rfl, h⟩
theorem RRel.err {α} {r r' : List Token} (e : Err) : RRel r r' (.error e : R (α × List Token)) (.error e) := rfl
theorem RRel.perr {α} {r r' : List Token} (m : String) : RRel r r' (perr m : R (α × List Token)) (perr m) := rfl

theorem RRel.bind {α β} {r r' : List Token} {x y : R (α × List Token)} {k k' : α × List Token → R (β × List Token)}
    (h : RRel r r' x y) (hk : ∀ a u u', TS r r' u u' → RRel r r' (k (a, u)) (k' (a, u'))) :
    RRel r r' (x >>= k) (y >>= k') := by
  cases x with
  | error e =>
    cases y with
    | error e' => simp only [RRel] at h; subst h; rfl
    | ok b => simp [RRel] at h
  | ok a =>
    cases y with
    | error e' => simp [RRel] at h
    | ok b =>
      obtain ⟨a1, u⟩ := a
      obtain ⟨b1, u'⟩ := b
      simp only [RRel] at h
      obtain ⟨rfl, ht⟩ := h
      exact hk a1 u u' ht

theorem RRel.ite {α} {r r' : List Token} {c : Prop} [Decidable c] {a a' b b' : R (α × List Token)}
    (h1 : c → RRel r r' a a') (h2 : ¬c → RRel r r' b b') :
    RRel r r' (if c then a else b) (if c then a' else b') := by
  by_cases h : c
  · simp only [h, if_true]; exact h1 h
  · simp only [h, if_false]; exact h2 h

theorem peek_TS {r r' ts ts' : List Token} (h : TS r r' ts ts') : peekBinary ts = peekBinary ts' := by
  rcases h.cases with ⟨d, hd, rfl, rfl⟩ | ⟨x, t, t', hx, rfl, rfl, ht⟩
  · rw [stop_peek hd.stop, stop_peek hd.stop]
  · rcases ht.cases with ⟨d, hd, rfl, rfl⟩ | ⟨y, t2, t2', hy, rfl, rfl, ht2⟩
    · simp [peekBinary, hd.kinds.1]
    · simp [peekBinary]


structure LocAt (f : Nat) : Prop where
  expr : ∀ r r' ts ts', TS r r' ts ts' → RRel r r' (parseExpression f ts) (parseExpression f ts')
  cond : ∀ c r r' ts ts', TS r r' ts ts' → RRel r r' (parseConditional f c ts) (parseConditional f c ts')
  bin : ∀ m r r' ts ts', TS r r' ts ts' → RRel r r' (parseBinaryPrec f m ts) (parseBinaryPrec f m ts')
  loop : ∀ m l r r' ts ts', TS r r' ts ts' → RRel r r' (parseLoop f m l ts) (parseLoop f m l ts')
  test : ∀ l neg name r r' ts ts', TS r r' ts ts' → RRel r r' (parseTest f l neg name ts) (parseTest f l neg name ts')
  args : ∀ close msg r r' ts ts', TS r r' ts ts' → RRel r r' (parseArgs f close msg ts) (parseArgs f close msg ts')
  argsLoop : ∀ close msg r r' ts ts', TS r r' ts ts' →
    RRel r r' (parseArgsLoop f close msg ts) (parseArgsLoop f close msg ts')
  operand : ∀ r r' ts ts', TS r r' ts ts' → RRel r r' (parseOperand f ts) (parseOperand f ts')
  suffix : ∀ e r r' ts ts', TS r r' ts ts' → RRel r r' (parseSuffix f e ts) (parseSuffix f e ts')
  subs : ∀ e r r' ts ts', TS r r' ts ts' → RRel r r' (parseSubs f e ts) (parseSubs f e ts')
  filters : ∀ e r r' ts ts', TS r r' ts ts' → RRel r r' (parseFilters f e ts) (parseFilters f e ts')
  simple : ∀ r r' ts ts', TS r r' ts ts' → RRel r r' (parseSimple f ts) (parseSimple f ts')
  attrs : ∀ e r r' ts ts', TS r r' ts ts' → RRel r r' (parseAttrs f e ts) (parseAttrs f e ts')
  map : ∀ r r' ts ts', TS r r' ts ts' → RRel r r' (parseMap f ts) (parseMap f ts')
  mapLoop : ∀ r r' ts ts', TS r r' ts ts' → RRel r r' (parseMapLoop f ts) (parseMapLoop f ts')

theorem locAt_zero : LocAt 0 := by
  constructor <;> intros <;> simp only [parseExpression, parseConditional, parseBinaryPrec,
    parseLoop, parseTest, parseArgs, parseArgsLoop, parseOperand, parseSuffix, parseSubs, parseFilters, parseSimple,
    parseAttrs, parseMap, parseMapLoop] <;> exact RRel.err _

theorem loc_expr (f : Nat) (ih : LocAt f) (r r' ts ts' : List Token) (h : TS r r' ts ts') :
    RRel r r' (parseExpression (f+1) ts) (parseExpression (f+1) ts') := by
  unfold parseExpression
  refine RRel.bind (ih.bin 1 _ _ _ _ h) ?_
  intro e u u' hu
  rcases hu.cases with ⟨d, hd, rfl, rfl⟩ | ⟨x, t, t', hx, rfl, rfl, ht⟩
  · simp only [hd.isP, Bool.false_eq_true, if_false]
    exact RRel.pure e (TS.end_ hd)
  · simp only
    split
    · exact ih.cond e _ _ _ _ ht
    · exact RRel.pure e (TS.cons hx ht)

theorem loc_cond (f : Nat) (ih : LocAt f) (c : Expr) (r r' ts ts' : List Token) (h : TS r r' ts ts') :
    RRel r r' (parseConditional (f+1) c ts) (parseConditional (f+1) c ts') := by
  unfold parseConditional
  refine RRel.bind (ih.expr _ _ _ _ h) ?_
  intro e u u' hu
  rcases hu.cases with ⟨d, hd, rfl, rfl⟩ | ⟨x, t, t', hx, rfl, rfl, ht⟩
  · simp only [hd.isP, Bool.false_eq_true, if_false]
    exact RRel.perr _
  · simp only
    split
    · refine RRel.bind (ih.expr _ _ _ _ ht) ?_
      intro e2 v v' hv
      exact RRel.pure _ hv
    · exact RRel.perr _

theorem loc_bin (f : Nat) (ih : LocAt f) (m : Nat) (r r' ts ts' : List Token) (h : TS r r' ts ts') :
    RRel r r' (parseBinaryPrec (f+1) m ts) (parseBinaryPrec (f+1) m ts') := by
  unfold parseBinaryPrec
  refine RRel.bind (ih.operand _ _ _ _ h) ?_
  intro e u u' hu
  exact ih.loop m e _ _ _ _ hu


def _root_.Twig.Peek.width : Peek → Nat
  | .none => 0
  | .notDefined => 2
  | .isT _ w => w
  | .op _ w => w

theorem nil_beq_in : (([] : Bytes) == b "in") = false := by decide +kernel
theorem nil_beq_defined : (([] : Bytes) == b "defined") = false := by decide +kernel
theorem nil_beq_not : (([] : Bytes) == b "not") = false := by decide +kernel
theorem nil_beq_with : (([] : Bytes) == b "with") = false := by decide +kernel

/-- an operator spelling takes one token, or two when the second token is a NAME -/
theorem peek_two (ts : List Token) :
    ((peekBinary ts).width ≤ 1 ∧ ((peekBinary ts).width = 1 → ∃ t r, ts = t :: r ∧ ExprKind t.kind)) ∨
    (∃ t n r, ts = t :: n :: r ∧ ExprKind t.kind ∧ ExprKind n.kind ∧ (peekBinary ts).width ≤ 2) := by
  cases ts with
  | nil => exact .inl ⟨by simp [peekBinary, Peek.width], by simp [peekBinary, Peek.width]⟩
  | cons t r =>
    by_cases hop : t.kind = OPERATOR
    · left
      have : (t.kind == OPERATOR) = true := by simp [hop]
      simp only [peekBinary, this, if_true]
      cases opOfSymbol t.val with
      | none => exact ⟨by simp [Peek.width], by simp [Peek.width]⟩
      | some o => exact ⟨by simp [Peek.width], fun _ => ⟨t, r, rfl, by rw [hop]; decide⟩⟩
    · have h1 : (t.kind == OPERATOR) = false := by simp [hop]
      by_cases hn : t.kind = NAME
      · have h2 : (t.kind != NAME) = false := by simp [hn]
        have htk : ExprKind t.kind := by rw [hn]; decide
        have fin1 : ∀ (nx : Bytes), nx = [] →
            ((if (t.val == b "and") = true then Peek.op BinOp.and 1
              else if (t.val == b "or") = true then Peek.op BinOp.or 1
              else if (t.val == b "in") = true then Peek.op BinOp.in_ 1
              else if (t.val == b "matches") = true then Peek.op BinOp.matches_ 1
              else if (t.val == b "not") = true then
                if (nx == b "in") = true then Peek.op BinOp.notIn 2
                else if (nx == b "defined") = true then Peek.notDefined else Peek.none
              else if (t.val == b "is") = true then
                if (nx == b "not") = true then Peek.isT true 2 else Peek.isT false 1
              else if (t.val == b "starts") = true then
                (if (nx == b "with") = true then Peek.op BinOp.startsWith 2 else Peek.none)
              else if (t.val == b "ends") = true then
                (if (nx == b "with") = true then Peek.op BinOp.endsWith 2 else Peek.none)
              else Peek.none : Peek).width ≤ 1) := by
          intro nx hnx
          subst hnx
          simp only [nil_beq_in, nil_beq_defined, nil_beq_not, nil_beq_with, Bool.false_eq_true, if_false]
          repeat' split
          all_goals decide
        have fin2 : ∀ (nx : Bytes),
            ((if (t.val == b "and") = true then Peek.op BinOp.and 1
              else if (t.val == b "or") = true then Peek.op BinOp.or 1
              else if (t.val == b "in") = true then Peek.op BinOp.in_ 1
              else if (t.val == b "matches") = true then Peek.op BinOp.matches_ 1
              else if (t.val == b "not") = true then
                if (nx == b "in") = true then Peek.op BinOp.notIn 2
                else if (nx == b "defined") = true then Peek.notDefined else Peek.none
              else if (t.val == b "is") = true then
                if (nx == b "not") = true then Peek.isT true 2 else Peek.isT false 1
              else if (t.val == b "starts") = true then
                (if (nx == b "with") = true then Peek.op BinOp.startsWith 2 else Peek.none)
              else if (t.val == b "ends") = true then
                (if (nx == b "with") = true then Peek.op BinOp.endsWith 2 else Peek.none)
              else Peek.none : Peek).width ≤ 2) := by
          intro nx
          repeat' split
          all_goals decide
        cases r with
        | nil =>
          left
          simp only [peekBinary, h1, h2, Bool.false_eq_true, if_false]
          exact ⟨fin1 _ rfl, fun _ => ⟨t, [], rfl, htk⟩⟩
        | cons n r2 =>
          by_cases hnk : n.kind = NAME
          · right
            refine ⟨t, n, r2, rfl, htk, by rw [hnk]; decide, ?_⟩
            simp only [peekBinary, h1, h2, Bool.false_eq_true, if_false]
            exact fin2 _
          · left
            have hnk' : (n.kind == NAME) = false := by simp [hnk]
            simp only [peekBinary, h1, h2, hnk', Bool.false_eq_true, if_false]
            exact ⟨fin1 _ rfl, fun _ => ⟨t, n :: r2, rfl, htk⟩⟩
      · left
        have h2 : (t.kind != NAME) = true := by simp [hn]
        simp only [peekBinary, h1, h2, Bool.false_eq_true, if_false, if_true]
        exact ⟨by simp [Peek.width], by simp [Peek.width]⟩

theorem peek_drop {r r' ts ts' : List Token} (h : TS r r' ts ts') :
    TS r r' (ts.drop (peekBinary ts).width) (ts'.drop (peekBinary ts).width) := by
  rcases peek_two ts with ⟨hle, h1⟩ | ⟨t, n, r2, rfl, ht, hn, hle⟩
  · have : (peekBinary ts).width = 0 ∨ (peekBinary ts).width = 1 := by omega
    rcases this with h0 | h1'
    · rw [h0]; exact h
    · rw [h1']
      obtain ⟨t, r2, rfl, ht⟩ := h1 h1'
      rcases h.cases with ⟨d, hd, e1, rfl⟩ | ⟨x, u, u', hx, e1, rfl, hu⟩
      · obtain ⟨rfl, rfl⟩ := List.cons.inj e1; exact absurd ht hd.notExpr
      · obtain ⟨rfl, rfl⟩ := List.cons.inj e1; exact hu
  · rcases h.cases with ⟨d, hd, e1, rfl⟩ | ⟨x, u, u', hx, e1, rfl, hu⟩
    · obtain ⟨rfl, _⟩ := List.cons.inj e1; exact absurd ht hd.notExpr
    · obtain ⟨rfl, rfl⟩ := List.cons.inj e1
      rcases hu.cases with ⟨d, hd, e1, rfl⟩ | ⟨y, v, v', hy, e1, rfl, hv⟩
      · obtain ⟨rfl, _⟩ := List.cons.inj e1; exact absurd hn hd.notExpr
      · obtain ⟨rfl, rfl⟩ := List.cons.inj e1
        have : (peekBinary (t :: n :: r2)).width = 0 ∨ (peekBinary (t :: n :: r2)).width = 1 ∨
            (peekBinary (t :: n :: r2)).width = 2 := by omega
        rcases this with h0 | h0 | h0 <;> rw [h0]
        · exact TS.cons hx (TS.cons hy hv)
        · exact TS.cons hy hv
        · exact hv


theorem loc_loop (f : Nat) (ih : LocAt f) (m : Nat) (l : Expr) (r r' ts ts' : List Token) (h : TS r r' ts ts') :
    RRel r r' (parseLoop (f+1) m l ts) (parseLoop (f+1) m l ts') := by
  unfold parseLoop
  rw [← peek_TS h]
  have hd := peek_drop h
  cases hp : peekBinary ts with
  | none => exact RRel.pure l h
  | notDefined =>
    rw [hp] at hd
    exact ih.loop _ _ _ _ _ _ hd
  | isT neg w =>
    rw [hp] at hd
    simp only [Peek.width] at hd
    simp only
    split
    · exact RRel.pure l h
    · rcases hd.cases with ⟨d, hd', e1, e2⟩ | ⟨x, t, t', hx, e1, e2, ht⟩
      · rw [e1, e2]
        have : (d.kind == NAME) = false := by simp [hd'.kinds.1]
        simp only [this, Bool.false_eq_true, if_false]
        refine RRel.bind (ih.bin _ _ _ _ _ (TS.end_ hd')) ?_
        intro a u u' hu
        exact ih.loop _ _ _ _ _ _ hu
      · rw [e1, e2]
        simp only
        split
        · refine RRel.bind (ih.test _ _ _ _ _ _ _ ht) ?_
          intro a u u' hu
          exact ih.loop _ _ _ _ _ _ hu
        · refine RRel.bind (ih.bin _ _ _ _ _ (TS.cons hx ht)) ?_
          intro a u u' hu
          exact ih.loop _ _ _ _ _ _ hu
  | op o w =>
    rw [hp] at hd
    simp only [Peek.width] at hd
    simp only
    split
    · exact RRel.pure l h
    · refine RRel.bind (ih.bin _ _ _ _ _ hd) ?_
      intro a u u' hu
      exact ih.loop _ _ _ _ _ _ hu

theorem loc_test (f : Nat) (ih : LocAt f) (l : Expr) (neg : Bool) (name : Bytes) (r r' ts ts' : List Token)
    (h : TS r r' ts ts') :
    RRel r r' (parseTest (f+1) l neg name ts) (parseTest (f+1) l neg name ts') := by
  unfold parseTest
  rcases h.cases with ⟨d, hd, rfl, rfl⟩ | ⟨x, t, t', hx, rfl, rfl, ht⟩
  · simp only [hd.isP, Bool.false_eq_true, if_false]
    exact RRel.pure _ (TS.end_ hd)
  · simp only
    split
    · refine RRel.bind (ih.args _ _ _ _ _ _ ht) ?_
      intro a u u' hu
      exact RRel.pure _ hu
    · exact RRel.pure _ (TS.cons hx ht)

theorem loc_args (f : Nat) (ih : LocAt f) (close : UInt8) (msg : String) (r r' ts ts' : List Token)
    (h : TS r r' ts ts') :
    RRel r r' (parseArgs (f+1) close msg ts) (parseArgs (f+1) close msg ts') := by
  unfold parseArgs
  rcases h.cases with ⟨d, hd, rfl, rfl⟩ | ⟨x, t, t', hx, rfl, rfl, ht⟩
  · simp only [hd.isP, Bool.false_eq_true, if_false]
    exact ih.argsLoop _ _ _ _ _ _ (TS.end_ hd)
  · simp only
    split
    · exact RRel.pure _ ht
    · exact ih.argsLoop _ _ _ _ _ _ (TS.cons hx ht)

theorem loc_argsLoop (f : Nat) (ih : LocAt f) (close : UInt8) (msg : String) (r r' ts ts' : List Token)
    (h : TS r r' ts ts') :
    RRel r r' (parseArgsLoop (f+1) close msg ts) (parseArgsLoop (f+1) close msg ts') := by
  unfold parseArgsLoop
  refine RRel.bind (ih.expr _ _ _ _ h) ?_
  intro e u u' hu
  rcases hu.cases with ⟨d, hd, rfl, rfl⟩ | ⟨x, t, t', hx, rfl, rfl, ht⟩
  · simp only [hd.isP, Bool.false_eq_true, if_false]
    exact RRel.perr _
  · simp only
    split
    · refine RRel.bind (ih.argsLoop _ _ _ _ _ _ ht) ?_
      intro es v v' hv
      exact RRel.pure _ hv
    · split
      · exact RRel.pure _ ht
      · exact RRel.perr _

theorem loc_operand (f : Nat) (ih : LocAt f) (r r' ts ts' : List Token) (h : TS r r' ts ts') :
    RRel r r' (parseOperand (f+1) ts) (parseOperand (f+1) ts') := by
  unfold parseOperand
  refine RRel.bind (ih.simple _ _ _ _ h) ?_
  intro e u u' hu
  exact ih.suffix e _ _ _ _ hu

theorem loc_suffix (f : Nat) (ih : LocAt f) (e : Expr) (r r' ts ts' : List Token) (h : TS r r' ts ts') :
    RRel r r' (parseSuffix (f+1) e ts) (parseSuffix (f+1) e ts') := by
  unfold parseSuffix
  rcases h.cases with ⟨d, hd, rfl, rfl⟩ | ⟨x, t, t', hx, rfl, rfl, ht⟩
  · simp only [hd.isP, Bool.false_eq_true, if_false]
    exact RRel.pure _ (TS.end_ hd)
  · simp only
    split
    · refine RRel.bind (ih.expr _ _ _ _ ht) ?_
      intro i u u' hu
      rcases hu.cases with ⟨d, hd, rfl, rfl⟩ | ⟨y, v, v', hy, rfl, rfl, hv⟩
      · simp only [hd.isP, Bool.false_eq_true, if_false]
        exact RRel.perr _
      · simp only
        split
        · exact ih.suffix _ _ _ _ _ hv
        · exact RRel.perr _
    · split
      · refine RRel.bind (ih.filters _ _ _ _ _ (TS.cons hx ht)) ?_
        intro e' u u' hu
        exact ih.suffix _ _ _ _ _ hu
      · exact RRel.pure _ (TS.cons hx ht)


theorem loc_subs (f : Nat) (ih : LocAt f) (e : Expr) (r r' ts ts' : List Token) (h : TS r r' ts ts') :
    RRel r r' (parseSubs (f+1) e ts) (parseSubs (f+1) e ts') := by
  unfold parseSubs
  rcases h.cases with ⟨d, hd, rfl, rfl⟩ | ⟨x, t, t', hx, rfl, rfl, ht⟩
  · simp only [hd.isP, Bool.false_eq_true, if_false]
    exact RRel.pure _ (TS.end_ hd)
  · simp only
    split
    · refine RRel.bind (ih.expr _ _ _ _ ht) ?_
      intro i u u' hu
      rcases hu.cases with ⟨d, hd, rfl, rfl⟩ | ⟨y, v, v', hy, rfl, rfl, hv⟩
      · simp only [hd.isP, Bool.false_eq_true, if_false]
        exact RRel.perr _
      · simp only
        split
        · exact ih.subs _ _ _ _ _ hv
        · exact RRel.perr _
    · exact RRel.pure _ (TS.cons hx ht)

theorem EndTok.kindbeq {d : Token} (h : EndTok d) :
    (d.kind == NAME) = false ∧ (d.kind == NUMBER) = false ∧ (d.kind == STRING) = false ∧
    (d.kind == OPERATOR) = false ∧ (d.kind == PUNCT) = false := by
  obtain ⟨h1, h2, h3, h4, h5⟩ := h.kinds
  simp [h1, h2, h3, h4, h5]

theorem loc_filters (f : Nat) (ih : LocAt f) (e : Expr) (r r' ts ts' : List Token) (h : TS r r' ts ts') :
    RRel r r' (parseFilters (f+1) e ts) (parseFilters (f+1) e ts') := by
  unfold parseFilters
  rcases h.cases with ⟨d, hd, rfl, rfl⟩ | ⟨x, t, t', hx, rfl, rfl, ht⟩
  · simp only [hd.isP, Bool.false_eq_true, if_false]
    exact RRel.pure _ (TS.end_ hd)
  · simp only
    split
    · rcases ht.cases with ⟨d, hd, rfl, rfl⟩ | ⟨y, t2, t2', hy, rfl, rfl, ht2⟩
      · simp only [hd.kindbeq.1, Bool.false_eq_true, if_false]
        exact RRel.perr _
      · simp only
        split
        · rcases ht2.cases with ⟨d, hd, rfl, rfl⟩ | ⟨z, t3, t3', hz, rfl, rfl, ht3⟩
          · simp only [hd.isP, Bool.false_eq_true, if_false, pure_eq_ok, ok_bind]
            exact ih.filters _ _ _ _ _ (TS.end_ hd)
          · simp only
            split
            · refine RRel.bind (ih.args _ _ _ _ _ _ ht3) ?_
              intro a u u' hu
              exact ih.filters _ _ _ _ _ hu
            · simp only [pure_eq_ok, ok_bind]
              exact ih.filters _ _ _ _ _ (TS.cons hz ht3)
        · exact RRel.perr _
    · exact RRel.pure _ (TS.cons hx ht)

theorem loc_attrs (f : Nat) (ih : LocAt f) (e : Expr) (r r' ts ts' : List Token) (h : TS r r' ts ts') :
    RRel r r' (parseAttrs (f+1) e ts) (parseAttrs (f+1) e ts') := by
  unfold parseAttrs
  rcases h.cases with ⟨d, hd, rfl, rfl⟩ | ⟨x, t, t', hx, rfl, rfl, ht⟩
  · simp only [hd.isP, Bool.false_eq_true, if_false]
    exact RRel.pure _ (TS.end_ hd)
  · simp only
    split
    · rcases ht.cases with ⟨d, hd, rfl, rfl⟩ | ⟨y, t2, t2', hy, rfl, rfl, ht2⟩
      · simp only [hd.kindbeq.1, Bool.false_eq_true, if_false]
        exact RRel.perr _
      · simp only
        split
        · rcases ht2.cases with ⟨d, hd, rfl, rfl⟩ | ⟨z, t3, t3', hz, rfl, rfl, ht3⟩
          · simp only [hd.isP, Bool.false_eq_true, if_false]
            exact ih.attrs _ _ _ _ _ (TS.end_ hd)
          · simp only
            split
            · refine RRel.bind (ih.args _ _ _ _ _ _ ht3) ?_
              intro a u u' hu
              exact ih.attrs _ _ _ _ _ hu
            · exact ih.attrs _ _ _ _ _ (TS.cons hz ht3)
        · exact RRel.perr _
    · exact RRel.pure _ (TS.cons hx ht)

theorem loc_map (f : Nat) (ih : LocAt f) (r r' ts ts' : List Token) (h : TS r r' ts ts') :
    RRel r r' (parseMap (f+1) ts) (parseMap (f+1) ts') := by
  unfold parseMap
  rcases h.cases with ⟨d, hd, rfl, rfl⟩ | ⟨x, t, t', hx, rfl, rfl, ht⟩
  · simp only [hd.isP, Bool.false_eq_true, if_false]
    refine RRel.bind (ih.mapLoop _ _ _ _ (TS.end_ hd)) ?_
    intro a u u' hu
    exact RRel.pure _ hu
  · simp only
    split
    · exact RRel.pure _ ht
    · refine RRel.bind (ih.mapLoop _ _ _ _ (TS.cons hx ht)) ?_
      intro a u u' hu
      exact RRel.pure _ hu

theorem loc_mapLoop (f : Nat) (ih : LocAt f) (r r' ts ts' : List Token) (h : TS r r' ts ts') :
    RRel r r' (parseMapLoop (f+1) ts) (parseMapLoop (f+1) ts') := by
  unfold parseMapLoop
  refine RRel.bind (ih.expr _ _ _ _ h) ?_
  intro k u u' hu
  rcases hu.cases with ⟨d, hd, rfl, rfl⟩ | ⟨x, t, t', hx, rfl, rfl, ht⟩
  · simp only [hd.isP, Bool.false_eq_true, if_false]
    exact RRel.perr _
  · simp only
    split
    · refine RRel.bind (ih.expr _ _ _ _ ht) ?_
      intro v w w' hw
      rcases hw.cases with ⟨d, hd, rfl, rfl⟩ | ⟨y, t2, t2', hy, rfl, rfl, ht2⟩
      · simp only [hd.isP, Bool.false_eq_true, if_false]
        exact RRel.perr _
      · simp only
        split
        · refine RRel.bind (ih.mapLoop _ _ _ _ ht2) ?_
          intro kvs z z' hz
          exact RRel.pure _ hz
        · split
          · exact RRel.pure _ ht2
          · exact RRel.perr _
    · exact RRel.perr _


theorem loc_simple (f : Nat) (ih : LocAt f) (r r' ts ts' : List Token) (h : TS r r' ts ts') :
    RRel r r' (parseSimple (f+1) ts) (parseSimple (f+1) ts') := by
  unfold parseSimple
  rcases h.cases with ⟨d, hd, rfl, rfl⟩ | ⟨x, t, t', hx, rfl, rfl, ht⟩
  · simp only [hd.isP, hd.isName, hd.kindbeq.1, hd.kindbeq.2.1, hd.kindbeq.2.2.1, hd.kindbeq.2.2.2.1,
      Bool.false_and, Bool.false_eq_true, if_false]
    exact RRel.perr _
  · dsimp only
    refine RRel.ite (fun _ => ?_) (fun _ => ?_)
    · refine RRel.bind (ih.simple _ _ _ _ ht) ?_
      intro e u u' hu
      refine RRel.bind (ih.subs e _ _ _ _ hu) ?_
      intro e2 u2 u2' hu2; exact RRel.pure _ hu2
    refine RRel.ite (fun _ => ?_) (fun _ => ?_)
    · refine RRel.bind (ih.simple _ _ _ _ ht) ?_
      intro e u u' hu
      refine RRel.bind (ih.subs e _ _ _ _ hu) ?_
      intro e2 u2 u2' hu2; exact RRel.pure _ hu2
    refine RRel.ite (fun _ => ?_) (fun _ => ?_)
    · refine RRel.bind (ih.simple _ _ _ _ ht) ?_
      intro e u u' hu
      refine RRel.bind (ih.subs e _ _ _ _ hu) ?_
      intro e2 u2 u2' hu2; exact RRel.pure _ hu2
    refine RRel.ite (fun _ => ?_) (fun _ => ?_)
    · exact RRel.pure _ ht
    refine RRel.ite (fun _ => ?_) (fun _ => ?_)
    · exact RRel.pure _ ht
    refine RRel.ite (fun _ => ?_) (fun _ => ?_)
    · refine RRel.ite (fun _ => ?_) (fun _ => ?_)
      · exact RRel.pure _ ht
      refine RRel.ite (fun _ => ?_) (fun _ => ?_)
      · exact RRel.pure _ ht
      refine RRel.ite (fun _ => ?_) (fun _ => ?_)
      · exact RRel.pure _ ht
      rcases ht.cases with ⟨d, hd, rfl, rfl⟩ | ⟨y, t2, t2', hy, rfl, rfl, ht2⟩
      · simp only [hd.isP, Bool.false_eq_true, if_false]
        exact ih.attrs _ _ _ _ _ (TS.end_ hd)
      · dsimp only
        refine RRel.ite (fun _ => ?_) (fun _ => ?_)
        · refine RRel.bind (ih.args _ _ _ _ _ _ ht2) ?_
          intro a u u' hu; exact RRel.pure _ hu
        · exact ih.attrs _ _ _ _ _ (TS.cons hy ht2)
    refine RRel.ite (fun _ => ?_) (fun _ => ?_)
    · refine RRel.bind (ih.args _ _ _ _ _ _ ht) ?_
      intro a u u' hu; exact RRel.pure _ hu
    refine RRel.ite (fun _ => ?_) (fun _ => ?_)
    · exact ih.map _ _ _ _ ht
    refine RRel.ite (fun _ => ?_) (fun _ => ?_)
    · refine RRel.bind (ih.expr _ _ _ _ ht) ?_
      intro e u u' hu
      rcases hu.cases with ⟨d, hd, rfl, rfl⟩ | ⟨y, t2, t2', hy, rfl, rfl, ht2⟩
      · simp only [hd.isP, Bool.false_eq_true, if_false]
        exact RRel.perr _
      · dsimp only
        refine RRel.ite (fun _ => ?_) (fun _ => ?_)
        · exact RRel.pure _ ht2
        · exact RRel.perr _
    · exact RRel.perr _

theorem locAt_succ (f : Nat) (ih : LocAt f) : LocAt (f+1) where
  expr := loc_expr f ih
  cond := loc_cond f ih
  bin := loc_bin f ih
  loop := loc_loop f ih
  test := loc_test f ih
  args := loc_args f ih
  argsLoop := loc_argsLoop f ih
  operand := loc_operand f ih
  suffix := loc_suffix f ih
  subs := loc_subs f ih
  filters := loc_filters f ih
  simple := loc_simple f ih
  attrs := loc_attrs f ih
  map := loc_map f ih
  mapLoop := loc_mapLoop f ih

/-- every expression-parser function is local: its result on `xs ++ d :: r` (expression tokens `xs`, a
    non-expression token `d`) does not depend on `r`, and what it leaves is a suffix `ys ++ d :: r` -/
theorem locAt : ∀ f, LocAt f
  | 0 => locAt_zero
  | f+1 => locAt_succ f (locAt f)



/-! ## fuel monotonicity of the expression parser (same technique as `tmonoAt`) -/

structure EMonoAt (f : Nat) : Prop where
  expr : ∀ ts, FLe (parseExpression f ts) (parseExpression (f+1) ts)
  cond : ∀ c ts, FLe (parseConditional f c ts) (parseConditional (f+1) c ts)
  bin : ∀ m ts, FLe (parseBinaryPrec f m ts) (parseBinaryPrec (f+1) m ts)
  loop : ∀ m l ts, FLe (parseLoop f m l ts) (parseLoop (f+1) m l ts)
  test : ∀ l neg name ts, FLe (parseTest f l neg name ts) (parseTest (f+1) l neg name ts)
  args : ∀ close msg ts, FLe (parseArgs f close msg ts) (parseArgs (f+1) close msg ts)
  argsLoop : ∀ close msg ts, FLe (parseArgsLoop f close msg ts) (parseArgsLoop (f+1) close msg ts)
  operand : ∀ ts, FLe (parseOperand f ts) (parseOperand (f+1) ts)
  suffix : ∀ e ts, FLe (parseSuffix f e ts) (parseSuffix (f+1) e ts)
  subs : ∀ e ts, FLe (parseSubs f e ts) (parseSubs (f+1) e ts)
  filters : ∀ e ts, FLe (parseFilters f e ts) (parseFilters (f+1) e ts)
  simple : ∀ ts, FLe (parseSimple f ts) (parseSimple (f+1) ts)
  attrs : ∀ e ts, FLe (parseAttrs f e ts) (parseAttrs (f+1) e ts)
  map : ∀ ts, FLe (parseMap f ts) (parseMap (f+1) ts)
  mapLoop : ∀ ts, FLe (parseMapLoop f ts) (parseMapLoop (f+1) ts)

theorem emonoAt_zero : EMonoAt 0 := by
  constructor <;> intros <;> exact .inl (by simp [parseExpression, parseConditional, parseBinaryPrec,
    parseLoop, parseTest, parseArgs, parseArgsLoop, parseOperand, parseSuffix, parseSubs, parseFilters, parseSimple,
    parseAttrs, parseMap, parseMapLoop])

macro "efle" ih:ident : tactic => `(tactic| repeat' first
  | exact FLe.refl _
  | exact EMonoAt.expr $ih _ | exact EMonoAt.cond $ih _ _ | exact EMonoAt.bin $ih _ _
  | exact EMonoAt.loop $ih _ _ _ | exact EMonoAt.test $ih _ _ _ _ | exact EMonoAt.args $ih _ _ _
  | exact EMonoAt.argsLoop $ih _ _ _ | exact EMonoAt.operand $ih _ | exact EMonoAt.suffix $ih _ _
  | exact EMonoAt.subs $ih _ _ | exact EMonoAt.filters $ih _ _ | exact EMonoAt.simple $ih _ | exact EMonoAt.attrs $ih _ _
  | exact EMonoAt.map $ih _ | exact EMonoAt.mapLoop $ih _
  | refine FLe.bind ?_ (fun ⟨_, _⟩ => ?_)
  | refine FLe.ite (fun _ => ?_) (fun _ => ?_)
  | split
  | dsimp only)

theorem emonoAt_succ (f : Nat) (ih : EMonoAt f) : EMonoAt (f+1) where
  expr ts := by unfold parseExpression; efle ih
  cond c ts := by unfold parseConditional; efle ih
  bin m ts := by unfold parseBinaryPrec; efle ih
  loop m l ts := by unfold parseLoop; efle ih
  test l neg name ts := by unfold parseTest; efle ih
  args close msg ts := by unfold parseArgs; efle ih
  argsLoop close msg ts := by unfold parseArgsLoop; efle ih
  operand ts := by unfold parseOperand; efle ih
  suffix e ts := by unfold parseSuffix; efle ih
  subs e ts := by unfold parseSubs; efle ih
  filters e ts := by unfold parseFilters; efle ih
  simple ts := by unfold parseSimple; efle ih
  attrs e ts := by unfold parseAttrs; efle ih
  map ts := by unfold parseMap; efle ih
  mapLoop ts := by unfold parseMapLoop; efle ih

theorem emonoAt : ∀ f, EMonoAt f
  | 0 => emonoAt_zero
  | f+1 => emonoAt_succ f (emonoAt f)

theorem parseExpression_mono {f f' : Nat} {ts : List Token} (hne : parseExpression f ts ≠ .error .fuel)
    (hle : f ≤ f') : parseExpression f' ts = parseExpression f ts :=
  (FLe.chain (parseExpression · ts) (fun f => (emonoAt f).expr ts) hle).eq_of_ne hne



end Lift
end Twig
