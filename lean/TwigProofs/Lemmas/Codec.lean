/-
  Lemmas about the compiled-template container (TwigModel.Codec): every reader inverts its writer
  (completeness) and every successful read consumed exactly what the writer would have produced (soundness).
-/
import TwigModel.Codec
namespace Twig.Codec

theorem toUInt8_toNat_of_lt {n : Nat} (h : n < 256) : n.toUInt8.toNat = n := by
  simp [Nat.toUInt8, UInt8.toNat_ofNat', Nat.mod_eq_of_lt h]

theorem toNat_toUInt8 (a : UInt8) : a.toNat.toUInt8 = a := by
  simp [Nat.toUInt8]

/-! ### u32 -/

theorem u32le_length (n : Nat) : (u32le n).length = 4 := rfl

theorem rdU32_u32le (n : Nat) (h : n < 4294967296) (r : Bytes) : rdU32 (u32le n ++ r) = some (n, r) := by
  simp only [u32le, rdU32, List.cons_append, List.nil_append]
  have h0 : n % 256 < 256 := Nat.mod_lt _ (by decide)
  have h1 : n / 256 % 256 < 256 := Nat.mod_lt _ (by decide)
  have h2 : n / 65536 % 256 < 256 := Nat.mod_lt _ (by decide)
  have h3 : n / 16777216 % 256 < 256 := Nat.mod_lt _ (by decide)
  rw [toUInt8_toNat_of_lt h0, toUInt8_toNat_of_lt h1, toUInt8_toNat_of_lt h2, toUInt8_toNat_of_lt h3]
  congr 2
  omega

theorem u32_byte0 (a b c d : Nat) (ha : a < 256) :
    (a + b * 256 + c * 65536 + d * 16777216) % 256 = a := by omega
theorem u32_byte1 (a b c d : Nat) (ha : a < 256) (hb : b < 256) :
    (a + b * 256 + c * 65536 + d * 16777216) / 256 % 256 = b := by omega
theorem u32_byte2 (a b c d : Nat) (ha : a < 256) (hb : b < 256) (hc : c < 256) :
    (a + b * 256 + c * 65536 + d * 16777216) / 65536 % 256 = c := by omega
theorem u32_byte3 (a b c d : Nat) (ha : a < 256) (hb : b < 256) (hc : c < 256) (hd : d < 256) :
    (a + b * 256 + c * 65536 + d * 16777216) / 16777216 % 256 = d := by omega

/-- a successful 32-bit read consumed exactly the little-endian encoding of its result -/
theorem rdU32_sound {bs : Bytes} {n : Nat} {r : Bytes} (h : rdU32 bs = some (n, r)) :
    bs = u32le n ++ r ∧ n < 4294967296 := by
  match bs, h with
  | a :: b :: c :: d :: r', h =>
    simp only [rdU32, Option.some.injEq, Prod.mk.injEq] at h
    obtain ⟨hn, hr⟩ := h
    subst hr
    have ha := a.toNat_lt; have hb := b.toNat_lt; have hc := c.toNat_lt; have hd := d.toNat_lt
    simp only [Nat.reducePow] at ha hb hc hd
    refine ⟨?_, by omega⟩
    subst hn
    simp only [u32le, List.cons_append, List.nil_append]
    rw [u32_byte0 _ _ _ _ ha, u32_byte1 _ _ _ _ ha hb, u32_byte2 _ _ _ _ ha hb hc,
      u32_byte3 _ _ _ _ ha hb hc hd]
    simp

/-! ### u64 / i64 -/

theorem u64le_length (n : Nat) : (u64le n).length = 8 := rfl
theorem i64le_length (t : Int64) : (i64le t).length = 8 := rfl

theorem rdU64_u64le (n : Nat) (h : n < 18446744073709551616) (r : Bytes) :
    rdU64 (u64le n ++ r) = some (n, r) := by
  simp only [u64le, rdU64, List.cons_append, List.nil_append]
  have h0 : n % 256 < 256 := Nat.mod_lt _ (by decide)
  have h1 : n / 256 % 256 < 256 := Nat.mod_lt _ (by decide)
  have h2 : n / 65536 % 256 < 256 := Nat.mod_lt _ (by decide)
  have h3 : n / 16777216 % 256 < 256 := Nat.mod_lt _ (by decide)
  have h4 : n / 4294967296 % 256 < 256 := Nat.mod_lt _ (by decide)
  have h5 : n / 1099511627776 % 256 < 256 := Nat.mod_lt _ (by decide)
  have h6 : n / 281474976710656 % 256 < 256 := Nat.mod_lt _ (by decide)
  have h7 : n / 72057594037927936 % 256 < 256 := Nat.mod_lt _ (by decide)
  rw [toUInt8_toNat_of_lt h0, toUInt8_toNat_of_lt h1, toUInt8_toNat_of_lt h2, toUInt8_toNat_of_lt h3,
    toUInt8_toNat_of_lt h4, toUInt8_toNat_of_lt h5, toUInt8_toNat_of_lt h6, toUInt8_toNat_of_lt h7]
  congr 2
  omega

theorem rdI64_i64le (t : Int64) (r : Bytes) : rdI64 (i64le t ++ r) = some (t, r) := by
  have hlt : t.toUInt64.toNat < 18446744073709551616 := by
    have := t.toUInt64.toNat_lt; simpa using this
  simp only [rdI64, i64le, rdU64_u64le _ hlt]
  simp [UInt64.ofNat_toNat]

theorem rdU64_sound {bs : Bytes} {n : Nat} {r : Bytes} (h : rdU64 bs = some (n, r)) :
    bs = u64le n ++ r ∧ n < 18446744073709551616 := by
  match bs, h with
  | a :: b :: c :: d :: e :: f :: g :: i :: r', h =>
    simp only [rdU64, Option.some.injEq, Prod.mk.injEq] at h
    obtain ⟨hn, hr⟩ := h
    subst hr
    have ha := a.toNat_lt; have hb := b.toNat_lt; have hc := c.toNat_lt; have hd := d.toNat_lt
    have he := e.toNat_lt; have hf := f.toNat_lt; have hg := g.toNat_lt; have hi := i.toNat_lt
    simp only [Nat.reducePow] at ha hb hc hd he hf hg hi
    refine ⟨?_, by omega⟩
    subst hn
    simp only [u64le, List.cons_append, List.nil_append]
    have e0 : (a.toNat + b.toNat * 256 + c.toNat * 65536 + d.toNat * 16777216 + e.toNat * 4294967296
          + f.toNat * 1099511627776 + g.toNat * 281474976710656 + i.toNat * 72057594037927936) % 256 = a.toNat := by omega
    have e1 : (a.toNat + b.toNat * 256 + c.toNat * 65536 + d.toNat * 16777216 + e.toNat * 4294967296
          + f.toNat * 1099511627776 + g.toNat * 281474976710656 + i.toNat * 72057594037927936) / 256 % 256 = b.toNat := by omega
    have e2 : (a.toNat + b.toNat * 256 + c.toNat * 65536 + d.toNat * 16777216 + e.toNat * 4294967296
          + f.toNat * 1099511627776 + g.toNat * 281474976710656 + i.toNat * 72057594037927936) / 65536 % 256 = c.toNat := by omega
    have e3 : (a.toNat + b.toNat * 256 + c.toNat * 65536 + d.toNat * 16777216 + e.toNat * 4294967296
          + f.toNat * 1099511627776 + g.toNat * 281474976710656 + i.toNat * 72057594037927936) / 16777216 % 256 = d.toNat := by omega
    have e4 : (a.toNat + b.toNat * 256 + c.toNat * 65536 + d.toNat * 16777216 + e.toNat * 4294967296
          + f.toNat * 1099511627776 + g.toNat * 281474976710656 + i.toNat * 72057594037927936) / 4294967296 % 256 = e.toNat := by omega
    have e5 : (a.toNat + b.toNat * 256 + c.toNat * 65536 + d.toNat * 16777216 + e.toNat * 4294967296
          + f.toNat * 1099511627776 + g.toNat * 281474976710656 + i.toNat * 72057594037927936) / 1099511627776 % 256 = f.toNat := by omega
    have e6 : (a.toNat + b.toNat * 256 + c.toNat * 65536 + d.toNat * 16777216 + e.toNat * 4294967296
          + f.toNat * 1099511627776 + g.toNat * 281474976710656 + i.toNat * 72057594037927936) / 281474976710656 % 256 = g.toNat := by omega
    have e7 : (a.toNat + b.toNat * 256 + c.toNat * 65536 + d.toNat * 16777216 + e.toNat * 4294967296
          + f.toNat * 1099511627776 + g.toNat * 281474976710656 + i.toNat * 72057594037927936) / 72057594037927936 % 256 = i.toNat := by omega
    rw [e0, e1, e2, e3, e4, e5, e6, e7]
    simp

/-- a successful timestamp read consumed exactly the encoding of the value it returns -/
theorem rdI64_sound {bs : Bytes} {t : Int64} {r : Bytes} (h : rdI64 bs = some (t, r)) :
    bs = i64le t ++ r := by
  unfold rdI64 at h
  split at h
  · rename_i n r' hu
    simp only [Option.some.injEq, Prod.mk.injEq] at h
    obtain ⟨ht, hr⟩ := h
    obtain ⟨hbs, hn⟩ := rdU64_sound hu
    subst hr ht
    rw [hbs, i64le]
    congr 2
    rw [UInt64.toUInt64_toInt64, UInt64.toNat_ofNat_of_lt' (by simpa [UInt64.size] using hn)]
  · cases h

/-! ### strings -/

theorem wrStr_length (s : Bytes) : (wrStr s).length = 4 + s.length := by
  simp [wrStr, u32le_length]

theorem rdStr_wrStr (s r : Bytes) (h : s.length < 4294967296) : rdStr (wrStr s ++ r) = some (s, r) := by
  simp only [wrStr, rdStr, List.append_assoc]
  rw [rdU32_u32le _ (Nat.mod_lt _ (by decide))]
  simp [Nat.mod_eq_of_lt h]

theorem rdStr_sound {bs s r : Bytes} (h : rdStr bs = some (s, r)) :
    bs = wrStr s ++ r ∧ s.length < 4294967296 := by
  unfold rdStr at h
  split at h
  · rename_i n r' hu
    obtain ⟨hbs, hn⟩ := rdU32_sound hu
    split at h
    · rename_i hle
      simp only [Option.some.injEq, Prod.mk.injEq] at h
      obtain ⟨hs, hr⟩ := h
      have hlen : s.length = n := by rw [← hs, List.length_take]; omega
      refine ⟨?_, by omega⟩
      rw [hbs, wrStr, hlen, Nat.mod_eq_of_lt hn, List.append_assoc, ← hs, ← hr, List.take_append_drop]
    · cases h
  · cases h

/-! ### the container: one rewrite lemma and one inversion lemma per step -/

theorem encode_length (c : Compiled) :
    (encode c).length = 29 + c.name.length + c.source.length + c.ast.length := by
  simp only [encode, List.length_cons, List.length_append, wrStr_length, i64le_length]; omega

theorem decName_of {r0 name r1 : Bytes} (h : rdStr r0 = some (name, r1)) :
    decName r0 = decSource name r1 := by unfold decName; rw [h]
theorem decSource_of {name r1 source r2 : Bytes} (h : rdStr r1 = some (source, r2)) :
    decSource name r1 = decLm name source r2 := by unfold decSource; rw [h]
theorem decLm_of {name source r2 r3 : Bytes} {lm : Int64} (h : rdI64 r2 = some (lm, r3)) :
    decLm name source r2 = decCt name source lm r3 := by unfold decLm; rw [h]
theorem decCt_of {name source r3 r4 : Bytes} {lm ct : Int64} (h : rdI64 r3 = some (ct, r4)) :
    decCt name source lm r3 = decAst name source lm ct r4 := by unfold decCt; rw [h]
theorem decAst_of {name source r4 r5 : Bytes} {lm ct : Int64} {n : Nat} (h : rdU32 r4 = some (n, r5))
    (hle : n ≤ r5.length) : decAst name source lm ct r4 = .ok ⟨name, source, lm, ct, r5.take n⟩ := by
  unfold decAst; rw [h]; simp only [hle, if_true]
theorem decodeBin_v1 (r0 : Bytes) : decodeBin (formatVersion :: r0) = decName r0 := by
  unfold decodeBin; simp

theorem decName_inv {r0 : Bytes} {c : Compiled} (h : decName r0 = .ok c) :
    ∃ name r1, rdStr r0 = some (name, r1) ∧ decSource name r1 = .ok c := by
  unfold decName at h
  split at h
  · cases h
  · rename_i name r1 h1; exact ⟨name, r1, h1, h⟩
theorem decSource_inv {name r1 : Bytes} {c : Compiled} (h : decSource name r1 = .ok c) :
    ∃ source r2, rdStr r1 = some (source, r2) ∧ decLm name source r2 = .ok c := by
  unfold decSource at h
  split at h
  · cases h
  · rename_i source r2 h1; exact ⟨source, r2, h1, h⟩
theorem decLm_inv {name source r2 : Bytes} {c : Compiled} (h : decLm name source r2 = .ok c) :
    ∃ lm r3, rdI64 r2 = some (lm, r3) ∧ decCt name source lm r3 = .ok c := by
  unfold decLm at h
  split at h
  · cases h
  · rename_i lm r3 h1; exact ⟨lm, r3, h1, h⟩
theorem decCt_inv {name source r3 : Bytes} {lm : Int64} {c : Compiled} (h : decCt name source lm r3 = .ok c) :
    ∃ ct r4, rdI64 r3 = some (ct, r4) ∧ decAst name source lm ct r4 = .ok c := by
  unfold decCt at h
  split at h
  · cases h
  · rename_i ct r4 h1; exact ⟨ct, r4, h1, h⟩
theorem decAst_inv {name source r4 : Bytes} {lm ct : Int64} {c : Compiled}
    (h : decAst name source lm ct r4 = .ok c) :
    ∃ n r5, rdU32 r4 = some (n, r5) ∧ n ≤ r5.length ∧ c = ⟨name, source, lm, ct, r5.take n⟩ := by
  unfold decAst at h
  split at h
  · cases h
  · rename_i n r5 h1
    split at h
    · rename_i hle
      injection h with h
      exact ⟨n, r5, h1, hle, h.symm⟩
    · cases h
theorem decodeBin_inv {bs : Bytes} {c : Compiled} (h : decodeBin bs = .ok c) :
    ∃ r0, bs = formatVersion :: r0 ∧ decName r0 = .ok c := by
  unfold decodeBin at h
  split at h
  · cases h
  · rename_i v r0
    split at h
    · cases h
    · rename_i hv
      have hv1 : v = formatVersion := by simpa using hv
      exact ⟨r0, by rw [hv1], h⟩

/-- completeness: the binary decoder inverts the encoder, whatever follows the encoding -/
theorem decodeBin_encode_append (c : Compiled) (h : c.fits) (t : Bytes) :
    decodeBin (encode c ++ t) = .ok c := by
  obtain ⟨hn, hs, ha⟩ := h
  have hast : rdU32 (wrStr c.ast ++ t) = some (c.ast.length, c.ast ++ t) := by
    rw [wrStr, List.append_assoc, Nat.mod_eq_of_lt ha]; exact rdU32_u32le _ ha _
  have hle : c.ast.length ≤ (c.ast ++ t).length := by rw [List.length_append]; omega
  simp only [encode, List.cons_append, List.append_assoc]
  rw [decodeBin_v1, decName_of (rdStr_wrStr _ _ hn), decSource_of (rdStr_wrStr _ _ hs),
    decLm_of (rdI64_i64le _ _), decCt_of (rdI64_i64le _ _), decAst_of hast hle,
    List.take_left']
  rfl

/-- soundness: whatever the binary decoder accepts is the encoding of its result followed by bytes it
    never looked at, and the result's lengths fit their prefixes -/
theorem decodeBin_sound {bs : Bytes} {c : Compiled} (h : decodeBin bs = .ok c) :
    ∃ t, bs = encode c ++ t ∧ c.fits := by
  obtain ⟨r0, hbs, h0⟩ := decodeBin_inv h
  obtain ⟨name, r1, h1, h1'⟩ := decName_inv h0
  obtain ⟨source, r2, h2, h2'⟩ := decSource_inv h1'
  obtain ⟨lm, r3, h3, h3'⟩ := decLm_inv h2'
  obtain ⟨ct, r4, h4, h4'⟩ := decCt_inv h3'
  obtain ⟨n, r5, h5, hle, hc⟩ := decAst_inv h4'
  obtain ⟨e1, l1⟩ := rdStr_sound h1
  obtain ⟨e2, l2⟩ := rdStr_sound h2
  have e3 := rdI64_sound h3
  have e4 := rdI64_sound h4
  obtain ⟨e5, l5⟩ := rdU32_sound h5
  have hal : (r5.take n).length = n := by rw [List.length_take]; omega
  refine ⟨r5.drop n, ?_, ?_⟩
  · rw [hbs, e1, e2, e3, e4, e5, hc]
    simp only [encode, List.cons_append, List.append_assoc, wrStr, hal, Nat.mod_eq_of_lt l5,
      List.take_append_drop]
  · rw [hc]
    exact ⟨l1, l2, by simp only [hal]; exact l5⟩

/-! ### allocation -/

theorem rdU32_length {bs : Bytes} {n : Nat} {r : Bytes} (h : rdU32 bs = some (n, r)) :
    bs.length = 4 + r.length := by
  obtain ⟨e, -⟩ := rdU32_sound h
  rw [e, List.length_append, u32le_length]

theorem rdI64_length {bs : Bytes} {t : Int64} {r : Bytes} (h : rdI64 bs = some (t, r)) :
    bs.length = 8 + r.length := by
  rw [rdI64_sound h, List.length_append, i64le_length]

theorem rdStr_length {bs s r : Bytes} (h : rdStr bs = some (s, r)) :
    bs.length = 4 + s.length + r.length := by
  obtain ⟨e, -⟩ := rdStr_sound h
  rw [e, List.length_append, wrStr_length]

theorem rdStrAlloc_of_some {bs s r : Bytes} (chk : Bool) (h : rdStr bs = some (s, r)) :
    rdStrAlloc chk bs = s.length := by
  unfold rdStr at h
  unfold rdStrAlloc
  split at h
  · rename_i n r' hu
    split at h
    · rename_i hle
      simp only [Option.some.injEq, Prod.mk.injEq] at h
      simp only [hle, if_true]
      rw [← h.1, List.length_take]; omega
    · cases h
  · cases h

theorem rdStrAlloc_of_none {bs : Bytes} (h : rdStr bs = none) : rdStrAlloc true bs = 0 := by
  unfold rdStr at h
  unfold rdStrAlloc
  split at h
  · rename_i n r' hu
    split at h
    · cases h
    · rename_i hle
      simp [hle]
  · rfl

theorem rdStrAlloc_le (bs : Bytes) : rdStrAlloc true bs ≤ bs.length := by
  cases h : rdStr bs with
  | none => rw [rdStrAlloc_of_none h]; omega
  | some p =>
    obtain ⟨s, r⟩ := p
    rw [rdStrAlloc_of_some true h, rdStr_length h]; omega

theorem allocCt_le (r3 : Bytes) : allocCt true r3 ≤ r3.length := by
  unfold allocCt
  split
  · omega
  · rename_i t r4 h
    have := rdStrAlloc_le r4
    rw [rdI64_length h]; unfold allocAst; omega

theorem allocLm_le (r2 : Bytes) : allocLm true r2 ≤ r2.length := by
  unfold allocLm
  split
  · omega
  · rename_i t r3 h
    have := allocCt_le r3
    rw [rdI64_length h]; omega

theorem allocSource_le (r1 : Bytes) : allocSource true r1 ≤ r1.length := by
  unfold allocSource
  split
  · rename_i h; rw [rdStrAlloc_of_none h]; omega
  · rename_i s r2 h
    have := allocLm_le r2
    rw [rdStrAlloc_of_some true h, rdStr_length h]; omega

theorem allocName_le (r0 : Bytes) : allocName true r0 ≤ r0.length := by
  unfold allocName
  split
  · rename_i h; rw [rdStrAlloc_of_none h]; omega
  · rename_i s r1 h
    have := allocSource_le r1
    rw [rdStrAlloc_of_some true h, rdStr_length h]; omega

theorem allocBin_le (bs : Bytes) : allocBin true bs ≤ bs.length := by
  unfold allocBin
  split
  · omega
  · rename_i v r0
    split
    · omega
    · have := allocName_le r0
      simp only [List.length_cons]; omega

end Twig.Codec
