/-
  TwigProofs.Lemmas.LiftBase — from token streams to rendered output (helpers for TwigProofs/Lift.lean), part 1.
-/
import TwigModel.Render
import TwigProofs.Lemmas.Scan
import TwigProofs.Lemmas.RenderInherit
namespace Twig

/-! ## `renderSrc` -/

/-- the engine of `renderSrc`: one template, called `main` -/
def mainName : Bytes := b "main"
def envOf (nodes : List Node) : Env := { tpls := [(mainName, nodes)] }

def projOut {α} : R (Bytes × α) → R Bytes
  | .ok (o, _) => .ok o
  | .error e => .error e

/-- render a parsed template as the only template of an engine, keep the output -/
def renderNodesTop (nodes : List Node) (vars : List (Bytes × Val)) : R Bytes :=
  projOut (renderTop (envOf nodes) mainName vars)

/-- `Parser.Parse` + `Engine.Render` on source bytes -/
def renderSrc (src : Bytes) (vars : List (Bytes × Val)) : R Bytes := do
  let nodes ← parseTemplate src
  renderNodesTop nodes vars

/-- the same pipeline with the tokenizer as a parameter -/
def tokenizeWith (sc : Bytes → Except ScanErr (List Token)) (s : Bytes) : Except ScanErr (List Token) :=
  match sc s with
  | .ok ts => .ok (normalise (applyWs ts))
  | .error e => .error e

/-- `parseTemplate` after tokenization -/
def parseTokens (ts : List Token) : R (List Node) := do
  let (nodes, rest) ← parseOuter (4 * ts.length + 16) ts
  if strayEnd rest then perr "unexpected tag without an open block"
  else if hasDup (blockNamesL nodes) then perr "the block has already been defined" else pure nodes

def parseTemplateWith (sc : Bytes → Except ScanErr (List Token)) (src : Bytes) : R (List Node) :=
  match tokenizeWith sc src with
  | .error _ => perr "tokenization error"
  | .ok ts => parseTokens ts

def renderSrcWith (sc : Bytes → Except ScanErr (List Token)) (src : Bytes) (vars : List (Bytes × Val)) : R Bytes := do
  let nodes ← parseTemplateWith sc src
  renderNodesTop nodes vars

namespace Lift

theorem tokenize_eq_with (s : Bytes) : tokenize s = tokenizeWith scan s := rfl
theorem parseTemplate_eq_with (s : Bytes) : parseTemplate s = parseTemplateWith scan s := by
  unfold parseTemplate parseTemplateWith parseTokens
  rw [tokenize_eq_with]
  cases tokenizeWith scan s <;> rfl
theorem renderSrc_eq_with (s : Bytes) (vars : List (Bytes × Val)) : renderSrc s vars = renderSrcWith scan s vars := by
  unfold renderSrc renderSrcWith; rw [parseTemplate_eq_with]


/-! ## `Except` plumbing, `parseOuter` on the token shapes of the scanner -/

theorem bind_ok {ε α β} {x : Except ε α} {f : α → Except ε β} {b : β}
    (h : (x >>= f) = .ok b) : ∃ a, x = .ok a ∧ f a = .ok b := by
  cases x with
  | error e => simp [bind, Except.bind] at h
  | ok a => exact ⟨a, rfl, h⟩

@[simp] theorem ok_bind {ε α β} (a : α) (f : α → Except ε β) : ((Except.ok a : Except ε α) >>= f) = f a := rfl
@[simp] theorem error_bind {ε α β} (e : ε) (f : α → Except ε β) :
    ((Except.error e : Except ε α) >>= f) = .error e := rfl
@[simp] theorem pure_eq_ok {ε α} (a : α) : (pure a : Except ε α) = .ok a := rfl

/-- a TEXT token becomes a text node and parsing continues -/
theorem parseOuter_text (f : Nat) (v : Bytes) (r : List Token) :
    parseOuter (f+1) (⟨TEXT, v⟩ :: r) =
      (parseOuter f r >>= fun (x : List Node × List Token) => pure (.text v :: x.1, x.2)) := by
  simp [parseOuter]

theorem parseOuter_eof (f : Nat) (v : Bytes) (r : List Token) :
    parseOuter (f+1) (⟨EOF, v⟩ :: r) = .ok ([], ⟨EOF, v⟩ :: r) := by
  simp [parseOuter]

theorem parseOuter_nil (f : Nat) : parseOuter (f+1) [] = .ok ([], []) := by
  simp [parseOuter]

/-- a comment group is skipped -/
theorem parseOuter_comment (f : Nat) (v : Bytes) (cs : List Token) (e : Token) (r : List Token)
    (hcs : ∀ c ∈ cs, c.kind ≠ COMMENT_END) (he : e.kind = COMMENT_END) :
    parseOuter (f+1) (⟨COMMENT_START, v⟩ :: (cs ++ e :: r)) = parseOuter f r := by
  have hd : List.dropWhile (fun x : Token => x.kind != COMMENT_END) (cs ++ e :: r) = e :: r := by
    induction cs with
    | nil => simp [he]
    | cons c cs ih =>
      have := hcs c (by simp)
      simp [this]
      exact ih (fun c hc => hcs c (by simp [hc]))
  simp [parseOuter, hd, COMMENT_START, EOF, VAR_START, BLOCK_START, TEXT]



theorem b_not : b "not" = [110, 111, 116] := by decide +kernel
theorem b_true : b "true" = [116, 114, 117, 101] := by decide +kernel
theorem b_false : b "false" = [102, 97, 108, 115, 101] := by decide +kernel
theorem b_null : b "null" = [110, 117, 108, 108] := by decide +kernel
theorem b_nil : b "nil" = [110, 105, 108] := by decide +kernel

/-- names the expression parser does not read as a variable -/
def reserved : List Bytes := [[110, 111, 116], [116, 114, 117, 101], [102, 97, 108, 115, 101], [110, 117, 108, 108], [110, 105, 108]]

theorem reserved_eq : reserved = [b "not", b "true", b "false", b "null", b "nil"] := by
  rw [b_not, b_true, b_false, b_null, b_nil]; rfl

/-- a token at which every expression parser stops -/
def StopTok (d : Token) : Prop := d.kind ≠ NAME ∧ d.kind ≠ OPERATOR ∧ d.kind ≠ PUNCT

theorem stop_isP {d : Token} (h : StopTok d) (c : UInt8) : isP d c = false := by
  simp [isP, h.2.2]

theorem stop_peek {d : Token} (h : StopTok d) (r : List Token) : peekBinary (d :: r) = .none := by
  simp [peekBinary, h.1, h.2.1]

theorem parseExpression_var (f : Nat) (n : Bytes) (d : Token) (r : List Token)
    (hn : n ∉ reserved) (hd : StopTok d) :
    parseExpression (f+6) (⟨NAME, n⟩ :: d :: r) = .ok (.var n, d :: r) := by
  have h1 : n ≠ b "not" ∧ n ≠ b "true" ∧ n ≠ b "false" ∧ n ≠ b "null" ∧ n ≠ b "nil" := by
    rw [reserved_eq] at hn; simpa using hn
  obtain ⟨h1, h2, h3, h4, h5⟩ := h1
  simp [parseExpression, parseBinaryPrec, parseOperand, parseSimple, parseAttrs, parseSuffix, parseLoop,
    stop_isP hd, stop_peek hd, isName, h1, h2, h3, h4, h5, NAME, OPERATOR, STRING, NUMBER]



theorem parseOuter_pvar (f : Nat) (v0 v1 n : Bytes) (r : List Token) (hn : n ∉ reserved) :
    parseOuter (f+1) (⟨VAR_START, v0⟩ :: ⟨NAME, n⟩ :: ⟨VAR_END, v1⟩ :: r) =
      (parseOuter f r >>= fun (x : List Node × List Token) => pure (.print (.var n) :: x.1, x.2)) := by
  have hs : StopTok ⟨VAR_END, v1⟩ := by simp [StopTok, VAR_END, NAME, OPERATOR, PUNCT]
  have he : parseExpression (exprFuel (⟨NAME, n⟩ :: ⟨VAR_END, v1⟩ :: r)) (⟨NAME, n⟩ :: ⟨VAR_END, v1⟩ :: r) =
      .ok (.var n, ⟨VAR_END, v1⟩ :: r) := by
    have : exprFuel (⟨NAME, n⟩ :: ⟨VAR_END, v1⟩ :: r) = (8 * r.length + 26) + 6 := by
      simp [exprFuel]; omega
    rw [this]; exact parseExpression_var _ n _ r hn hs
  rw [parseOuter]
  simp only [he]
  simp [expectK, VAR_START, EOF, TEXT, VAR_END]


/-! ## lexing `{{ v }}` -/

theorem all_u8 (P : UInt8 → Bool) (h : ∀ n : Fin 256, P (UInt8.ofNat n.val) = true) : ∀ c : UInt8, P c = true := by
  intro c
  have := h ⟨c.toNat, c.toNat_lt⟩
  simpa using this

/-- identifier: `[A-Za-z_][A-Za-z0-9_]*` -/
def Ident : Bytes → Bool
  | [] => false
  | c :: r => isIdentStart c && r.all isIdentChar

def AllSp (w : Bytes) : Bool := w.all isSpaceAscii

theorem class_identChar : ∀ c : UInt8, (!isIdentChar c || (!isSpaceAscii c &&
    uniSpaces.all (fun p => p.head? != some c) && uniSpaces.all (fun p => p.getLast? != some c))) = true :=
  all_u8 _ (by decide +kernel)

theorem class_identStart : ∀ c : UInt8, (!isIdentStart c || (isIdentChar c && !(c == 34 || c == 39) &&
    !isOperatorCh c && !isPunctCh c && !isWs c)) = true :=
  all_u8 _ (by decide +kernel)

theorem find_uni_none (c : UInt8) (r : Bytes) (h : uniSpaces.all (fun p => p.head? != some c) = true) :
    uniSpaces.find? (fun p => p.isPrefixOf (c :: r)) = none := by
  rw [List.find?_eq_none]
  intro p hp
  have := (List.all_eq_true.mp h) p hp
  cases p with
  | nil => simp [uniSpaces] at hp
  | cons a p' =>
    simp at this
    simp [List.isPrefixOf, this]


theorem leadSpaceLen_zero (c : UInt8) (r : Bytes) (h1 : isSpaceAscii c = false)
    (h : uniSpaces.all (fun p => p.head? != some c) = true) : leadSpaceLen (c :: r) = 0 := by
  simp [leadSpaceLen, h1, find_uni_none c r h]

theorem leadSpaceLen_sp (c : UInt8) (r : Bytes) (h1 : isSpaceAscii c = true) : leadSpaceLen (c :: r) = 1 := by
  simp [leadSpaceLen, h1]

theorem find_uni_rev_none (c : UInt8) (r : Bytes) (h : uniSpaces.all (fun p => p.getLast? != some c) = true) :
    uniSpaces.find? (fun p => p.reverse.isPrefixOf (c :: r)) = none := by
  rw [List.find?_eq_none]
  intro p hp
  have := (List.all_eq_true.mp h) p hp
  rcases List.eq_nil_or_concat p with rfl | ⟨p', a, rfl⟩
  · simp [uniSpaces] at hp
  · simp at this
    simp [List.isPrefixOf, this]

theorem trailSpaceLen_zero (c : UInt8) (r : Bytes) (h1 : isSpaceAscii c = false)
    (h : uniSpaces.all (fun p => p.getLast? != some c) = true) : trailSpaceLen (c :: r) = 0 := by
  simp [trailSpaceLen, h1, find_uni_rev_none c r h]

theorem trailSpaceLen_sp (c : UInt8) (r : Bytes) (h1 : isSpaceAscii c = true) : trailSpaceLen (c :: r) = 1 := by
  simp [trailSpaceLen, h1]

theorem trimLeftGo_pad (w x : Bytes) (hw : AllSp w = true) (hx : leadSpaceLen x = 0) :
    ∀ fuel, w.length ≤ fuel → trimLeftGo fuel (w ++ x) = x := by
  induction w with
  | nil =>
    intro fuel _
    cases fuel with
    | zero => rfl
    | succ n => simp [trimLeftGo, hx]
  | cons c w ih =>
    intro fuel hf
    simp [AllSp] at hw
    cases fuel with
    | zero => simp at hf
    | succ n =>
      have h1 := leadSpaceLen_sp c (w ++ x) hw.1
      simp only [List.cons_append, trimLeftGo, h1]
      simp
      exact ih (by simpa [AllSp] using hw.2) n (by simpa using hf)

theorem trimRightRev_pad (w x : Bytes) (hw : AllSp w = true) (hx : trailSpaceLen x = 0) :
    ∀ fuel, w.length ≤ fuel → trimRightRev fuel (w ++ x) = x := by
  induction w with
  | nil =>
    intro fuel _
    cases fuel with
    | zero => rfl
    | succ n => simp [trimRightRev, hx]
  | cons c w ih =>
    intro fuel hf
    simp [AllSp] at hw
    cases fuel with
    | zero => simp at hf
    | succ n =>
      have h1 := trailSpaceLen_sp c (w ++ x) hw.1
      simp only [List.cons_append, trimRightRev, h1]
      simp
      exact ih (by simpa [AllSp] using hw.2) n (by simpa using hf)

theorem allSp_reverse (w : Bytes) : AllSp w.reverse = AllSp w := by simp [AllSp]

theorem takeWhile_all_self {α} (p : α → Bool) : ∀ (l : List α), l.all p = true → l.takeWhile p = l
  | [], _ => rfl
  | a :: l, h => by
    simp only [List.all_cons, Bool.and_eq_true] at h
    simp [List.takeWhile, h.1, takeWhile_all_self p l h.2]
theorem dropWhile_all_nil {α} (p : α → Bool) : ∀ (l : List α), l.all p = true → l.dropWhile p = []
  | [], _ => rfl
  | a :: l, h => by
    simp only [List.all_cons, Bool.and_eq_true] at h
    simp [List.dropWhile, h.1, dropWhile_all_nil p l h.2]

theorem identChar_facts {c : UInt8} (h : isIdentChar c = true) : isSpaceAscii c = false ∧
    uniSpaces.all (fun p => p.head? != some c) = true ∧ uniSpaces.all (fun p => p.getLast? != some c) = true := by
  have := class_identChar c
  simp only [h, Bool.not_true, Bool.false_or, Bool.and_eq_true, Bool.not_eq_true'] at this
  exact ⟨this.1.1, this.1.2, this.2⟩

theorem trimSpaceGo_pad (w1 x w2 : Bytes) (h1 : AllSp w1 = true) (h2 : AllSp w2 = true)
    (hne : x ≠ []) (hx : x.all isIdentChar = true) : trimSpaceGo (w1 ++ x ++ w2) = x := by
  unfold trimSpaceGo
  have e1 : trimLeftGo (w1 ++ x ++ w2).length (w1 ++ x ++ w2) = x ++ w2 := by
    rw [List.append_assoc]
    have hl' : leadSpaceLen (x ++ w2) = 0 := by
      cases x with
      | nil => exact absurd rfl hne
      | cons c r =>
        have hc := identChar_facts (c := c) (by simp at hx; exact hx.1)
        exact leadSpaceLen_zero c _ hc.1 hc.2.1
    exact trimLeftGo_pad w1 (x ++ w2) h1 hl' _ (by simp)
  simp only [e1]
  rw [List.reverse_append]
  have hr' : trailSpaceLen x.reverse = 0 := by
    rcases List.eq_nil_or_concat x with rfl | ⟨x', a, rfl⟩
    · exact absurd rfl hne
    · have hc := identChar_facts (c := a) (by simp at hx; exact hx.2)
      simp only [List.concat_eq_append, List.reverse_append, List.reverse_cons, List.reverse_nil, List.nil_append,
        List.singleton_append]
      exact trailSpaceLen_zero a _ hc.1 hc.2.2
  rw [trimRightRev_pad w2.reverse x.reverse (by rw [allSp_reverse]; exact h2) hr' _ (by simp)]
  simp

theorem lexAux_nil (fuel : Nat) (m : LexMode) (esc : Bool) : lexAux fuel m esc [] = [] := by
  cases fuel <;> simp [lexAux]

theorem ident_all {v : Bytes} (h : Ident v = true) : v ≠ [] ∧ v.all isIdentChar = true := by
  cases v with
  | nil => simp [Ident] at h
  | cons c r =>
    simp only [Ident, Bool.and_eq_true] at h
    have := class_identStart c
    simp only [h.1, Bool.not_true, Bool.false_or, Bool.and_eq_true] at this
    refine ⟨by simp, ?_⟩
    simp only [List.all_cons, Bool.and_eq_true]
    exact ⟨this.1.1.1.1, h.2⟩

theorem lexExpr_ident {v : Bytes} (h : Ident v = true) : lexExpr v = [tk NAME v] := by
  cases v with
  | nil => simp [Ident] at h
  | cons c r =>
    simp only [Ident, Bool.and_eq_true] at h
    have hc := class_identStart c
    simp only [h.1, Bool.not_true, Bool.false_or, Bool.and_eq_true, Bool.not_eq_true', Bool.or_eq_false_iff] at hc
    obtain ⟨⟨⟨⟨_, hq⟩, ho⟩, hp⟩, hw⟩ := hc
    have ht : r.takeWhile isIdentChar = r := takeWhile_all_self _ r h.2
    have hd : r.dropWhile isIdentChar = [] := dropWhile_all_nil _ r h.2
    simp [lexExpr, lexAux, hq, ho, hp, hw, h.1, ht, hd, lexAux_nil]

theorem contentTokens_pvar (w1 v w2 : Bytes) (h1 : AllSp w1 = true) (h2 : AllSp w2 = true) (hv : Ident v = true) :
    contentTokens .var (w1 ++ v ++ w2) = [tk NAME v] := by
  have ⟨hne, hall⟩ := ident_all hv
  simp only [contentTokens]
  rw [trimSpaceGo_pad w1 v w2 h1 h2 hne hall]
  have : v.isEmpty = false := by cases v <;> simp_all
  simp [this, lexExpr_ident hv]


/-! ## rendering text / print-variable / verbatim nodes -/


/-- values whose printing is `toStr` (everything except the two closure values, which never come from a context) -/
def isPlain : Val → Bool
  | .callable _ _ _ => false
  | .parentFn => false
  | _ => true

def PlainVars (vars : List (Bytes × Val)) : Bool := vars.all (fun kv => isPlain kv.2)

/-- `GetVariable` at the top level -/
def lookupVar (vars : List (Bytes × Val)) (n : Bytes) : Val := (getKV n vars).getD .null

theorem lookupVar_plain {vars : List (Bytes × Val)} (h : PlainVars vars = true) (n : Bytes) :
    isPlain (lookupVar vars n) = true := by
  unfold lookupVar getKV
  cases hf : vars.find? (fun x => x.1 == n) with
  | none => rfl
  | some kv =>
    have := List.mem_of_find?_eq_some hf
    simpa using (List.all_eq_true.mp h) kv this

/-- the spec side: what a node list of text / print-variable / verbatim nodes must output -/
inductive Piece
  | lit (s : Bytes)
  | pvar (v : Bytes)
  | verb (s : Bytes)

def Piece.node : Piece → Node
  | .lit s => .text s
  | .pvar v => .print (.var v)
  | .verb s => .verbatim s

def Piece.out (vars : List (Bytes × Val)) : Piece → R Bytes
  | .lit s => .ok s
  | .pvar v => toStr (lookupVar vars v)
  | .verb s => .ok s

def outPieces (vars : List (Bytes × Val)) : List Piece → R Bytes
  | [] => .ok []
  | p :: r => do
    let a ← p.out vars
    let c ← outPieces vars r
    .ok (a ++ c)

/-- top-level-like state: no macros, no parent scopes -/
def Flat (st : St) : Prop := st.ctx.macros = [] ∧ st.ctx.parents = []

theorem getMacro_flat {st : St} (h : Flat st) (n : Bytes) : st.ctx.getMacro n = none := by
  simp [Ctx.getMacro, h.1, h.2, getKV, scopesMacro]

theorem getVar_flat {st : St} (h : Flat st) (n : Bytes) : st.ctx.getVar n = lookupVar st.ctx.vars n := by
  unfold Ctx.getVar lookupVar
  cases getKV n st.ctx.vars <;> simp [h.2, scopesVar]

theorem printVal_plain (go : Go) {v : Val} (h : isPlain v = true) (st : St) :
    printVal go v st = (toStr v >>= fun s => pure (s, st)) := by
  cases v <;> simp [isPlain] at h <;> rfl

/-- the printed variables hold plain values -/
def Piece.plainIn (vars : List (Bytes × Val)) : Piece → Bool
  | .pvar v => isPlain (lookupVar vars v)
  | _ => true

def PiecesPlain (vars : List (Bytes × Val)) (ps : List Piece) : Bool := ps.all (fun p => p.plainIn vars)

theorem piecesPlain_of_plainVars {vars : List (Bytes × Val)} (h : PlainVars vars = true) (ps : List Piece) :
    PiecesPlain vars ps = true := by
  unfold PiecesPlain
  rw [List.all_eq_true]
  intro p _
  cases p <;> simp [Piece.plainIn, lookupVar_plain h]

theorem renderNode_piece (E : Env) (go : Go) (tpl : Bytes) (p : Piece) (st : St) (hf : Flat st)
    (hg : E.globals = []) (hp : p.plainIn st.ctx.vars = true) :
    renderNode E go tpl p.node st = (p.out st.ctx.vars >>= fun o => pure (o, st)) := by
  cases p with
  | lit s => rfl
  | verb s => rfl
  | pvar v =>
    have he : ∀ ap, evalX E ap (.var v) st = .ok ((lookupVar st.ctx.vars v, []), st) := by
      intro ap
      simp only [evalX, getMacro_flat hf, getVar_flat hf, hg, getKV, List.find?, Option.map]
      split <;> rfl
    simp only [Piece.node, renderNode, he, Piece.out]
    simp only [ok_bind]
    exact printVal_plain go hp st

theorem renderNodes_pieces (E : Env) (go : Go) (tpl : Bytes) (st : St) (hf : Flat st) (hg : E.globals = []) :
    ∀ ps : List Piece,
    PiecesPlain st.ctx.vars ps = true →
    renderNodes E go tpl (ps.map Piece.node) st = (outPieces st.ctx.vars ps >>= fun o => pure (o, st))
  | [], _ => rfl
  | p :: ps, hp => by
    simp only [PiecesPlain, List.all_cons, Bool.and_eq_true] at hp
    simp only [List.map_cons, renderNodes, renderNode_piece E go tpl p st hf hg hp.1, outPieces]
    cases p.out st.ctx.vars with
    | error e => rfl
    | ok a =>
      simp only [ok_bind, pure_eq_ok, renderNodes_pieces E go tpl st hf hg ps hp.2]
      cases outPieces st.ctx.vars ps <;> rfl

theorem lastExtends_pieces : ∀ ps : List Piece, lastExtends (ps.map Piece.node) = none
  | [] => rfl
  | p :: ps => by cases p <;> simp [Piece.node, lastExtends, lastExtends_pieces ps]

theorem blockNamesL_pieces : ∀ ps : List Piece, blockNamesL (ps.map Piece.node) = []
  | [] => rfl
  | p :: ps => by cases p <;> simp [Piece.node, blockNamesL, blockNames, blockNamesL_pieces ps]

theorem tpl_envOf (nodes : List Node) : (envOf nodes).tpl? mainName = some nodes := by
  simp [Env.tpl?, envOf]

theorem renderNodesTop_pieces (ps : List Piece) (vars : List (Bytes × Val)) (hv : PiecesPlain vars ps = true) :
    renderNodesTop (ps.map Piece.node) vars = outPieces vars ps := by
  unfold renderNodesTop renderTop
  simp only [tpl_envOf, defaultFuel, run, renderRoot, lastExtends_pieces]
  rw [renderNodes_pieces _ _ _ _ ⟨rfl, rfl⟩ rfl ps hv]
  cases outPieces vars ps <;> rfl



/-! ## the fragment: literal chunks, comments, prints of a variable -/

/-- the tag fragment of the output theorems: comments and prints of one variable -/
inductive STag
  | comment (c : Bytes)
  | pvar (otrim : Bool) (w1 v w2 : Bytes) (ctrim : Bool)

def STag.tag : STag → Tag
  | .comment c => ⟨.comment, false, c, false⟩
  | .pvar o w1 v w2 c => ⟨.var, o, w1 ++ v ++ w2, c⟩

/-- whitespace padding around an identifier that is not a reserved word -/
def STag.ok : STag → Bool
  | .comment _ => true
  | .pvar _ w1 v w2 _ => AllSp w1 && AllSp w2 && Ident v && !reserved.contains v

def STag.pieces : STag → List Piece
  | .comment _ => []
  | .pvar _ _ v _ _ => [.pvar v]

def STag.plain : STag → STag
  | .comment c => .comment c
  | .pvar _ w1 v w2 _ => .pvar false w1 v w2 false

def STag.noDash : STag → Bool
  | .comment _ => true
  | .pvar o _ _ _ c => !o && !c

def tagsOf (ps : List (Bytes × STag)) : List (Bytes × Tag) := ps.map fun lt => (lt.1, lt.2.tag)

/-- the normalised tokens of a fragment tag -/
def STag.group : STag → List Token
  | .comment c => tk COMMENT_START :: ((if c.isEmpty then [] else [tk TEXT c]) ++ [tk COMMENT_END])
  | .pvar _ _ v _ _ => [tk VAR_START, tk NAME v, tk VAR_END]

theorem normalise_append (a c : List Token) : normalise (a ++ c) = normalise a ++ normalise c := by
  simp [normalise]

theorem norm_step (tn : Bool) (l : Bytes) (s : STag) (hs : s.ok = true) (E : List Token) :
    normalise (applyWsAux tn (textTok l ++ s.tag.tokens ++ E)) =
      (if l = [] then [] else [⟨TEXT, rtIf s.tag.opensTrim (ltIf tn l)⟩]) ++ s.group ++
        normalise (applyWsAux s.tag.closesTrim E) := by
  rw [applyWs_step]
  simp only [normalise_append]
  have h0 : normalise (if l = [] then [] else [⟨TEXT, rtIf s.tag.opensTrim (ltIf tn l)⟩]) =
      (if l = [] then [] else [⟨TEXT, rtIf s.tag.opensTrim (ltIf tn l)⟩]) := by
    split <;> rfl
  rw [h0, List.append_assoc]
  congr 1
  cases s with
  | comment c =>
    simp only [STag.tag, STag.group, contentTokens]
    by_cases hc : c.isEmpty <;> simp [hc, normalise, Tag.opener, Opener.startKind, endKind, tk, normKind,
      COMMENT_START, COMMENT_END, TEXT, VAR_START_TRIM, VAR_END_TRIM, BLOCK_START_TRIM, BLOCK_END_TRIM]
  | pvar o w1 v w2 c =>
    simp only [STag.ok, Bool.and_eq_true] at hs
    simp only [STag.tag, STag.group, contentTokens_pvar w1 v w2 hs.1.1.1 hs.1.1.2 hs.1.2]
    cases o <;> cases c <;> rfl

theorem parse_group (f : Nat) (s : STag) (hs : s.ok = true) (rest : List Token) :
    parseOuter (f+1) (s.group ++ rest) =
      (parseOuter f rest >>= fun (x : List Node × List Token) => pure (s.pieces.map Piece.node ++ x.1, x.2)) := by
  cases s with
  | comment c =>
    simp only [STag.group, STag.pieces, List.map_nil, List.nil_append]
    have := parseOuter_comment f [] (if c.isEmpty then [] else [tk TEXT c]) (tk COMMENT_END) rest
      (by intro x hx; split at hx <;> simp at hx; subst hx; simp [tk, TEXT, COMMENT_END]) rfl
    simp only [List.cons_append, List.append_assoc, List.nil_append]
    rw [show tk COMMENT_START = (⟨COMMENT_START, []⟩ : Token) from rfl, this]
    cases parseOuter f rest <;> rfl
  | pvar o w1 v w2 c =>
    simp only [STag.ok, Bool.and_eq_true] at hs
    have hn : v ∉ reserved := by simpa using hs.2
    exact parseOuter_pvar f [] [] v rest hn


/-- the node list the parser must build (as pieces): trimmed chunks and printed variables -/
def piecesOf : Bool → List (Bytes × STag) → Bytes → List Piece
  | tn, [], last => if last = [] then [] else [.lit (ltIf tn last)]
  | tn, (l, s) :: ps, last =>
    (if l = [] then [] else [.lit (rtIf s.tag.opensTrim (ltIf tn l))]) ++ s.pieces ++
      piecesOf s.tag.closesTrim ps last

theorem tagsOf_nil : tagsOf [] = [] := rfl
theorem tagsOf_cons (l : Bytes) (s : STag) (ps : List (Bytes × STag)) :
    tagsOf ((l, s) :: ps) = (l, s.tag) :: tagsOf ps := rfl

theorem normalise_eof : normalise [tk EOF] = [tk EOF] := rfl

theorem parse_expected (last : Bytes) : ∀ (ps : List (Bytes × STag)), (∀ lt ∈ ps, lt.2.ok = true) →
    ∀ (tn : Bool) (f : Nat), 2 * ps.length + 2 ≤ f →
    parseOuter f (normalise (applyWsAux tn (expected (tagsOf ps) last))) =
      .ok ((piecesOf tn ps last).map Piece.node, [tk EOF])
  | [], _, tn, f, hf => by
    obtain ⟨f', rfl⟩ : ∃ f', f = f' + 2 := ⟨f - 2, by simp at hf; omega⟩
    simp only [tagsOf_nil, expected, piecesOf]
    by_cases hl : last = []
    · subst hl
      rw [textTok_nil, List.nil_append, applyWsAux_other _ _ _ (by decide), applyWsAux_nil]
      rw [normalise_eof]
      exact parseOuter_eof _ _ _
    · rw [textTok_ne hl, List.singleton_append, applyWsAux_text _ _ _ rfl,
        applyWsAux_other _ _ _ (by decide), applyWsAux_nil]
      have : normalise [⟨TEXT, rtIf (nextTrim [tk EOF]) (ltIf tn (tk TEXT last).val)⟩, tk EOF] =
          ⟨TEXT, ltIf tn last⟩ :: [tk EOF] := rfl
      rw [this, parseOuter_text, show tk EOF = (⟨EOF, []⟩ : Token) from rfl, parseOuter_eof]
      simp [hl, Piece.node]
  | (l, s) :: ps, hok, tn, f, hf => by
    have hs : s.ok = true := hok (l, s) (by simp)
    have hok' : ∀ lt ∈ ps, lt.2.ok = true := fun lt hm => hok lt (by simp [hm])
    obtain ⟨f', rfl⟩ : ∃ f', f = f' + 2 := ⟨f - 2, by simp at hf; omega⟩
    have hf' : 2 * ps.length + 2 ≤ f' := by simp at hf; omega
    simp only [tagsOf_cons, expected]
    rw [norm_step tn l s hs]
    have ih := parse_expected last ps hok' s.tag.closesTrim
    by_cases hl : l = []
    · subst hl
      simp only [if_true, List.nil_append, piecesOf]
      rw [parse_group _ s hs, ih (f' + 1) (by omega)]
      simp
    · simp only [hl, if_false, List.cons_append, List.nil_append, piecesOf]
      rw [parseOuter_text, parse_group _ s hs, ih f' hf']
      simp [Piece.node]


theorem tokens_length_ge (t : Tag) : 2 ≤ t.tokens.length := by
  simp [Tag.tokens]

theorem expected_length_ge : ∀ (ps : List (Bytes × Tag)) (last : Bytes), 2 * ps.length + 1 ≤ (expected ps last).length
  | [], last => by simp [expected]
  | (l, t) :: ps, last => by
    have := expected_length_ge ps last
    have := tokens_length_ge t
    simp only [expected, List.length_append, List.length_cons]
    omega

theorem normalise_length (ts : List Token) : (normalise ts).length = ts.length := by simp [normalise]

theorem parseTokens_expected (ps : List (Bytes × STag)) (last : Bytes) (hok : ∀ lt ∈ ps, lt.2.ok = true) :
    parseTokens (normalise (applyWs (expected (tagsOf ps) last))) =
      .ok ((piecesOf false ps last).map Piece.node) := by
  unfold parseTokens
  have hlen := expected_length_ge (tagsOf ps) last
  have hl2 : (tagsOf ps).length = ps.length := by simp [tagsOf]
  rw [applyWs, parse_expected last ps hok false _ (by
    rw [normalise_length, applyWsAux_length]; omega)]
  simp [blockNamesL_pieces, hasDup, strayEnd, tk]

theorem parseTemplate_spell (ps : List (Bytes × STag)) (last : Bytes)
    (h : ∀ lt ∈ ps, Lit lt.1 ∧ WfTag lt.2.tag ∧ lt.2.ok = true) (hlast : NoOpener last) :
    parseTemplate (spell (tagsOf ps) last) = .ok ((piecesOf false ps last).map Piece.node) := by
  have hsc : scanOpt (spell (tagsOf ps) last) = .ok (expected (tagsOf ps) last) :=
    scanOpt_chunks _ _ (by
      intro lt hm
      simp only [tagsOf, List.mem_map] at hm
      obtain ⟨x, hx, rfl⟩ := hm
      exact ⟨(h x hx).1, (h x hx).2.1⟩) hlast
  unfold parseTemplate tokenize
  rw [scan_eq_scanOpt, hsc]
  exact parseTokens_expected ps last (fun lt hm => (h lt hm).2.2)

theorem renderSrc_spell (ps : List (Bytes × STag)) (last : Bytes) (vars : List (Bytes × Val))
    (h : ∀ lt ∈ ps, Lit lt.1 ∧ WfTag lt.2.tag ∧ lt.2.ok = true) (hlast : NoOpener last)
    (hp : PiecesPlain vars (piecesOf false ps last) = true) :
    renderSrc (spell (tagsOf ps) last) vars = outPieces vars (piecesOf false ps last) := by
  unfold renderSrc
  rw [parseTemplate_spell ps last h hlast]
  exact renderNodesTop_pieces _ vars hp


/-! ### the output, spelled out -/

/-- what a fragment tag contributes to the output -/
def STag.value (vars : List (Bytes × Val)) : STag → R Bytes
  | .comment _ => .ok []
  | .pvar _ _ v _ _ => toStr (lookupVar vars v)

/-- literal chunks interleaved with the tags' values (no trimming) -/
def interleaveOut (vars : List (Bytes × Val)) : List (Bytes × STag) → Bytes → R Bytes
  | [], last => .ok last
  | (l, s) :: ps, last => do
    let v ← s.value vars
    let r ← interleaveOut vars ps last
    .ok (l ++ v ++ r)

/-- the same with the trimming requested by dashes -/
def outOf (vars : List (Bytes × Val)) : Bool → List (Bytes × STag) → Bytes → R Bytes
  | tn, [], last => .ok (ltIf tn last)
  | tn, (l, s) :: ps, last => do
    let v ← s.value vars
    let r ← outOf vars s.tag.closesTrim ps last
    .ok (rtIf s.tag.opensTrim (ltIf tn l) ++ v ++ r)

theorem outPieces_append (vars : List (Bytes × Val)) : ∀ (a c : List Piece),
    outPieces vars (a ++ c) = (outPieces vars a >>= fun x => outPieces vars c >>= fun y => .ok (x ++ y))
  | [], c => by cases h : outPieces vars c <;> simp [outPieces, h]
  | p :: a, c => by
    simp only [List.cons_append, outPieces, outPieces_append vars a c]
    cases p.out vars with
    | error e => rfl
    | ok x =>
      simp only [ok_bind]
      cases outPieces vars a with
      | error e => rfl
      | ok y =>
        simp only [ok_bind]
        cases outPieces vars c <;> simp

theorem outPieces_lit_opt (vars : List (Bytes × Val)) (l x : Bytes) (hx : l = [] → x = []) :
    outPieces vars (if l = [] then [] else [.lit x]) = .ok x := by
  by_cases hl : l = []
  · simp [hl, outPieces, hx hl]
  · simp [hl, outPieces, Piece.out]

theorem ltIf_nil (c : Bool) : ltIf c [] = [] := by cases c <;> rfl

theorem outPieces_stag (vars : List (Bytes × Val)) (s : STag) : outPieces vars s.pieces = s.value vars := by
  cases s with
  | comment c => rfl
  | pvar o w1 v w2 c =>
    simp only [STag.pieces, outPieces, Piece.out, STag.value]
    cases toStr (lookupVar vars v) <;> simp

theorem outPieces_piecesOf (vars : List (Bytes × Val)) (last : Bytes) : ∀ (ps : List (Bytes × STag)) (tn : Bool),
    outPieces vars (piecesOf tn ps last) = outOf vars tn ps last
  | [], tn => by
    simp only [piecesOf, outOf]
    exact outPieces_lit_opt vars last _ (fun h => by rw [h, ltIf_nil])
  | (l, s) :: ps, tn => by
    simp only [piecesOf, outOf, outPieces_append, outPieces_piecesOf vars last ps, outPieces_stag]
    rw [outPieces_lit_opt vars l _ (fun h => by rw [h, trims_nil])]
    simp only [ok_bind]
    cases s.value vars with
    | error e => rfl
    | ok v =>
      simp only [ok_bind]

theorem noDash_trims {s : STag} (h : s.noDash = true) : s.tag.opensTrim = false ∧ s.tag.closesTrim = false := by
  cases s with
  | comment c => exact ⟨rfl, rfl⟩
  | pvar o w1 v w2 c =>
    simp only [STag.noDash, Bool.and_eq_true, Bool.not_eq_true'] at h
    simp [STag.tag, Tag.opensTrim, Tag.closesTrim, h.1, h.2]

theorem outOf_noDash (vars : List (Bytes × Val)) (last : Bytes) : ∀ (ps : List (Bytes × STag)),
    (∀ lt ∈ ps, lt.2.noDash = true) → outOf vars false ps last = interleaveOut vars ps last
  | [], _ => rfl
  | (l, s) :: ps, h => by
    have h1 := noDash_trims (h (l, s) (by simp))
    simp only [outOf, interleaveOut, h1.1, h1.2]
    rw [outOf_noDash vars last ps (fun lt hm => h lt (by simp [hm]))]
    rfl

/-- the hand-trimmed, dash-free template (fragment version of `undashPairs`) -/
def undashS : Bool → List (Bytes × STag) → List (Bytes × STag)
  | _, [] => []
  | tn, (l, s) :: ps => (rtIf s.tag.opensTrim (ltIf tn l), s.plain) :: undashS s.tag.closesTrim ps

theorem plain_tag (s : STag) : s.plain.tag = s.tag.plain := by cases s <;> rfl
theorem plain_ok (s : STag) : s.plain.ok = s.ok := by cases s <;> rfl
theorem plain_noDash (s : STag) : s.plain.noDash = true := by cases s <;> rfl
theorem plain_value (vars : List (Bytes × Val)) (s : STag) : s.plain.value vars = s.value vars := by cases s <;> rfl

theorem tagsOf_undashS : ∀ (tn : Bool) (ps : List (Bytes × STag)),
    tagsOf (undashS tn ps) = undashPairs tn (tagsOf ps)
  | _, [] => rfl
  | tn, (l, s) :: ps => by
    simp only [undashS, tagsOf_cons, undashPairs, plain_tag, tagsOf_undashS _ ps]

theorem undashS_noDash : ∀ (tn : Bool) (ps : List (Bytes × STag)), ∀ lt ∈ undashS tn ps, lt.2.noDash = true
  | _, [], lt, h => by simp [undashS] at h
  | tn, (l, s) :: ps, lt, h => by
    simp only [undashS, List.mem_cons] at h
    rcases h with rfl | h
    · exact plain_noDash s
    · exact undashS_noDash _ ps lt h

theorem outOf_undash (vars : List (Bytes × Val)) (last : Bytes) : ∀ (ps : List (Bytes × STag)) (tn : Bool),
    outOf vars tn ps last = interleaveOut vars (undashS tn ps) (undashLast tn (tagsOf ps) last)
  | [], tn => rfl
  | (l, s) :: ps, tn => by
    simp only [outOf, undashS, interleaveOut, plain_value, outOf_undash vars last ps]
    rfl



/-! ## verbatim -/

/-- node lists made of text and verbatim nodes only, as pieces -/
def tvPieces : List Node → Option (List Piece)
  | [] => some []
  | .text s :: r => (tvPieces r).map (Piece.lit s :: ·)
  | .verbatim s :: r => (tvPieces r).map (Piece.verb s :: ·)
  | _ => none

def onlyTV (nodes : List Node) : Bool := (tvPieces nodes).isSome

/-- the bytes such a node list holds -/
def tvBytes : List Node → Bytes
  | [] => []
  | .text s :: r => s ++ tvBytes r
  | .verbatim s :: r => s ++ tvBytes r
  | _ :: r => tvBytes r

theorem tvPieces_spec : ∀ (nodes : List Node) (ps : List Piece), tvPieces nodes = some ps →
    nodes = ps.map Piece.node ∧ (∀ vars, PiecesPlain vars ps = true) ∧ (∀ vars, outPieces vars ps = .ok (tvBytes nodes))
  | [], ps, h => by
    simp only [tvPieces, Option.some.injEq] at h; subst h
    exact ⟨rfl, fun _ => rfl, fun _ => rfl⟩
  | .text s :: r, ps, h => by
    simp only [tvPieces, Option.map_eq_some_iff] at h
    obtain ⟨ps', h', rfl⟩ := h
    obtain ⟨h1, h2, h3⟩ := tvPieces_spec r ps' h'
    refine ⟨by rw [h1]; simp [Piece.node], fun vars => ?_, fun vars => ?_⟩
    · simpa [PiecesPlain, Piece.plainIn] using h2 vars
    · simp [outPieces, Piece.out, h3 vars, tvBytes]
  | .verbatim s :: r, ps, h => by
    simp only [tvPieces, Option.map_eq_some_iff] at h
    obtain ⟨ps', h', rfl⟩ := h
    obtain ⟨h1, h2, h3⟩ := tvPieces_spec r ps' h'
    refine ⟨by rw [h1]; simp [Piece.node], fun vars => ?_, fun vars => ?_⟩
    · simpa [PiecesPlain, Piece.plainIn] using h2 vars
    · simp [outPieces, Piece.out, h3 vars, tvBytes]
  | .print _ :: _, _, h | .ifN _ _ _ :: _, _, h | .forN _ _ _ _ _ :: _, _, h | .setN _ _ :: _, _, h
  | .doN _ :: _, _, h | .block _ _ :: _, _, h | .extends _ :: _, _, h | .include _ _ _ _ _ _ :: _, _, h
  | .macro _ _ _ _ _ :: _, _, h | .importN _ _ :: _, _, h | .fromN _ _ :: _, _, h | .apply _ _ :: _, _, h
  | .spaceless _ :: _, _, h => by simp [tvPieces] at h

theorem renderNodesTop_onlyTV (nodes : List Node) (h : onlyTV nodes = true) (vars : List (Bytes × Val)) :
    renderNodesTop nodes vars = .ok (tvBytes nodes) := by
  unfold onlyTV at h
  obtain ⟨ps, hps⟩ := Option.isSome_iff_exists.mp h
  obtain ⟨h1, h2, h3⟩ := tvPieces_spec nodes ps hps
  rw [h1, renderNodesTop_pieces ps vars (h2 vars), h3 vars, ← h1]



def verbOpen : Tag := ⟨.block, false, b " verbatim ", false⟩
def verbClose : Tag := ⟨.block, false, b " endverbatim ", false⟩

theorem verbOpen_tokens : verbOpen.tokens = [tk BLOCK_START, tk NAME (b "verbatim"), tk BLOCK_END] := by decide +kernel
theorem verbClose_tokens : verbClose.tokens = [tk BLOCK_START, tk NAME (b "endverbatim"), tk BLOCK_END] := by decide +kernel
theorem verbOpen_text : verbOpen.text = b "{% verbatim %}" := by decide +kernel
theorem verbClose_text : verbClose.text = b "{% endverbatim %}" := by decide +kernel
theorem verb_wf : WfTag verbOpen ∧ WfTag verbClose := by decide +kernel

theorem parseTag_verbatim (f : Nat) (ts : List Token) :
    parseTag (f+1) (b "verbatim") ts = (do
      let r1 ← expectK BLOCK_END "expected block end after verbatim tag" ts
      let (s, r2) ← verbBody (r1.length + 1) r1
      pure (.verbatim s, r2)) := by
  unfold parseTag
  simp only [show (b "verbatim" == b "if") = false from by decide +kernel,
    show (b "verbatim" == b "for") = false from by decide +kernel,
    show (b "verbatim" == b "set") = false from by decide +kernel,
    show (b "verbatim" == b "do") = false from by decide +kernel,
    show (b "verbatim" == b "block") = false from by decide +kernel,
    show (b "verbatim" == b "extends") = false from by decide +kernel,
    show (b "verbatim" == b "include") = false from by decide +kernel,
    show (b "verbatim" == b "macro") = false from by decide +kernel,
    show (b "verbatim" == b "import") = false from by decide +kernel,
    show (b "verbatim" == b "from") = false from by decide +kernel,
    show (b "verbatim" == b "apply") = false from by decide +kernel,
    show (b "verbatim" == b "spaceless") = false from by decide +kernel,
    show (b "verbatim" == b "verbatim") = true from by decide +kernel]
  simp

/-- the body of `{% verbatim %}` when it is one literal chunk (possibly empty) -/
theorem verbBody_lit (f : Nat) (body : Bytes) (rest : List Token) :
    verbBody (f+2) (textTok body ++ tk BLOCK_START :: tk NAME (b "endverbatim") :: tk BLOCK_END :: rest) =
      .ok (body, rest) := by
  have hend : isName ⟨NAME, b "endverbatim"⟩ "endverbatim" = true := by simp [isName]
  have h0 : ∀ g, verbBody (g+1) (tk BLOCK_START :: tk NAME (b "endverbatim") :: tk BLOCK_END :: rest) = .ok ([], rest) := by
    intro g
    simp [verbBody, tk, hend, expectK]
  by_cases hb : body = []
  · subst hb; rw [textTok_nil, List.nil_append]; exact h0 _
  · rw [textTok_ne hb, List.singleton_append]
    rw [verbBody]
    simp [tk, TEXT, BLOCK_START]
    have := h0 f
    simp only [tk] at this
    rw [this]
    simp



theorem parseOuter_verbatim (f : Nat) (body : Bytes) (rest : List Token) :
    parseOuter (f+2) (tk BLOCK_START :: tk NAME (b "verbatim") :: tk BLOCK_END ::
        (textTok body ++ tk BLOCK_START :: tk NAME (b "endverbatim") :: tk BLOCK_END :: rest)) =
      (parseOuter (f+1) rest >>= fun (x : List Node × List Token) => pure (.verbatim body :: x.1, x.2)) := by
  have hc : endTagNames.contains (b "verbatim") = false := by decide +kernel
  have hlen : ∃ g, (textTok body ++ tk BLOCK_START :: tk NAME (b "endverbatim") :: tk BLOCK_END :: rest).length + 1 = g + 2 :=
    ⟨(textTok body).length + rest.length + 2, by simp; omega⟩
  obtain ⟨g, hg⟩ := hlen
  rw [parseOuter]
  simp only [tk, BLOCK_START, EOF, TEXT, VAR_START, NAME]
  simp only [show ((3 : Nat) == 12) = false from rfl, show ((3 : Nat) == 0) = false from rfl,
    show ((3 : Nat) == 1) = false from rfl, show ((3 : Nat) == 3) = true from rfl,
    show ((7 : Nat) != 7) = false from rfl, Bool.false_eq_true, if_false, if_true, hc]
  rw [parseTag_verbatim]
  simp only [expectK, BLOCK_END, show ((4 : Nat) == 4) = true from rfl, if_true, ok_bind]
  have := verbBody_lit g body rest
  simp only [tk, BLOCK_START, NAME, BLOCK_END] at this hg
  rw [hg, this]
  rfl



theorem normalise_inert (X : List Token) (hX : ∀ t ∈ X, ExprKind t.kind) : normalise X = X := by
  induction X with
  | nil => rfl
  | cons t X ih =>
    have := normKind_expr (hX t (by simp))
    simp only [normalise, List.map_cons] at ih ⊢
    rw [ih (fun u hu => hX u (by simp [hu])), this]

theorem normalise_textTok (l : Bytes) : normalise (textTok l) = textTok l := by
  by_cases h : l = []
  · subst h; rfl
  · rw [textTok_ne h]; rfl

theorem normalise_content (t : Tag) : normalise (contentTokens t.kind t.body) = contentTokens t.kind t.body := by
  by_cases hk : t.kind = .comment
  · rw [hk]; simp only [contentTokens]; split <;> rfl
  · exact normalise_inert _ (contentTokens_kinds hk t.body)

/-- on a template without dashes `ApplyWhitespaceControl` and the kind normalisation change nothing -/
theorem plain_stream (last : Bytes) : ∀ (ps : List (Bytes × Tag)),
    (∀ lt ∈ ps, lt.2.otrim = false ∧ lt.2.ctrim = false) →
    normalise (applyWsAux false (expected ps last)) = expected ps last
  | [], _ => by
    simp only [expected]
    by_cases h : last = []
    · subst h; rfl
    · rw [textTok_ne h, List.singleton_append, applyWsAux_text _ _ _ rfl]; rfl
  | (l, t) :: ps, h => by
    have ht : t.otrim = false ∧ t.ctrim = false := h (l, t) (by simp)
    have ho : t.opensTrim = false := by simp [Tag.opensTrim, ht.1]
    have hc : t.closesTrim = false := by simp [Tag.closesTrim, ht.2]
    have hp : t.plain = t := by
      rcases t with ⟨k, o, bd, c⟩; simp only at ht; simp [Tag.plain, ht.1, ht.2]
    simp only [expected]
    rw [applyWs_step, ho, hc]
    simp only [normalise_append, plain_stream last ps (fun lt hm => h lt (by simp [hm])), normalise_content]
    have h1 : normalise (if l = [] then [] else [⟨TEXT, rtIf false (ltIf false l)⟩]) = textTok l := by
      by_cases hl : l = []
      · subst hl; rfl
      · rw [if_neg hl, textTok_ne hl]; rfl
    have h2 : normalise [tk t.opener.startKind] = [tk t.opener.startKind] := by
      have := normKind_startKind t
      rw [hp] at this
      simp [normalise, tk, this]
    have h3 : normalise [tk (endKind t.kind t.ctrim)] = [tk (endKind t.kind t.ctrim)] := by
      have := normKind_endKind t.kind t.ctrim
      rw [ht.2] at this ⊢
      simp [normalise, tk, this]
    rw [h1, h2, h3]
    simp [Tag.tokens]

/-- `l₁ {% verbatim %} body {% endverbatim %} l₂` with literal chunks parses to text, verbatim, text -/
theorem parseTemplate_verbatim (l1 body l2 : Bytes) (h1 : Lit l1) (hb : Lit body) (h2 : NoOpener l2) :
    parseTemplate (l1 ++ b "{% verbatim %}" ++ (body ++ b "{% endverbatim %}" ++ l2)) =
      .ok ((if l1 = [] then [] else [.text l1]) ++ .verbatim body :: (if l2 = [] then [] else [.text l2])) := by
  have hsp : l1 ++ b "{% verbatim %}" ++ (body ++ b "{% endverbatim %}" ++ l2) =
      spell [(l1, verbOpen), (body, verbClose)] l2 := by
    simp only [spell, verbOpen_text, verbClose_text]
  have hsc := scanOpt_chunks [(l1, verbOpen), (body, verbClose)] l2 (by
    intro lt hm
    simp only [List.mem_cons, List.not_mem_nil, or_false] at hm
    rcases hm with rfl | rfl
    · exact ⟨h1, verb_wf.1⟩
    · exact ⟨hb, verb_wf.2⟩) h2
  unfold parseTemplate tokenize
  rw [hsp, scan_eq_scanOpt, hsc]
  simp only
  rw [applyWs, plain_stream l2 _ (by
    intro lt hm
    simp only [List.mem_cons, List.not_mem_nil, or_false] at hm
    rcases hm with rfl | rfl <;> exact ⟨rfl, rfl⟩)]
  simp only [expected, verbOpen_tokens, verbClose_tokens]
  generalize hF : 4 * (textTok l1 ++ [tk BLOCK_START, tk NAME (b "verbatim"), tk BLOCK_END] ++
      (textTok body ++ [tk BLOCK_START, tk NAME (b "endverbatim"), tk BLOCK_END] ++ (textTok l2 ++ [tk EOF]))).length + 16 = F
  obtain ⟨g, rfl⟩ : ∃ g, F = g + 4 := ⟨F - 4, by omega⟩
  have htail : ∀ k, parseOuter (k + 2) (textTok l2 ++ [tk EOF]) = .ok ((if l2 = [] then [] else [.text l2]), [tk EOF]) := by
    intro k
    by_cases hl : l2 = []
    · subst hl; exact parseOuter_eof _ _ _
    · rw [textTok_ne hl, List.singleton_append, show tk TEXT l2 = (⟨TEXT, l2⟩ : Token) from rfl, parseOuter_text,
        show tk EOF = (⟨EOF, []⟩ : Token) from rfl, parseOuter_eof]
      simp [hl]
  have hmid : ∀ k, parseOuter (k + 3) ([tk BLOCK_START, tk NAME (b "verbatim"), tk BLOCK_END] ++
      (textTok body ++ [tk BLOCK_START, tk NAME (b "endverbatim"), tk BLOCK_END] ++ (textTok l2 ++ [tk EOF]))) =
      .ok (.verbatim body :: (if l2 = [] then [] else [.text l2]), [tk EOF]) := by
    intro k
    have := parseOuter_verbatim (k + 1) body (textTok l2 ++ [tk EOF])
    simp only [List.cons_append, List.nil_append, List.append_assoc] at this ⊢
    rw [this, htail k]
    rfl
  by_cases hl1 : l1 = []
  · subst hl1
    rw [textTok_nil, List.nil_append, hmid (g + 1)]
    simp [blockNamesL, blockNames, strayEnd, tk]
    split <;> simp [blockNamesL, blockNames, hasDup]
  · rw [textTok_ne hl1, List.singleton_append, List.cons_append, show tk TEXT l1 = (⟨TEXT, l1⟩ : Token) from rfl,
      parseOuter_text, hmid g]
    simp [hl1, blockNamesL, blockNames, strayEnd, tk]
    split <;> simp [blockNamesL, blockNames, hasDup]



/-! ## fuel monotonicity of the template parser; padding in front of a template -/

/-! ## fuel order -/

def FLe {α} (x y : R α) : Prop := x = .error .fuel ∨ x = y

theorem FLe.refl {α} (x : R α) : FLe x x := .inr rfl
theorem FLe.fuel {α} (y : R α) : FLe (.error .fuel) y := .inl rfl

theorem FLe.trans {α} {x y z : R α} (h1 : FLe x y) (h2 : FLe y z) : FLe x z := by
  rcases h1 with h1 | h1
  · exact .inl h1
  · subst h1; exact h2

theorem FLe.bind {α β} {x x' : R α} {k k' : α → R β} (hx : FLe x x') (hk : ∀ a, FLe (k a) (k' a)) :
    FLe (x >>= k) (x' >>= k') := by
  rcases hx with hx | hx
  · subst hx; exact .inl rfl
  · subst hx
    cases x with
    | error e => exact .inr rfl
    | ok a => exact hk a

theorem FLe.ite {α} {c : Prop} [Decidable c] {a a' b b' : R α} (h1 : c → FLe a a') (h2 : ¬c → FLe b b') :
    FLe (if c then a else b) (if c then a' else b') := by
  by_cases h : c
  · simp only [h, if_true]; exact h1 h
  · simp only [h, if_false]; exact h2 h

theorem FLe.eq_of_ne {α} {x y : R α} (h : FLe x y) (hne : x ≠ .error .fuel) : y = x := by
  rcases h with h | h
  · exact absurd h hne
  · exact h.symm

structure TMonoAt (f : Nat) : Prop where
  outer : ∀ ts, FLe (parseOuter f ts) (parseOuter (f+1) ts)
  tag : ∀ n ts, FLe (parseTag f n ts) (parseTag (f+1) n ts)
  ifTail : ∀ h ts, FLe (parseIfTail f h ts) (parseIfTail (f+1) h ts)
  incl : ∀ o ts, FLe (parseIncludeOpts f o ts) (parseIncludeOpts (f+1) o ts)
  braces : ∀ ts, FLe (parseWithBraces f ts) (parseWithBraces (f+1) ts)
  plain : ∀ ts, FLe (parseWithPlain f ts) (parseWithPlain (f+1) ts)
  params : ∀ ts, FLe (parseMacroParams f ts) (parseMacroParams (f+1) ts)
  names : ∀ ts, FLe (parseFromNames f ts) (parseFromNames (f+1) ts)

theorem tmonoAt_zero : TMonoAt 0 := by
  constructor <;> intros <;> exact .inl (by simp [parseOuter, parseTag, parseIfTail, parseIncludeOpts,
    parseWithBraces, parseWithPlain, parseMacroParams, parseFromNames])

macro "tfle" ih:ident : tactic => `(tactic| repeat' first
  | exact FLe.refl _
  | exact TMonoAt.outer $ih _ | exact TMonoAt.tag $ih _ _ | exact TMonoAt.ifTail $ih _ _
  | exact TMonoAt.incl $ih _ _ | exact TMonoAt.braces $ih _ | exact TMonoAt.plain $ih _
  | exact TMonoAt.params $ih _ | exact TMonoAt.names $ih _
  | refine FLe.bind ?_ (fun ⟨_, _⟩ => ?_)
  | refine FLe.bind ?_ (fun _ => ?_)
  | refine FLe.ite (fun _ => ?_) (fun _ => ?_)
  | split
  | dsimp only)

theorem tmonoAt_succ (f : Nat) (ih : TMonoAt f) : TMonoAt (f+1) where
  outer ts := by
    cases ts with
    | nil => exact .inr (by simp [parseOuter])
    | cons t r => unfold parseOuter; dsimp only; tfle ih
  tag n ts := by
    unfold parseTag; dsimp only
    iterate 9 (refine FLe.ite (fun _ => ?_) (fun _ => ?_); · tfle ih)
    refine FLe.ite (fun _ => ?_) (fun _ => ?_)
    · -- `from`: the only handler that inspects a sub-result with an explicit `match`
      split
      · split
        · rename_i p i r1 hcond
          rcases TMonoAt.names ih r1 with h | h
          · rw [h]; exact .inl rfl
          · rw [h]; exact .inr rfl
        · exact FLe.refl _
      · exact FLe.refl _
    · tfle ih
  ifTail h ts := by unfold parseIfTail; tfle ih
  incl o ts := by unfold parseIncludeOpts; tfle ih
  braces ts := by unfold parseWithBraces; tfle ih
  plain ts := by unfold parseWithPlain; tfle ih
  params ts := by unfold parseMacroParams; tfle ih
  names ts := by unfold parseFromNames; tfle ih



theorem tmonoAt : ∀ f, TMonoAt f
  | 0 => tmonoAt_zero
  | f+1 => tmonoAt_succ f (tmonoAt f)

theorem FLe.chain {α} (g : Nat → R α) (h : ∀ f, FLe (g f) (g (f+1))) : ∀ {f f'}, f ≤ f' → FLe (g f) (g f') := by
  intro f f' hle
  induction hle with
  | refl => exact FLe.refl _
  | step _ ih => exact ih.trans (h _)

/-- more fuel never changes a non-fuel result of `parseOuter` (a node list or a genuine parse error) -/
theorem parseOuter_mono {f f' : Nat} {ts : List Token} (hne : parseOuter f ts ≠ .error .fuel) (hle : f ≤ f') :
    parseOuter f' ts = parseOuter f ts :=
  (FLe.chain (parseOuter · ts) (fun f => (tmonoAt f).outer ts) hle).eq_of_ne hne

/-! ## padding in front of a template -/

theorem fo_comment_trim : ∀ (s : Bytes) (i : Nat) (o : Opener), findOpenerOpt s = some (i, o) →
    o.kind = .comment → o.trim = false := by
  intro s
  induction s using findOpenerOpt.induct with
  | case1 r => intro i o h hk; simp [findOpenerOpt] at h; obtain ⟨_, rfl⟩ := h; cases hk
  | case2 r => intro i o h hk; simp [findOpenerOpt] at h; obtain ⟨_, rfl⟩ := h; cases hk
  | case3 r => intro i o h hk; simp [findOpenerOpt] at h; obtain ⟨_, rfl⟩ := h; rfl
  | case4 c r h1 h2 h3 ih =>
    intro i o h hk
    rw [findOpenerOpt] at h
    · cases hf : findOpenerOpt r with
      | none => simp [hf] at h
      | some io =>
        obtain ⟨j, o'⟩ := io
        simp [hf] at h
        obtain ⟨_, rfl⟩ := h
        exact ih j o' hf hk
    all_goals (intros; simp_all)
  | case5 => intro i o h; simp [findOpenerOpt] at h



/-- does the template begin with a dashed opener (`{{-`, `{%-`)? -/
def dashedStart (s : Bytes) : Bool :=
  match findOpenerOpt s with
  | some (_, o) => o.trim
  | none => false

/-- the head of the token stream of a template that starts with a tag -/
theorem scanOpt_head_start {s : Bytes} (h : TagOrEnd s) {ts : List Token} (hs : scanOpt s = .ok ts) :
    ts ≠ [] ∧ nextTrim ts = dashedStart s ∧ ∀ t r, ts = t :: r → t.kind ≠ TEXT := by
  rcases h with rfl | h
  · rw [scanOpt_nil] at hs; cases hs
    refine ⟨by simp, rfl, ?_⟩
    intro t r e; cases e; decide
  · cases hf : findOpenerOpt s with
    | none => simp [hf] at h
    | some io =>
      obtain ⟨i, o⟩ := io
      simp only [hf, Option.map_some, Option.some.injEq] at h
      subst h
      have hs0 : s ≠ [] := by intro h0; subst h0; simp [findOpenerOpt] at hf
      have hb : ¬ (0 > 0 ∧ (s.drop (0 - 1)).head? = some 92) := by intro ⟨h, _⟩; omega
      rw [scanOpt_eq_scanF] at hs
      cases hg : tagEndOpt o.kind (List.drop (0 + o.len) s) with
      | none => rw [scanF_tag_none _ _ hs0 hf hb hg] at hs; cases hs
      | some te =>
        rw [scanF_tag _ _ hs0 hf (by omega) hb hg] at hs
        cases hr : scanF findOpenerOpt tagEndOpt (List.drop te.consumed (List.drop (0 + o.len) s)) with
        | error e => rw [hr] at hs; cases hs
        | ok ts' =>
          rw [hr] at hs
          simp only [mapOk_ok, List.take_zero, textTok_nil, List.nil_append, Except.ok.injEq] at hs
          subst hs
          refine ⟨by simp, ?_, ?_⟩
          · simp only [nextTrim, dashedStart, hf, tk]
            have hc := fo_comment_trim s 0 o hf
            rcases o with ⟨k, t⟩
            cases k <;> cases t <;> simp_all [Opener.startKind, isStartTrim] <;> decide
          · intro t r e
            injection e with e1 e2
            rw [← e1]; exact o.startKind_ne_text

theorem blockNamesL_text (v : Bytes) (ns : List Node) : blockNamesL (.text v :: ns) = blockNamesL ns := by
  simp [blockNamesL, blockNames]

/-- `Except.map` on parse results -/
def mapNodes (F : List Node → List Node) : R (List Node) → R (List Node)
  | .ok ns => .ok (F ns)
  | .error e => .error e

/-- Literal padding `p` in front of a template that begins with a tag (or is empty): the parse is the parse of
    the template with one more text node in front — holding `p`, minus its trailing whitespace if the first tag
    has a dashed opener. -/
theorem parseTemplate_pad {p : Bytes} (hp : Lit p) (hne : p ≠ []) {s : Bytes} (hs : TagOrEnd s)
    (hfuel : parseTemplate s ≠ .error .fuel) :
    parseTemplate (p ++ s) = mapNodes (fun ns => .text (rtIf (dashedStart s) p) :: ns) (parseTemplate s) := by
  have hsc : scanOpt (p ++ s) = mapOk (fun ts => tk TEXT p :: ts) (scanOpt s) := by
    rw [scanOpt_pad_front hp hs, textTok_ne hne]; rfl
  unfold parseTemplate tokenize at hfuel ⊢
  rw [scan_eq_scanOpt] at hfuel ⊢
  rw [scan_eq_scanOpt, hsc]
  cases hr : scanOpt s with
  | error e => rfl
  | ok ts =>
    rw [hr] at hfuel
    obtain ⟨_, hnt, _⟩ := scanOpt_head_start hs hr
    simp only [mapOk_ok] at hfuel ⊢
    have hX : normalise (applyWs (tk TEXT p :: ts)) =
        ⟨TEXT, rtIf (dashedStart s) p⟩ :: normalise (applyWs ts) := by
      rw [applyWs, applyWsAux_text _ _ _ rfl, hnt]; rfl
    rw [hX]
    generalize normalise (applyWs ts) = X at hfuel ⊢
    have hnf : parseOuter (4 * X.length + 16) X ≠ .error .fuel := by
      intro h; rw [h] at hfuel; exact hfuel rfl
    have hfu : 4 * (⟨TEXT, rtIf (dashedStart s) p⟩ :: X).length + 16 = (4 * X.length + 19) + 1 := by
      simp only [List.length_cons]; omega
    rw [hfu, parseOuter_text, parseOuter_mono hnf (by omega)]
    cases parseOuter (4 * X.length + 16) X with
    | error e => rfl
    | ok x =>
      obtain ⟨ns, r⟩ := x
      simp only [ok_bind, pure_eq_ok, blockNamesL_text]
      split
      · rfl
      · split <;> rfl



/-! ## expression evaluation does not look at the template store -/

def Env.withTpls (E : Env) (T : List (Bytes × List Node)) : Env := { E with tpls := T }

theorem applyFilter_env (E : Env) (T) (n : Bytes) (v : Val) (a : List Val) (st : St) :
    applyFilter (Env.withTpls E T) n v a st = applyFilter E n v a st := rfl
theorem callFunction_env (E : Env) (T) (n : Bytes) (a : List Val) (st : St) :
    callFunction (Env.withTpls E T) n a st = callFunction E n a st := rfl
theorem allowedCheck_env (E : Env) (T) (st : St) (al : List Bytes) (n : Bytes) (w : String) :
    allowedCheck (Env.withTpls E T) st al n w = allowedCheck E st al n w := rfl
theorem invokeSpy_env (E : Env) (T) (k : CbKind) (n : Bytes) (st : St) :
    invokeSpy (Env.withTpls E T) k n st = invokeSpy E k n st := rfl

theorem applyChain_env (E : Env) (T) : ∀ (ch : List (Bytes × List Val)) (v : Val) (st : St),
    applyChain (Env.withTpls E T) ch v st = applyChain E ch v st
  | [], v, st => rfl
  | (n, a) :: r, v, st => by
    simp only [applyChain, applyFilter_env]
    congr 1
    funext x
    exact applyChain_env E T r x.1 x.2

mutual
theorem evalX_env (E : Env) (T) : ∀ (e : Expr) (ap : Bool) (st : St),
    evalX (Env.withTpls E T) ap e st = evalX E ap e st
  | .null, ap, st => rfl
  | .bool _, ap, st => rfl
  | .int _, ap, st => rfl
  | .str _, ap, st => rfl
  | .unsup _, ap, st => rfl
  | .var n, ap, st => rfl
  | .unary op e, ap, st => by simp only [evalX, evalX_env E T e]
  | .binary op l r, ap, st => by simp only [evalX, evalX_env E T l, evalX_env E T r]
  | .badBinary l r, ap, st => by simp only [evalX, evalX_env E T l, evalX_env E T r]
  | .cond c t f, ap, st => by simp only [evalX, evalX_env E T c, evalX_env E T t, evalX_env E T f]
  | .attr e name, ap, st => by simp only [evalX, evalX_env E T e]
  | .item e i, ap, st => by simp only [evalX, evalX_env E T e, evalX_env E T i]
  | .filter e name args, ap, st => by
    simp only [evalX, evalX_env E T e, evalArgs_env E T args, applyChain_env, allowedCheck_env]
    rfl
  | .call name args, ap, st => by
    simp only [evalX, evalArgs_env E T args, callFunction_env, allowedCheck_env]
    rfl
  | .mcall obj name args, ap, st => by
    simp only [evalX, evalX_env E T obj, evalArgs_env E T args, callFunction_env, allowedCheck_env]
    rfl
  | .test (.attr obj a) name args, ap, st => by
    simp only [evalX, evalX_env E T obj, evalArgs_env E T args, invokeSpy_env]
    rfl
  | .test (.var n) name args, ap, st => by
    simp only [evalX, evalArgs_env E T args, invokeSpy_env]
    rfl
  | .test (.null) name args, ap, st => by
    rw [evalX.eq_18 (Env.withTpls E T) ap st (.null) name args (by intro _ _ h; cases h) (by intro _ h; cases h),
      evalX.eq_18 E ap st (.null) name args (by intro _ _ h; cases h) (by intro _ h; cases h), evalX_env E T (.null)]
    simp only [evalArgs_env E T args, invokeSpy_env]
    rfl
  | .test (.bool v) name args, ap, st => by
    rw [evalX.eq_18 (Env.withTpls E T) ap st (.bool v) name args (by intro _ _ h; cases h) (by intro _ h; cases h),
      evalX.eq_18 E ap st (.bool v) name args (by intro _ _ h; cases h) (by intro _ h; cases h), evalX_env E T (.bool v)]
    simp only [evalArgs_env E T args, invokeSpy_env]
    rfl
  | .test (.int i) name args, ap, st => by
    rw [evalX.eq_18 (Env.withTpls E T) ap st (.int i) name args (by intro _ _ h; cases h) (by intro _ h; cases h),
      evalX.eq_18 E ap st (.int i) name args (by intro _ _ h; cases h) (by intro _ h; cases h), evalX_env E T (.int i)]
    simp only [evalArgs_env E T args, invokeSpy_env]
    rfl
  | .test (.str s) name args, ap, st => by
    rw [evalX.eq_18 (Env.withTpls E T) ap st (.str s) name args (by intro _ _ h; cases h) (by intro _ h; cases h),
      evalX.eq_18 E ap st (.str s) name args (by intro _ _ h; cases h) (by intro _ h; cases h), evalX_env E T (.str s)]
    simp only [evalArgs_env E T args, invokeSpy_env]
    rfl
  | .test (.unsup w) name args, ap, st => by
    rw [evalX.eq_18 (Env.withTpls E T) ap st (.unsup w) name args (by intro _ _ h; cases h) (by intro _ h; cases h),
      evalX.eq_18 E ap st (.unsup w) name args (by intro _ _ h; cases h) (by intro _ h; cases h), evalX_env E T (.unsup w)]
    simp only [evalArgs_env E T args, invokeSpy_env]
    rfl
  | .test (.unary op x) name args, ap, st => by
    rw [evalX.eq_18 (Env.withTpls E T) ap st (.unary op x) name args (by intro _ _ h; cases h) (by intro _ h; cases h),
      evalX.eq_18 E ap st (.unary op x) name args (by intro _ _ h; cases h) (by intro _ h; cases h), evalX_env E T (.unary op x)]
    simp only [evalArgs_env E T args, invokeSpy_env]
    rfl
  | .test (.binary op l r) name args, ap, st => by
    rw [evalX.eq_18 (Env.withTpls E T) ap st (.binary op l r) name args (by intro _ _ h; cases h) (by intro _ h; cases h),
      evalX.eq_18 E ap st (.binary op l r) name args (by intro _ _ h; cases h) (by intro _ h; cases h), evalX_env E T (.binary op l r)]
    simp only [evalArgs_env E T args, invokeSpy_env]
    rfl
  | .test (.badBinary l r) name args, ap, st => by
    rw [evalX.eq_18 (Env.withTpls E T) ap st (.badBinary l r) name args (by intro _ _ h; cases h) (by intro _ h; cases h),
      evalX.eq_18 E ap st (.badBinary l r) name args (by intro _ _ h; cases h) (by intro _ h; cases h), evalX_env E T (.badBinary l r)]
    simp only [evalArgs_env E T args, invokeSpy_env]
    rfl
  | .test (.cond c t f) name args, ap, st => by
    rw [evalX.eq_18 (Env.withTpls E T) ap st (.cond c t f) name args (by intro _ _ h; cases h) (by intro _ h; cases h),
      evalX.eq_18 E ap st (.cond c t f) name args (by intro _ _ h; cases h) (by intro _ h; cases h), evalX_env E T (.cond c t f)]
    simp only [evalArgs_env E T args, invokeSpy_env]
    rfl
  | .test (.item x i) name args, ap, st => by
    rw [evalX.eq_18 (Env.withTpls E T) ap st (.item x i) name args (by intro _ _ h; cases h) (by intro _ h; cases h),
      evalX.eq_18 E ap st (.item x i) name args (by intro _ _ h; cases h) (by intro _ h; cases h), evalX_env E T (.item x i)]
    simp only [evalArgs_env E T args, invokeSpy_env]
    rfl
  | .test (.filter x nm as) name args, ap, st => by
    rw [evalX.eq_18 (Env.withTpls E T) ap st (.filter x nm as) name args (by intro _ _ h; cases h) (by intro _ h; cases h),
      evalX.eq_18 E ap st (.filter x nm as) name args (by intro _ _ h; cases h) (by intro _ h; cases h), evalX_env E T (.filter x nm as)]
    simp only [evalArgs_env E T args, invokeSpy_env]
    rfl
  | .test (.call nm as) name args, ap, st => by
    rw [evalX.eq_18 (Env.withTpls E T) ap st (.call nm as) name args (by intro _ _ h; cases h) (by intro _ h; cases h),
      evalX.eq_18 E ap st (.call nm as) name args (by intro _ _ h; cases h) (by intro _ h; cases h), evalX_env E T (.call nm as)]
    simp only [evalArgs_env E T args, invokeSpy_env]
    rfl
  | .test (.mcall o nm as) name args, ap, st => by
    rw [evalX.eq_18 (Env.withTpls E T) ap st (.mcall o nm as) name args (by intro _ _ h; cases h) (by intro _ h; cases h),
      evalX.eq_18 E ap st (.mcall o nm as) name args (by intro _ _ h; cases h) (by intro _ h; cases h), evalX_env E T (.mcall o nm as)]
    simp only [evalArgs_env E T args, invokeSpy_env]
    rfl
  | .test (.test x nm as) name args, ap, st => by
    rw [evalX.eq_18 (Env.withTpls E T) ap st (.test x nm as) name args (by intro _ _ h; cases h) (by intro _ h; cases h),
      evalX.eq_18 E ap st (.test x nm as) name args (by intro _ _ h; cases h) (by intro _ h; cases h), evalX_env E T (.test x nm as)]
    simp only [evalArgs_env E T args, invokeSpy_env]
    rfl
  | .test (.array xs) name args, ap, st => by
    rw [evalX.eq_18 (Env.withTpls E T) ap st (.array xs) name args (by intro _ _ h; cases h) (by intro _ h; cases h),
      evalX.eq_18 E ap st (.array xs) name args (by intro _ _ h; cases h) (by intro _ h; cases h), evalX_env E T (.array xs)]
    simp only [evalArgs_env E T args, invokeSpy_env]
    rfl
  | .test (.hash xs) name args, ap, st => by
    rw [evalX.eq_18 (Env.withTpls E T) ap st (.hash xs) name args (by intro _ _ h; cases h) (by intro _ h; cases h),
      evalX.eq_18 E ap st (.hash xs) name args (by intro _ _ h; cases h) (by intro _ h; cases h), evalX_env E T (.hash xs)]
    simp only [evalArgs_env E T args, invokeSpy_env]
    rfl
  | .array items, ap, st => by simp only [evalX, evalArgs_env E T items]
  | .hash items, ap, st => by simp only [evalX, evalPairs_env E T items]

theorem evalArgs_env (E : Env) (T) : ∀ (es : List Expr) (st : St),
    evalArgs (Env.withTpls E T) es st = evalArgs E es st
  | [], st => rfl
  | e :: es, st => by simp only [evalArgs, evalX_env E T e, evalArgs_env E T es]

theorem evalPairs_env (E : Env) (T) : ∀ (es : List Expr) (st : St),
    evalPairs (Env.withTpls E T) es st = evalPairs E es st
  | [], st => rfl
  | [_], st => rfl
  | k :: v :: es, st => by simp only [evalPairs, evalX_env E T k, evalX_env E T v, evalPairs_env E T es]
end


/-! ## templates that never transfer to a template root; simulation between two template stores -/

mutual
/-- no `extends` / `include` / `import` / `from` anywhere in the node -/
def NX : Node → Bool
  | .text _ => true
  | .print _ => true
  | .setN _ _ => true
  | .doN _ => true
  | .verbatim _ => true
  | .ifN _ t e => NXL t && NXL e
  | .forN _ _ _ bd e => NXL bd && NXL e
  | .block _ bd => NXL bd
  | .macro _ _ _ _ bd => NXL bd
  | .apply _ bd => NXL bd
  | .spaceless bd => NXL bd
  | .extends _ => false
  | .include _ _ _ _ _ _ => false
  | .importN _ _ => false
  | .fromN _ _ => false
def NXL : List Node → Bool
  | [] => true
  | n :: r => NX n && NXL r
end

/-- every block body the context knows is free of root transfers -/
def InvC (c : Ctx) : Prop :=
  (∀ kv ∈ c.blockDefs, ∀ d ∈ kv.2, NXL d.body = true) ∧ (∀ d ∈ c.chain, NXL d.body = true)

def TrOK : Transfer → Prop
  | .root _ => False
  | .body _ ns => NXL ns = true
  | .macroCall _ _ _ => True

theorem invC_of_core {c c' : Ctx} (h : Inh.core c' = Inh.core c) (hi : InvC c) : InvC c' := by
  unfold InvC
  rw [Inh.core_blockDefs h, Inh.core_chain h]; exact hi

theorem invC_of_ctx_eq {c c' : Ctx} (h : c' = c) (hi : InvC c) : InvC c' := by rw [h]; exact hi

theorem bind_congr_ok {ε α β} {x : Except ε α} {k k' : α → Except ε β} (h : ∀ a, x = .ok a → k a = k' a) :
    (x >>= k) = (x >>= k') := by
  cases x with
  | error e => rfl
  | ok a => exact h a rfl

/-- two transfer functions that agree on body and macro transfers (in contexts satisfying the invariant) -/
structure GoSim (go' go : Go) : Prop where
  eq : ∀ tr st, TrOK tr → InvC st.ctx → go' tr st = go tr st
  fr : Inh.GoFr go

theorem printVal_sim {go' go : Go} (hs : GoSim go' go) (v : Val) (st : St) (hi : InvC st.ctx) :
    printVal go' v st = printVal go v st := by
  unfold printVal
  split
  · exact hs.eq _ _ trivial hi
  · split
    · rfl
    · dsimp only
      split
      · rfl
      · rename_i d r hd
        have hmem : d ∈ st.ctx.chain := by
          have : d ∈ List.drop (st.ctx.level + 1) st.ctx.chain := by rw [hd]; simp
          exact List.mem_of_mem_drop this
        rw [hs.eq (.body d.tpl d.body) _ (hi.2 d hmem) (by exact hi)]
  · rfl

theorem loopOver_congr {f' f : St → R Out} (hf : ∀ s, InvC s.ctx → f' s = f s)
    (hfr : ∀ s o s', f s = .ok (o, s') → InvC s.ctx → InvC s'.ctx) (kv : Option Bytes) (vv : Bytes) (n : Nat) :
    ∀ (items : List (Val × Val)) (i : Nat) (st : St), InvC st.ctx →
      loopOver f' kv vv n i items st = loopOver f kv vv n i items st
  | [], i, st, _ => rfl
  | (k, v) :: r, i, st, hi => by
    cases kv with
    | none =>
      simp only [loopOver]
      have hc : InvC ({ st with ctx := (st.ctx.setVar vv v).setVar (b "loop") (loopMeta i n) } : St).ctx := hi
      rw [hf _ hc]
      apply bind_congr_ok
      intro a ha
      have h1 := hfr _ a.1 a.2 ha hc
      rw [loopOver_congr hf hfr none vv n r (i + 1) a.2 h1]
    | some kk =>
      simp only [loopOver]
      have hc : InvC ({ st with ctx := ((st.ctx.setVar vv v).setVar kk k).setVar (b "loop") (loopMeta i n) } : St).ctx := hi
      rw [hf _ hc]
      apply bind_congr_ok
      intro a ha
      have h1 := hfr _ a.1 a.2 ha hc
      rw [loopOver_congr hf hfr (some kk) vv n r (i + 1) a.2 h1]


theorem block_sim (E' E : Env) {go' go : Go} (hs : GoSim go' go) (tpl name : Bytes) (body : List Node) (st : St)
    (hb : NXL body = true) (hi : InvC st.ctx) :
    renderNode E' go' tpl (.block name body) st = renderNode E go tpl (.block name body) st := by
  rw [Inh.block_eq, Inh.block_eq]
  have hdefs : ∀ d ∈ (getKV name st.ctx.blockDefs).getD [], NXL d.body = true := by
    intro d hd
    unfold getKV at hd
    cases hf : st.ctx.blockDefs.find? (fun x => x.1 == name) with
    | none => simp [hf] at hd
    | some kv =>
      simp only [hf, Option.map_some, Option.getD_some] at hd
      exact hi.1 kv (List.mem_of_find?_eq_some hf) d hd
  generalize (getKV name st.ctx.blockDefs).getD [] = defs at hdefs
  have hchain : ∀ d ∈ Inh.specChain tpl name body defs, NXL d.body = true := by
    intro d hd
    unfold Inh.specChain at hd
    split at hd
    · exact hdefs d hd
    · rcases List.mem_append.mp hd with h | h
      · exact hdefs d h
      · simp only [List.mem_singleton] at h; rw [h]; exact hb
  have hhead : NXL ((Inh.specChain tpl name body defs).headD ⟨tpl, name, body⟩).body = true := by
    cases hc : Inh.specChain tpl name body defs with
    | nil => exact hb
    | cons d r => exact hchain d (by rw [hc]; simp)
  have hinv : InvC (Inh.blockSt st (Inh.specChain tpl name body defs)).ctx := ⟨hi.1, hchain⟩
  rw [hs.eq (.body _ _) _ hhead hinv]

mutual
theorem renderNode_sim (E : Env) (T : List (Bytes × List Node)) {go' go : Go} (hs : GoSim go' go) (tpl : Bytes) :
    ∀ (n : Node) (st : St), NX n = true → InvC st.ctx →
      renderNode (Env.withTpls E T) go' tpl n st = renderNode E go tpl n st
  | .text s, st, _, _ => rfl
  | .verbatim s, st, _, _ => rfl
  | .print e, st, _, hi => by
    simp only [renderNode, evalX_env]
    apply bind_congr_ok
    intro a ha
    exact printVal_sim hs _ _ (invC_of_ctx_eq (Inh.evalX_ctx E e _ _ _ _ ha) hi)
  | .ifN c t e, st, hn, hi => by
    simp only [NX, Bool.and_eq_true] at hn
    simp only [renderNode, evalX_env]
    apply bind_congr_ok
    intro a ha
    have h1 := invC_of_ctx_eq (Inh.evalX_ctx E c _ _ _ _ ha) hi
    split
    · exact renderNodes_sim E T hs tpl t _ hn.1 h1
    · exact renderNodes_sim E T hs tpl e _ hn.2 h1
  | .forN key val seq body els, st, hn, hi => by
    simp only [NX, Bool.and_eq_true] at hn
    simp only [renderNode, evalX_env]
    apply bind_congr_ok
    intro a ha
    have h1 := invC_of_ctx_eq (Inh.evalX_ctx E seq _ _ _ _ ha) hi
    apply bind_congr_ok
    intro items _
    split
    · exact renderNodes_sim E T hs tpl els _ hn.2 h1
    · exact renderNodes_sim E T hs tpl els _ hn.2 h1
    · rw [loopOver_congr (f' := fun s => renderNodes (Env.withTpls E T) go' tpl body s)
        (f := fun s => renderNodes E go tpl body s)
        (fun s hs' => renderNodes_sim E T hs tpl body s hn.1 hs')
        (fun s o s' h hs' => invC_of_core (Inh.renderNodes_fr E hs.fr tpl body s o s' h) hs') _ _ _ _ _ _ h1]
  | .setN name e, st, _, _ => by simp only [renderNode, evalX_env]
  | .doN e, st, _, _ => by simp only [renderNode, evalX_env]
  | .block name body, st, hn, hi => block_sim _ E hs tpl name body st (by simpa [NX] using hn) hi
  | .extends e, st, hn, _ => by simp [NX] at hn
  | .include _ _ _ _ _ _, st, hn, _ => by simp [NX] at hn
  | .macro _ _ _ _ _, st, _, _ => rfl
  | .importN _ _, st, hn, _ => by simp [NX] at hn
  | .fromN _ _, st, hn, _ => by simp [NX] at hn
  | .apply filter body, st, hn, hi => by
    simp only [renderNode, applyFilter_env]
    rw [renderNodes_sim E T hs tpl body st (by simpa [NX] using hn) hi]
  | .spaceless _, st, _, _ => rfl

theorem renderNodes_sim (E : Env) (T : List (Bytes × List Node)) {go' go : Go} (hs : GoSim go' go) (tpl : Bytes) :
    ∀ (ns : List Node) (st : St), NXL ns = true → InvC st.ctx →
      renderNodes (Env.withTpls E T) go' tpl ns st = renderNodes E go tpl ns st
  | [], st, _, _ => rfl
  | n :: r, st, hn, hi => by
    simp only [NXL, Bool.and_eq_true] at hn
    simp only [renderNodes]
    rw [renderNode_sim E T hs tpl n st hn.1 hi]
    apply bind_congr_ok
    intro a ha
    have h1 := invC_of_core (Inh.renderNode_fr E hs.fr tpl n st a.1 a.2 ha) hi
    rw [renderNodes_sim E T hs tpl r a.2 hn.2 h1]
end


theorem bindParams_env (E : Env) (T) (dn : List Bytes) (de : List Expr) :
    ∀ (ps : List Bytes) (args : List Val) (st : St) (acc : List (Bytes × Val)),
      bindParams (Env.withTpls E T) dn de ps args st acc = bindParams E dn de ps args st acc
  | [], _, st, acc => by simp only [bindParams]
  | p :: ps, a :: as, st, acc => by simp only [bindParams, bindParams_env E T dn de ps as]
  | p :: ps, [], st, acc => by
    simp only [bindParams, evalExpr, evalX_env, bindParams_env E T dn de ps []]

theorem findMacro_foldl_NXL (name : Bytes) : ∀ (nodes : List Node) (acc : Option (List Bytes × List Bytes × List Expr × List Node)),
    NXL nodes = true → (∀ x, acc = some x → NXL x.2.2.2 = true) →
    ∀ x, nodes.foldl (fun acc n => match n with
      | .macro m ps dn de body => if m == name then some (ps, dn, de, body) else acc
      | _ => acc) acc = some x → NXL x.2.2.2 = true
  | [], acc, _, ha, x, h => ha x h
  | n :: r, acc, hn, ha, x, h => by
    simp only [NXL, Bool.and_eq_true] at hn
    simp only [List.foldl_cons] at h
    refine findMacro_foldl_NXL name r _ hn.2 ?_ x h
    intro y hy
    cases n <;> try (exact ha y hy)
    rename_i m ps dn de body
    simp only at hy
    split at hy
    · cases hy; simpa [NX] using hn.1
    · exact ha y hy

theorem findMacro_NXL {nodes : List Node} {name : Bytes} {x} (hn : NXL nodes = true)
    (h : findMacro nodes name = some x) : NXL x.2.2.2 = true :=
  findMacro_foldl_NXL name nodes none hn (by intro x hx; cases hx) x h

theorem findMacro_text (v : Bytes) (nodes : List Node) (name : Bytes) :
    findMacro (.text v :: nodes) name = findMacro nodes name := by
  simp [findMacro]

theorem topMacroNames_text (v : Bytes) (nodes : List Node) :
    topMacroNames (.text v :: nodes) = topMacroNames nodes := by
  simp [topMacroNames]

theorem tpl_envOf' (nodes : List Node) (t : Bytes) :
    (envOf nodes).tpl? t = if mainName == t then some nodes else none := by
  simp [Env.tpl?, envOf]

theorem envOf_text (v : Bytes) (nodes : List Node) :
    envOf (.text v :: nodes) = Env.withTpls (envOf nodes) [(mainName, .text v :: nodes)] := rfl

theorem callMacro_sim (v : Bytes) (nodes : List Node) (hn : NXL nodes = true) {go' go : Go} (hs : GoSim go' go)
    (t m : Bytes) (args : List Val) (st : St) :
    callMacro (envOf (.text v :: nodes)) go' t m args st = callMacro (envOf nodes) go t m args st := by
  unfold callMacro
  rw [tpl_envOf', tpl_envOf']
  by_cases ht : (mainName == t) = true
  · simp only [ht, if_true, findMacro_text, topMacroNames_text]
    cases hf : findMacro nodes m with
    | none => rfl
    | some x =>
      obtain ⟨ps, dn, de, body⟩ := x
      have hb : NXL body = true := findMacro_NXL hn hf
      simp only
      split
      · rfl
      · rw [envOf_text, bindParams_env]
        apply bind_congr_ok
        intro a _
        rw [hs.eq (.body t body) _ hb (by constructor <;> intro x hx <;> exact absurd hx List.not_mem_nil)]
        rfl
  · simp only [ht]
    rfl


/-- the two engines (template with / without a text node in front) agree on every body and macro transfer -/
theorem run_sim (v : Bytes) (nodes : List Node) (hn : NXL nodes = true) :
    ∀ f, GoSim (run (envOf (.text v :: nodes)) f) (run (envOf nodes) f)
  | 0 => ⟨fun _ _ _ _ => rfl, Inh.run_fr _ 0⟩
  | f+1 => by
    refine ⟨?_, Inh.run_fr _ (f+1)⟩
    intro tr st htr hi
    cases tr with
    | root t => exact absurd htr (by simp [TrOK])
    | body t ns =>
      simp only [run]
      rw [envOf_text]
      exact renderNodes_sim (envOf nodes) _ (run_sim v nodes hn f) t ns st htr hi
    | macroCall t m args =>
      simp only [run]
      exact callMacro_sim v nodes hn (run_sim v nodes hn f) t m args st

theorem lastExtends_NXL : ∀ (nodes : List Node), NXL nodes = true → lastExtends nodes = none
  | [], _ => rfl
  | n :: r, h => by
    simp only [NXL, Bool.and_eq_true] at h
    have ih := lastExtends_NXL r h.2
    cases n <;> simp_all [lastExtends, NX]

theorem registerBlocks_inv (tpl : Bytes) : ∀ (nodes : List Node) (defs : List (Bytes × List BlockDef)),
    NXL nodes = true → (∀ kv ∈ defs, ∀ d ∈ kv.2, NXL d.body = true) →
    ∀ kv ∈ registerBlocks tpl nodes defs, ∀ d ∈ kv.2, NXL d.body = true
  | [], defs, _, hd => by simpa [registerBlocks] using hd
  | n :: r, defs, hn, hd => by
    simp only [NXL, Bool.and_eq_true] at hn
    cases n <;> try (simp only [registerBlocks]; exact registerBlocks_inv tpl r defs hn.2 hd)
    rename_i name body
    simp only [registerBlocks]
    refine registerBlocks_inv tpl r _ hn.2 ?_
    intro kv hkv d hdm
    simp only [setKV, List.mem_cons] at hkv
    rcases hkv with rfl | hkv
    · simp only [List.mem_append, List.mem_singleton] at hdm
      rcases hdm with h | h
      · unfold getKV at h
        cases hf : defs.find? (fun x => x.1 == name) with
        | none => simp [hf] at h
        | some kv' =>
          simp only [hf, Option.map_some, Option.getD_some] at h
          exact hd kv' (List.mem_of_find?_eq_some hf) d h
      · rw [h]; simpa [NX] using hn.1
    · exact hd kv (List.mem_filter.mp hkv).1 d hdm

theorem registerBlocks_text (tpl v : Bytes) (nodes : List Node) (defs) :
    registerBlocks tpl (.text v :: nodes) defs = registerBlocks tpl nodes defs := by
  simp [registerBlocks]

/-- A text node in front of a template that never transfers to a template root: the output gains exactly that
    text in front, nothing else changes (same error otherwise). -/
theorem renderNodesTop_text (v : Bytes) (nodes : List Node) (hn : NXL nodes = true) (vars : List (Bytes × Val)) :
    renderNodesTop (.text v :: nodes) vars =
      (renderNodesTop nodes vars >>= fun o => pure (v ++ o)) := by
  unfold renderNodesTop renderTop
  simp only [tpl_envOf, defaultFuel, run, renderRoot, registerBlocks_text]
  have hle : lastExtends (.text v :: nodes) = none := by
    simp [lastExtends, lastExtends_NXL nodes hn]
  simp only [hle, lastExtends_NXL nodes hn, renderNodes, renderNode]
  have hinv : InvC ({ ctx := { vars := vars, blockDefs := registerBlocks mainName nodes [] } } : St).ctx :=
    ⟨registerBlocks_inv mainName nodes [] hn (by intro kv hkv; cases hkv), by intro d hd; cases hd⟩
  have := renderNodes_sim (envOf nodes) [(mainName, .text v :: nodes)] (run_sim v nodes hn 199) mainName nodes _ hn hinv
  rw [← envOf_text] at this
  simp only [pure_eq_ok, ok_bind]
  rw [this]
  cases renderNodes (envOf nodes) (run (envOf nodes) 199) mainName nodes _ <;> rfl



/-! ## the token stream of a dashed template, for arbitrary tags -/

theorem normalise_step (tn : Bool) (l : Bytes) (t : Tag) (E : List Token) :
    normalise (applyWsAux tn (textTok l ++ t.tokens ++ E)) =
      (if l = [] then [] else [⟨TEXT, rtIf t.opensTrim (ltIf tn l)⟩]) ++ t.plain.tokens ++
        normalise (applyWsAux t.closesTrim E) := by
  rw [applyWs_step]
  simp only [normalise_append, normalise_content]
  have h1 : normalise (if l = [] then [] else [⟨TEXT, rtIf t.opensTrim (ltIf tn l)⟩]) =
      (if l = [] then [] else [⟨TEXT, rtIf t.opensTrim (ltIf tn l)⟩]) := by split <;> rfl
  have h2 : normalise [tk t.opener.startKind] = [tk t.plain.opener.startKind] := by
    simp [normalise, tk, normKind_startKind]
  have h3 : normalise [tk (endKind t.kind t.ctrim)] = [tk (endKind t.kind false)] := by
    simp [normalise, tk, normKind_endKind]
  rw [h1, h2, h3]
  simp [Tag.tokens, Tag.plain]

/-- no non-empty chunk is trimmed to nothing -/
def keptB : Bool → List (Bytes × Tag) → Bytes → Bool
  | tn, [], last => last.isEmpty || !(ltIf tn last).isEmpty
  | tn, (l, t) :: ps, last => (l.isEmpty || !(rtIf t.opensTrim (ltIf tn l)).isEmpty) && keptB t.closesTrim ps last

def Kept (tn : Bool) (ps : List (Bytes × Tag)) (last : Bytes) : Prop := keptB tn ps last = true
instance (tn : Bool) (ps : List (Bytes × Tag)) (last : Bytes) : Decidable (Kept tn ps last) := by
  unfold Kept; infer_instance

theorem isEmpty_or {l x : Bytes} (h : (l.isEmpty || !x.isEmpty) = true) : l = [] ∨ x ≠ [] := by
  cases l <;> cases x <;> simp_all

theorem kept_nil {tn : Bool} {last : Bytes} (h : Kept tn [] last) : last = [] ∨ ltIf tn last ≠ [] :=
  isEmpty_or h

theorem kept_cons {tn : Bool} {l : Bytes} {t : Tag} {ps : List (Bytes × Tag)} {last : Bytes}
    (h : Kept tn ((l, t) :: ps) last) :
    (l = [] ∨ rtIf t.opensTrim (ltIf tn l) ≠ []) ∧ Kept t.closesTrim ps last := by
  unfold Kept keptB at h
  simp only [Bool.and_eq_true] at h
  exact ⟨isEmpty_or h.1, h.2⟩

theorem opt_textTok {l x : Bytes} (h : l = [] ∨ x ≠ []) (hx : l = [] → x = []) :
    (if l = [] then [] else [(⟨TEXT, x⟩ : Token)]) = textTok x := by
  by_cases hl : l = []
  · rw [if_pos hl, hx hl]; rfl
  · rw [if_neg hl, textTok_ne (h.resolve_left hl)]; rfl

/-- when trimming empties no chunk, the parser sees for the dashed template exactly the token stream of the
    hand-trimmed dash-free template -/
theorem stream_undash (last : Bytes) : ∀ (ps : List (Bytes × Tag)) (tn : Bool), Kept tn ps last →
    normalise (applyWsAux tn (expected ps last)) = expected (undashPairs tn ps) (undashLast tn ps last)
  | [], tn, hk => by
    simp only [expected, undashPairs, undashLast, lastFlag]
    by_cases hl : last = []
    · subst hl; rw [ltIf_nil]; rfl
    · rw [textTok_ne hl, List.singleton_append, applyWsAux_text _ _ _ rfl]
      have hne : ltIf tn last ≠ [] := (kept_nil hk).resolve_left hl
      rw [textTok_ne hne]
      rfl
  | (l, t) :: ps, tn, hk => by
    simp only [expected, undashPairs]
    rw [normalise_step, stream_undash last ps _ (kept_cons hk).2,
      opt_textTok (kept_cons hk).1 (fun h => by rw [h, trims_nil])]
    simp [undashLast, lastFlag]


theorem undashPairs_plain : ∀ (tn : Bool) (ps : List (Bytes × Tag)), ∀ lt ∈ undashPairs tn ps,
    lt.2.otrim = false ∧ lt.2.ctrim = false
  | _, [], lt, h => by simp [undashPairs] at h
  | tn, (l, t) :: ps, lt, h => by
    simp only [undashPairs, List.mem_cons] at h
    rcases h with rfl | h
    · exact ⟨rfl, rfl⟩
    · exact undashPairs_plain _ ps lt h

/-- both templates of C13 tokenize to the same stream when trimming empties no chunk -/
theorem tokenize_undash (ps : List (Bytes × Tag)) (last : Bytes)
    (hwf : ∀ lt ∈ ps, WfTag lt.2 ∧ WfTag lt.2.plain)
    (hlit : ∀ lt ∈ undashPairs false ps, Lit lt.1)
    (hlast : NoOpener (undashLast false ps last)) (hk : Kept false ps last) :
    tokenize (spell ps last) = .ok (expected (undashPairs false ps) (undashLast false ps last)) ∧
    tokenize (spell (undashPairs false ps) (undashLast false ps last)) =
      .ok (expected (undashPairs false ps) (undashLast false ps last)) := by
  have h1 : scanOpt (spell ps last) = .ok (expected ps last) :=
    scanOpt_chunks ps last
      (fun lt hm => ⟨lit_of_undash false ps hlit lt hm, (hwf lt hm).1⟩)
      (noOpener_of_ltIf hlast)
  have h2 : scanOpt (spell (undashPairs false ps) (undashLast false ps last)) =
      .ok (expected (undashPairs false ps) (undashLast false ps last)) :=
    scanOpt_chunks _ _
      (fun lt hm => ⟨hlit lt hm, wf_of_undash false ps (fun x hx => (hwf x hx).2) lt hm⟩) hlast
  constructor
  · simp only [tokenize, scan_eq_scanOpt, h1, applyWs]
    rw [stream_undash last ps false hk]
  · simp only [tokenize, scan_eq_scanOpt, h2, applyWs]
    rw [plain_stream _ _ (undashPairs_plain false ps)]


end Lift
end Twig
