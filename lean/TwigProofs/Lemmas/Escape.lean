/-
  Lemmas about TwigModel.Escape: per-byte facts of the two tables, the per-byte decoding step, and the
  reduction of the rune-wise fallback loop to a byte-wise map on valid UTF-8.
-/
import TwigModel.Escape
namespace Twig.Escape

/-! ### the registered table, unfolded -/

theorem escByte_eq (b : UInt8) : escByte b =
    if b == 38 then rAmp else if b == 39 then rApos else if b == 60 then rLt
    else if b == 62 then rGt else if b == 34 then rQuot else [b] := by
  simp only [escByte, escByteWith, escTable, List.lookup_cons, List.lookup_nil]
  repeat' split
  all_goals simp_all

theorem escByteFb_eq (b : UInt8) : escByteFb b =
    if b == 38 then rAmp else if b == 60 then rLt else if b == 62 then rGt
    else if b == 34 then rQuotFb else if b == 39 then rApos else [b] := by
  simp only [escByteFb, escByteWith, fbTable, List.lookup_cons, List.lookup_nil]
  repeat' split
  all_goals simp_all

theorem special_iff (b : UInt8) :
    special b = true ↔ (b = 38 ∨ b = 39 ∨ b = 60 ∨ b = 62 ∨ b = 34) := by
  simp [special, or_assoc]

theorem escByte_of_not_special (b : UInt8) (h : special b = false) : escByte b = [b] := by
  simp [special] at h
  simp [escByte_eq, h]

theorem escByteFb_of_not_special (b : UInt8) (h : special b = false) : escByteFb b = [b] := by
  simp [special] at h
  simp [escByteFb_eq, h]

theorem escByte_length_pos (b : UInt8) : 1 ≤ (escByte b).length := by
  rw [escByte_eq]; repeat' split
  all_goals simp [rAmp, rApos, rLt, rGt, rQuot]

/-- the five possible images of a special byte / the byte itself -/
theorem escByte_cases (b : UInt8) :
    (b = 38 ∧ escByte b = rAmp) ∨ (b = 39 ∧ escByte b = rApos) ∨ (b = 60 ∧ escByte b = rLt) ∨
    (b = 62 ∧ escByte b = rGt) ∨ (b = 34 ∧ escByte b = rQuot) ∨ (special b = false ∧ escByte b = [b]) := by
  by_cases h1 : b = 38
  · subst h1; exact .inl ⟨rfl, by rfl⟩
  by_cases h2 : b = 39
  · subst h2; exact .inr (.inl ⟨rfl, by rfl⟩)
  by_cases h3 : b = 60
  · subst h3; exact .inr (.inr (.inl ⟨rfl, by rfl⟩))
  by_cases h4 : b = 62
  · subst h4; exact .inr (.inr (.inr (.inl ⟨rfl, by rfl⟩)))
  by_cases h5 : b = 34
  · subst h5; exact .inr (.inr (.inr (.inr (.inl ⟨rfl, by rfl⟩))))
  · have hs : special b = false := by simp [special, h1, h2, h3, h4, h5]
    exact .inr (.inr (.inr (.inr (.inr ⟨hs, escByte_of_not_special b hs⟩))))

theorem escByteFb_cases (b : UInt8) :
    (b = 38 ∧ escByteFb b = rAmp) ∨ (b = 39 ∧ escByteFb b = rApos) ∨ (b = 60 ∧ escByteFb b = rLt) ∨
    (b = 62 ∧ escByteFb b = rGt) ∨ (b = 34 ∧ escByteFb b = rQuotFb) ∨ (special b = false ∧ escByteFb b = [b]) := by
  by_cases h1 : b = 38
  · subst h1; exact .inl ⟨rfl, by rfl⟩
  by_cases h2 : b = 39
  · subst h2; exact .inr (.inl ⟨rfl, by rfl⟩)
  by_cases h3 : b = 60
  · subst h3; exact .inr (.inr (.inl ⟨rfl, by rfl⟩))
  by_cases h4 : b = 62
  · subst h4; exact .inr (.inr (.inr (.inl ⟨rfl, by rfl⟩)))
  by_cases h5 : b = 34
  · subst h5; exact .inr (.inr (.inr (.inr (.inl ⟨rfl, by rfl⟩))))
  · have hs : special b = false := by simp [special, h1, h2, h3, h4, h5]
    exact .inr (.inr (.inr (.inr (.inr ⟨hs, escByteFb_of_not_special b hs⟩))))

/-! ### one decoding step undoes one encoding step -/

theorem unescape5_escByte (b : UInt8) (t : Bytes) : unescape5 (escByte b ++ t) = b :: unescape5 t := by
  rcases escByte_cases b with ⟨rfl, h⟩ | ⟨rfl, h⟩ | ⟨rfl, h⟩ | ⟨rfl, h⟩ | ⟨rfl, h⟩ | ⟨hs, h⟩
  · rw [h]; simp only [rAmp, List.cons_append, List.nil_append]; rw [unescape5]; simp [rAmp, List.isPrefixOf]
  · rw [h]; simp only [rApos, List.cons_append, List.nil_append]; rw [unescape5]; simp [rAmp, rApos, List.isPrefixOf]
  · rw [h]; simp only [rLt, List.cons_append, List.nil_append]; rw [unescape5]; simp [rAmp, rApos, rLt, List.isPrefixOf]
  · rw [h]; simp only [rGt, List.cons_append, List.nil_append]; rw [unescape5]; simp [rAmp, rApos, rLt, rGt, List.isPrefixOf]
  · rw [h]; simp only [rQuot, List.cons_append, List.nil_append]; rw [unescape5]
    simp [rAmp, rApos, rLt, rGt, rQuot, List.isPrefixOf]
  · rw [h]; simp only [List.cons_append, List.nil_append]; rw [unescape5]
    have : b ≠ 38 := by intro hb; subst hb; simp [special] at hs
    simp [this]

theorem unescapeFb_escByteFb (b : UInt8) (t : Bytes) : unescapeFb (escByteFb b ++ t) = b :: unescapeFb t := by
  rcases escByteFb_cases b with ⟨rfl, h⟩ | ⟨rfl, h⟩ | ⟨rfl, h⟩ | ⟨rfl, h⟩ | ⟨rfl, h⟩ | ⟨hs, h⟩
  · rw [h]; simp only [rAmp, List.cons_append, List.nil_append]; rw [unescapeFb]; simp [rAmp, List.isPrefixOf]
  · rw [h]; simp only [rApos, List.cons_append, List.nil_append]; rw [unescapeFb]; simp [rAmp, rApos, List.isPrefixOf]
  · rw [h]; simp only [rLt, List.cons_append, List.nil_append]; rw [unescapeFb]; simp [rAmp, rApos, rLt, List.isPrefixOf]
  · rw [h]; simp only [rGt, List.cons_append, List.nil_append]; rw [unescapeFb]; simp [rAmp, rApos, rLt, rGt, List.isPrefixOf]
  · rw [h]; simp only [rQuotFb, List.cons_append, List.nil_append]; rw [unescapeFb]
    simp [rAmp, rApos, rLt, rGt, rQuotFb, List.isPrefixOf]
  · rw [h]; simp only [List.cons_append, List.nil_append]; rw [unescapeFb]
    have : b ≠ 38 := by intro hb; subst hb; simp [special] at hs
    simp [this]

/-! ### where an ampersand of the output comes from

  `Refs refs out` : `out` is a concatenation of blocks, each either one of the references in `refs` or a single
  byte that is none of & < > " ' .  This is the precise form of "each special character occurs only inside the
  character reference that replaces it". -/

inductive Refs (refs : List Bytes) : Bytes → Prop where
  | nil : Refs refs []
  | ref (r : Bytes) (t : Bytes) : r ∈ refs → Refs refs t → Refs refs (r ++ t)
  | plain (b : UInt8) (t : Bytes) : special b = false → Refs refs t → Refs refs (b :: t)

def regRefs : List Bytes := [rAmp, rApos, rLt, rGt, rQuot]
def fbRefs : List Bytes := [rAmp, rApos, rLt, rGt, rQuotFb]

theorem refs_flatMap_escByte (s : Bytes) : Refs regRefs (s.flatMap escByte) := by
  induction s with
  | nil => exact .nil
  | cons b r ih =>
    rw [List.flatMap_cons]
    rcases escByte_cases b with ⟨-, h⟩ | ⟨-, h⟩ | ⟨-, h⟩ | ⟨-, h⟩ | ⟨-, h⟩ | ⟨hs, h⟩
    · rw [h]; exact .ref _ _ (by simp [regRefs]) ih
    · rw [h]; exact .ref _ _ (by simp [regRefs]) ih
    · rw [h]; exact .ref _ _ (by simp [regRefs]) ih
    · rw [h]; exact .ref _ _ (by simp [regRefs]) ih
    · rw [h]; exact .ref _ _ (by simp [regRefs]) ih
    · rw [h]; exact .plain _ _ hs ih

theorem refs_flatMap_escByteFb (s : Bytes) : Refs fbRefs (s.flatMap escByteFb) := by
  induction s with
  | nil => exact .nil
  | cons b r ih =>
    rw [List.flatMap_cons]
    rcases escByteFb_cases b with ⟨-, h⟩ | ⟨-, h⟩ | ⟨-, h⟩ | ⟨-, h⟩ | ⟨-, h⟩ | ⟨hs, h⟩
    · rw [h]; exact .ref _ _ (by simp [fbRefs]) ih
    · rw [h]; exact .ref _ _ (by simp [fbRefs]) ih
    · rw [h]; exact .ref _ _ (by simp [fbRefs]) ih
    · rw [h]; exact .ref _ _ (by simp [fbRefs]) ih
    · rw [h]; exact .ref _ _ (by simp [fbRefs]) ih
    · rw [h]; exact .plain _ _ hs ih

/-- no raw < > " ' in anything made of reference blocks and plain bytes -/
theorem refs_no_raw {refs : List Bytes} (hrefs : ∀ r ∈ refs, ∀ x ∈ r, x ≠ 60 ∧ x ≠ 62 ∧ x ≠ 34 ∧ x ≠ 39)
    {out : Bytes} (h : Refs refs out) : ∀ x ∈ out, x ≠ 60 ∧ x ≠ 62 ∧ x ≠ 34 ∧ x ≠ 39 := by
  induction h with
  | nil => intro x hx; cases hx
  | ref r t hr _ ih =>
    intro x hx
    rcases List.mem_append.mp hx with h | h
    · exact hrefs r hr x h
    · exact ih x h
  | plain b t hs _ ih =>
    intro x hx
    rcases List.mem_cons.mp hx with h | h
    · subst h
      simp [special] at hs
      exact ⟨hs.1.1.2, hs.1.2, hs.2, hs.1.1.1.2⟩
    · exact ih x h

theorem regRefs_clean : ∀ r ∈ regRefs, ∀ x ∈ r, x ≠ 60 ∧ x ≠ 62 ∧ x ≠ 34 ∧ x ≠ 39 := by decide
theorem fbRefs_clean : ∀ r ∈ fbRefs, ∀ x ∈ r, x ≠ 60 ∧ x ≠ 62 ∧ x ≠ 34 ∧ x ≠ 39 := by decide

/-- every ampersand of such an output is the first byte of one of the references:
    if `out = pre ++ 38 :: post` then some reference `r` is a prefix of `38 :: post`. -/
theorem refs_amp {refs : List Bytes} (hamp : ∀ r ∈ refs, ∃ t, r = 38 :: t ∧ 38 ∉ t)
    {out : Bytes} (h : Refs refs out) :
    ∀ pre post, out = pre ++ 38 :: post → ∃ r ∈ refs, r <+: (38 :: post) := by
  induction h with
  | nil => intro pre post e; simp at e
  | ref r t hr _ ih =>
    intro pre post e
    obtain ⟨rt, hrt, hno⟩ := hamp r hr
    -- either the ampersand is the head of this block, or it lies in the rest (it cannot be inside `rt`)
    cases pre with
    | nil =>
      simp only [List.nil_append] at e
      refine ⟨r, hr, ?_⟩
      rw [← e]; exact List.prefix_append r t
    | cons p pre' =>
      -- r ++ t = p :: pre' ++ 38 :: post with r = 38 :: rt: so p = 38 and rt ++ t = pre' ++ 38 :: post
      rw [hrt, List.cons_append, List.cons_append] at e
      injection e with _ e
      -- the 38 of the right-hand side is not within rt
      have hlen : rt.length ≤ pre'.length := by
        by_cases hle : rt.length ≤ pre'.length
        · exact hle
        · exfalso
          have hlt : pre'.length < rt.length := by omega
          have h1 : (rt ++ t)[pre'.length]? = some 38 := by
            rw [e]; simp
          rw [List.getElem?_append_left hlt] at h1
          exact hno (List.mem_of_getElem? h1)
      have : t = (pre'.drop rt.length) ++ 38 :: post := by
        have := congrArg (List.drop rt.length) e
        rw [List.drop_left', List.drop_append_of_le_length hlen] at this
        · exact this
        · rfl
      exact ih _ _ this
  | plain b t hs _ ih =>
    intro pre post e
    cases pre with
    | nil =>
      simp only [List.nil_append] at e
      injection e with e1 _
      subst e1; simp [special] at hs
    | cons p pre' =>
      rw [List.cons_append] at e
      injection e with _ e
      exact ih _ _ e

theorem regRefs_amp : ∀ r ∈ regRefs, ∃ t, r = 38 :: t ∧ 38 ∉ t := by
  intro r hr
  simp only [regRefs, List.mem_cons, List.not_mem_nil, or_false] at hr
  rcases hr with rfl | rfl | rfl | rfl | rfl
  · exact ⟨_, rfl, by decide⟩
  · exact ⟨_, rfl, by decide⟩
  · exact ⟨_, rfl, by decide⟩
  · exact ⟨_, rfl, by decide⟩
  · exact ⟨_, rfl, by decide⟩

theorem fbRefs_amp : ∀ r ∈ fbRefs, ∃ t, r = 38 :: t ∧ 38 ∉ t := by
  intro r hr
  simp only [fbRefs, List.mem_cons, List.not_mem_nil, or_false] at hr
  rcases hr with rfl | rfl | rfl | rfl | rfl
  · exact ⟨_, rfl, by decide⟩
  · exact ⟨_, rfl, by decide⟩
  · exact ⟨_, rfl, by decide⟩
  · exact ⟨_, rfl, by decide⟩
  · exact ⟨_, rfl, by decide⟩

/-! ### the fallback loop on valid UTF-8 is the byte-wise map -/

theorem high_not_special (b : UInt8) (h : (128 : UInt8) ≤ b) : special b = false := by
  have : b.toNat ≥ 128 := by simpa [UInt8.le_iff_toNat_le] using h
  simp only [special, Bool.or_eq_false_iff, beq_eq_false_iff_ne]
  refine ⟨⟨⟨⟨?_, ?_⟩, ?_⟩, ?_⟩, ?_⟩ <;> (intro hb; subst hb; simp at this)
theorem isCont_not_special (b : UInt8) (h : isCont b = true) : special b = false := by
  simp only [isCont, Bool.and_eq_true, decide_eq_true_eq] at h
  exact high_not_special b h.1

theorem leadInfo_lo {b : UInt8} {sz : Nat} {lo hi : UInt8} (h : leadInfo b = some (sz, lo, hi)) :
    (128 : UInt8) ≤ lo := by
  unfold leadInfo at h
  repeat' split at h
  all_goals (cases h <;> decide)

/-- copying `k` pending bytes -/
theorem fbGo_copy (pre post : Bytes) : fbGo pre.length (pre ++ post) = pre ++ fbGo 0 post := by
  induction pre with
  | nil => simp
  | cons a pre ih => simp only [List.length_cons, List.cons_append, fbGo, ih]

theorem validGo_copy (pre post : Bytes) : validGo pre.length (pre ++ post) = validGo 0 post := by
  induction pre with
  | nil => simp
  | cons a pre ih => simp only [List.length_cons, List.cons_append, validGo, ih]

theorem flatMap_of_not_special (pre : Bytes) (h : ∀ x ∈ pre, special x = false) :
    pre.flatMap escByteFb = pre := by
  induction pre with
  | nil => rfl
  | cons a pre ih =>
    rw [List.flatMap_cons, escByteFb_of_not_special a (h a (by simp)), ih (fun x hx => h x (by simp [hx]))]
    rfl

/-- what an accepted sequence looks like: the head is ASCII and n = 1, or the head and the n-1 following bytes
    are all ≥ 0x80 (hence none of the five special characters) -/
theorem runeLen_shape (b : UInt8) (r : Bytes) (n : Nat) (h : runeLen (b :: r) = some n) :
    (n = 1 ∧ b < 0x80) ∨
    (2 ≤ n ∧ special b = false ∧ ∃ pre post, r = pre ++ post ∧ pre.length = n - 1 ∧ ∀ x ∈ pre, special x = false) := by
  simp only [runeLen] at h
  split at h
  · rename_i hb
    injection h with h
    exact .inl ⟨h.symm, hb⟩
  · rename_i hb
    have hb' : (128 : UInt8) ≤ b := by
      rw [UInt8.le_iff_toNat_le]; rw [UInt8.lt_iff_toNat_lt] at hb; simp at hb ⊢; omega
    have hsb := high_not_special b hb'
    split at h
    · cases h
    · rename_i sz lo hi hlead
      have hlo := leadInfo_lo hlead
      split at h
      · cases h
      · rename_i b1 r1
        split at h
        · cases h
        · rename_i hr1
          have hr1' : lo ≤ b1 ∧ b1 ≤ hi := by simpa using hr1
          have hs1 := high_not_special b1 (UInt8.le_trans hlo hr1'.1)
          split at h
          · injection h with h
            refine .inr ⟨by omega, hsb, [b1], r1, rfl, by simp [← h], ?_⟩
            intro x hx; simp at hx; subst hx; exact hs1
          · split at h
            · cases h
            · rename_i b2 r2
              split at h
              · cases h
              · rename_i hc2
                have hs2 := isCont_not_special b2 (by simpa using hc2)
                split at h
                · injection h with h
                  refine .inr ⟨by omega, hsb, [b1, b2], r2, rfl, by simp [← h], ?_⟩
                  intro x hx; simp at hx; rcases hx with rfl | rfl
                  · exact hs1
                  · exact hs2
                · split at h
                  · cases h
                  · rename_i b3 r3
                    split at h
                    · rename_i hc3
                      have hs3 := isCont_not_special b3 hc3
                      injection h with h
                      refine .inr ⟨by omega, hsb, [b1, b2, b3], r3, rfl, by simp [← h], ?_⟩
                      intro x hx; simp at hx; rcases hx with rfl | rfl | rfl
                      · exact hs1
                      · exact hs2
                      · exact hs3
                    · cases h
/-- on valid UTF-8 the rune-wise loop equals the byte-wise map with the fallback's table -/
theorem fbGo_valid (s : Bytes) (h : validGo 0 s = true) : fbGo 0 s = s.flatMap escByteFb := by
  induction hn : s.length using Nat.strongRecOn generalizing s with
  | _ n ih =>
    cases s with
    | nil => rfl
    | cons b r =>
      rw [validGo] at h
      rw [fbGo]
      split at h
      · cases h
      · rename_i m hm
        rcases runeLen_shape b r m hm with ⟨rfl, _⟩ | ⟨h2, hsb, pre, post, rfl, hlen, hpre⟩
        · simp only [Nat.sub_self, beq_self_eq_true, if_true] at h ⊢
          rw [List.flatMap_cons, ih r.length (by simp [← hn]) r h rfl]
        · have hm1 : (m == 1) = false := by simp; omega
          simp only [hm1]
          rw [← hlen] at h ⊢
          rw [validGo_copy] at h
          rw [fbGo_copy, ih post.length (by simp [← hn]; omega) post h rfl]
          rw [List.flatMap_cons, List.flatMap_append, escByteFb_of_not_special b hsb,
            flatMap_of_not_special pre hpre]
          simp

end Twig.Escape
