/-
  Lemmas for property C15 (TwigModel.EngineCache): the loader loop, point updates of the loader list,
  the canonical form of `load`, and the simulation between `step` and the history specification.
-/
import TwigModel.EngineCache
namespace Twig.EngineCache
open Spec

/-! ## accessors under `modify` and `++` -/

theorem lfiles_modify (ls : List Loader) (i j : Nat) (f : Loader → Loader) (n : Name) :
    lfiles (ls.modify i f) j n = match ls[j]? with
      | some l => if i = j then (f l).files n else l.files n
      | none => none := by
  simp only [lfiles, List.getElem?_modify]
  cases ls[j]? <;> simp
  split <;> rfl

theorem lts_modify (ls : List Loader) (i j : Nat) (f : Loader → Loader) :
    lts (ls.modify i f) j = match ls[j]? with
      | some l => if i = j then (f l).tsAware else l.tsAware
      | none => false := by
  simp only [lts, List.getElem?_modify]
  cases ls[j]? <;> simp
  split <;> rfl

theorem lloads_modify (ls : List Loader) (i j : Nat) (f : Loader → Loader) (n : Name) :
    lloads (ls.modify i f) j n = match ls[j]? with
      | some l => if i = j then (f l).loads n else l.loads n
      | none => 0 := by
  simp only [lloads, List.getElem?_modify]
  cases ls[j]? <;> simp
  split <;> rfl

theorem lstats_modify (ls : List Loader) (i j : Nat) (f : Loader → Loader) (n : Name) :
    lstats (ls.modify i f) j n = match ls[j]? with
      | some l => if i = j then (f l).stats n else l.stats n
      | none => 0 := by
  simp only [lstats, List.getElem?_modify]
  cases ls[j]? <;> simp
  split <;> rfl

theorem lfiles_none_of_ge (ls : List Loader) (i : Nat) (n : Name) (h : ls.length ≤ i) : lfiles ls i n = none := by
  simp [lfiles, List.getElem?_eq_none h]

theorem lts_false_of_ge (ls : List Loader) (i : Nat) (h : ls.length ≤ i) : lts ls i = false := by
  simp [lts, List.getElem?_eq_none h]

/-! ## the loader loop -/

theorem loadLoop_length (ls : List Loader) (i : Nat) (n : Name) : (loadLoop ls i n).1.length = ls.length := by
  induction ls generalizing i with
  | nil => simp [loadLoop]
  | cons l ls ih =>
    simp only [loadLoop]
    split
    · simp [ih]
    · split <;> simp

/-- the recorded mtime of a hit: the loader's own if it is timestamp-aware, else 0 -/
def stamp (ts : Nat → Bool) (hit : Nat × Src × Time) : Nat × Src × Time :=
  (hit.1, hit.2.1, if ts hit.1 then hit.2.2 else 0)

/-- The loop returns the first loader (from `i` on) that has the name. -/
theorem loadLoop_snd (ls : List Loader) (n : Name) (cont : Nat → Option (Src × Time)) (ts : Nat → Bool) :
    ∀ i, (∀ k, k < ls.length → lfiles ls k n = cont (i + k) ∧ lts ls k = ts (i + k)) →
      (loadLoop ls i n).2 = (firstFrom cont i ls.length).map (stamp ts) := by
  induction ls with
  | nil => intro i _; simp [loadLoop, firstFrom]
  | cons l ls ih =>
    intro i h
    have h0 := h 0 (by simp)
    simp only [lfiles, lts, List.getElem?_cons_zero, Nat.add_zero] at h0
    have ht : ∀ k, k < ls.length → lfiles ls k n = cont (i + 1 + k) ∧ lts ls k = ts (i + 1 + k) := by
      intro k hk
      have := h (k + 1) (by simp; omega)
      simp only [lfiles, lts, List.getElem?_cons_succ] at this
      have e : i + (k + 1) = i + 1 + k := by omega
      rw [e] at this
      exact this
    simp only [loadLoop, List.length_cons, firstFrom]
    rw [← h0.1]
    cases hf : l.files n with
    | none => simp only []; exact ih (i + 1) ht
    | some p =>
      obtain ⟨s, t⟩ := p
      simp only []
      cases hts : l.tsAware <;> simp [stamp, ← h0.2, hts]

/-- loader `k` is asked exactly if no earlier loader has the name -/
def readAt (ls : List Loader) (n : Name) (k : Nat) : Prop := ∀ k', k' < k → lfiles ls k' n = none

instance (ls : List Loader) (n : Name) (k : Nat) : Decidable (readAt ls n k) := by unfold readAt; infer_instance

theorem readAt_cons_succ (l : Loader) (ls : List Loader) (n : Name) (k : Nat) :
    readAt (l :: ls) n (k + 1) ↔ l.files n = none ∧ readAt ls n k := by
  constructor
  · intro h
    refine ⟨by simpa [lfiles] using h 0 (by omega), ?_⟩
    intro k' hk'
    simpa [lfiles] using h (k' + 1) (by omega)
  · rintro ⟨h0, h⟩ k' hk'
    cases k' with
    | zero => simpa [lfiles] using h0
    | succ k' => simpa [lfiles] using h k' (by omega)

/-- what the loop does to loader `k` -/
def bump (n : Name) (l : Loader) : Loader :=
  match l.files n with
  | none => l.countLoad n
  | some _ => if l.tsAware then (l.countLoad n).countStat n else l.countLoad n

theorem loadLoop_get (ls : List Loader) (n : Name) : ∀ (i k : Nat),
    (loadLoop ls i n).1[k]? = (ls[k]?).map (fun l => if readAt ls n k then bump n l else l) := by
  induction ls with
  | nil => intro i k; simp [loadLoop]
  | cons l ls ih =>
    intro i k
    cases k with
    | zero =>
      have : readAt (l :: ls) n 0 := by intro k' hk'; omega
      simp only [loadLoop, bump]
      cases hf : l.files n with
      | none => simp [this, hf]
      | some p => obtain ⟨s, t⟩ := p; cases ht : l.tsAware <;> simp [this, hf, ht]
    | succ k =>
      simp only [loadLoop, List.getElem?_cons_succ, readAt_cons_succ]
      cases hf : l.files n with
      | none => simp [ih]
      | some p =>
        obtain ⟨s, t⟩ := p
        cases ht : l.tsAware <;> simp

theorem bump_files (n : Name) (l : Loader) : (bump n l).files = l.files := by
  unfold bump; split
  · rfl
  · split <;> rfl

theorem bump_ts (n : Name) (l : Loader) : (bump n l).tsAware = l.tsAware := by
  unfold bump; split
  · rfl
  · split <;> rfl

theorem bump_loads (n : Name) (l : Loader) (m : Name) :
    (bump n l).loads m = l.loads m + (if m = n then 1 else 0) := by
  unfold bump
  split
  · simp only [Loader.countLoad, upd]; split <;> simp_all
  · split <;> (simp only [Loader.countLoad, Loader.countStat, upd]; split <;> simp_all)

theorem bump_stats (n : Name) (l : Loader) (m : Name) :
    (bump n l).stats m = l.stats m + (if m = n ∧ (l.files n).isSome ∧ l.tsAware then 1 else 0) := by
  unfold bump
  split
  · next h => simp [Loader.countLoad, h]
  · next p h =>
    cases ht : l.tsAware
    · simp [Loader.countLoad]
    · simp only [Loader.countLoad, Loader.countStat, upd, h, if_true]; split <;> simp_all

theorem loadLoop_lfiles (ls : List Loader) (i : Nat) (n : Name) (j : Nat) (m : Name) :
    lfiles (loadLoop ls i n).1 j m = lfiles ls j m := by
  simp only [lfiles, loadLoop_get]
  cases ls[j]? with
  | none => rfl
  | some l => simp only [Option.map]; split <;> simp [bump_files]

theorem loadLoop_lts (ls : List Loader) (i : Nat) (n : Name) (j : Nat) :
    lts (loadLoop ls i n).1 j = lts ls j := by
  simp only [lts, loadLoop_get]
  cases ls[j]? with
  | none => rfl
  | some l => simp only [Option.map]; split <;> simp [bump_ts]

theorem loadLoop_lloads (ls : List Loader) (i : Nat) (n : Name) (j : Nat) (m : Name) :
    lloads (loadLoop ls i n).1 j m =
      lloads ls j m + (if m = n ∧ j < ls.length ∧ readAt ls n j then 1 else 0) := by
  simp only [lloads, loadLoop_get]
  cases h : ls[j]? with
  | none =>
    have : ¬ j < ls.length := by
      intro hj; rw [List.getElem?_eq_getElem hj] at h; cases h
    simp [this]
  | some l =>
    have : j < ls.length := by
      rcases Nat.lt_or_ge j ls.length with hj | hj
      · exact hj
      · rw [List.getElem?_eq_none hj] at h; cases h
    simp only [Option.map]
    by_cases hr : readAt ls n j
    · simp only [hr, if_true, bump_loads, this, and_true]
    · simp [hr]

theorem loadLoop_lstats (ls : List Loader) (i : Nat) (n : Name) (j : Nat) (m : Name) :
    lstats (loadLoop ls i n).1 j m =
      lstats ls j m + (if m = n ∧ readAt ls n j ∧ (lfiles ls j n).isSome ∧ lts ls j then 1 else 0) := by
  cases h : ls[j]? with
  | none => simp [lstats, loadLoop_get, lfiles, lts, h]
  | some l =>
    simp only [lstats, loadLoop_get, lfiles, lts, h, Option.map]
    by_cases hr : readAt ls n j
    · simp only [hr, if_true, bump_stats, true_and]
    · simp [hr]


/-! ## canonical form of `Engine.Load` -/

/-- the verdict of the sentences S1–S4, read off the engine state -/
def State.verdict (σ : State) (n : Name) : Verdict :=
  Spec.verdict σ.cache σ.autoReload σ.tsOf (fun i => σ.files i n) (σ.templates n)

/-- the state after the staleness test's `GetModifiedTime` call, if one is made -/
def State.checked (σ : State) (n : Name) : State :=
  match σ.templates n with
  | some ⟨_, some i, _⟩ =>
    if σ.cache && σ.autoReload && σ.tsOf i then { σ with loaders := σ.loaders.modify i (·.countStat n) } else σ
  | _ => σ

/-- `Engine.Load` = staleness test, then either the held template or the loader loop -/
theorem load_canon (σ : State) (n : Name) :
    load σ n = match σ.verdict n with
      | .useHeld s => (σ.checked n, .served s)
      | .consult => reload (σ.checked n) n := by
  unfold load State.verdict Spec.verdict State.checked State.tsOf State.files lts lfiles
  cases ht : σ.templates n with
  | none => rfl
  | some e =>
    obtain ⟨s, lo, t⟩ := e
    cases lo with
    | none => cases ha : σ.autoReload <;> simp
    | some i =>
      cases hc : σ.cache
      · simp
      · cases ha : σ.autoReload
        · simp
        · cases hl : σ.loaders[i]? with
          | none => simp [hl]
          | some l =>
            cases hts : l.tsAware
            · simp [hl, hts]
            · cases hf : l.files n with
              | none => simp [hl, hts, hf]
              | some p =>
                obtain ⟨s', t'⟩ := p
                by_cases hlt : t' > t <;> simp [hl, hts, hf, hlt]


/-! ## facts about the specification functions -/

theorem tsAwareR_false_of_ge : ∀ (r : List Op) (i : Nat), nLoadersR r ≤ i → tsAwareR r i = false := by
  intro r
  induction r with
  | nil => intro i _; rfl
  | cons op r ih =>
    intro i h
    cases op <;> simp only [tsAwareR, nLoadersR] at h ⊢ <;> try exact ih i h
    rw [if_neg (by omega)]; exact ih i (by omega)

theorem contentR_none_of_ge : ∀ (r : List Op) (i : Nat) (n : Name), nLoadersR r ≤ i → contentR r i n = none := by
  intro r
  induction r with
  | nil => intro i n _; rfl
  | cons op r ih =>
    intro i n h
    cases op <;> simp only [contentR, nLoadersR] at h ⊢ <;> try exact ih i n h
    · exact ih i n (by omega)
    · rw [if_neg (by omega)]; exact ih i n h
    · split
      · rfl
      · exact ih i n h
    · split
      · rw [ih i n h]
      · exact ih i n h

/-! ## the simulation: the engine state is the specification's view of the history -/

structure Sim (σ : State) (r : List Op) : Prop where
  cache : σ.cache = cacheOnR r
  auto : σ.autoReload = autoReloadR r
  debug : σ.debug = debugR r
  len : σ.loaders.length = nLoadersR r
  ts : ∀ i, σ.tsOf i = tsAwareR r i
  files : ∀ i n, σ.files i n = contentR r i n
  held : ∀ n, σ.templates n = heldR r n

theorem sim_init : Sim init [] := by
  constructor <;> intros <;> rfl

theorem Sim.verdict_eq {σ : State} {r : List Op} (h : Sim σ r) (n : Name) : σ.verdict n = verdictR r n := by
  unfold State.verdict verdictR
  have e1 : σ.tsOf = tsAwareR r := funext h.ts
  have e2 : (fun i => σ.files i n) = (fun i => contentR r i n) := funext fun i => h.files i n
  rw [h.cache, h.auto, e1, e2, h.held]

theorem Sim.checked {σ : State} {r : List Op} (h : Sim σ r) (n : Name) : Sim (σ.checked n) r := by
  unfold State.checked
  split
  · split
    · constructor
      · exact h.cache
      · exact h.auto
      · exact h.debug
      · simpa using h.len
      · intro j
        have := h.ts j
        simp only [State.tsOf, lts_modify] at this ⊢
        rw [← this]; unfold lts; cases σ.loaders[j]? <;> simp
        intro _; rfl
      · intro j m
        have := h.files j m
        simp only [State.files, lfiles_modify] at this ⊢
        rw [← this]; unfold lfiles; cases σ.loaders[j]? <;> simp
        intro _; rfl
      · exact h.held
    · exact h
  · exact h

/-- the loader loop on a state that matches the history finds the specification's first holder -/
theorem Sim.loadLoop_snd {σ : State} {r : List Op} (h : Sim σ r) (n : Name) :
    (loadLoop σ.loaders 0 n).2 = (firstHolderR r n).map (stamp (tsAwareR r)) := by
  unfold firstHolderR
  rw [← h.len]
  apply Twig.EngineCache.loadLoop_snd
  intro k _
  rw [Nat.zero_add]
  exact ⟨h.files k n, h.ts k⟩

/-- the second half of `Engine.Load` on a state that matches the history -/
theorem Sim.reload {σ : State} {r : List Op} (h : Sim σ r) (n : Name) :
    (reload σ n).2 = (match firstHolderR r n with | some (_, s, _) => Out.served s | none => Out.notFound) ∧
    (reload σ n).1.cache = σ.cache ∧ (reload σ n).1.autoReload = σ.autoReload ∧ (reload σ n).1.debug = σ.debug ∧
    (reload σ n).1.loaders = (loadLoop σ.loaders 0 n).1 ∧
    (reload σ n).1.templates = (match firstHolderR r n with
      | some hit => if cacheOnR r then upd σ.templates n (some (consultedEntry (tsAwareR r) hit)) else σ.templates
      | none => σ.templates) := by
  unfold Twig.EngineCache.reload
  simp only []
  rw [h.loadLoop_snd n, h.cache]
  cases firstHolderR r n with
  | none => simp
  | some hit =>
    obtain ⟨i, s, t⟩ := hit
    simp [stamp, consultedEntry]

theorem heldR_load (r : List Op) (n n' : Name) :
    heldR (.load n :: r) n' =
      if n = n' then
        match verdictR r n' with
        | .useHeld _ => heldR r n'
        | .consult =>
          match firstHolderR r n' with
          | some hit => if cacheOnR r then some (consultedEntry (tsAwareR r) hit) else heldR r n'
          | none => heldR r n'
      else heldR r n' := rfl

theorem heldR_render (r : List Op) (n n' : Name) : heldR (.render n :: r) n' = heldR (.load n :: r) n' := rfl

/-- one `Load`/`Render` keeps the simulation and returns what the specification expects -/
theorem Sim.load {σ : State} {r : List Op} (h : Sim σ r) (n : Name) :
    Sim (load σ n).1 (.load n :: r) ∧ (load σ n).2 = expectedR r n := by
  have hc := h.checked n
  have hr := hc.reload n
  rw [load_canon, h.verdict_eq n]
  unfold expectedR
  cases hv : verdictR r n with
  | useHeld s =>
    refine ⟨?_, rfl⟩
    constructor
    · exact hc.cache
    · exact hc.auto
    · exact hc.debug
    · exact hc.len
    · exact hc.ts
    · exact hc.files
    · intro n'
      rw [heldR_load]
      by_cases e : n = n'
      · subst e; simp only [hv, if_true]; exact hc.held n
      · simp only [e, if_false]; exact hc.held n'
  | consult =>
    simp only []
    obtain ⟨h2, hca, hau, hde, hlo, hte⟩ := hr
    refine ⟨?_, h2⟩
    constructor
    · rw [hca]; exact hc.cache
    · rw [hau]; exact hc.auto
    · rw [hde]; exact hc.debug
    · rw [hlo, loadLoop_length]; exact hc.len
    · intro i; simp only [State.tsOf]; rw [hlo, loadLoop_lts]; exact hc.ts i
    · intro i m; simp only [State.files]; rw [hlo, loadLoop_lfiles]; exact hc.files i m
    · intro n'
      rw [heldR_load, hte]
      by_cases e : n = n'
      · subst e
        simp only [hv, if_true]
        cases firstHolderR r n with
        | none => exact hc.held n
        | some hit =>
          simp only []
          cases cacheOnR r
          · simp only [Bool.false_eq_true, if_false]; exact hc.held n
          · simp
      · simp only [e, if_false]
        have hne : n' ≠ n := fun x => e x.symm
        cases firstHolderR r n with
        | none => exact hc.held n'
        | some hit =>
          simp only []
          cases cacheOnR r
          · simp only [Bool.false_eq_true, if_false]; exact hc.held n'
          · simp only [if_true, upd_other _ _ _ _ hne]; exact hc.held n'


/-! ## the other operations -/

theorem lts_append_one (ls : List Loader) (l : Loader) (i : Nat) :
    lts (ls ++ [l]) i = if i = ls.length then l.tsAware else lts ls i := by
  unfold lts
  rcases Nat.lt_trichotomy i ls.length with h | h | h
  · rw [List.getElem?_append_left h, if_neg (by omega)]
  · subst h; simp
  · rw [List.getElem?_eq_none (l := ls ++ [l]) (by simp; omega), List.getElem?_eq_none (l := ls) (by omega),
      if_neg (by omega)]

theorem lfiles_append_one (ls : List Loader) (l : Loader) (i : Nat) (n : Name) :
    lfiles (ls ++ [l]) i n = if i = ls.length then l.files n else lfiles ls i n := by
  unfold lfiles
  rcases Nat.lt_trichotomy i ls.length with h | h | h
  · rw [List.getElem?_append_left h, if_neg (by omega)]
  · subst h; simp
  · rw [List.getElem?_eq_none (l := ls ++ [l]) (by simp; omega), List.getElem?_eq_none (l := ls) (by omega),
      if_neg (by omega)]

theorem lfiles_lt {ls : List Loader} {i : Nat} {n : Name} {p : Src × Time} (h : lfiles ls i n = some p) : i < ls.length := by
  rcases Nat.lt_or_ge i ls.length with hj | hj
  · exact hj
  · rw [lfiles_none_of_ge ls i n hj] at h; cases h

/-- what the history says the step shows -/
def outR (r : List Op) : Op → Out
  | .load n => expectedR r n
  | .render n => expectedR r n
  | _ => .quiet

theorem Sim.step {σ : State} {r : List Op} (h : Sim σ r) (op : Op) :
    Sim (step σ op).1 (op :: r) ∧ (step σ op).2 = outR r op := by
  cases op with
  | setCache b => exact ⟨⟨rfl, h.auto, h.debug, h.len, h.ts, h.files, h.held⟩, rfl⟩
  | setAutoReload b => exact ⟨⟨h.cache, rfl, h.debug, h.len, h.ts, h.files, h.held⟩, rfl⟩
  | setDevMode b => exact ⟨⟨rfl, rfl, rfl, h.len, h.ts, h.files, h.held⟩, rfl⟩
  | registerLoader ts =>
    refine ⟨⟨h.cache, h.auto, h.debug, ?_, ?_, ?_, h.held⟩, rfl⟩
    · simp only [Twig.EngineCache.step, List.length_append, List.length_cons, List.length_nil, nLoadersR, h.len]
    · intro i
      simp only [Twig.EngineCache.step, State.tsOf, lts_append_one, tsAwareR, h.len, Loader.empty]
      split
      · rfl
      · exact h.ts i
    · intro i n
      simp only [Twig.EngineCache.step, State.files, lfiles_append_one, contentR, h.len, Loader.empty]
      split
      · next e => rw [contentR_none_of_ge r i n (by omega)]
      · exact h.files i n
  | registerString n s =>
    refine ⟨⟨h.cache, h.auto, h.debug, h.len, h.ts, h.files, ?_⟩, rfl⟩
    intro n'
    show upd σ.templates n (some (registeredEntry s)) n' = if n = n' then some (registeredEntry s) else heldR r n'
    by_cases e : n = n'
    · subst e; simp
    · rw [upd_other _ _ _ _ (fun x => e x.symm), if_neg e]; exact h.held n'
  | registerTemplate n s =>
    refine ⟨⟨h.cache, h.auto, h.debug, h.len, h.ts, h.files, ?_⟩, rfl⟩
    intro n'
    show upd σ.templates n (some (registeredEntry s)) n' = if n = n' then some (registeredEntry s) else heldR r n'
    by_cases e : n = n'
    · subst e; simp
    · rw [upd_other _ _ _ _ (fun x => e x.symm), if_neg e]; exact h.held n'
  | loaderPut j m s t =>
    refine ⟨⟨h.cache, h.auto, h.debug, ?_, ?_, ?_, h.held⟩, rfl⟩
    · show (σ.loaders.modify _ _).length = nLoadersR r
      rw [List.length_modify]; exact h.len
    · intro i
      have := h.ts i
      simp only [Twig.EngineCache.step, State.tsOf, lts_modify] at this ⊢
      show _ = tsAwareR r i
      rw [← this]; unfold lts; cases σ.loaders[i]? <;> simp
      intro _; rfl
    · intro i n
      have hf := h.files i n
      have hl := h.len
      simp only [Twig.EngineCache.step, State.files, lfiles_modify, contentR] at hf ⊢
      rw [← hf, ← hl]
      unfold lfiles
      cases hg : σ.loaders[i]? with
      | none =>
        have : ¬ i < σ.loaders.length := by
          intro hi; rw [List.getElem?_eq_getElem hi] at hg; cases hg
        simp [this]
      | some l =>
        have : i < σ.loaders.length := by
          rcases Nat.lt_or_ge i σ.loaders.length with hj | hj
          · exact hj
          · rw [List.getElem?_eq_none hj] at hg; cases hg
        simp only [this, and_true, Loader.put, upd]
        by_cases e1 : j = i
        · by_cases e2 : m = n
          · subst e2; simp [e1]
          · have : ¬ n = m := fun x => e2 x.symm
            simp [e1, e2, this]
        · simp [e1]
  | loaderDelete j m =>
    refine ⟨⟨h.cache, h.auto, h.debug, ?_, ?_, ?_, h.held⟩, rfl⟩
    · show (σ.loaders.modify _ _).length = nLoadersR r
      rw [List.length_modify]; exact h.len
    · intro i
      have := h.ts i
      simp only [Twig.EngineCache.step, State.tsOf, lts_modify] at this ⊢
      show _ = tsAwareR r i
      rw [← this]; unfold lts; cases σ.loaders[i]? <;> simp
      intro _; rfl
    · intro i n
      have hf := h.files i n
      simp only [Twig.EngineCache.step, State.files, lfiles_modify, contentR] at hf ⊢
      rw [← hf]
      unfold lfiles
      cases hg : σ.loaders[i]? with
      | none => simp
      | some l =>
        simp only [Loader.delete, upd]
        by_cases e1 : j = i
        · by_cases e2 : m = n
          · subst e2; simp [e1]
          · have : ¬ n = m := fun x => e2 x.symm
            simp [e1, e2, this]
        · simp [e1]
  | loaderTouch j m t =>
    refine ⟨⟨h.cache, h.auto, h.debug, ?_, ?_, ?_, h.held⟩, rfl⟩
    · show (σ.loaders.modify _ _).length = nLoadersR r
      rw [List.length_modify]; exact h.len
    · intro i
      have := h.ts i
      simp only [Twig.EngineCache.step, State.tsOf, lts_modify] at this ⊢
      show _ = tsAwareR r i
      rw [← this]; unfold lts; cases σ.loaders[i]? <;> simp
      intro _; unfold Loader.touch; split <;> rfl
    · intro i n
      have hf := h.files i n
      simp only [Twig.EngineCache.step, State.files, lfiles_modify, contentR] at hf ⊢
      rw [← hf]
      unfold lfiles
      cases hg : σ.loaders[i]? with
      | none => simp
      | some l =>
        simp only []
        by_cases e1 : j = i
        · by_cases e2 : m = n
          · subst e2
            simp only [e1, and_self, if_true]
            unfold Loader.touch
            cases hfm : l.files m with
            | none => simp [hfm]
            | some p => obtain ⟨s', t'⟩ := p; simp [Loader.put]
          · have : ¬ n = m := fun x => e2 x.symm
            simp only [e1, e2, and_false, if_false, if_true]
            unfold Loader.touch
            cases hfm : l.files m with
            | none => rfl
            | some p => obtain ⟨s', t'⟩ := p; simp [Loader.put, upd, this]
        · simp [e1]
  | load n => exact h.load n
  | render n =>
    have := h.load n
    exact ⟨⟨this.1.cache, this.1.auto, this.1.debug, this.1.len, this.1.ts, this.1.files, this.1.held⟩, this.2⟩

/-- newest-first execution, the form all inductions use -/
def runR : List Op → State
  | [] => init
  | op :: r => (Twig.EngineCache.step (runR r) op).1

theorem runFrom_append (σ : State) (h₁ h₂ : History) : runFrom σ (h₁ ++ h₂) = runFrom (runFrom σ h₁) h₂ := by
  simp [runFrom, List.foldl_append]

theorem run_snoc (h : History) (op : Op) : run (h ++ [op]) = (Twig.EngineCache.step (run h) op).1 := by
  simp [run, runFrom, List.foldl_append]

theorem runR_eq_foldr (r : List Op) : runR r = r.foldr (fun op σ => (Twig.EngineCache.step σ op).1) init := by
  induction r with
  | nil => rfl
  | cons op r ih => simp [runR, ih]

theorem run_eq_runR (h : History) : run h = runR h.reverse := by
  rw [runR_eq_foldr, List.foldr_reverse]; rfl

theorem sim_runR : ∀ r, Sim (runR r) r
  | [] => sim_init
  | op :: r => ((sim_runR r).step op).1


/-! ## "the first loader that has the name", declaratively -/

theorem firstFrom_some (cont : Nat → Option (Src × Time)) : ∀ (fuel i k : Nat) (s : Src) (t : Time),
    firstFrom cont i fuel = some (k, s, t) ↔
      (i ≤ k ∧ k < i + fuel ∧ cont k = some (s, t) ∧ ∀ k', i ≤ k' → k' < k → cont k' = none) := by
  intro fuel
  induction fuel with
  | zero => intro i k s t; simp only [firstFrom]; constructor
            · intro h; cases h
            · rintro ⟨h1, h2, _⟩; omega
  | succ fuel ih =>
    intro i k s t
    simp only [firstFrom]
    cases hc : cont i with
    | none =>
      simp only []
      rw [ih]
      constructor
      · rintro ⟨h1, h2, h3, h4⟩
        refine ⟨by omega, by omega, h3, ?_⟩
        intro k' hk1 hk2
        by_cases e : k' = i
        · subst e; exact hc
        · exact h4 k' (by omega) hk2
      · rintro ⟨h1, h2, h3, h4⟩
        have : i ≠ k := by intro e; subst e; rw [hc] at h3; cases h3
        exact ⟨by omega, by omega, h3, fun k' hk1 hk2 => h4 k' (by omega) hk2⟩
    | some p =>
      obtain ⟨s', t'⟩ := p
      simp only [Option.some.injEq, Prod.mk.injEq]
      constructor
      · rintro ⟨rfl, rfl, rfl⟩
        exact ⟨Nat.le_refl _, by omega, hc, fun k' h1 h2 => by omega⟩
      · rintro ⟨h1, h2, h3, h4⟩
        have : i = k := by
          rcases Nat.lt_or_ge i k with hlt | hge
          · have := h4 i (Nat.le_refl _) hlt; rw [hc] at this; cases this
          · omega
        subst this
        rw [hc] at h3
        simp only [Option.some.injEq, Prod.mk.injEq] at h3
        exact ⟨rfl, h3.1, h3.2⟩

theorem firstFrom_none (cont : Nat → Option (Src × Time)) : ∀ (fuel i : Nat),
    firstFrom cont i fuel = none ↔ ∀ k', i ≤ k' → k' < i + fuel → cont k' = none := by
  intro fuel
  induction fuel with
  | zero => intro i; simp only [firstFrom]; constructor
            · intro _ k' h1 h2; omega
            · intro _; trivial
  | succ fuel ih =>
    intro i
    simp only [firstFrom]
    cases hc : cont i with
    | none =>
      simp only []
      rw [ih]
      constructor
      · intro h k' h1 h2
        by_cases e : k' = i
        · subst e; exact hc
        · exact h k' (by omega) (by omega)
      · intro h k' h1 h2
        exact h k' (by omega) (by omega)
    | some p =>
      obtain ⟨s', t'⟩ := p
      simp only []
      constructor
      · intro h; cases h
      · intro h; have := h i (Nat.le_refl _) (by omega); rw [hc] at this; cases this

/-- S5, declaratively: `firstHolderR` is the least loader index that has the name -/
theorem firstHolderR_some (r : List Op) (n : Name) (k : Nat) (s : Src) (t : Time) :
    firstHolderR r n = some (k, s, t) ↔
      (k < nLoadersR r ∧ contentR r k n = some (s, t) ∧ ∀ k', k' < k → contentR r k' n = none) := by
  unfold firstHolderR
  rw [firstFrom_some]
  constructor
  · rintro ⟨_, h2, h3, h4⟩; exact ⟨by omega, h3, fun k' hk => h4 k' (Nat.zero_le _) hk⟩
  · rintro ⟨h2, h3, h4⟩; exact ⟨Nat.zero_le _, by omega, h3, fun k' _ hk => h4 k' hk⟩

theorem firstHolderR_none (r : List Op) (n : Name) :
    firstHolderR r n = none ↔ ∀ k, contentR r k n = none := by
  unfold firstHolderR
  rw [firstFrom_none]
  constructor
  · intro h k
    rcases Nat.lt_or_ge k (nLoadersR r) with hk | hk
    · exact h k (Nat.zero_le _) (by omega)
    · exact contentR_none_of_ge r k n hk
  · intro h k _ _; exact h k

/-! ## call counters -/

theorem ite_congr_iff {p q : Prop} [Decidable p] [Decidable q] (h : p ↔ q) (a b : Nat) :
    (if p then a else b) = (if q then a else b) := by
  by_cases hp : p
  · rw [if_pos hp, if_pos (h.mp hp)]
  · rw [if_neg hp, if_neg (fun hq => hp (h.mpr hq))]

theorem Sim.readAt_iff {σ : State} {r : List Op} (h : Sim σ r) (n : Name) (j : Nat) :
    (j < σ.loaders.length ∧ readAt σ.loaders n j) ↔
      (match firstHolderR r n with
       | some (k, _, _) => j ≤ k
       | none => j < nLoadersR r) := by
  have hf : ∀ k, lfiles σ.loaders k n = contentR r k n := fun k => h.files k n
  unfold readAt
  rw [h.len]
  cases hfh : firstHolderR r n with
  | none =>
    simp only []
    rw [firstHolderR_none] at hfh
    constructor
    · intro ⟨h1, _⟩; exact h1
    · intro h1; exact ⟨h1, fun k' _ => by rw [hf]; exact hfh k'⟩
  | some hit =>
    obtain ⟨k, s, t⟩ := hit
    simp only []
    rw [firstHolderR_some] at hfh
    obtain ⟨h1, h2, h3⟩ := hfh
    constructor
    · intro ⟨_, h5⟩
      rcases Nat.lt_or_ge k j with hlt | hge
      · have := h5 k hlt; rw [hf, h2] at this; cases this
      · exact hge
    · intro hle
      exact ⟨by omega, fun k' hk' => by rw [hf]; exact h3 k' (by omega)⟩

theorem checked_lloads (σ : State) (n : Name) (j : Nat) (m : Name) :
    lloads (σ.checked n).loaders j m = lloads σ.loaders j m := by
  unfold State.checked
  split
  · next s i t heq =>
    split
    · simp only [lloads_modify]; unfold lloads
      cases σ.loaders[j]? with
      | none => rfl
      | some l => by_cases e : i = j <;> simp [e, Loader.countStat]
    · rfl
  · rfl

/-- the `Load` calls one `Engine.Load(n)` makes are the ones the specification expects -/
theorem Sim.load_loads {σ : State} {r : List Op} (h : Sim σ r) (n : Name) (j : Nat) (m : Name) :
    (Twig.EngineCache.load σ n).1.loads j m = σ.loads j m + (if m = n then expectedLoadsR r n j else 0) := by
  have hc := h.checked n
  rw [load_canon, h.verdict_eq n]
  unfold expectedLoadsR State.loads
  cases hv : verdictR r n with
  | useHeld s => simp only [checked_lloads]; split <;> rfl
  | consult =>
    simp only []
    rw [(hc.reload n).2.2.2.2.1, loadLoop_lloads, checked_lloads]
    have key := hc.readAt_iff n j
    by_cases e : m = n
    · simp only [e, true_and, if_true]
      congr 1
      cases hfh : firstHolderR r n with
      | none => rw [hfh] at key; simp only [] at key ⊢; exact ite_congr_iff key 1 0
      | some hit => obtain ⟨k, s, t⟩ := hit; rw [hfh] at key; simp only [] at key ⊢; exact ite_congr_iff key 1 0
    · simp [e]

theorem checked_lstats (σ : State) (n : Name) (j : Nat) (m : Name) :
    lstats (σ.checked n).loaders j m = lstats σ.loaders j m +
      (match σ.templates n with
       | some ⟨_, some i, _⟩ => if (σ.cache && σ.autoReload && σ.tsOf i && j == i) ∧ m = n then 1 else 0
       | _ => 0) := by
  unfold State.checked
  split
  · next s i t heq =>
    by_cases hcond : (σ.cache && σ.autoReload && σ.tsOf i) = true
    · simp only [hcond, if_true, lstats_modify, Bool.true_and]
      unfold lstats
      cases hl : σ.loaders[j]? with
      | none =>
        have hne : ¬ j = i := by
          intro e; subst e
          simp only [Bool.and_eq_true, State.tsOf, lts, hl] at hcond
          exact absurd hcond.2 (by simp)
        simp [hne]
      | some l =>
        by_cases e : j = i
        · subst e
          by_cases e2 : m = n
          · subst e2; simp [Loader.countStat]
          · simp [e2, Loader.countStat, upd]
        · have e' : ¬ i = j := fun x => e x.symm
          simp [e, e']
    · have hb : (σ.cache && σ.autoReload && σ.tsOf i) = false := by
        cases hx : (σ.cache && σ.autoReload && σ.tsOf i)
        · rfl
        · exact absurd hx hcond
      simp [hb]
  · simp

theorem Sim.hit_iff {σ : State} {r : List Op} (h : Sim σ r) (n : Name) (j : Nat) :
    (readAt σ.loaders n j ∧ (lfiles σ.loaders j n).isSome) ↔ ∃ s t, firstHolderR r n = some (j, s, t) := by
  have hf : ∀ k, lfiles σ.loaders k n = contentR r k n := fun k => h.files k n
  constructor
  · rintro ⟨h1, h2⟩
    cases hfj : lfiles σ.loaders j n with
    | none => rw [hfj] at h2; cases h2
    | some p =>
      obtain ⟨s, t⟩ := p
      refine ⟨s, t, ?_⟩
      rw [firstHolderR_some]
      refine ⟨?_, ?_, ?_⟩
      · rw [← h.len]; exact lfiles_lt hfj
      · rw [← hf]; exact hfj
      · intro k' hk'; rw [← hf]; exact h1 k' hk'
  · rintro ⟨s, t, hfh⟩
    rw [firstHolderR_some] at hfh
    obtain ⟨_, h2, h3⟩ := hfh
    refine ⟨?_, ?_⟩
    · intro k' hk'; rw [hf]; exact h3 k' hk'
    · rw [hf, h2]; rfl

/-- … and so are the `GetModifiedTime` calls -/
theorem Sim.load_stats {σ : State} {r : List Op} (h : Sim σ r) (n : Name) (j : Nat) (m : Name) :
    (Twig.EngineCache.load σ n).1.stats j m = σ.stats j m + (if m = n then expectedStatsR r n j else 0) := by
  have hc := h.checked n
  have hfirst : lstats (σ.checked n).loaders j m = lstats σ.loaders j m +
      (if m = n then (match heldR r n with
        | some ⟨_, some i, _⟩ => if cacheOnR r && autoReloadR r && tsAwareR r i && j == i then 1 else 0
        | _ => 0) else 0) := by
    rw [checked_lstats, h.held n, h.cache, h.auto]
    congr 1
    cases heldR r n with
    | none => simp
    | some e =>
      obtain ⟨s, lo, t⟩ := e
      cases lo with
      | none => simp
      | some i =>
        simp only [h.ts i]
        by_cases e : m = n <;> simp [e]
  rw [load_canon, h.verdict_eq n]
  unfold expectedStatsR State.stats
  cases hv : verdictR r n with
  | useHeld s =>
    simp only [hfirst, Nat.add_zero]
    rfl
  | consult =>
    simp only []
    rw [(hc.reload n).2.2.2.2.1, loadLoop_lstats, hfirst]
    have key := hc.hit_iff n j
    have hts : lts (σ.checked n).loaders j = tsAwareR r j := hc.ts j
    rw [hts]
    by_cases e : m = n
    · simp only [e, true_and, if_true, Nat.add_assoc]
      congr 1
      congr 1
      cases hfh : firstHolderR r n with
      | none =>
        have : ¬ (readAt (σ.checked n).loaders n j ∧ (lfiles (σ.checked n).loaders j n).isSome = true) := by
          intro hx; obtain ⟨s, t, hh⟩ := key.mp hx; rw [hfh] at hh; cases hh
        simp only []
        rw [if_neg (fun hx => this ⟨hx.1, hx.2.1⟩)]
      | some hit =>
        obtain ⟨k, s, t⟩ := hit
        simp only []
        by_cases ejk : j = k
        · subst ejk
          have hx := key.mpr ⟨s, t, hfh⟩
          cases htsj : tsAwareR r j <;> simp [hx.1, hx.2]
        · have : ¬ (readAt (σ.checked n).loaders n j ∧ (lfiles (σ.checked n).loaders j n).isSome = true) := by
            intro hx; obtain ⟨s', t', hh⟩ := key.mp hx; rw [hfh] at hh
            simp only [Option.some.injEq, Prod.mk.injEq] at hh; exact ejk hh.1.symm
          rw [if_neg (fun hx => this ⟨hx.1, hx.2.1⟩)]
          simp [ejk]
    · simp [e]


/-! ## what is held: registrations and consultations -/

/-- does the operation register something under the name? -/
def Op.registers : Op → Name → Bool
  | .registerString m _, n => m == n
  | .registerTemplate m _, n => m == n
  | _, _ => false

/-- does the operation change loader contents only (put / delete / touch)? -/
def Op.isLoaderContent : Op → Bool
  | .loaderPut .. => true
  | .loaderDelete .. => true
  | .loaderTouch .. => true
  | _ => false

/-- could the operation make the name known (a registration under it or a put of it into some loader)? -/
def Op.provides : Op → Name → Bool
  | .registerString m _, n => m == n
  | .registerTemplate m _, n => m == n
  | .loaderPut _ m _ _, n => m == n
  | _, _ => false

theorem verdict_registered (c a : Bool) (ts : Nat → Bool) (cont : Nat → Option (Src × Time)) (s : Src) :
    Spec.verdict c a ts cont (some (registeredEntry s)) = .useHeld s := rfl

theorem heldR_registered : ∀ (r : List Op) (n : Name),
    (∀ s, registeredR r n = some s → heldR r n = some (registeredEntry s)) ∧
    (registeredR r n = none → ∀ e, heldR r n = some e → ∃ i, e.loader = some i) := by
  intro r
  induction r with
  | nil => intro n; exact ⟨fun s h => (by cases h), fun _ e h => (by cases h)⟩
  | cons op r ih =>
    intro n
    have hcall : ∀ m, (∀ s, registeredR r n = some s → heldR (.load m :: r) n = some (registeredEntry s)) ∧
        (registeredR r n = none → ∀ e, heldR (.load m :: r) n = some e → ∃ i, e.loader = some i) := by
      intro m
      rw [heldR_load]
      by_cases e : m = n
      · simp only [e, if_true]
        constructor
        · intro s hs
          have hh := (ih n).1 s hs
          simp only [verdictR, hh, verdict_registered]
        · intro hn en hen
          cases hv : verdictR r n with
          | useHeld s' => rw [hv] at hen; exact (ih n).2 hn en hen
          | consult =>
            rw [hv] at hen
            simp only [] at hen
            cases hfh : firstHolderR r n with
            | none => rw [hfh] at hen; exact (ih n).2 hn en hen
            | some hit =>
              rw [hfh] at hen
              simp only [] at hen
              cases hco : cacheOnR r
              · rw [hco] at hen; exact (ih n).2 hn en hen
              · rw [hco] at hen
                simp only [if_true, Option.some.injEq] at hen
                exact ⟨hit.1, by rw [← hen]; rfl⟩
      · simp only [e, if_false]; exact ih n
    cases op with
    | registerString m s' =>
      show (∀ s, (if m = n then some s' else registeredR r n) = some s →
              (if m = n then some (registeredEntry s') else heldR r n) = some (registeredEntry s)) ∧
           ((if m = n then some s' else registeredR r n) = none →
              ∀ e, (if m = n then some (registeredEntry s') else heldR r n) = some e → ∃ i, e.loader = some i)
      by_cases e : m = n
      · simp only [e, if_true]
        exact ⟨fun s h => (by cases h; rfl), fun h => (by cases h)⟩
      · simp only [e, if_false]; exact ih n
    | registerTemplate m s' =>
      show (∀ s, (if m = n then some s' else registeredR r n) = some s →
              (if m = n then some (registeredEntry s') else heldR r n) = some (registeredEntry s)) ∧
           ((if m = n then some s' else registeredR r n) = none →
              ∀ e, (if m = n then some (registeredEntry s') else heldR r n) = some e → ∃ i, e.loader = some i)
      by_cases e : m = n
      · simp only [e, if_true]
        exact ⟨fun s h => (by cases h; rfl), fun h => (by cases h)⟩
      · simp only [e, if_false]; exact ih n
    | load m => exact hcall m
    | render m => exact hcall m
    | setCache b => exact ih n
    | setAutoReload b => exact ih n
    | setDevMode b => exact ih n
    | registerLoader ts => exact ih n
    | loaderPut j m s t => exact ih n
    | loaderDelete j m => exact ih n
    | loaderTouch j m t => exact ih n

theorem nLoadersR_le_cons (op : Op) (r : List Op) : nLoadersR r ≤ nLoadersR (op :: r) := by
  cases op <;> simp [nLoadersR]

theorem tsAwareR_cons (op : Op) (r : List Op) (i : Nat) (h : i < nLoadersR r) : tsAwareR (op :: r) i = tsAwareR r i := by
  cases op <;> simp only [tsAwareR]
  rw [if_neg (by omega)]

theorem nLoadersR_le_of_suffix {r0 r : List Op} (h : r0 <:+ r) : nLoadersR r0 ≤ nLoadersR r := by
  obtain ⟨pre, rfl⟩ := h
  induction pre with
  | nil => exact Nat.le_refl _
  | cons op pre ih => exact Nat.le_trans ih (nLoadersR_le_cons op _)

theorem tsAwareR_of_suffix {r0 r : List Op} (h : r0 <:+ r) (i : Nat) (hi : i < nLoadersR r0) :
    tsAwareR r i = tsAwareR r0 i := by
  obtain ⟨pre, rfl⟩ := h
  induction pre with
  | nil => rfl
  | cons op pre ih =>
    have : i < nLoadersR (pre ++ r0) := Nat.lt_of_lt_of_le hi (nLoadersR_le_of_suffix ⟨pre, rfl⟩)
    show tsAwareR (op :: (pre ++ r0)) i = _
    rw [tsAwareR_cons op _ i this]; exact ih

/-- C15_inv on the specification side: a held template that is not a registration was read, at some earlier
    moment `r0` of the history at which caching was on, from the loader that was the first holder then, and
    carries that loader's source and (if timestamp-aware) mtime of that moment. -/
theorem heldR_origin : ∀ (r : List Op) (n : Name) (s : Src) (i : Nat) (t : Time),
    heldR r n = some ⟨s, some i, t⟩ →
      ∃ r0 t0, r0 <:+ r ∧ cacheOnR r0 = true ∧ firstHolderR r0 n = some (i, s, t0) ∧
        t = (if tsAwareR r0 i then t0 else 0) := by
  intro r
  induction r with
  | nil => intro n s i t h; cases h
  | cons op r ih =>
    intro n s i t h
    have lift : heldR r n = some ⟨s, some i, t⟩ →
        ∃ r0 t0, r0 <:+ op :: r ∧ cacheOnR r0 = true ∧ firstHolderR r0 n = some (i, s, t0) ∧
          t = (if tsAwareR r0 i then t0 else 0) := by
      intro h'
      obtain ⟨r0, t0, h1, h2⟩ := ih n s i t h'
      exact ⟨r0, t0, h1.trans (List.suffix_cons op r), h2⟩
    have hcall : ∀ m, heldR (.load m :: r) n = some ⟨s, some i, t⟩ →
        ∃ r0 t0, r0 <:+ op :: r ∧ cacheOnR r0 = true ∧ firstHolderR r0 n = some (i, s, t0) ∧
          t = (if tsAwareR r0 i then t0 else 0) := by
      intro m hm
      rw [heldR_load] at hm
      by_cases e : m = n
      · simp only [e, if_true] at hm
        cases hv : verdictR r n with
        | useHeld s' => rw [hv] at hm; exact lift hm
        | consult =>
          rw [hv] at hm
          simp only [] at hm
          cases hfh : firstHolderR r n with
          | none => rw [hfh] at hm; exact lift hm
          | some hit =>
            rw [hfh] at hm
            simp only [] at hm
            cases hco : cacheOnR r
            · rw [hco] at hm; exact lift hm
            · rw [hco] at hm
              obtain ⟨k, s', t'⟩ := hit
              simp only [if_true, Option.some.injEq, consultedEntry, Entry.mk.injEq] at hm
              obtain ⟨rfl, rfl, rfl⟩ := hm
              exact ⟨r, t', List.suffix_cons op r, hco, hfh, rfl⟩
      · simp only [e, if_false] at hm; exact lift hm
    cases op with
    | registerString m s' =>
      have h' : (if m = n then some (registeredEntry s') else heldR r n) = some ⟨s, some i, t⟩ := h
      by_cases e : m = n
      · simp only [e, if_true, registeredEntry, Option.some.injEq, Entry.mk.injEq] at h'
        exact absurd h'.2.1 (by simp)
      · simp only [e, if_false] at h'; exact lift h'
    | registerTemplate m s' =>
      have h' : (if m = n then some (registeredEntry s') else heldR r n) = some ⟨s, some i, t⟩ := h
      by_cases e : m = n
      · simp only [e, if_true, registeredEntry, Option.some.injEq, Entry.mk.injEq] at h'
        exact absurd h'.2.1 (by simp)
      · simp only [e, if_false] at h'; exact lift h'
    | load m => exact hcall m h
    | render m => exact hcall m h
    | setCache b => exact lift h
    | setAutoReload b => exact lift h
    | setDevMode b => exact lift h
    | registerLoader ts => exact lift h
    | loaderPut j m s t => exact lift h
    | loaderDelete j m => exact lift h
    | loaderTouch j m t => exact lift h

/-- the loader of a held template is a registered loader -/
theorem heldR_loader_lt {r : List Op} {n : Name} {s : Src} {i : Nat} {t : Time}
    (h : heldR r n = some ⟨s, some i, t⟩) : i < nLoadersR r := by
  obtain ⟨r0, t0, h1, _, h3, _⟩ := heldR_origin r n s i t h
  rw [firstHolderR_some] at h3
  exact Nat.lt_of_lt_of_le h3.1 (nLoadersR_le_of_suffix h1)


/-! ## consequences of a verdict for one call -/

/-- what the loaders give when they are consulted -/
def holderOut : Option (Nat × Src × Time) → Out
  | some (_, s, _) => .served s
  | none => .notFound

/-- which loaders get one `Load(n)` when they are consulted: all up to and including the first holder -/
def consultReadsR (r : List Op) (n : Name) (i : Nat) : Nat :=
  match firstHolderR r n with
  | some (k, _, _) => if i ≤ k then 1 else 0
  | none => if i < nLoadersR r then 1 else 0

theorem checked_templates (σ : State) (n : Name) : (σ.checked n).templates = σ.templates := by
  unfold State.checked
  split
  · split <;> rfl
  · rfl

theorem Sim.call_useHeld {σ : State} {r : List Op} (h : Sim σ r) {n : Name} {s : Src}
    (hv : verdictR r n = .useHeld s) :
    serve σ n = .served s ∧ (∀ i m, (Twig.EngineCache.load σ n).1.loads i m = σ.loads i m) ∧
    (Twig.EngineCache.load σ n).1.templates = σ.templates := by
  refine ⟨?_, ?_, ?_⟩
  · unfold serve; rw [(h.load n).2]; unfold expectedR; rw [hv]
  · intro i m; rw [h.load_loads n i m]; unfold expectedLoadsR; rw [hv]; simp
  · rw [load_canon, h.verdict_eq n, hv]; exact checked_templates σ n

theorem Sim.call_consult {σ : State} {r : List Op} (h : Sim σ r) {n : Name}
    (hv : verdictR r n = .consult) :
    serve σ n = holderOut (firstHolderR r n) ∧
    (∀ i m, (Twig.EngineCache.load σ n).1.loads i m = σ.loads i m + (if m = n then consultReadsR r n i else 0)) ∧
    (∀ n', (Twig.EngineCache.load σ n).1.templates n' =
      if n' = n then
        (match firstHolderR r n with
         | some hit => if cacheOnR r then some (consultedEntry (tsAwareR r) hit) else σ.templates n
         | none => σ.templates n)
      else σ.templates n') := by
  refine ⟨?_, ?_, ?_⟩
  · unfold serve; rw [(h.load n).2]; unfold expectedR; rw [hv]
    cases firstHolderR r n with
    | none => rfl
    | some hit => rfl
  · intro i m; rw [h.load_loads n i m]; unfold expectedLoadsR consultReadsR; rw [hv]; rfl
  · intro n'
    rw [(h.load n).1.held n', heldR_load, h.held n', h.held n]
    by_cases e : n' = n
    · subst e; simp only [if_true, hv]
    · have : ¬ n = n' := fun x => e x.symm
      simp only [this, e, if_false]

/-- when are the loaders consulted? (read off `Spec.verdict`) -/
def changed (c : Option (Src × Time)) (t : Time) : Bool :=
  match c with
  | none => true
  | some (_, t') => decide (t' > t)

theorem verdictR_none {r : List Op} {n : Name} (h : heldR r n = none) : verdictR r n = .consult := by
  unfold verdictR; rw [h]; rfl

theorem verdictR_cached {r : List Op} {n : Name} {s : Src} {i : Nat} {t : Time}
    (h : heldR r n = some ⟨s, some i, t⟩) :
    verdictR r n =
      if cacheOnR r = false then .consult
      else if autoReloadR r = false then .useHeld s
      else if tsAwareR r i = false then .useHeld s
      else if changed (contentR r i n) t then .consult else .useHeld s := by
  unfold verdictR; rw [h]
  unfold Spec.verdict changed
  cases hc : cacheOnR r <;> cases ha : autoReloadR r <;> cases hts : tsAwareR r i <;> simp [hts]
  cases contentR r i n with
  | none => simp
  | some p => obtain ⟨s', t'⟩ := p; simp

/-! ## history-shaped helpers -/

theorem registeredR_append (r' r : List Op) (n : Name) (reg : Op) (s : Src)
    (hreg : reg = .registerString n s ∨ reg = .registerTemplate n s)
    (hno : ∀ op, op ∈ r' → Op.registers op n = false) : registeredR (r' ++ reg :: r) n = some s := by
  induction r' with
  | nil => rcases hreg with rfl | rfl <;> simp [registeredR]
  | cons op r' ih =>
    have h1 := hno op (by simp)
    have h2 := ih (fun o ho => hno o (by simp [ho]))
    cases op <;> simp only [List.cons_append, registeredR] <;> try exact h2
    all_goals (simp only [Op.registers, beq_eq_false_iff_ne, ne_eq] at h1; rw [if_neg h1]; exact h2)

theorem loaderContent_append (r' r : List Op) (hl : ∀ op, op ∈ r' → Op.isLoaderContent op = true) :
    cacheOnR (r' ++ r) = cacheOnR r ∧ autoReloadR (r' ++ r) = autoReloadR r ∧ ∀ n, heldR (r' ++ r) n = heldR r n := by
  induction r' with
  | nil => exact ⟨rfl, rfl, fun _ => rfl⟩
  | cons op r' ih =>
    have h1 := hl op (by simp)
    have h2 := ih (fun o ho => hl o (by simp [ho]))
    cases op <;> simp only [Op.isLoaderContent] at h1 <;> first | exact h2 | cases h1

theorem not_provided (r : List Op) (n : Name) (hnp : ∀ op, op ∈ r → Op.provides op n = false) :
    (∀ i, contentR r i n = none) ∧ heldR r n = none := by
  induction r with
  | nil => exact ⟨fun _ => rfl, rfl⟩
  | cons op r ih =>
    have h1 := hnp op (by simp)
    obtain ⟨ic, ihh⟩ := ih (fun o ho => hnp o (by simp [ho]))
    have hcall : ∀ m, heldR (.load m :: r) n = none := by
      intro m
      rw [heldR_load]
      by_cases e : m = n
      · simp only [e, if_true, verdictR_none ihh, (firstHolderR_none r n).mpr ic]; exact ihh
      · simp only [e, if_false]; exact ihh
    cases op with
    | registerString m s =>
      simp only [Op.provides, beq_eq_false_iff_ne, ne_eq] at h1
      refine ⟨ic, ?_⟩
      show (if m = n then some (registeredEntry s) else heldR r n) = none
      rw [if_neg h1]; exact ihh
    | registerTemplate m s =>
      simp only [Op.provides, beq_eq_false_iff_ne, ne_eq] at h1
      refine ⟨ic, ?_⟩
      show (if m = n then some (registeredEntry s) else heldR r n) = none
      rw [if_neg h1]; exact ihh
    | loaderPut j m s t =>
      simp only [Op.provides, beq_eq_false_iff_ne, ne_eq] at h1
      refine ⟨fun i => ?_, ihh⟩
      simp only [contentR]
      rw [if_neg (fun hx => h1 hx.2.1)]; exact ic i
    | loaderDelete j m =>
      refine ⟨fun i => ?_, ihh⟩
      simp only [contentR]
      split
      · rfl
      · exact ic i
    | loaderTouch j m t =>
      refine ⟨fun i => ?_, ihh⟩
      simp only [contentR]
      split
      · rw [ic i]
      · exact ic i
    | load m => exact ⟨ic, hcall m⟩
    | render m => exact ⟨ic, hcall m⟩
    | setCache b => exact ⟨ic, ihh⟩
    | setAutoReload b => exact ⟨ic, ihh⟩
    | setDevMode b => exact ⟨ic, ihh⟩
    | registerLoader ts => exact ⟨ic, ihh⟩


/-! ## histories in which every content change carries a strictly newer mtime -/

/-- the mtime an operation writes, if any -/
def Op.time : Op → Option Time
  | .loaderPut _ _ _ t => some t
  | .loaderTouch _ _ t => some t
  | _ => none

/-- all mtimes written so far -/
def timesR : List Op → List Time
  | [] => []
  | op :: r => match op.time with
    | some t => t :: timesR r
    | none => timesR r

/-- every put/touch carries an mtime strictly greater than every mtime written before it -/
def monotoneR : List Op → Bool
  | [] => true
  | op :: r => (match op.time with
    | some t => (timesR r).all (fun t' => decide (t' < t))
    | none => true) && monotoneR r

theorem monotoneR_tail {op : Op} {r : List Op} (h : monotoneR (op :: r) = true) : monotoneR r = true := by
  simp only [monotoneR, Bool.and_eq_true] at h; exact h.2

theorem contentR_time_mem : ∀ (r : List Op) (i : Nat) (n : Name) (s : Src) (t : Time),
    contentR r i n = some (s, t) → t ∈ timesR r := by
  intro r
  induction r with
  | nil => intro i n s t h; cases h
  | cons op r ih =>
    intro i n s t h
    cases op with
    | loaderPut j m s' t' =>
      simp only [contentR] at h
      simp only [timesR, Op.time]
      split at h
      · simp only [Option.some.injEq, Prod.mk.injEq] at h; rw [← h.2]; simp
      · exact List.mem_cons_of_mem _ (ih i n s t h)
    | loaderTouch j m t' =>
      simp only [contentR] at h
      simp only [timesR, Op.time]
      split at h
      · cases hc : contentR r i n with
        | none => rw [hc] at h; cases h
        | some p =>
          obtain ⟨s'', t''⟩ := p
          rw [hc] at h
          simp only [Option.some.injEq, Prod.mk.injEq] at h; rw [← h.2]; simp
      · exact List.mem_cons_of_mem _ (ih i n s t h)
    | loaderDelete j m =>
      simp only [contentR] at h
      split at h
      · cases h
      · exact ih i n s t h
    | setCache b => exact ih i n s t h
    | setAutoReload b => exact ih i n s t h
    | setDevMode b => exact ih i n s t h
    | registerLoader ts => exact ih i n s t h
    | registerString m s' => exact ih i n s t h
    | registerTemplate m s' => exact ih i n s t h
    | load m => exact ih i n s t h
    | render m => exact ih i n s t h

theorem timesR_append_mem {t : Time} {r0 : List Op} (pre : List Op) (h : t ∈ timesR r0) : t ∈ timesR (pre ++ r0) := by
  induction pre with
  | nil => exact h
  | cons op pre ih =>
    show t ∈ timesR (op :: (pre ++ r0))
    simp only [timesR]
    split
    · exact List.mem_cons_of_mem _ ih
    · exact ih

/-- Under a monotone clock, if loader `i` held `(s, t)` for `n` at an earlier moment and now holds something
    whose mtime is not newer, it holds exactly `(s, t)`. -/
theorem monotone_unchanged (r0 : List Op) (i : Nat) (n : Name) (s : Src) (t : Time)
    (h0 : contentR r0 i n = some (s, t)) : ∀ (pre : List Op) (s' : Src) (t' : Time),
    monotoneR (pre ++ r0) = true → contentR (pre ++ r0) i n = some (s', t') → t' ≤ t → s' = s ∧ t' = t := by
  intro pre
  induction pre with
  | nil => intro s' t' _ hc _; rw [List.nil_append, h0] at hc; cases hc; exact ⟨rfl, rfl⟩
  | cons op pre ih =>
    intro s' t' hm hc hle
    have hm' := monotoneR_tail hm
    have hmem : t ∈ timesR (pre ++ r0) := timesR_append_mem pre (contentR_time_mem r0 i n s t h0)
    have newer : ∀ tt, op.time = some tt → t < tt := by
      intro tt ht
      have hm2 : monotoneR (op :: (pre ++ r0)) = true := hm
      simp only [monotoneR, ht, Bool.and_eq_true, List.all_eq_true, decide_eq_true_eq] at hm2
      exact hm2.1 t hmem
    have hc' : contentR (op :: (pre ++ r0)) i n = some (s', t') := hc
    cases op with
    | loaderPut j m s'' t'' =>
      simp only [contentR] at hc'
      split at hc'
      · simp only [Option.some.injEq, Prod.mk.injEq] at hc'
        have := newer t'' rfl
        rw [hc'.2] at this
        exact absurd (Int.lt_of_lt_of_le this hle) (Int.lt_irrefl _)
      · exact ih s' t' hm' hc' hle
    | loaderTouch j m t'' =>
      simp only [contentR] at hc'
      split at hc'
      · cases hcc : contentR (pre ++ r0) i n with
        | none => rw [hcc] at hc'; cases hc'
        | some p =>
          obtain ⟨s3, t3⟩ := p
          rw [hcc] at hc'
          simp only [Option.some.injEq, Prod.mk.injEq] at hc'
          have := newer t'' rfl
          rw [hc'.2] at this
          exact absurd (Int.lt_of_lt_of_le this hle) (Int.lt_irrefl _)
      · exact ih s' t' hm' hc' hle
    | loaderDelete j m =>
      simp only [contentR] at hc'
      split at hc'
      · cases hc'
      · exact ih s' t' hm' hc' hle
    | setCache b => exact ih s' t' hm' hc' hle
    | setAutoReload b => exact ih s' t' hm' hc' hle
    | setDevMode b => exact ih s' t' hm' hc' hle
    | registerLoader ts => exact ih s' t' hm' hc' hle
    | registerString m s'' => exact ih s' t' hm' hc' hle
    | registerTemplate m s'' => exact ih s' t' hm' hc' hle
    | load m => exact ih s' t' hm' hc' hle
    | render m => exact ih s' t' hm' hc' hle

end Twig.EngineCache
