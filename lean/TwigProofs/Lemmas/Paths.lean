/-
  TwigProofs.Lemmas.Paths — facts about template-name resolution (`resolveTpl`) and the path functions
  `pathClean` / `pathDir` / `pathJoin` of `TwigModel.Render` (Go's `path/filepath` on Unix):
    * `resolveTpl_some` / `_some_cases` / `_none` / `_congr`: what a resolution result says about the template store;
    * `splitSlash_joinSlash`: splitting what was joined gives the elements back;
    * `NormalStk`, `cleanStep_normal`, `foldl_cleanStep_reverse`: the stacks `Clean` builds and reads back;
    * `pathClean_shape` / `pathJoin_shape`: a cleaned path is `.` or kept elements joined by single slashes;
    * `pathClean_idem`, `pathDir_clean`, `pathJoin_clean`, `resolved_name_clean`: cleaning is idempotent.
-/
import TwigModel.Render
namespace Twig

/-! ## `resolveTpl` -/

/-- the name a template is found under is registered -/
theorem resolveTpl_some {E : Env} {name rn : Bytes} (h : resolveTpl E name = some rn) :
    ∃ nodes, E.tpl? rn = some nodes := by
  unfold resolveTpl at h
  split at h
  · dsimp only at h
    split at h
    · rename_i nodes hn; cases h; exact ⟨nodes, hn⟩
    · split at h
      · cases h
      · cases ht : E.tpl? name with
        | none => rw [ht] at h; cases h
        | some nodes => rw [ht] at h; cases h; exact ⟨nodes, ht⟩
  · cases ht : E.tpl? name with
    | none => rw [ht] at h; cases h
    | some nodes => rw [ht] at h; cases h; exact ⟨nodes, ht⟩

/-- … and it is the written name or the written name joined to the entry template's directory -/
theorem resolveTpl_some_cases {E : Env} {name rn : Bytes} (h : resolveTpl E name = some rn) :
    rn = name ∨ (isRelative name = true ∧ E.entry ≠ [] ∧ rn = pathJoin (pathDir E.entry) name) := by
  unfold resolveTpl at h
  split at h
  · rename_i hc
    simp only [Bool.and_eq_true, bne_iff_ne, ne_eq] at hc
    dsimp only at h
    split at h
    · cases h; exact .inr ⟨hc.1, hc.2, rfl⟩
    · split at h
      · cases h
      · cases ht : E.tpl? name with
        | none => rw [ht] at h; cases h
        | some nodes => rw [ht] at h; cases h; exact .inl rfl
  · cases ht : E.tpl? name with
    | none => rw [ht] at h; cases h
    | some nodes => rw [ht] at h; cases h; exact .inl rfl

theorem resolveTpl_not_relative_eq {E : Env} {name rn : Bytes} (hr : isRelative name = false)
    (h : resolveTpl E name = some rn) : rn = name := by
  rcases resolveTpl_some_cases h with h | ⟨h, _, _⟩
  · exact h
  · rw [hr] at h; cases h

/-- not found: no template is registered under the written name (nor under the resolved one) -/
theorem resolveTpl_none {E : Env} {name : Bytes} (h : resolveTpl E name = none) : E.tpl? name = none := by
  unfold resolveTpl at h
  split at h
  · dsimp only at h
    split at h
    · cases h
    · rename_i hr
      split at h
      · rename_i heq
        rw [← eq_of_beq heq]; exact hr
      · cases ht : E.tpl? name with
        | none => rfl
        | some nodes => rw [ht] at h; cases h
  · cases ht : E.tpl? name with
    | none => rfl
    | some nodes => rw [ht] at h; cases h

theorem resolveTpl_none_resolved {E : Env} {name : Bytes} (h : resolveTpl E name = none)
    (hr : isRelative name = true) (he : E.entry ≠ []) : E.tpl? (pathJoin (pathDir E.entry) name) = none := by
  unfold resolveTpl at h
  rw [if_pos (by simp [hr, he])] at h
  dsimp only at h
  split at h
  · cases h
  · assumption

/-- resolution looks at the template store only to see which names are registered -/
theorem resolveTpl_congr {E E' : Env} (he : E'.entry = E.entry)
    (hk : ∀ n, (E'.tpl? n).isSome = (E.tpl? n).isSome) (name : Bytes) : resolveTpl E' name = resolveTpl E name := by
  have key : ∀ n, (E'.tpl? n).map (fun _ => n) = (E.tpl? n).map (fun _ => n) := by
    intro n
    have := hk n
    cases h1 : E'.tpl? n <;> cases h2 : E.tpl? n <;> simp_all
  unfold resolveTpl
  rw [he, key name]
  split
  · dsimp only
    have := hk (pathJoin (pathDir E.entry) name)
    cases h1 : E'.tpl? (pathJoin (pathDir E.entry) name) <;> cases h2 : E.tpl? (pathJoin (pathDir E.entry) name) <;> simp_all
  · rfl

/-! # The path functions -/

/-! ## `splitSlash` / `joinSlash` -/

theorem splitSlash_ne_nil (p : Bytes) : splitSlash p ≠ [] := by
  cases p with
  | nil => simp [splitSlash]
  | cons c r =>
    unfold splitSlash
    split
    · simp
    · split <;> simp

theorem splitSlash_append (e rest : Bytes) (h : (47 : UInt8) ∉ e) :
    splitSlash (e ++ 47 :: rest) = e :: splitSlash rest := by
  induction e with
  | nil => simp [splitSlash]
  | cons c e ih =>
    have hc : (c == 47) = false := by
      cases hq : c == 47 with
      | false => rfl
      | true => exact absurd (by rw [eq_of_beq hq]; exact List.mem_cons_self) h
    have he : (47 : UInt8) ∉ e := fun hm => h (List.mem_cons_of_mem _ hm)
    simp only [List.cons_append, splitSlash, hc, ih he]
    rfl

theorem splitSlash_noslash (e : Bytes) (h : (47 : UInt8) ∉ e) : splitSlash e = [e] := by
  induction e with
  | nil => rfl
  | cons c e ih =>
    have hc : (c == 47) = false := by
      cases hq : c == 47 with
      | false => rfl
      | true => exact absurd (by rw [eq_of_beq hq]; exact List.mem_cons_self) h
    have he : (47 : UInt8) ∉ e := fun hm => h (List.mem_cons_of_mem _ hm)
    simp only [splitSlash, hc, ih he]
    rfl

/-- splitting what `joinSlash` joined gives the elements back -/
theorem splitSlash_joinSlash : ∀ (xs : List Bytes), xs ≠ [] → (∀ e ∈ xs, (47 : UInt8) ∉ e) →
    splitSlash (joinSlash xs) = xs
  | [], h, _ => absurd rfl h
  | [e], _, hs => by simpa [joinSlash] using splitSlash_noslash e (hs e List.mem_cons_self)
  | e :: e2 :: r, _, hs => by
    have ih := splitSlash_joinSlash (e2 :: r) (by simp) (fun x hx => hs x (List.mem_cons_of_mem _ hx))
    simp only [joinSlash]
    rw [splitSlash_append e _ (hs e List.mem_cons_self), ih]

/-- the elements of a split path contain no slash -/
theorem splitSlash_noslash_mem : ∀ (p : Bytes), ∀ e ∈ splitSlash p, (47 : UInt8) ∉ e
  | [], e, he => by
    simp only [splitSlash, List.mem_singleton] at he
    subst he; simp
  | c :: r, e, he => by
    have ih := splitSlash_noslash_mem r
    unfold splitSlash at he
    split at he
    · rcases List.mem_cons.mp he with rfl | he
      · simp
      · exact ih e he
    · rename_i hc
      split at he
      · rename_i hs; exact absurd hs (splitSlash_ne_nil r)
      · rename_i h t hs
        rw [hs] at ih
        rcases List.mem_cons.mp he with rfl | he
        · intro hm
          rcases List.mem_cons.mp hm with hq | hm
          · exact hc (by rw [← hq]; exact beq_self_eq_true _)
          · exact ih h List.mem_cons_self hm
        · exact ih e (List.mem_cons_of_mem _ he)

theorem joinSlash_eq_nil : ∀ (s : List Bytes), (∀ e ∈ s, e ≠ []) → joinSlash s = [] → s = []
  | [], _, _ => rfl
  | [e], hs, h => absurd (by simpa [joinSlash] using h) (hs e List.mem_cons_self)
  | e :: e2 :: r, _, h => by simp [joinSlash] at h

/-! ## the stack of kept elements -/

/-- the two-dot element -/
abbrev dotdot : Bytes := [46, 46]

/-- a kept element: not empty, not `.`, no slash inside -/
def GoodElem (e : Bytes) : Prop := e ≠ [] ∧ e ≠ [46] ∧ (47 : UInt8) ∉ e

/-- the stacks `Clean` builds (most recent element first): kept elements; a `..` is kept only on an unrooted
    path, at the bottom or on top of another `..` (the leading `../..` prefix) -/
def NormalStk (rooted : Bool) : List Bytes → Prop
  | [] => True
  | t :: r => GoodElem t ∧ NormalStk rooted r ∧ (t = dotdot → rooted = false ∧ (r = [] ∨ r.head? = some dotdot))

theorem NormalStk.good {rooted : Bool} : ∀ {stk : List Bytes}, NormalStk rooted stk → ∀ e ∈ stk, GoodElem e
  | [], _, e, he => by cases he
  | t :: r, h, e, he => by
    rcases List.mem_cons.mp he with rfl | he
    · exact h.1
    · exact NormalStk.good h.2.1 e he

theorem cleanStep_normal {rooted : Bool} {stk : List Bytes} {e : Bytes} (hn : NormalStk rooted stk)
    (he : (47 : UInt8) ∉ e) : NormalStk rooted (cleanStep rooted stk e) := by
  unfold cleanStep
  split
  · exact hn
  · rename_i hskip
    simp only [Bool.or_eq_true, beq_iff_eq, not_or] at hskip
    split
    · rename_i hdd
      have hdd : e = dotdot := eq_of_beq hdd
      subst hdd
      split
      · cases rooted
        · exact ⟨⟨by simp, by simp, he⟩, trivial, fun _ => ⟨rfl, .inl rfl⟩⟩
        · exact trivial
      · rename_i t r
        split
        · rename_i ht
          have ht : t = dotdot := eq_of_beq ht
          exact ⟨⟨by simp, by simp, he⟩, hn, fun _ => ⟨(hn.2.2 ht).1, .inr (by simp [ht])⟩⟩
        · exact hn.2.1
    · rename_i hdd
      exact ⟨⟨hskip.1, hskip.2, he⟩, hn, fun h => absurd (by rw [h]; exact beq_self_eq_true _) hdd⟩

theorem foldl_cleanStep_normal {rooted : Bool} : ∀ (es : List Bytes) (stk : List Bytes), NormalStk rooted stk →
    (∀ e ∈ es, (47 : UInt8) ∉ e) → NormalStk rooted (es.foldl (cleanStep rooted) stk)
  | [], _, hn, _ => hn
  | e :: es, _, hn, hs =>
    foldl_cleanStep_normal es _ (cleanStep_normal hn (hs e List.mem_cons_self))
      (fun x hx => hs x (List.mem_cons_of_mem _ hx))

/-- pushing a kept element onto a normal stack it may stand on really pushes it -/
theorem cleanStep_push {rooted : Bool} {t : Bytes} {r : List Bytes} (h : NormalStk rooted (t :: r)) :
    cleanStep rooted r t = t :: r := by
  obtain ⟨⟨h1, h2, _⟩, _, h4⟩ := h
  unfold cleanStep
  have hskip : (t == [] || t == [46]) = false := by simp [h1, h2]
  rw [if_neg (by rw [hskip]; exact Bool.false_ne_true)]
  split
  · rename_i hdd
    obtain ⟨hr, htop⟩ := h4 (eq_of_beq hdd)
    rcases htop with rfl | htop
    · simp [hr]
    · cases r with
      | nil => simp at htop
      | cons t' r' =>
        simp only [List.head?_cons, Option.some.injEq] at htop
        simp [htop]
  · rfl

/-- reading a normal stack bottom-up rebuilds it -/
theorem foldl_cleanStep_reverse {rooted : Bool} : ∀ (stk : List Bytes), NormalStk rooted stk →
    stk.reverse.foldl (cleanStep rooted) [] = stk
  | [], _ => rfl
  | t :: r, h => by
    rw [List.reverse_cons, List.foldl_append, foldl_cleanStep_reverse r h.2.1]
    exact cleanStep_push h

/-! ## `pathClean` -/

theorem pathClean_cons (c : UInt8) (r : Bytes) :
    pathClean (c :: r) =
      (if (c == 47) = true then 47 :: joinSlash ((splitSlash (c :: r)).foldl (cleanStep (c == 47)) []).reverse
       else if joinSlash ((splitSlash (c :: r)).foldl (cleanStep (c == 47)) []).reverse == [] then [46]
       else joinSlash ((splitSlash (c :: r)).foldl (cleanStep (c == 47)) []).reverse) := rfl

/-- the shape of a cleaned path: `.`, or kept elements (none empty, none `.`, none containing a slash) joined by
    slashes, behind a slash if the path is rooted -/
theorem pathClean_shape (p : Bytes) :
    ∃ s : List Bytes, (∀ e ∈ s, GoodElem e) ∧
      pathClean p = (if p.head? = some 47 then 47 :: joinSlash s else if s = [] then [46] else joinSlash s) := by
  cases p with
  | nil => exact ⟨[], (fun _ h => by cases h), rfl⟩
  | cons c r =>
    have hn := foldl_cleanStep_normal (rooted := c == 47) (splitSlash (c :: r)) [] trivial (splitSlash_noslash_mem _)
    refine ⟨((splitSlash (c :: r)).foldl (cleanStep (c == 47)) []).reverse,
      fun e he => hn.good e (List.mem_reverse.mp he), ?_⟩
    rw [pathClean_cons]
    by_cases hc : (c == 47) = true
    · rw [if_pos hc, if_pos (by simp [eq_of_beq hc])]
    · have hc' : ¬ (c = 47) := fun h => hc (by rw [h]; exact beq_self_eq_true _)
      have hh : ¬ ((c :: r).head? = some 47) := by simpa using hc'
      rw [if_neg hc, if_neg hh]
      by_cases hs : ((splitSlash (c :: r)).foldl (cleanStep (c == 47)) []).reverse = []
      · rw [hs]; rfl
      · have hj : ¬ ((joinSlash ((splitSlash (c :: r)).foldl (cleanStep (c == 47)) []).reverse == []) = true) := fun hj =>
          hs (joinSlash_eq_nil _ (fun e he => (hn.good e (List.mem_reverse.mp he)).1) (eq_of_beq hj))
        rw [if_neg hj, if_neg hs]

theorem pathJoin_shape (d n : Bytes) (hd : d ≠ []) :
    ∃ s : List Bytes, (∀ e ∈ s, GoodElem e) ∧
      pathJoin d n = (if d.head? = some 47 then 47 :: joinSlash s else if s = [] then [46] else joinSlash s) := by
  cases d with
  | nil => exact absurd rfl hd
  | cons c r =>
    obtain ⟨s, hs, h⟩ := pathClean_shape ((c :: r) ++ 47 :: n)
    exact ⟨s, hs, h⟩

theorem joinSlash_head : ∀ (s : List Bytes), s ≠ [] → (∀ e ∈ s, GoodElem e) →
    ∃ c q, joinSlash s = c :: q ∧ (c == 47) = false
  | [], h, _ => absurd rfl h
  | [e], _, hs => by
    obtain ⟨h1, _, h3⟩ := hs e List.mem_cons_self
    cases e with
    | nil => exact absurd rfl h1
    | cons c q =>
      refine ⟨c, q, rfl, ?_⟩
      cases hq : c == 47 with
      | false => rfl
      | true => exact absurd (by rw [eq_of_beq hq]; exact List.mem_cons_self) h3
  | e :: e2 :: r, _, hs => by
    obtain ⟨h1, _, h3⟩ := hs e List.mem_cons_self
    cases e with
    | nil => exact absurd rfl h1
    | cons c q =>
      refine ⟨c, q ++ 47 :: joinSlash (e2 :: r), rfl, ?_⟩
      cases hq : c == 47 with
      | false => rfl
      | true => exact absurd (by rw [eq_of_beq hq]; exact List.mem_cons_self) h3

/-- **`Clean` is idempotent** -/
theorem pathClean_idem (p : Bytes) : pathClean (pathClean p) = pathClean p := by
  cases p with
  | nil => decide
  | cons c r =>
    have hn := foldl_cleanStep_normal (rooted := c == 47) (splitSlash (c :: r)) [] trivial (splitSlash_noslash_mem _)
    rw [pathClean_cons]
    generalize hstk : (splitSlash (c :: r)).foldl (cleanStep (c == 47)) [] = stk at hn
    have hgood : ∀ e ∈ stk.reverse, GoodElem e := fun e he => hn.good e (List.mem_reverse.mp he)
    have hns : ∀ e ∈ stk.reverse, (47 : UInt8) ∉ e := fun e he => (hgood e he).2.2
    by_cases hc : (c == 47) = true
    · rw [if_pos hc, pathClean_cons]
      rw [hc] at hn
      have h47 : ((47 : UInt8) == 47) = true := rfl
      rw [if_pos h47, h47]
      congr 2
      by_cases hs : stk = []
      · subst hs; decide
      · have hs' : stk.reverse ≠ [] := by simpa using hs
        have : splitSlash (47 :: joinSlash stk.reverse) = [] :: stk.reverse := by
          simp only [splitSlash, h47, if_true, splitSlash_joinSlash _ hs' hns]
        rw [this, List.foldl_cons]
        have : cleanStep true [] [] = [] := rfl
        rw [this, foldl_cleanStep_reverse stk hn]
    · rw [if_neg hc]
      have hcf : (c == 47) = false := by simpa using hc
      rw [hcf] at hn
      by_cases hs : stk = []
      · subst hs; decide
      · have hs' : stk.reverse ≠ [] := by simpa using hs
        have hne : ¬ ((joinSlash stk.reverse == []) = true) := fun hj =>
          hs' (joinSlash_eq_nil _ (fun e he => (hgood e he).1) (eq_of_beq hj))
        rw [if_neg hne]
        obtain ⟨c', q, hq, hc'⟩ := joinSlash_head _ hs' hgood
        have hsplit := splitSlash_joinSlash _ hs' hns
        rw [hq] at hsplit hne ⊢
        rw [pathClean_cons, hc', hsplit, foldl_cleanStep_reverse stk hn]
        rw [if_neg (by simp), hq, if_neg hne]

theorem pathDir_clean (p : Bytes) : pathClean (pathDir p) = pathDir p := pathClean_idem _

/-- a joined path is clean (unless both parts are empty: `Join("", "") = ""`) -/
theorem pathJoin_clean (d n : Bytes) (h : d ≠ [] ∨ n ≠ []) : pathClean (pathJoin d n) = pathJoin d n := by
  cases d with
  | nil =>
    cases n with
    | nil => rcases h with h | h <;> exact absurd rfl h
    | cons c r => exact pathClean_idem (c :: r)
  | cons c r => exact pathClean_idem ((c :: r) ++ 47 :: n)

theorem pathClean_ne_nil (p : Bytes) : pathClean p ≠ [] := by
  intro h
  obtain ⟨s, hgood, hs⟩ := pathClean_shape p
  rw [h] at hs
  split at hs
  · cases hs
  · split at hs
    · cases hs
    · rename_i _ hne
      exact hne (joinSlash_eq_nil s (fun e he => (hgood e he).1) hs.symm)

theorem pathDir_ne_nil (p : Bytes) : pathDir p ≠ [] := pathClean_ne_nil _

/-- what `resolveTpl` looks up first for a relative name is a clean path -/
theorem resolved_name_clean (entry name : Bytes) :
    pathClean (pathJoin (pathDir entry) name) = pathJoin (pathDir entry) name :=
  pathJoin_clean _ _ (.inl (pathDir_ne_nil entry))

end Twig
