/-
  TwigProofs.Lemmas.RenderTrace — proof infrastructure shared by C06 (sandbox confinement) and C17
  (error propagation) over the frozen render model `TwigModel.Render`.

  * tactics `apply_hyp`, `guard_ctx_literal`, `guard_two_ites`, `split_hyp_ands` (small Meta helpers that
    work with reducible unification only, so that no model function is ever unfolded by accident);
  * `Holds P m`  — postcondition on the final state of a successful run of `m : R (α × St)`, bind rules,
    tactic `wp` that walks a `do` block;
  * `RelOk` / `evalX_rel` — ONE generic pass over the expression evaluator (functional induction
    `evalX.mutual_induct`) for any reflexive-transitive state relation that the primitive steps (filter
    application, function call after the outer check, spy test, test event) satisfy;
    `relOk_of_prims` for relations that only care about emissions and spy invocations;
  * `Post K T m o` / `CtxDeriv` / `NodeOk` / `run_post` — ONE generic pass over the node level
    (`renderNode.mutual_induct`, `loopOver`, `printVal`, `renderRoot`, `bindParams`, `callMacro`, and
    induction on fuel for `run`) for a context predicate `K` preserved by the model's context
    derivations and a relation `T` on the observable part of the state; tactics `wpk`, `kderiv`;
  * `Agree X r₀ rₙ` / `AgJ` — "unless the faulty run fails with `X`, both runs coincide", bind rules,
    tactic `ag` that walks two `do` blocks in parallel;
  * decidable views `summary` / `errClass` of render results for concrete instances.
-/
import TwigModel.Render
import Lean

/-- close the goal with a hypothesis (possibly universally quantified) whose conclusion has the same
    head symbol as the goal; premises it leaves are closed by `assumption` (with `!`, propositional
    premises that are not assumptions become new goals).  Reducible unification only, so no model
    function is unfolded. -/
syntax "apply_hyp" ("!")? : tactic
open Lean Elab Tactic Meta in
elab_rules : tactic | `(tactic| apply_hyp $[!%$bang]?) => withMainContext do
  let leave := bang.isSome
  let g ← getMainGoal
  let tgt := (← instantiateMVars (← g.getType)).consumeMData.headBeta.consumeMData
  let hd := tgt.getAppFn
  unless hd.isConst || hd.isFVar do throwError "apply_hyp: goal has no head symbol"
  for ldecl in (← getLCtx) do
    if ldecl.isImplementationDetail then continue
    let ty ← instantiateMVars ldecl.type
    let concl := ty.consumeMData.getForallBody.consumeMData
    if concl.getAppFn != hd then continue
    let s ← saveState
    try
      let gs ← withReducible (g.apply ldecl.toExpr)
      let mut ok := true
      let mut rest : List MVarId := []
      for g' in gs do
        if ← g'.isAssigned then continue
        try withReducible g'.assumption catch _ =>
          if leave && (← isProp (← g'.getType)) then rest := rest ++ [g'] else ok := false
      if ok then
        replaceMainGoal rest
        return
      else s.restore
    catch _ => s.restore
  throwError "apply_hyp: no hypothesis applies"

open Lean Elab Tactic Meta in
/-- succeeds iff the goal is `K (Ctx.mk …)` for some head `K`: the argument is a context literal
    (guards the rules about structure updates against structure eta on arbitrary terms) -/
elab "guard_ctx_literal" : tactic => withMainContext do
  let tgt := (← instantiateMVars (← (← getMainGoal).getType)).consumeMData
  let args := tgt.getAppArgs
  if h : args.size = 0 then throwError "guard_ctx_literal: not an application"
  else
    let a := args[args.size - 1].consumeMData
    unless a.getAppFn.isConstOf ``Twig.Ctx.mk do throwError "guard_ctx_literal: not a context literal"

open Lean Elab Tactic Meta in
/-- succeeds iff the last two arguments of the goal are both `if … then … else …` -/
elab "guard_two_ites" : tactic => withMainContext do
  let tgt := (← instantiateMVars (← (← getMainGoal).getType)).consumeMData
  let args := tgt.getAppArgs
  if h : args.size < 2 then throwError "guard_two_ites: not a binary relation"
  else
    let a := args[args.size - 2].consumeMData
    let c := args[args.size - 1].consumeMData
    unless a.isAppOf ``ite && c.isAppOf ``ite do throwError "guard_two_ites: not two ifs"

open Lean Elab Tactic Meta in
/-- split every conjunction among the hypotheses -/
elab "split_hyp_ands" : tactic => liftMetaTactic fun g => do return [← g.casesAnd]

namespace Twig

/-- bind inversion for the result monad -/
theorem rt_bind_ok {α β} {x : R α} {f : α → R β} {b : β}
    (h : (x >>= f) = .ok b) : ∃ a, x = .ok a ∧ f a = .ok b := by
  cases x with
  | error e => simp [bind, Except.bind] at h
  | ok a => exact ⟨a, rfl, h⟩

theorem rt_bind_error {α β} {x : R α} {f : α → R β} {e : Err}
    (h : x = .error e) : (x >>= f) = .error e := by subst h; rfl

theorem bind_of_ok {α β} {x : R α} {f : α → R β} {a : α}
    (h : x = .ok a) : (x >>= f) = f a := by subst h; rfl

/-! ## Postconditions on successful runs -/

/-- postcondition on the final state of a successful run -/
def Holds {α} (P : St → Prop) (m : R (α × St)) : Prop := ∀ a st', m = .ok (a, st') → P st'

theorem holds_error {α} (P : St → Prop) (e : Err) : Holds (α := α) P (.error e) := by
  intro a st' h; cases h
theorem holds_unsup {α} (P : St → Prop) (w : String) : Holds (α := α) P (unsup w) := holds_error _ _
theorem holds_rerr {α} (P : St → Prop) (w : String) : Holds (α := α) P (rerr w) := holds_error _ _
theorem holds_secErr {α} (P : St → Prop) (w : String) : Holds (α := α) P (secErr w) := holds_error _ _
theorem holds_ok {α} {P : St → Prop} {a : α} {st : St} (h : P st) : Holds P (.ok (a, st)) := by
  intro a st' h'; cases h'; exact h
theorem holds_pure {α} {P : St → Prop} {a : α} {st : St} (h : P st) : Holds P (pure (a, st)) := holds_ok h
theorem holds_elim {α} {P : St → Prop} {m : R (α × St)} {a : α} {st : St}
    (h : Holds P m) (e : m = .ok (a, st)) : P st := h a st e
theorem holds_mono {α} {P Q : St → Prop} {m : R (α × St)} (h : Holds P m) (hpq : ∀ s, P s → Q s) : Holds Q m :=
  fun a st' e => hpq _ (h a st' e)

/-- a reflexive and transitive relation between an earlier and a later state -/
structure Pre (P : St → St → Prop) : Prop where
  refl : ∀ st, P st st
  trans : ∀ {a b c}, P a b → P b c → P a c

theorem holds_bind {α β} {P : St → St → Prop} (hP : Pre P) {st : St} {m : R (α × St)} {k : α × St → R (β × St)}
    (hm : Holds (P st) m) (hk : ∀ a st1, P st st1 → Holds (P st1) (k (a, st1))) : Holds (P st) (m >>= k) := by
  intro b st' h
  obtain ⟨⟨a, st1⟩, h1, h2⟩ := rt_bind_ok h
  exact hP.trans (hm a st1 h1) (hk a st1 (hm a st1 h1) b st' h2)

theorem holds_bind3 {α β γ} {P : St → St → Prop} (hP : Pre P) {st : St} {m : R ((α × γ) × St)}
    {k : (α × γ) × St → R (β × St)}
    (hm : Holds (P st) m) (hk : ∀ a c st1, P st st1 → Holds (P st1) (k ((a, c), st1))) : Holds (P st) (m >>= k) :=
  holds_bind hP hm (fun ⟨a, c⟩ st1 h => hk a c st1 h)

/-- bind of a computation that does not touch the state -/
theorem holds_bindR {α β} {P : St → Prop} {m : R α} {k : α → R (β × St)}
    (hk : ∀ a, m = .ok a → Holds P (k a)) : Holds P (m >>= k) := by
  intro b st' h
  obtain ⟨a, h1, h2⟩ := rt_bind_ok h
  exact hk a h1 b st' h2

/-- one step of the walk through a `do` block; `hP : Pre P` -/
syntax "wp1 " term : tactic
macro_rules | `(tactic| wp1 $hP) => `(tactic| first
  | with_reducible exact holds_error _ _
  | with_reducible exact holds_unsup _ _
  | with_reducible exact holds_rerr _ _
  | with_reducible exact holds_secErr _ _
  | with_reducible exact holds_pure (Pre.refl $hP _)
  | with_reducible exact holds_ok (Pre.refl $hP _)
  | apply_hyp
  | (with_reducible refine holds_pure ?_; apply_hyp)
  | (with_reducible refine holds_pure (holds_elim (α := ?_) (m := ?_) (a := ?_) ?h ?e); (case e => assumption); (case h => apply_hyp))
  | with_reducible (refine holds_bind3 $hP ?_ (fun _ _ _ _ => ?_) <;> try dsimp only)
  | with_reducible (refine holds_bind $hP ?_ (fun _ _ _ => ?_) <;> try dsimp only)
  | with_reducible (refine holds_bindR (fun _ _ => ?_); try dsimp only)
  | split)
syntax "wp " term : tactic
macro_rules | `(tactic| wp $hP) => `(tactic| repeat' wp1 $hP)

/-! ## The generic pass over the expression evaluator -/

/-- what a state relation must satisfy at the primitive steps of expression evaluation -/
structure RelOk (E : Env) (P : St → St → Prop) : Prop extends Pre P where
  filter : ∀ name v args st, Holds (P st) (applyFilter E name v args st)
  func : ∀ name args st0 st, P st0 st →
      allowedCheck E st0 E.allowedFunctions name "function not allowed" = .ok () →
      Holds (P st) (callFunction E name args st)
  spyTest : ∀ name st st', invokeSpy E .test name st = .ok st' → P st st'
  emitTest : ∀ name st, P st (st.emit .test name false)

variable {E : Env} {P : St → St → Prop}

theorem invokeSpy_ok {k : CbKind} {name : Bytes} {st st' : St} (h : invokeSpy E k name st = .ok st') :
    st' = { st.emit k name true with spyCalls := st.spyCalls + 1 } := by
  unfold invokeSpy at h
  split at h
  · cases h
  · cases h; rfl

/-- a relation that holds across every event emission and every successful spy invocation holds
    across the choke points (no policy reasoning) -/
theorem relOk_of_prims (hP : Pre P) (hemit : ∀ k name st, P st (st.emit k name false))
    (hspy : ∀ k name st st', invokeSpy E k name st = .ok st' → P st st') : RelOk E P where
  toPre := hP
  spyTest := fun name st st' h => hspy .test name st st' h
  emitTest := fun name st => hemit .test name st
  filter := by
    intro name v args st r st' h
    unfold applyFilter at h
    split at h
    · cases h
    · split at h
      · obtain ⟨s1, h1, h2⟩ := rt_bind_ok h
        cases h2
        exact hspy _ _ _ _ h1
      · split at h
        · obtain ⟨x, _, h2⟩ := rt_bind_ok h
          cases h2
          exact hemit _ _ _
        · cases h
  func := by
    intro name args st0 st _ _ r st' h
    unfold callFunction at h
    split at h
    · cases h
    · split at h
      · cases h; exact hemit _ _ _
      · split at h
        · obtain ⟨s1, h1, h2⟩ := rt_bind_ok h
          cases h2
          exact hspy _ _ _ _ h1
        · split at h
          · obtain ⟨x, _, h2⟩ := rt_bind_ok h
            cases h2
            exact hemit _ _ _
          · split at h
            · cases h; exact hP.refl _
            · cases h

theorem applyChain_rel (hP : RelOk E P) : ∀ ch v st, Holds (P st) (applyChain E ch v st)
  | [], v, st => by simp only [applyChain]; exact holds_pure (hP.refl _)
  | (n, a) :: r, v, st => by
    simp only [applyChain]
    exact holds_bind hP.toPre (hP.filter n v a st) (fun v' st1 _ => applyChain_rel hP r v' st1)

theorem evalX_rel (hP : RelOk E P) :
    (∀ apply e st, Holds (P st) (evalX E apply e st)) ∧
    (∀ es st, Holds (P st) (evalPairs E es st)) ∧
    (∀ es st, Holds (P st) (evalArgs E es st)) := by
  have hp : Pre P := hP.toPre
  have hchain := applyChain_rel hP
  have hemit := hP.emitTest
  have hspy := hP.spyTest
  apply evalX.mutual_induct (motive_1 := fun apply e st => Holds (P st) (evalX E apply e st))
    (motive_2 := fun es st => Holds (P st) (evalPairs E es st))
    (motive_3 := fun es st => Holds (P st) (evalArgs E es st))
  all_goals (intros; try simp only [evalX, evalArgs, evalPairs]); all_goals wp hp
  · -- function call: the outer check was made in the state the arguments started from
    refine hP.func _ _ ?s0 _ ?p ?c
    case c => assumption
    case p => assumption
  · refine hP.func _ _ ?s0' _ ?p' ?c'
    case c' => assumption
    case p' => exact hp.trans (by assumption) (by assumption)
  · unfold evalX; rw [if_neg ‹_›]; wp hp

theorem evalX_holds (hP : RelOk E P) (apply e st) : Holds (P st) (evalX E apply e st) := (evalX_rel hP).1 apply e st
theorem evalPairs_holds (hP : RelOk E P) (es st) : Holds (P st) (evalPairs E es st) := (evalX_rel hP).2.1 es st
theorem evalArgs_holds (hP : RelOk E P) (es st) : Holds (P st) (evalArgs E es st) := (evalX_rel hP).2.2 es st

/-! ## Postconditions at the node level: a context predicate and a relation on the observable part

  At the node level the context changes (derived contexts for include / extends / import / macro
  calls, restored contexts afterwards), so facts about contexts are kept absolute (`K st.ctx`, in the
  hypotheses) and only the observable part of the state (trace, spy counter) is related to the start. -/

abbrev Obs := List Event × Nat
abbrev St.obs (st : St) : Obs := (st.trace, st.spyCalls)

/-- a successful run ends in a context satisfying `K` and an observable part related to `o` by `T` -/
def Post {α} (K : Ctx → Prop) (T : Obs → Obs → Prop) (m : R (α × St)) (o : Obs) : Prop :=
  ∀ a st', m = .ok (a, st') → K st'.ctx ∧ T o st'.obs

structure PreO (T : Obs → Obs → Prop) : Prop where
  refl : ∀ o, T o o
  trans : ∀ {a b c}, T a b → T b c → T a c

section post
variable {K : Ctx → Prop} {T : Obs → Obs → Prop}

theorem post_error {α} (e : Err) (o : Obs) : Post (α := α) K T (.error e) o := by intro a st' h; cases h
theorem post_unsup {α} (w : String) (o : Obs) : Post (α := α) K T (unsup w) o := post_error _ _
theorem post_rerr {α} (w : String) (o : Obs) : Post (α := α) K T (rerr w) o := post_error _ _
theorem post_pure {α} {a : α} {st : St} {o : Obs} (hk : K st.ctx) (ht : T o st.obs) : Post K T (pure (a, st)) o := by
  intro a st' h; cases h; exact ⟨hk, ht⟩
theorem post_ok {α} {a : α} {st : St} {o : Obs} (hk : K st.ctx) (ht : T o st.obs) : Post K T (.ok (a, st)) o :=
  post_pure hk ht

theorem post_bind {α β} (hT : PreO T) {o : Obs} {m : R (α × St)} {k : α × St → R (β × St)}
    (hm : Post K T m o) (hk : ∀ a st1, K st1.ctx → T o st1.obs → Post K T (k (a, st1)) st1.obs) :
    Post K T (m >>= k) o := by
  intro b st' h
  obtain ⟨⟨a, st1⟩, h1, h2⟩ := rt_bind_ok h
  obtain ⟨k1, t1⟩ := hm a st1 h1
  obtain ⟨k2, t2⟩ := hk a st1 k1 t1 b st' h2
  exact ⟨k2, hT.trans t1 t2⟩

theorem post_bind3 {α β γ} (hT : PreO T) {o : Obs} {m : R ((α × γ) × St)} {k : (α × γ) × St → R (β × St)}
    (hm : Post K T m o) (hk : ∀ a c st1, K st1.ctx → T o st1.obs → Post K T (k ((a, c), st1)) st1.obs) :
    Post K T (m >>= k) o :=
  post_bind hT hm (fun ⟨a, c⟩ st1 h1 h2 => hk a c st1 h1 h2)

theorem post_bindR {α β} {o : Obs} {m : R α} {k : α → R (β × St)}
    (hk : ∀ a, m = .ok a → Post K T (k a) o) : Post K T (m >>= k) o := by
  intro b st' h
  obtain ⟨a, h1, h2⟩ := rt_bind_ok h
  exact hk a h1 b st' h2

/-- an expression-level result (context unchanged) as a node-level postcondition -/
theorem post_of_holds {α} {m : R (α × St)} {st : St} (hk : K st.ctx)
    (h : Holds (fun st' => st'.ctx = st.ctx ∧ (K st.ctx → T st.obs st'.obs)) m) : Post K T m st.obs := by
  intro a st' e
  obtain ⟨hc, ht⟩ := h a st' e
  exact ⟨hc ▸ hk, ht hk⟩

end post

/-- the context derivations of the model, for a context predicate `K` -/
structure CtxDeriv (E : Env) (K : Ctx → Prop) : Prop where
  setVar : ∀ c k v, K c → K (c.setVar k v)
  delVar : ∀ c k, K c → K (c.delVar k)
  level : ∀ (c : Ctx) l, K c → K { c with level := l }
  chain : ∀ (c : Ctx) ch l ib, K c → K { c with chain := ch, level := l, inBlock := ib }
  macros : ∀ (c : Ctx) ms, K c → K { c with macros := ms }
  blockDefs : ∀ (c : Ctx) bd, K c → K { c with blockDefs := bd }
  extends_ : ∀ c : Ctx, K c →
    K { freshCtx c.vars (E.F.propExtends && c.sandboxed) c.inside with blockDefs := c.blockDefs, parents := c.parents }
  includeClone : ∀ c : Ctx, K c →
    K { vars := [], macros := c.macros, parents := c.asScope :: c.parents, sandboxed := c.sandboxed, inside := c.inside }
  includeFresh : ∀ (c : Ctx) vars sb, K c →
    K (freshCtx vars (sb || (E.F.propIncludeFresh && c.sandboxed)) (sb || c.inside))
  import_ : ∀ c : Ctx, K c → K (freshCtx [] (E.F.propImport && c.sandboxed) c.inside)
  from_ : ∀ c : Ctx, K c → K (freshCtx [] (E.F.propFrom && c.sandboxed) c.inside)
  macroCall : ∀ (c : Ctx) vars ms ps, K c →
    K { vars := vars, macros := ms, parents := ps, sandboxed := E.F.propMacro && c.sandboxed, inside := c.inside }

theorem CtxDeriv.setAll {E : Env} {K : Ctx → Prop} (h : CtxDeriv E K) : ∀ names vals c, K c → K (setAll c names vals)
  | [], _, c, hc => by simpa [Twig.setAll] using hc
  | _ :: _, [], c, hc => by simpa [Twig.setAll] using hc
  | n :: ns, v :: vs, c, hc => by
    simp only [Twig.setAll]; exact CtxDeriv.setAll h ns vs _ (h.setVar _ _ _ hc)

/-- derive `K c'` for a context `c'` the model derives from contexts known to satisfy `K` -/
syntax "kderiv " term : tactic
macro_rules | `(tactic| kderiv $hD) => `(tactic| repeat' (first
  | with_reducible assumption
  | with_reducible apply CtxDeriv.setVar $hD
  | with_reducible apply CtxDeriv.delVar $hD
  | with_reducible apply CtxDeriv.setAll $hD
  | with_reducible apply CtxDeriv.includeFresh $hD
  | with_reducible apply CtxDeriv.import_ $hD
  | with_reducible apply CtxDeriv.from_ $hD
  | (guard_ctx_literal; with_reducible apply CtxDeriv.extends_ $hD)
  | (guard_ctx_literal; with_reducible apply CtxDeriv.includeClone $hD)
  | (guard_ctx_literal; with_reducible apply CtxDeriv.macroCall $hD)
  | (guard_ctx_literal; with_reducible apply CtxDeriv.chain $hD)
  | (guard_ctx_literal; with_reducible apply CtxDeriv.macros $hD)
  | (guard_ctx_literal; with_reducible apply CtxDeriv.blockDefs $hD)
  | dsimp only
  | split))

/-- one step of the walk at the node level; `hT : PreO T` -/
syntax "wpk1 " term:max term:max : tactic
macro_rules | `(tactic| wpk1 $hT $hD) => `(tactic| first
  | with_reducible exact post_error _ _
  | with_reducible exact post_unsup _ _
  | with_reducible exact post_rerr _ _
  | apply_hyp
  | (apply_hyp ! <;> (first | (kderiv $hD; done) | skip))
  | (with_reducible refine post_pure ?_ (PreO.refl $hT _); first | (kderiv $hD; done) | skip)
  | (with_reducible refine post_bind3 $hT ?_ (fun _ _ _ _ _ => ?_) <;> try dsimp only)
  | (with_reducible refine post_bind $hT ?_ (fun _ _ _ _ => ?_) <;> try dsimp only)
  | with_reducible (refine post_bindR (fun _ _ => ?_); try dsimp only)
  | split
  | dsimp only)
syntax "wpk " term:max term:max : tactic
macro_rules | `(tactic| wpk $hT $hD) => `(tactic| repeat' wpk1 $hT $hD)

structure NodeOk (E : Env) (K : Ctx → Prop) (T : Obs → Obs → Prop) : Prop extends CtxDeriv E K where
  pre : PreO T
  expr : RelOk E (fun st st' => st'.ctx = st.ctx ∧ (K st.ctx → T st.obs st'.obs))

section node
variable {E : Env} {K : Ctx → Prop} {T : Obs → Obs → Prop}

theorem evalX_post (h : NodeOk E K T) (apply e st) (hk : K st.ctx) : Post K T (evalX E apply e st) st.obs :=
  post_of_holds hk (evalX_holds h.expr apply e st)
theorem evalArgs_post (h : NodeOk E K T) (es st) (hk : K st.ctx) : Post K T (evalArgs E es st) st.obs :=
  post_of_holds hk (evalArgs_holds h.expr es st)
theorem applyFilter_post (h : NodeOk E K T) (name v args st) (hk : K st.ctx) :
    Post K T (applyFilter E name v args st) st.obs :=
  post_of_holds hk (h.expr.filter name v args st)
theorem evalExpr_post (h : NodeOk E K T) (e st) (hk : K st.ctx) : Post K T (evalExpr E e st) st.obs := by
  have := evalX_post h true e
  unfold evalExpr
  wpk h.pre h.toCtxDeriv

/-- what the node level needs of the transfer function -/
def GoOk (K : Ctx → Prop) (T : Obs → Obs → Prop) (go : Go) : Prop :=
  ∀ tr st, K st.ctx → Post K T (go tr st) st.obs

theorem printVal_post (h : NodeOk E K T) {go : Go} (hgo : GoOk K T go) (v st) (hk : K st.ctx) :
    Post K T (printVal go v st) st.obs := by
  have hgo' : ∀ tr st, K st.ctx → Post K T (go tr st) st.obs := hgo
  unfold printVal
  wpk h.pre h.toCtxDeriv

theorem loopOver_post (h : NodeOk E K T) {f : St → R Out} (hf : ∀ st, K st.ctx → Post K T (f st) st.obs)
    (keyVar valVar n) : ∀ i items st, K st.ctx → Post K T (loopOver f keyVar valVar n i items st) st.obs
  | _, [], st, hk => by simp only [loopOver]; exact post_pure hk (h.pre.refl _)
  | i, (k, v) :: r, st, hk => by
    have ih := loopOver_post h hf keyVar valVar n (i + 1) r
    simp only [loopOver]
    wpk h.pre h.toCtxDeriv

theorem renderNode_post (h : NodeOk E K T) {go : Go} (hgo : GoOk K T go) (tpl : Bytes) :
    (∀ n st, K st.ctx → Post K T (renderNode E go tpl n st) st.obs) ∧
    (∀ ns st, K st.ctx → Post K T (renderNodes E go tpl ns st) st.obs) := by
  have hgo' : ∀ tr st, K st.ctx → Post K T (go tr st) st.obs := hgo
  have hX := evalX_post h
  have hA := evalArgs_post h
  have hF := applyFilter_post h
  have hPV := printVal_post h hgo
  have hL := fun f hf kv vv n => loopOver_post h (f := f) hf kv vv n
  apply renderNode.mutual_induct (motive_1 := fun n st => K st.ctx → Post K T (renderNode E go tpl n st) st.obs)
    (motive_2 := fun ns st => K st.ctx → Post K T (renderNodes E go tpl ns st) st.obs)
  all_goals (intros; try simp only [renderNode, renderNodes]); all_goals wpk h.pre h.toCtxDeriv

theorem renderNodes_post (h : NodeOk E K T) {go : Go} (hgo : GoOk K T go) (tpl ns st) (hk : K st.ctx) :
    Post K T (renderNodes E go tpl ns st) st.obs := (renderNode_post h hgo tpl).2 ns st hk

theorem renderRoot_post (h : NodeOk E K T) {go : Go} (hgo : GoOk K T go) (tpl st) (hk : K st.ctx) :
    Post K T (renderRoot E go tpl st) st.obs := by
  have h1 := (renderNode_post h hgo tpl).1
  have h2 := (renderNode_post h hgo tpl).2
  unfold renderRoot
  wpk h.pre h.toCtxDeriv

theorem bindParams_post (h : NodeOk E K T) (dn de) :
    ∀ ps as st acc, K st.ctx → Post K T (bindParams E dn de ps as st acc) st.obs
  | [], _, st, acc, hk => by simp only [bindParams]; exact post_pure hk (h.pre.refl _)
  | p :: ps, a :: as, st, acc, hk => by
    simp only [bindParams]; exact bindParams_post h dn de ps as st _ hk
  | p :: ps, [], st, acc, hk => by
    have ih := fun st acc => bindParams_post h dn de ps [] st acc
    have hE := evalExpr_post h
    simp only [bindParams]
    wpk h.pre h.toCtxDeriv

theorem callMacro_post (h : NodeOk E K T) {go : Go} (hgo : GoOk K T go) (tpl name args st) (hk : K st.ctx) :
    Post K T (callMacro E go tpl name args st) st.obs := by
  have hgo' : ∀ tr st, K st.ctx → Post K T (go tr st) st.obs := hgo
  have hB := bindParams_post h
  unfold callMacro
  wpk h.pre h.toCtxDeriv

theorem run_post (h : NodeOk E K T) : ∀ fuel, GoOk K T (run E fuel)
  | 0 => by intro tr st _; simp only [run]; exact post_error _ _
  | f + 1 => by
    intro tr st hk
    have ih := run_post h f
    cases tr with
    | root tpl => simp only [run]; exact renderRoot_post h ih tpl st hk
    | body tpl nodes => simp only [run]; exact renderNodes_post h ih tpl nodes st hk
    | macroCall tpl name args => simp only [run]; exact callMacro_post h ih tpl name args st hk

end node


/-! ## Two runs that differ only in the injected fault

  `Agree X r₀ rₙ`: unless the faulty run `rₙ` fails with exactly `X`, the fault-free run `r₀` is the
  same.  `AgJ` adds a postcondition on the context of the faulty run's result (an invariant the
  node level needs about block definitions carried by contexts). -/

def Agree {α} (X : Err) (r0 rn : R α) : Prop := rn ≠ .error X → r0 = rn

theorem agree_refl {α} (X : Err) (r : R α) : Agree X r r := fun _ => rfl

theorem agree_bind {α β} {X : Err} {m0 mn : R α} {k0 kn : α → R β}
    (hm : Agree X m0 mn) (hk : ∀ a, mn = .ok a → Agree X (k0 a) (kn a)) : Agree X (m0 >>= k0) (mn >>= kn) := by
  intro hne
  cases hmn : mn with
  | error e =>
    have : mn ≠ .error X := by
      intro h; apply hne; rw [h]; rfl
    rw [hm this, hmn]; rfl
  | ok a =>
    have : mn ≠ .error X := by rw [hmn]; intro h; cases h
    rw [hm this, hmn]
    rw [hmn] at hne
    exact hk a hmn hne

def AgJ {α} (X : Err) (J : Ctx → Prop) (r0 rn : R (α × St)) : Prop :=
  Agree X r0 rn ∧ ∀ a st', rn = .ok (a, st') → J st'.ctx

section agj
variable {X : Err} {J : Ctx → Prop}

theorem agj_error {α} (e : Err) : AgJ (α := α) X J (.error e) (.error e) :=
  ⟨agree_refl _ _, fun _ _ h => by cases h⟩
theorem agj_unsup {α} (w : String) : AgJ (α := α) X J (unsup w) (unsup w) := agj_error _
theorem agj_rerr {α} (w : String) : AgJ (α := α) X J (rerr w) (rerr w) := agj_error _
theorem agj_secErr {α} (w : String) : AgJ (α := α) X J (secErr w) (secErr w) := agj_error _
theorem agj_pure {α} {a : α} {st : St} (h : J st.ctx) : AgJ X J (pure (a, st)) (pure (a, st)) :=
  ⟨agree_refl _ _, fun _ _ e => by cases e; exact h⟩
theorem agj_ok {α} {a : α} {st : St} (h : J st.ctx) : AgJ X J (.ok (a, st)) (.ok (a, st)) := agj_pure h

theorem agj_bind {α β} {m0 mn : R (α × St)} {k0 kn : α × St → R (β × St)}
    (hm : AgJ X J m0 mn) (hk : ∀ a st1, J st1.ctx → AgJ X J (k0 (a, st1)) (kn (a, st1))) :
    AgJ X J (m0 >>= k0) (mn >>= kn) := by
  refine ⟨agree_bind hm.1 (fun ⟨a, st1⟩ h => (hk a st1 (hm.2 a st1 h)).1), ?_⟩
  intro b st' h
  obtain ⟨⟨a, st1⟩, h1, h2⟩ := rt_bind_ok h
  exact (hk a st1 (hm.2 a st1 h1)).2 b st' h2

theorem agj_bind3 {α β γ} {m0 mn : R ((α × γ) × St)} {k0 kn : (α × γ) × St → R (β × St)}
    (hm : AgJ X J m0 mn) (hk : ∀ a c st1, J st1.ctx → AgJ X J (k0 ((a, c), st1)) (kn ((a, c), st1))) :
    AgJ X J (m0 >>= k0) (mn >>= kn) :=
  agj_bind hm (fun ⟨a, c⟩ st1 h => hk a c st1 h)

/-- bind of a computation that is the same in both runs and does not touch the state -/
theorem agj_bindR {α β} {m : R α} {k0 kn : α → R (β × St)}
    (hk : ∀ a, m = .ok a → AgJ X J (k0 a) (kn a)) : AgJ X J (m >>= k0) (m >>= kn) := by
  cases hm : m with
  | error e => exact agj_error e
  | ok a => exact hk a hm

/-- a result whose context equals the start context, under an invariant of the start context -/
theorem agj_of_ctx {α} {r0 rn : R (α × St)} {st : St} (h : AgJ X (fun _ => True) r0 rn)
    (hc : Holds (fun st' => st'.ctx = st.ctx) rn) (hj : J st.ctx) : AgJ X J r0 rn :=
  ⟨h.1, fun a st' e => (hc a st' e) ▸ hj⟩

theorem agj_ite {α} {c : Prop} [Decidable c] {a0 an b0 bn : R (α × St)}
    (ht : c → AgJ X J a0 an) (hf : ¬c → AgJ X J b0 bn) :
    AgJ X J (if c then a0 else b0) (if c then an else bn) := by
  by_cases h : c
  · rw [if_pos h, if_pos h]; exact ht h
  · rw [if_neg h, if_neg h]; exact hf h

/-- bind of a state-only computation (a spy invocation) -/
theorem agj_bindS {β} {m0 mn : R St} {k0 kn : St → R (β × St)}
    (hm : Agree X m0 mn) (hk : ∀ s, mn = .ok s → AgJ X J (k0 s) (kn s)) : AgJ X J (m0 >>= k0) (mn >>= kn) := by
  refine ⟨agree_bind hm (fun s h => (hk s h).1), ?_⟩
  intro b st' h
  obtain ⟨s, h1, h2⟩ := rt_bind_ok h
  exact (hk s h1).2 b st' h2

end agj

/-- one step of the parallel walk through two `do` blocks that differ only in the environment;
    `cl` closes goals `J c'` for derived contexts -/
syntax "ag1 " "(" tacticSeq ")" : tactic
macro_rules | `(tactic| ag1 ($cl)) => `(tactic| first
  | contradiction
  | with_reducible exact agj_error _
  | with_reducible exact agj_unsup _
  | with_reducible exact agj_rerr _
  | with_reducible exact agj_secErr _
  | apply_hyp
  | (apply_hyp ! <;> (first | (($cl); done) | (intros; apply_hyp) | skip))
  | (with_reducible refine agj_pure ?_; first | (($cl); done) | skip)
  | (with_reducible refine agj_ok ?_; first | (($cl); done) | skip)
  | (with_reducible refine agj_bind3 ?_ (fun _ _ _ _ => ?_) <;> try dsimp only)
  | (with_reducible refine agj_bind ?_ (fun _ _ _ => ?_) <;> try dsimp only)
  | (with_reducible refine agj_bindS ?_ (fun _ _ => ?_) <;> try dsimp only)
  | with_reducible (refine agj_bindR (fun _ _ => ?_); try dsimp only)
  | (guard_two_ites; refine agj_ite (fun _ => ?_) (fun _ => ?_))
  | split
  | dsimp only)
syntax "ag " "(" tacticSeq ")" : tactic
macro_rules | `(tactic| ag ($cl)) => `(tactic| repeat' ag1 ($cl))

/-! ## Decidable views of render results (for concrete instances checked by `decide +kernel`) -/

def Event.key (e : Event) : CbKind × Bytes × Bool × Bool := (e.kind, e.name, e.inside, e.spy)

/-- decidable view of a render result: output and events of a success -/
def summary (r : R (Bytes × List Event)) : Option (Bytes × List (CbKind × Bytes × Bool × Bool)) :=
  match r with
  | .ok (o, t) => some (o, t.map Event.key)
  | .error _ => none

/-- the class of a failure -/
def errClass (r : R (Bytes × List Event)) : Option ErrClass :=
  match r with
  | .error (.error c _ _) => some c
  | _ => none

end Twig
