/-
  TwigProofs.Lemmas.Lift — from token streams to rendered output (helpers for TwigProofs/Lift.lean).
-/
import TwigModel.Render
import TwigProofs.Lemmas.Scan
import TwigProofs.Lemmas.RenderInherit
namespace Twig

/-! ## `renderSrc` -/

/-- the engine of `renderSrc`: one template, called `main` -/
def mainName : Bytes := b "main"
def envOf (nodes : List Node) : Env := { tpls := [(mainName, nodes)] }

def projOut {α} : R (Bytes × α) → R Bytes
  | .ok (o, _) => .ok o
  | .error e => .error e

/-- render a parsed template as the only template of an engine, keep the output -/
def renderNodesTop (nodes : List Node) (vars : List (Bytes × Val)) : R Bytes :=
  projOut (renderTop (envOf nodes) mainName vars)

/-- `Parser.Parse` + `Engine.Render` on source bytes -/
def renderSrc (src : Bytes) (vars : List (Bytes × Val)) : R Bytes := do
  let nodes ← parseTemplate src
  renderNodesTop nodes vars

/-- the same pipeline with the tokenizer as a parameter -/
def tokenizeWith (sc : Bytes → Except ScanErr (List Token)) (s : Bytes) : Except ScanErr (List Token) :=
  match sc s with
  | .ok ts => .ok (normalise (applyWs ts))
  | .error e => .error e

/-- `parseTemplate` after tokenization -/
def parseTokens (ts : List Token) : R (List Node) := do
  let (nodes, _) ← parseOuter (4 * ts.length + 16) ts
  if hasDup (blockNamesL nodes) then perr "the block has already been defined" else pure nodes

def parseTemplateWith (sc : Bytes → Except ScanErr (List Token)) (src : Bytes) : R (List Node) :=
  match tokenizeWith sc src with
  | .error _ => perr "tokenization error"
  | .ok ts => parseTokens ts

def renderSrcWith (sc : Bytes → Except ScanErr (List Token)) (src : Bytes) (vars : List (Bytes × Val)) : R Bytes := do
  let nodes ← parseTemplateWith sc src
  renderNodesTop nodes vars

namespace Lift

theorem tokenize_eq_with (s : Bytes) : tokenize s = tokenizeWith scan s := rfl
theorem parseTemplate_eq_with (s : Bytes) : parseTemplate s = parseTemplateWith scan s := by
  unfold parseTemplate parseTemplateWith parseTokens
  rw [tokenize_eq_with]
  cases tokenizeWith scan s <;> rfl
theorem renderSrc_eq_with (s : Bytes) (vars : List (Bytes × Val)) : renderSrc s vars = renderSrcWith scan s vars := by
  unfold renderSrc renderSrcWith; rw [parseTemplate_eq_with]


/-! ## `Except` plumbing, `parseOuter` on the token shapes of the scanner -/

theorem bind_ok {ε α β} {x : Except ε α} {f : α → Except ε β} {b : β}
    (h : (x >>= f) = .ok b) : ∃ a, x = .ok a ∧ f a = .ok b := by
  cases x with
  | error e => simp [bind, Except.bind] at h
  | ok a => exact ⟨a, rfl, h⟩

@[simp] theorem ok_bind {ε α β} (a : α) (f : α → Except ε β) : ((Except.ok a : Except ε α) >>= f) = f a := rfl
@[simp] theorem error_bind {ε α β} (e : ε) (f : α → Except ε β) :
    ((Except.error e : Except ε α) >>= f) = .error e := rfl
@[simp] theorem pure_eq_ok {ε α} (a : α) : (pure a : Except ε α) = .ok a := rfl

/-- a TEXT token becomes a text node and parsing continues -/
theorem parseOuter_text (f : Nat) (v : Bytes) (r : List Token) :
    parseOuter (f+1) (⟨TEXT, v⟩ :: r) =
      (parseOuter f r >>= fun (x : List Node × List Token) => pure (.text v :: x.1, x.2)) := by
  simp [parseOuter]

theorem parseOuter_eof (f : Nat) (v : Bytes) (r : List Token) :
    parseOuter (f+1) (⟨EOF, v⟩ :: r) = .ok ([], ⟨EOF, v⟩ :: r) := by
  simp [parseOuter]

theorem parseOuter_nil (f : Nat) : parseOuter (f+1) [] = .ok ([], []) := by
  simp [parseOuter]

/-- a comment group is skipped -/
theorem parseOuter_comment (f : Nat) (v : Bytes) (cs : List Token) (e : Token) (r : List Token)
    (hcs : ∀ c ∈ cs, c.kind ≠ COMMENT_END) (he : e.kind = COMMENT_END) :
    parseOuter (f+1) (⟨COMMENT_START, v⟩ :: (cs ++ e :: r)) = parseOuter f r := by
  have hd : List.dropWhile (fun x : Token => x.kind != COMMENT_END) (cs ++ e :: r) = e :: r := by
    induction cs with
    | nil => simp [he]
    | cons c cs ih =>
      have := hcs c (by simp)
      simp [this]
      exact ih (fun c hc => hcs c (by simp [hc]))
  simp [parseOuter, hd, COMMENT_START, EOF, VAR_START, BLOCK_START, TEXT]



theorem b_not : b "not" = [110, 111, 116] := by decide +kernel
theorem b_true : b "true" = [116, 114, 117, 101] := by decide +kernel
theorem b_false : b "false" = [102, 97, 108, 115, 101] := by decide +kernel
theorem b_null : b "null" = [110, 117, 108, 108] := by decide +kernel
theorem b_nil : b "nil" = [110, 105, 108] := by decide +kernel

/-- names the expression parser does not read as a variable -/
def reserved : List Bytes := [[110, 111, 116], [116, 114, 117, 101], [102, 97, 108, 115, 101], [110, 117, 108, 108], [110, 105, 108]]

theorem reserved_eq : reserved = [b "not", b "true", b "false", b "null", b "nil"] := by
  rw [b_not, b_true, b_false, b_null, b_nil]; rfl

/-- a token at which every expression parser stops -/
def StopTok (d : Token) : Prop := d.kind ≠ NAME ∧ d.kind ≠ OPERATOR ∧ d.kind ≠ PUNCT

theorem stop_isP {d : Token} (h : StopTok d) (c : UInt8) : isP d c = false := by
  simp [isP, h.2.2]

theorem stop_peek {d : Token} (h : StopTok d) (r : List Token) : peekBinary (d :: r) = .none := by
  simp [peekBinary, h.1, h.2.1]

theorem parseExpression_var (f : Nat) (n : Bytes) (d : Token) (r : List Token)
    (hn : n ∉ reserved) (hd : StopTok d) :
    parseExpression (f+6) (⟨NAME, n⟩ :: d :: r) = .ok (.var n, d :: r) := by
  have h1 : n ≠ b "not" ∧ n ≠ b "true" ∧ n ≠ b "false" ∧ n ≠ b "null" ∧ n ≠ b "nil" := by
    rw [reserved_eq] at hn; simpa using hn
  obtain ⟨h1, h2, h3, h4, h5⟩ := h1
  simp [parseExpression, parseBinaryPrec, parseOperand, parseSimple, parseAttrs, parseSuffix, parseLoop,
    stop_isP hd, stop_peek hd, isName, h1, h2, h3, h4, h5, NAME, OPERATOR, STRING, NUMBER]



theorem parseOuter_pvar (f : Nat) (v0 v1 n : Bytes) (r : List Token) (hn : n ∉ reserved) :
    parseOuter (f+1) (⟨VAR_START, v0⟩ :: ⟨NAME, n⟩ :: ⟨VAR_END, v1⟩ :: r) =
      (parseOuter f r >>= fun (x : List Node × List Token) => pure (.print (.var n) :: x.1, x.2)) := by
  have hs : StopTok ⟨VAR_END, v1⟩ := by simp [StopTok, VAR_END, NAME, OPERATOR, PUNCT]
  have he : parseExpression (exprFuel (⟨NAME, n⟩ :: ⟨VAR_END, v1⟩ :: r)) (⟨NAME, n⟩ :: ⟨VAR_END, v1⟩ :: r) =
      .ok (.var n, ⟨VAR_END, v1⟩ :: r) := by
    have : exprFuel (⟨NAME, n⟩ :: ⟨VAR_END, v1⟩ :: r) = (8 * r.length + 26) + 6 := by
      simp [exprFuel]; omega
    rw [this]; exact parseExpression_var _ n _ r hn hs
  rw [parseOuter]
  simp only [he]
  simp [expectK, VAR_START, EOF, TEXT, VAR_END]


/-! ## lexing `{{ v }}` -/

theorem all_u8 (P : UInt8 → Bool) (h : ∀ n : Fin 256, P (UInt8.ofNat n.val) = true) : ∀ c : UInt8, P c = true := by
  intro c
  have := h ⟨c.toNat, c.toNat_lt⟩
  simpa using this

/-- identifier: `[A-Za-z_][A-Za-z0-9_]*` -/
def Ident : Bytes → Bool
  | [] => false
  | c :: r => isIdentStart c && r.all isIdentChar

def AllSp (w : Bytes) : Bool := w.all isSpaceAscii

theorem class_identChar : ∀ c : UInt8, (!isIdentChar c || (!isSpaceAscii c &&
    uniSpaces.all (fun p => p.head? != some c) && uniSpaces.all (fun p => p.getLast? != some c))) = true :=
  all_u8 _ (by decide +kernel)

theorem class_identStart : ∀ c : UInt8, (!isIdentStart c || (isIdentChar c && !(c == 34 || c == 39) &&
    !isOperatorCh c && !isPunctCh c && !isWs c)) = true :=
  all_u8 _ (by decide +kernel)

theorem find_uni_none (c : UInt8) (r : Bytes) (h : uniSpaces.all (fun p => p.head? != some c) = true) :
    uniSpaces.find? (fun p => p.isPrefixOf (c :: r)) = none := by
  rw [List.find?_eq_none]
  intro p hp
  have := (List.all_eq_true.mp h) p hp
  cases p with
  | nil => simp [uniSpaces] at hp
  | cons a p' =>
    simp at this
    simp [List.isPrefixOf, this]


theorem leadSpaceLen_zero (c : UInt8) (r : Bytes) (h1 : isSpaceAscii c = false)
    (h : uniSpaces.all (fun p => p.head? != some c) = true) : leadSpaceLen (c :: r) = 0 := by
  simp [leadSpaceLen, h1, find_uni_none c r h]

theorem leadSpaceLen_sp (c : UInt8) (r : Bytes) (h1 : isSpaceAscii c = true) : leadSpaceLen (c :: r) = 1 := by
  simp [leadSpaceLen, h1]

theorem find_uni_rev_none (c : UInt8) (r : Bytes) (h : uniSpaces.all (fun p => p.getLast? != some c) = true) :
    uniSpaces.find? (fun p => p.reverse.isPrefixOf (c :: r)) = none := by
  rw [List.find?_eq_none]
  intro p hp
  have := (List.all_eq_true.mp h) p hp
  rcases List.eq_nil_or_concat p with rfl | ⟨p', a, rfl⟩
  · simp [uniSpaces] at hp
  · simp at this
    simp [List.isPrefixOf, this]

theorem trailSpaceLen_zero (c : UInt8) (r : Bytes) (h1 : isSpaceAscii c = false)
    (h : uniSpaces.all (fun p => p.getLast? != some c) = true) : trailSpaceLen (c :: r) = 0 := by
  simp [trailSpaceLen, h1, find_uni_rev_none c r h]

theorem trailSpaceLen_sp (c : UInt8) (r : Bytes) (h1 : isSpaceAscii c = true) : trailSpaceLen (c :: r) = 1 := by
  simp [trailSpaceLen, h1]

theorem trimLeftGo_pad (w x : Bytes) (hw : AllSp w = true) (hx : leadSpaceLen x = 0) :
    ∀ fuel, w.length ≤ fuel → trimLeftGo fuel (w ++ x) = x := by
  induction w with
  | nil =>
    intro fuel _
    cases fuel with
    | zero => rfl
    | succ n => simp [trimLeftGo, hx]
  | cons c w ih =>
    intro fuel hf
    simp [AllSp] at hw
    cases fuel with
    | zero => simp at hf
    | succ n =>
      have h1 := leadSpaceLen_sp c (w ++ x) hw.1
      simp only [List.cons_append, trimLeftGo, h1]
      simp
      exact ih (by simpa [AllSp] using hw.2) n (by simpa using hf)

theorem trimRightRev_pad (w x : Bytes) (hw : AllSp w = true) (hx : trailSpaceLen x = 0) :
    ∀ fuel, w.length ≤ fuel → trimRightRev fuel (w ++ x) = x := by
  induction w with
  | nil =>
    intro fuel _
    cases fuel with
    | zero => rfl
    | succ n => simp [trimRightRev, hx]
  | cons c w ih =>
    intro fuel hf
    simp [AllSp] at hw
    cases fuel with
    | zero => simp at hf
    | succ n =>
      have h1 := trailSpaceLen_sp c (w ++ x) hw.1
      simp only [List.cons_append, trimRightRev, h1]
      simp
      exact ih (by simpa [AllSp] using hw.2) n (by simpa using hf)

theorem allSp_reverse (w : Bytes) : AllSp w.reverse = AllSp w := by simp [AllSp]

theorem takeWhile_all_self {α} (p : α → Bool) : ∀ (l : List α), l.all p = true → l.takeWhile p = l
  | [], _ => rfl
  | a :: l, h => by
    simp only [List.all_cons, Bool.and_eq_true] at h
    simp [List.takeWhile, h.1, takeWhile_all_self p l h.2]
theorem dropWhile_all_nil {α} (p : α → Bool) : ∀ (l : List α), l.all p = true → l.dropWhile p = []
  | [], _ => rfl
  | a :: l, h => by
    simp only [List.all_cons, Bool.and_eq_true] at h
    simp [List.dropWhile, h.1, dropWhile_all_nil p l h.2]

theorem identChar_facts {c : UInt8} (h : isIdentChar c = true) : isSpaceAscii c = false ∧
    uniSpaces.all (fun p => p.head? != some c) = true ∧ uniSpaces.all (fun p => p.getLast? != some c) = true := by
  have := class_identChar c
  simp only [h, Bool.not_true, Bool.false_or, Bool.and_eq_true, Bool.not_eq_true'] at this
  exact ⟨this.1.1, this.1.2, this.2⟩

theorem trimSpaceGo_pad (w1 x w2 : Bytes) (h1 : AllSp w1 = true) (h2 : AllSp w2 = true)
    (hne : x ≠ []) (hx : x.all isIdentChar = true) : trimSpaceGo (w1 ++ x ++ w2) = x := by
  unfold trimSpaceGo
  have e1 : trimLeftGo (w1 ++ x ++ w2).length (w1 ++ x ++ w2) = x ++ w2 := by
    rw [List.append_assoc]
    have hl' : leadSpaceLen (x ++ w2) = 0 := by
      cases x with
      | nil => exact absurd rfl hne
      | cons c r =>
        have hc := identChar_facts (c := c) (by simp at hx; exact hx.1)
        exact leadSpaceLen_zero c _ hc.1 hc.2.1
    exact trimLeftGo_pad w1 (x ++ w2) h1 hl' _ (by simp)
  simp only [e1]
  rw [List.reverse_append]
  have hr' : trailSpaceLen x.reverse = 0 := by
    rcases List.eq_nil_or_concat x with rfl | ⟨x', a, rfl⟩
    · exact absurd rfl hne
    · have hc := identChar_facts (c := a) (by simp at hx; exact hx.2)
      simp only [List.concat_eq_append, List.reverse_append, List.reverse_cons, List.reverse_nil, List.nil_append,
        List.singleton_append]
      exact trailSpaceLen_zero a _ hc.1 hc.2.2
  rw [trimRightRev_pad w2.reverse x.reverse (by rw [allSp_reverse]; exact h2) hr' _ (by simp)]
  simp

theorem lexAux_nil (fuel : Nat) (m : LexMode) (prev : Option UInt8) : lexAux fuel m prev [] = [] := by
  cases fuel <;> simp [lexAux]

theorem ident_all {v : Bytes} (h : Ident v = true) : v ≠ [] ∧ v.all isIdentChar = true := by
  cases v with
  | nil => simp [Ident] at h
  | cons c r =>
    simp only [Ident, Bool.and_eq_true] at h
    have := class_identStart c
    simp only [h.1, Bool.not_true, Bool.false_or, Bool.and_eq_true] at this
    refine ⟨by simp, ?_⟩
    simp only [List.all_cons, Bool.and_eq_true]
    exact ⟨this.1.1.1.1, h.2⟩

theorem lexExpr_ident {v : Bytes} (h : Ident v = true) : lexExpr v = [tk NAME v] := by
  cases v with
  | nil => simp [Ident] at h
  | cons c r =>
    simp only [Ident, Bool.and_eq_true] at h
    have hc := class_identStart c
    simp only [h.1, Bool.not_true, Bool.false_or, Bool.and_eq_true, Bool.not_eq_true', Bool.or_eq_false_iff] at hc
    obtain ⟨⟨⟨⟨_, hq⟩, ho⟩, hp⟩, hw⟩ := hc
    have ht : r.takeWhile isIdentChar = r := takeWhile_all_self _ r h.2
    have hd : r.dropWhile isIdentChar = [] := dropWhile_all_nil _ r h.2
    simp [lexExpr, lexAux, hq, ho, hp, hw, h.1, ht, hd, lexAux_nil]

theorem contentTokens_pvar (w1 v w2 : Bytes) (h1 : AllSp w1 = true) (h2 : AllSp w2 = true) (hv : Ident v = true) :
    contentTokens .var (w1 ++ v ++ w2) = [tk NAME v] := by
  have ⟨hne, hall⟩ := ident_all hv
  simp only [contentTokens]
  rw [trimSpaceGo_pad w1 v w2 h1 h2 hne hall]
  have : v.isEmpty = false := by cases v <;> simp_all
  simp [this, lexExpr_ident hv]


/-! ## rendering text / print-variable / verbatim nodes -/


/-- values whose printing is `toStr` (everything except the two closure values, which never come from a context) -/
def isPlain : Val → Bool
  | .callable _ _ _ => false
  | .parentFn => false
  | _ => true

def PlainVars (vars : List (Bytes × Val)) : Bool := vars.all (fun kv => isPlain kv.2)

/-- `GetVariable` at the top level -/
def lookupVar (vars : List (Bytes × Val)) (n : Bytes) : Val := (getKV n vars).getD .null

theorem lookupVar_plain {vars : List (Bytes × Val)} (h : PlainVars vars = true) (n : Bytes) :
    isPlain (lookupVar vars n) = true := by
  unfold lookupVar getKV
  cases hf : vars.find? (fun x => x.1 == n) with
  | none => rfl
  | some kv =>
    have := List.mem_of_find?_eq_some hf
    simpa using (List.all_eq_true.mp h) kv this

/-- the spec side: what a node list of text / print-variable / verbatim nodes must output -/
inductive Piece
  | lit (s : Bytes)
  | pvar (v : Bytes)
  | verb (s : Bytes)

def Piece.node : Piece → Node
  | .lit s => .text s
  | .pvar v => .print (.var v)
  | .verb s => .verbatim s

def Piece.out (vars : List (Bytes × Val)) : Piece → R Bytes
  | .lit s => .ok s
  | .pvar v => toStr (lookupVar vars v)
  | .verb s => .ok s

def outPieces (vars : List (Bytes × Val)) : List Piece → R Bytes
  | [] => .ok []
  | p :: r => do
    let a ← p.out vars
    let c ← outPieces vars r
    .ok (a ++ c)

/-- top-level-like state: no macros, no parent scopes -/
def Flat (st : St) : Prop := st.ctx.macros = [] ∧ st.ctx.parents = []

theorem getMacro_flat {st : St} (h : Flat st) (n : Bytes) : st.ctx.getMacro n = none := by
  simp [Ctx.getMacro, h.1, h.2, getKV, scopesMacro]

theorem getVar_flat {st : St} (h : Flat st) (n : Bytes) : st.ctx.getVar n = lookupVar st.ctx.vars n := by
  unfold Ctx.getVar lookupVar
  cases getKV n st.ctx.vars <;> simp [h.2, scopesVar]

theorem printVal_plain (go : Go) {v : Val} (h : isPlain v = true) (st : St) :
    printVal go v st = (toStr v >>= fun s => pure (s, st)) := by
  cases v <;> simp [isPlain] at h <;> rfl

/-- the printed variables hold plain values -/
def Piece.plainIn (vars : List (Bytes × Val)) : Piece → Bool
  | .pvar v => isPlain (lookupVar vars v)
  | _ => true

def PiecesPlain (vars : List (Bytes × Val)) (ps : List Piece) : Bool := ps.all (fun p => p.plainIn vars)

theorem piecesPlain_of_plainVars {vars : List (Bytes × Val)} (h : PlainVars vars = true) (ps : List Piece) :
    PiecesPlain vars ps = true := by
  unfold PiecesPlain
  rw [List.all_eq_true]
  intro p _
  cases p <;> simp [Piece.plainIn, lookupVar_plain h]

theorem renderNode_piece (E : Env) (go : Go) (tpl : Bytes) (p : Piece) (st : St) (hf : Flat st)
    (hg : E.globals = []) (hp : p.plainIn st.ctx.vars = true) :
    renderNode E go tpl p.node st = (p.out st.ctx.vars >>= fun o => pure (o, st)) := by
  cases p with
  | lit s => rfl
  | verb s => rfl
  | pvar v =>
    have he : ∀ ap, evalX E ap (.var v) st = .ok ((lookupVar st.ctx.vars v, []), st) := by
      intro ap
      simp only [evalX, getMacro_flat hf, getVar_flat hf, hg, getKV, List.find?, Option.map]
      split <;> rfl
    simp only [Piece.node, renderNode, he, Piece.out]
    simp only [ok_bind]
    exact printVal_plain go hp st

theorem renderNodes_pieces (E : Env) (go : Go) (tpl : Bytes) (st : St) (hf : Flat st) (hg : E.globals = []) :
    ∀ ps : List Piece,
    PiecesPlain st.ctx.vars ps = true →
    renderNodes E go tpl (ps.map Piece.node) st = (outPieces st.ctx.vars ps >>= fun o => pure (o, st))
  | [], _ => rfl
  | p :: ps, hp => by
    simp only [PiecesPlain, List.all_cons, Bool.and_eq_true] at hp
    simp only [List.map_cons, renderNodes, renderNode_piece E go tpl p st hf hg hp.1, outPieces]
    cases p.out st.ctx.vars with
    | error e => rfl
    | ok a =>
      simp only [ok_bind, pure_eq_ok, renderNodes_pieces E go tpl st hf hg ps hp.2]
      cases outPieces st.ctx.vars ps <;> rfl

theorem lastExtends_pieces : ∀ ps : List Piece, lastExtends (ps.map Piece.node) = none
  | [] => rfl
  | p :: ps => by cases p <;> simp [Piece.node, lastExtends, lastExtends_pieces ps]

theorem blockNamesL_pieces : ∀ ps : List Piece, blockNamesL (ps.map Piece.node) = []
  | [] => rfl
  | p :: ps => by cases p <;> simp [Piece.node, blockNamesL, blockNames, blockNamesL_pieces ps]

theorem tpl_envOf (nodes : List Node) : (envOf nodes).tpl? mainName = some nodes := by
  simp [Env.tpl?, envOf]

theorem renderNodesTop_pieces (ps : List Piece) (vars : List (Bytes × Val)) (hv : PiecesPlain vars ps = true) :
    renderNodesTop (ps.map Piece.node) vars = outPieces vars ps := by
  unfold renderNodesTop renderTop
  simp only [tpl_envOf, defaultFuel, run, renderRoot, lastExtends_pieces]
  rw [renderNodes_pieces _ _ _ _ ⟨rfl, rfl⟩ rfl ps hv]
  cases outPieces vars ps <;> rfl



/-! ## the fragment: literal chunks, comments, prints of a variable -/

/-- the tag fragment of the output theorems: comments and prints of one variable -/
inductive STag
  | comment (c : Bytes)
  | pvar (otrim : Bool) (w1 v w2 : Bytes) (ctrim : Bool)

def STag.tag : STag → Tag
  | .comment c => ⟨.comment, false, c, false⟩
  | .pvar o w1 v w2 c => ⟨.var, o, w1 ++ v ++ w2, c⟩

/-- whitespace padding around an identifier that is not a reserved word -/
def STag.ok : STag → Bool
  | .comment _ => true
  | .pvar _ w1 v w2 _ => AllSp w1 && AllSp w2 && Ident v && !reserved.contains v

def STag.pieces : STag → List Piece
  | .comment _ => []
  | .pvar _ _ v _ _ => [.pvar v]

def STag.plain : STag → STag
  | .comment c => .comment c
  | .pvar _ w1 v w2 _ => .pvar false w1 v w2 false

def STag.noDash : STag → Bool
  | .comment _ => true
  | .pvar o _ _ _ c => !o && !c

def tagsOf (ps : List (Bytes × STag)) : List (Bytes × Tag) := ps.map fun lt => (lt.1, lt.2.tag)

/-- the normalised tokens of a fragment tag -/
def STag.group : STag → List Token
  | .comment c => tk COMMENT_START :: ((if c.isEmpty then [] else [tk TEXT c]) ++ [tk COMMENT_END])
  | .pvar _ _ v _ _ => [tk VAR_START, tk NAME v, tk VAR_END]

theorem normalise_append (a c : List Token) : normalise (a ++ c) = normalise a ++ normalise c := by
  simp [normalise]

theorem norm_step (tn : Bool) (l : Bytes) (s : STag) (hs : s.ok = true) (E : List Token) :
    normalise (applyWsAux tn (textTok l ++ s.tag.tokens ++ E)) =
      (if l = [] then [] else [⟨TEXT, rtIf s.tag.opensTrim (ltIf tn l)⟩]) ++ s.group ++
        normalise (applyWsAux s.tag.closesTrim E) := by
  rw [applyWs_step]
  simp only [normalise_append]
  have h0 : normalise (if l = [] then [] else [⟨TEXT, rtIf s.tag.opensTrim (ltIf tn l)⟩]) =
      (if l = [] then [] else [⟨TEXT, rtIf s.tag.opensTrim (ltIf tn l)⟩]) := by
    split <;> rfl
  rw [h0, List.append_assoc]
  congr 1
  cases s with
  | comment c =>
    simp only [STag.tag, STag.group, contentTokens]
    by_cases hc : c.isEmpty <;> simp [hc, normalise, Tag.opener, Opener.startKind, endKind, tk, normKind,
      COMMENT_START, COMMENT_END, TEXT, VAR_START_TRIM, VAR_END_TRIM, BLOCK_START_TRIM, BLOCK_END_TRIM]
  | pvar o w1 v w2 c =>
    simp only [STag.ok, Bool.and_eq_true] at hs
    simp only [STag.tag, STag.group, contentTokens_pvar w1 v w2 hs.1.1.1 hs.1.1.2 hs.1.2]
    cases o <;> cases c <;> rfl

theorem parse_group (f : Nat) (s : STag) (hs : s.ok = true) (rest : List Token) :
    parseOuter (f+1) (s.group ++ rest) =
      (parseOuter f rest >>= fun (x : List Node × List Token) => pure (s.pieces.map Piece.node ++ x.1, x.2)) := by
  cases s with
  | comment c =>
    simp only [STag.group, STag.pieces, List.map_nil, List.nil_append]
    have := parseOuter_comment f [] (if c.isEmpty then [] else [tk TEXT c]) (tk COMMENT_END) rest
      (by intro x hx; split at hx <;> simp at hx; subst hx; simp [tk, TEXT, COMMENT_END]) rfl
    simp only [List.cons_append, List.append_assoc, List.nil_append]
    rw [show tk COMMENT_START = (⟨COMMENT_START, []⟩ : Token) from rfl, this]
    cases parseOuter f rest <;> rfl
  | pvar o w1 v w2 c =>
    simp only [STag.ok, Bool.and_eq_true] at hs
    have hn : v ∉ reserved := by simpa using hs.2
    exact parseOuter_pvar f [] [] v rest hn


/-- the node list the parser must build (as pieces): trimmed chunks and printed variables -/
def piecesOf : Bool → List (Bytes × STag) → Bytes → List Piece
  | tn, [], last => if last = [] then [] else [.lit (ltIf tn last)]
  | tn, (l, s) :: ps, last =>
    (if l = [] then [] else [.lit (rtIf s.tag.opensTrim (ltIf tn l))]) ++ s.pieces ++
      piecesOf s.tag.closesTrim ps last

theorem tagsOf_nil : tagsOf [] = [] := rfl
theorem tagsOf_cons (l : Bytes) (s : STag) (ps : List (Bytes × STag)) :
    tagsOf ((l, s) :: ps) = (l, s.tag) :: tagsOf ps := rfl

theorem normalise_eof : normalise [tk EOF] = [tk EOF] := rfl

theorem parse_expected (last : Bytes) : ∀ (ps : List (Bytes × STag)), (∀ lt ∈ ps, lt.2.ok = true) →
    ∀ (tn : Bool) (f : Nat), 2 * ps.length + 2 ≤ f →
    parseOuter f (normalise (applyWsAux tn (expected (tagsOf ps) last))) =
      .ok ((piecesOf tn ps last).map Piece.node, [tk EOF])
  | [], _, tn, f, hf => by
    obtain ⟨f', rfl⟩ : ∃ f', f = f' + 2 := ⟨f - 2, by simp at hf; omega⟩
    simp only [tagsOf_nil, expected, piecesOf]
    by_cases hl : last = []
    · subst hl
      rw [textTok_nil, List.nil_append, applyWsAux_other _ _ _ (by decide), applyWsAux_nil]
      rw [normalise_eof]
      exact parseOuter_eof _ _ _
    · rw [textTok_ne hl, List.singleton_append, applyWsAux_text _ _ _ rfl,
        applyWsAux_other _ _ _ (by decide), applyWsAux_nil]
      have : normalise [⟨TEXT, rtIf (nextTrim [tk EOF]) (ltIf tn (tk TEXT last).val)⟩, tk EOF] =
          ⟨TEXT, ltIf tn last⟩ :: [tk EOF] := rfl
      rw [this, parseOuter_text, show tk EOF = (⟨EOF, []⟩ : Token) from rfl, parseOuter_eof]
      simp [hl, Piece.node]
  | (l, s) :: ps, hok, tn, f, hf => by
    have hs : s.ok = true := hok (l, s) (by simp)
    have hok' : ∀ lt ∈ ps, lt.2.ok = true := fun lt hm => hok lt (by simp [hm])
    obtain ⟨f', rfl⟩ : ∃ f', f = f' + 2 := ⟨f - 2, by simp at hf; omega⟩
    have hf' : 2 * ps.length + 2 ≤ f' := by simp at hf; omega
    simp only [tagsOf_cons, expected]
    rw [norm_step tn l s hs]
    have ih := parse_expected last ps hok' s.tag.closesTrim
    by_cases hl : l = []
    · subst hl
      simp only [if_true, List.nil_append, piecesOf]
      rw [parse_group _ s hs, ih (f' + 1) (by omega)]
      simp
    · simp only [hl, if_false, List.cons_append, List.nil_append, piecesOf]
      rw [parseOuter_text, parse_group _ s hs, ih f' hf']
      simp [Piece.node]


theorem tokens_length_ge (t : Tag) : 2 ≤ t.tokens.length := by
  simp [Tag.tokens]

theorem expected_length_ge : ∀ (ps : List (Bytes × Tag)) (last : Bytes), 2 * ps.length + 1 ≤ (expected ps last).length
  | [], last => by simp [expected]
  | (l, t) :: ps, last => by
    have := expected_length_ge ps last
    have := tokens_length_ge t
    simp only [expected, List.length_append, List.length_cons]
    omega

theorem normalise_length (ts : List Token) : (normalise ts).length = ts.length := by simp [normalise]

theorem parseTokens_expected (ps : List (Bytes × STag)) (last : Bytes) (hok : ∀ lt ∈ ps, lt.2.ok = true) :
    parseTokens (normalise (applyWs (expected (tagsOf ps) last))) =
      .ok ((piecesOf false ps last).map Piece.node) := by
  unfold parseTokens
  have hlen := expected_length_ge (tagsOf ps) last
  have hl2 : (tagsOf ps).length = ps.length := by simp [tagsOf]
  rw [applyWs, parse_expected last ps hok false _ (by
    rw [normalise_length, applyWsAux_length]; omega)]
  simp [blockNamesL_pieces, hasDup]

theorem parseTemplate_spell (ps : List (Bytes × STag)) (last : Bytes)
    (h : ∀ lt ∈ ps, Lit lt.1 ∧ WfTag lt.2.tag ∧ lt.2.ok = true) (hlast : NoOpener last) :
    parseTemplate (spell (tagsOf ps) last) = .ok ((piecesOf false ps last).map Piece.node) := by
  have hsc : scanOpt (spell (tagsOf ps) last) = .ok (expected (tagsOf ps) last) :=
    scanOpt_chunks _ _ (by
      intro lt hm
      simp only [tagsOf, List.mem_map] at hm
      obtain ⟨x, hx, rfl⟩ := hm
      exact ⟨(h x hx).1, (h x hx).2.1⟩) hlast
  unfold parseTemplate tokenize
  rw [scan_eq_scanOpt, hsc]
  exact parseTokens_expected ps last (fun lt hm => (h lt hm).2.2)

theorem renderSrc_spell (ps : List (Bytes × STag)) (last : Bytes) (vars : List (Bytes × Val))
    (h : ∀ lt ∈ ps, Lit lt.1 ∧ WfTag lt.2.tag ∧ lt.2.ok = true) (hlast : NoOpener last)
    (hp : PiecesPlain vars (piecesOf false ps last) = true) :
    renderSrc (spell (tagsOf ps) last) vars = outPieces vars (piecesOf false ps last) := by
  unfold renderSrc
  rw [parseTemplate_spell ps last h hlast]
  exact renderNodesTop_pieces _ vars hp


/-! ### the output, spelled out -/

/-- what a fragment tag contributes to the output -/
def STag.value (vars : List (Bytes × Val)) : STag → R Bytes
  | .comment _ => .ok []
  | .pvar _ _ v _ _ => toStr (lookupVar vars v)

/-- literal chunks interleaved with the tags' values (no trimming) -/
def interleaveOut (vars : List (Bytes × Val)) : List (Bytes × STag) → Bytes → R Bytes
  | [], last => .ok last
  | (l, s) :: ps, last => do
    let v ← s.value vars
    let r ← interleaveOut vars ps last
    .ok (l ++ v ++ r)

/-- the same with the trimming requested by dashes -/
def outOf (vars : List (Bytes × Val)) : Bool → List (Bytes × STag) → Bytes → R Bytes
  | tn, [], last => .ok (ltIf tn last)
  | tn, (l, s) :: ps, last => do
    let v ← s.value vars
    let r ← outOf vars s.tag.closesTrim ps last
    .ok (rtIf s.tag.opensTrim (ltIf tn l) ++ v ++ r)

theorem outPieces_append (vars : List (Bytes × Val)) : ∀ (a c : List Piece),
    outPieces vars (a ++ c) = (outPieces vars a >>= fun x => outPieces vars c >>= fun y => .ok (x ++ y))
  | [], c => by cases h : outPieces vars c <;> simp [outPieces, h]
  | p :: a, c => by
    simp only [List.cons_append, outPieces, outPieces_append vars a c]
    cases p.out vars with
    | error e => rfl
    | ok x =>
      simp only [ok_bind]
      cases outPieces vars a with
      | error e => rfl
      | ok y =>
        simp only [ok_bind]
        cases outPieces vars c <;> simp

theorem outPieces_lit_opt (vars : List (Bytes × Val)) (l x : Bytes) (hx : l = [] → x = []) :
    outPieces vars (if l = [] then [] else [.lit x]) = .ok x := by
  by_cases hl : l = []
  · simp [hl, outPieces, hx hl]
  · simp [hl, outPieces, Piece.out]

theorem ltIf_nil (c : Bool) : ltIf c [] = [] := by cases c <;> rfl

theorem outPieces_stag (vars : List (Bytes × Val)) (s : STag) : outPieces vars s.pieces = s.value vars := by
  cases s with
  | comment c => rfl
  | pvar o w1 v w2 c =>
    simp only [STag.pieces, outPieces, Piece.out, STag.value]
    cases toStr (lookupVar vars v) <;> simp

theorem outPieces_piecesOf (vars : List (Bytes × Val)) (last : Bytes) : ∀ (ps : List (Bytes × STag)) (tn : Bool),
    outPieces vars (piecesOf tn ps last) = outOf vars tn ps last
  | [], tn => by
    simp only [piecesOf, outOf]
    exact outPieces_lit_opt vars last _ (fun h => by rw [h, ltIf_nil])
  | (l, s) :: ps, tn => by
    simp only [piecesOf, outOf, outPieces_append, outPieces_piecesOf vars last ps, outPieces_stag]
    rw [outPieces_lit_opt vars l _ (fun h => by rw [h, trims_nil])]
    simp only [ok_bind]
    cases s.value vars with
    | error e => rfl
    | ok v =>
      simp only [ok_bind]

theorem noDash_trims {s : STag} (h : s.noDash = true) : s.tag.opensTrim = false ∧ s.tag.closesTrim = false := by
  cases s with
  | comment c => exact ⟨rfl, rfl⟩
  | pvar o w1 v w2 c =>
    simp only [STag.noDash, Bool.and_eq_true, Bool.not_eq_true'] at h
    simp [STag.tag, Tag.opensTrim, Tag.closesTrim, h.1, h.2]

theorem outOf_noDash (vars : List (Bytes × Val)) (last : Bytes) : ∀ (ps : List (Bytes × STag)),
    (∀ lt ∈ ps, lt.2.noDash = true) → outOf vars false ps last = interleaveOut vars ps last
  | [], _ => rfl
  | (l, s) :: ps, h => by
    have h1 := noDash_trims (h (l, s) (by simp))
    simp only [outOf, interleaveOut, h1.1, h1.2]
    rw [outOf_noDash vars last ps (fun lt hm => h lt (by simp [hm]))]
    rfl

/-- the hand-trimmed, dash-free template (fragment version of `undashPairs`) -/
def undashS : Bool → List (Bytes × STag) → List (Bytes × STag)
  | _, [] => []
  | tn, (l, s) :: ps => (rtIf s.tag.opensTrim (ltIf tn l), s.plain) :: undashS s.tag.closesTrim ps

theorem plain_tag (s : STag) : s.plain.tag = s.tag.plain := by cases s <;> rfl
theorem plain_ok (s : STag) : s.plain.ok = s.ok := by cases s <;> rfl
theorem plain_noDash (s : STag) : s.plain.noDash = true := by cases s <;> rfl
theorem plain_value (vars : List (Bytes × Val)) (s : STag) : s.plain.value vars = s.value vars := by cases s <;> rfl

theorem tagsOf_undashS : ∀ (tn : Bool) (ps : List (Bytes × STag)),
    tagsOf (undashS tn ps) = undashPairs tn (tagsOf ps)
  | _, [] => rfl
  | tn, (l, s) :: ps => by
    simp only [undashS, tagsOf_cons, undashPairs, plain_tag, tagsOf_undashS _ ps]

theorem undashS_noDash : ∀ (tn : Bool) (ps : List (Bytes × STag)), ∀ lt ∈ undashS tn ps, lt.2.noDash = true
  | _, [], lt, h => by simp [undashS] at h
  | tn, (l, s) :: ps, lt, h => by
    simp only [undashS, List.mem_cons] at h
    rcases h with rfl | h
    · exact plain_noDash s
    · exact undashS_noDash _ ps lt h

theorem outOf_undash (vars : List (Bytes × Val)) (last : Bytes) : ∀ (ps : List (Bytes × STag)) (tn : Bool),
    outOf vars tn ps last = interleaveOut vars (undashS tn ps) (undashLast tn (tagsOf ps) last)
  | [], tn => rfl
  | (l, s) :: ps, tn => by
    simp only [outOf, undashS, interleaveOut, plain_value, outOf_undash vars last ps]
    rfl



/-! ## verbatim -/

/-- node lists made of text and verbatim nodes only, as pieces -/
def tvPieces : List Node → Option (List Piece)
  | [] => some []
  | .text s :: r => (tvPieces r).map (Piece.lit s :: ·)
  | .verbatim s :: r => (tvPieces r).map (Piece.verb s :: ·)
  | _ => none

def onlyTV (nodes : List Node) : Bool := (tvPieces nodes).isSome

/-- the bytes such a node list holds -/
def tvBytes : List Node → Bytes
  | [] => []
  | .text s :: r => s ++ tvBytes r
  | .verbatim s :: r => s ++ tvBytes r
  | _ :: r => tvBytes r

theorem tvPieces_spec : ∀ (nodes : List Node) (ps : List Piece), tvPieces nodes = some ps →
    nodes = ps.map Piece.node ∧ (∀ vars, PiecesPlain vars ps = true) ∧ (∀ vars, outPieces vars ps = .ok (tvBytes nodes))
  | [], ps, h => by
    simp only [tvPieces, Option.some.injEq] at h; subst h
    exact ⟨rfl, fun _ => rfl, fun _ => rfl⟩
  | .text s :: r, ps, h => by
    simp only [tvPieces, Option.map_eq_some_iff] at h
    obtain ⟨ps', h', rfl⟩ := h
    obtain ⟨h1, h2, h3⟩ := tvPieces_spec r ps' h'
    refine ⟨by rw [h1]; simp [Piece.node], fun vars => ?_, fun vars => ?_⟩
    · simpa [PiecesPlain, Piece.plainIn] using h2 vars
    · simp [outPieces, Piece.out, h3 vars, tvBytes]
  | .verbatim s :: r, ps, h => by
    simp only [tvPieces, Option.map_eq_some_iff] at h
    obtain ⟨ps', h', rfl⟩ := h
    obtain ⟨h1, h2, h3⟩ := tvPieces_spec r ps' h'
    refine ⟨by rw [h1]; simp [Piece.node], fun vars => ?_, fun vars => ?_⟩
    · simpa [PiecesPlain, Piece.plainIn] using h2 vars
    · simp [outPieces, Piece.out, h3 vars, tvBytes]
  | .print _ :: _, _, h | .ifN _ _ _ :: _, _, h | .forN _ _ _ _ _ :: _, _, h | .setN _ _ :: _, _, h
  | .doN _ :: _, _, h | .block _ _ :: _, _, h | .extends _ :: _, _, h | .include _ _ _ _ _ _ :: _, _, h
  | .macro _ _ _ _ _ :: _, _, h | .importN _ _ :: _, _, h | .fromN _ _ :: _, _, h | .apply _ _ :: _, _, h
  | .spaceless _ :: _, _, h => by simp [tvPieces] at h

theorem renderNodesTop_onlyTV (nodes : List Node) (h : onlyTV nodes = true) (vars : List (Bytes × Val)) :
    renderNodesTop nodes vars = .ok (tvBytes nodes) := by
  unfold onlyTV at h
  obtain ⟨ps, hps⟩ := Option.isSome_iff_exists.mp h
  obtain ⟨h1, h2, h3⟩ := tvPieces_spec nodes ps hps
  rw [h1, renderNodesTop_pieces ps vars (h2 vars), h3 vars, ← h1]



def verbOpen : Tag := ⟨.block, false, b " verbatim ", false⟩
def verbClose : Tag := ⟨.block, false, b " endverbatim ", false⟩

theorem verbOpen_tokens : verbOpen.tokens = [tk BLOCK_START, tk NAME (b "verbatim"), tk BLOCK_END] := by decide +kernel
theorem verbClose_tokens : verbClose.tokens = [tk BLOCK_START, tk NAME (b "endverbatim"), tk BLOCK_END] := by decide +kernel
theorem verbOpen_text : verbOpen.text = b "{% verbatim %}" := by decide +kernel
theorem verbClose_text : verbClose.text = b "{% endverbatim %}" := by decide +kernel
theorem verb_wf : WfTag verbOpen ∧ WfTag verbClose := by decide +kernel

theorem parseTag_verbatim (f : Nat) (ts : List Token) :
    parseTag (f+1) (b "verbatim") ts = (do
      let r1 ← expectK BLOCK_END "expected block end after verbatim tag" ts
      let (s, r2) ← verbBody (r1.length + 1) r1
      pure (.verbatim s, r2)) := by
  unfold parseTag
  simp only [show (b "verbatim" == b "if") = false from by decide +kernel,
    show (b "verbatim" == b "for") = false from by decide +kernel,
    show (b "verbatim" == b "set") = false from by decide +kernel,
    show (b "verbatim" == b "do") = false from by decide +kernel,
    show (b "verbatim" == b "block") = false from by decide +kernel,
    show (b "verbatim" == b "extends") = false from by decide +kernel,
    show (b "verbatim" == b "include") = false from by decide +kernel,
    show (b "verbatim" == b "macro") = false from by decide +kernel,
    show (b "verbatim" == b "import") = false from by decide +kernel,
    show (b "verbatim" == b "from") = false from by decide +kernel,
    show (b "verbatim" == b "apply") = false from by decide +kernel,
    show (b "verbatim" == b "spaceless") = false from by decide +kernel,
    show (b "verbatim" == b "verbatim") = true from by decide +kernel]
  simp

/-- the body of `{% verbatim %}` when it is one literal chunk (possibly empty) -/
theorem verbBody_lit (f : Nat) (body : Bytes) (rest : List Token) :
    verbBody (f+2) (textTok body ++ tk BLOCK_START :: tk NAME (b "endverbatim") :: tk BLOCK_END :: rest) =
      .ok (body, rest) := by
  have hend : isName ⟨NAME, b "endverbatim"⟩ "endverbatim" = true := by simp [isName]
  have h0 : ∀ g, verbBody (g+1) (tk BLOCK_START :: tk NAME (b "endverbatim") :: tk BLOCK_END :: rest) = .ok ([], rest) := by
    intro g
    simp [verbBody, tk, hend, expectK]
  by_cases hb : body = []
  · subst hb; rw [textTok_nil, List.nil_append]; exact h0 _
  · rw [textTok_ne hb, List.singleton_append]
    rw [verbBody]
    simp [tk, TEXT, BLOCK_START]
    have := h0 f
    simp only [tk] at this
    rw [this]
    simp



theorem parseOuter_verbatim (f : Nat) (body : Bytes) (rest : List Token) :
    parseOuter (f+2) (tk BLOCK_START :: tk NAME (b "verbatim") :: tk BLOCK_END ::
        (textTok body ++ tk BLOCK_START :: tk NAME (b "endverbatim") :: tk BLOCK_END :: rest)) =
      (parseOuter (f+1) rest >>= fun (x : List Node × List Token) => pure (.verbatim body :: x.1, x.2)) := by
  have hc : endTagNames.contains (b "verbatim") = false := by decide +kernel
  have hlen : ∃ g, (textTok body ++ tk BLOCK_START :: tk NAME (b "endverbatim") :: tk BLOCK_END :: rest).length + 1 = g + 2 :=
    ⟨(textTok body).length + rest.length + 2, by simp; omega⟩
  obtain ⟨g, hg⟩ := hlen
  rw [parseOuter]
  simp only [tk, BLOCK_START, EOF, TEXT, VAR_START, NAME]
  simp only [show ((3 : Nat) == 12) = false from rfl, show ((3 : Nat) == 0) = false from rfl,
    show ((3 : Nat) == 1) = false from rfl, show ((3 : Nat) == 3) = true from rfl,
    show ((7 : Nat) != 7) = false from rfl, Bool.false_eq_true, if_false, if_true, hc]
  rw [parseTag_verbatim]
  simp only [expectK, BLOCK_END, show ((4 : Nat) == 4) = true from rfl, if_true, ok_bind]
  have := verbBody_lit g body rest
  simp only [tk, BLOCK_START, NAME, BLOCK_END] at this hg
  rw [hg, this]
  rfl



theorem normalise_inert (X : List Token) (hX : ∀ t ∈ X, ExprKind t.kind) : normalise X = X := by
  induction X with
  | nil => rfl
  | cons t X ih =>
    have := normKind_expr (hX t (by simp))
    simp only [normalise, List.map_cons] at ih ⊢
    rw [ih (fun u hu => hX u (by simp [hu])), this]

theorem normalise_textTok (l : Bytes) : normalise (textTok l) = textTok l := by
  by_cases h : l = []
  · subst h; rfl
  · rw [textTok_ne h]; rfl

theorem normalise_content (t : Tag) : normalise (contentTokens t.kind t.body) = contentTokens t.kind t.body := by
  by_cases hk : t.kind = .comment
  · rw [hk]; simp only [contentTokens]; split <;> rfl
  · exact normalise_inert _ (contentTokens_kinds hk t.body)

/-- on a template without dashes `ApplyWhitespaceControl` and the kind normalisation change nothing -/
theorem plain_stream (last : Bytes) : ∀ (ps : List (Bytes × Tag)),
    (∀ lt ∈ ps, lt.2.otrim = false ∧ lt.2.ctrim = false) →
    normalise (applyWsAux false (expected ps last)) = expected ps last
  | [], _ => by
    simp only [expected]
    by_cases h : last = []
    · subst h; rfl
    · rw [textTok_ne h, List.singleton_append, applyWsAux_text _ _ _ rfl]; rfl
  | (l, t) :: ps, h => by
    have ht : t.otrim = false ∧ t.ctrim = false := h (l, t) (by simp)
    have ho : t.opensTrim = false := by simp [Tag.opensTrim, ht.1]
    have hc : t.closesTrim = false := by simp [Tag.closesTrim, ht.2]
    have hp : t.plain = t := by
      rcases t with ⟨k, o, bd, c⟩; simp only at ht; simp [Tag.plain, ht.1, ht.2]
    simp only [expected]
    rw [applyWs_step, ho, hc]
    simp only [normalise_append, plain_stream last ps (fun lt hm => h lt (by simp [hm])), normalise_content]
    have h1 : normalise (if l = [] then [] else [⟨TEXT, rtIf false (ltIf false l)⟩]) = textTok l := by
      by_cases hl : l = []
      · subst hl; rfl
      · rw [if_neg hl, textTok_ne hl]; rfl
    have h2 : normalise [tk t.opener.startKind] = [tk t.opener.startKind] := by
      have := normKind_startKind t
      rw [hp] at this
      simp [normalise, tk, this]
    have h3 : normalise [tk (endKind t.kind t.ctrim)] = [tk (endKind t.kind t.ctrim)] := by
      have := normKind_endKind t.kind t.ctrim
      rw [ht.2] at this ⊢
      simp [normalise, tk, this]
    rw [h1, h2, h3]
    simp [Tag.tokens]

/-- `l₁ {% verbatim %} body {% endverbatim %} l₂` with literal chunks parses to text, verbatim, text -/
theorem parseTemplate_verbatim (l1 body l2 : Bytes) (h1 : Lit l1) (hb : Lit body) (h2 : NoOpener l2) :
    parseTemplate (l1 ++ b "{% verbatim %}" ++ (body ++ b "{% endverbatim %}" ++ l2)) =
      .ok ((if l1 = [] then [] else [.text l1]) ++ .verbatim body :: (if l2 = [] then [] else [.text l2])) := by
  have hsp : l1 ++ b "{% verbatim %}" ++ (body ++ b "{% endverbatim %}" ++ l2) =
      spell [(l1, verbOpen), (body, verbClose)] l2 := by
    simp only [spell, verbOpen_text, verbClose_text]
  have hsc := scanOpt_chunks [(l1, verbOpen), (body, verbClose)] l2 (by
    intro lt hm
    simp only [List.mem_cons, List.not_mem_nil, or_false] at hm
    rcases hm with rfl | rfl
    · exact ⟨h1, verb_wf.1⟩
    · exact ⟨hb, verb_wf.2⟩) h2
  unfold parseTemplate tokenize
  rw [hsp, scan_eq_scanOpt, hsc]
  simp only
  rw [applyWs, plain_stream l2 _ (by
    intro lt hm
    simp only [List.mem_cons, List.not_mem_nil, or_false] at hm
    rcases hm with rfl | rfl <;> exact ⟨rfl, rfl⟩)]
  simp only [expected, verbOpen_tokens, verbClose_tokens]
  generalize hF : 4 * (textTok l1 ++ [tk BLOCK_START, tk NAME (b "verbatim"), tk BLOCK_END] ++
      (textTok body ++ [tk BLOCK_START, tk NAME (b "endverbatim"), tk BLOCK_END] ++ (textTok l2 ++ [tk EOF]))).length + 16 = F
  obtain ⟨g, rfl⟩ : ∃ g, F = g + 4 := ⟨F - 4, by omega⟩
  have htail : ∀ k, parseOuter (k + 2) (textTok l2 ++ [tk EOF]) = .ok ((if l2 = [] then [] else [.text l2]), [tk EOF]) := by
    intro k
    by_cases hl : l2 = []
    · subst hl; exact parseOuter_eof _ _ _
    · rw [textTok_ne hl, List.singleton_append, show tk TEXT l2 = (⟨TEXT, l2⟩ : Token) from rfl, parseOuter_text,
        show tk EOF = (⟨EOF, []⟩ : Token) from rfl, parseOuter_eof]
      simp [hl]
  have hmid : ∀ k, parseOuter (k + 3) ([tk BLOCK_START, tk NAME (b "verbatim"), tk BLOCK_END] ++
      (textTok body ++ [tk BLOCK_START, tk NAME (b "endverbatim"), tk BLOCK_END] ++ (textTok l2 ++ [tk EOF]))) =
      .ok (.verbatim body :: (if l2 = [] then [] else [.text l2]), [tk EOF]) := by
    intro k
    have := parseOuter_verbatim (k + 1) body (textTok l2 ++ [tk EOF])
    simp only [List.cons_append, List.nil_append, List.append_assoc] at this ⊢
    rw [this, htail k]
    rfl
  by_cases hl1 : l1 = []
  · subst hl1
    rw [textTok_nil, List.nil_append, hmid (g + 1)]
    simp [blockNamesL, blockNames]
    split <;> simp [blockNamesL, blockNames, hasDup]
  · rw [textTok_ne hl1, List.singleton_append, List.cons_append, show tk TEXT l1 = (⟨TEXT, l1⟩ : Token) from rfl,
      parseOuter_text, hmid g]
    simp [hl1, blockNamesL, blockNames]
    split <;> simp [blockNamesL, blockNames, hasDup]



/-! ## fuel monotonicity of the template parser; padding in front of a template -/

/-! ## fuel order -/

def FLe {α} (x y : R α) : Prop := x = .error .fuel ∨ x = y

theorem FLe.refl {α} (x : R α) : FLe x x := .inr rfl
theorem FLe.fuel {α} (y : R α) : FLe (.error .fuel) y := .inl rfl

theorem FLe.trans {α} {x y z : R α} (h1 : FLe x y) (h2 : FLe y z) : FLe x z := by
  rcases h1 with h1 | h1
  · exact .inl h1
  · subst h1; exact h2

theorem FLe.bind {α β} {x x' : R α} {k k' : α → R β} (hx : FLe x x') (hk : ∀ a, FLe (k a) (k' a)) :
    FLe (x >>= k) (x' >>= k') := by
  rcases hx with hx | hx
  · subst hx; exact .inl rfl
  · subst hx
    cases x with
    | error e => exact .inr rfl
    | ok a => exact hk a

theorem FLe.ite {α} {c : Prop} [Decidable c] {a a' b b' : R α} (h1 : c → FLe a a') (h2 : ¬c → FLe b b') :
    FLe (if c then a else b) (if c then a' else b') := by
  by_cases h : c
  · simp only [h, if_true]; exact h1 h
  · simp only [h, if_false]; exact h2 h

theorem FLe.eq_of_ne {α} {x y : R α} (h : FLe x y) (hne : x ≠ .error .fuel) : y = x := by
  rcases h with h | h
  · exact absurd h hne
  · exact h.symm

structure TMonoAt (f : Nat) : Prop where
  outer : ∀ ts, FLe (parseOuter f ts) (parseOuter (f+1) ts)
  tag : ∀ n ts, FLe (parseTag f n ts) (parseTag (f+1) n ts)
  ifTail : ∀ h ts, FLe (parseIfTail f h ts) (parseIfTail (f+1) h ts)
  incl : ∀ o ts, FLe (parseIncludeOpts f o ts) (parseIncludeOpts (f+1) o ts)
  braces : ∀ ts, FLe (parseWithBraces f ts) (parseWithBraces (f+1) ts)
  plain : ∀ ts, FLe (parseWithPlain f ts) (parseWithPlain (f+1) ts)
  params : ∀ ts, FLe (parseMacroParams f ts) (parseMacroParams (f+1) ts)
  names : ∀ ts, FLe (parseFromNames f ts) (parseFromNames (f+1) ts)

theorem tmonoAt_zero : TMonoAt 0 := by
  constructor <;> intros <;> exact .inl (by simp [parseOuter, parseTag, parseIfTail, parseIncludeOpts,
    parseWithBraces, parseWithPlain, parseMacroParams, parseFromNames])

macro "tfle" ih:ident : tactic => `(tactic| repeat' first
  | exact FLe.refl _
  | exact TMonoAt.outer $ih _ | exact TMonoAt.tag $ih _ _ | exact TMonoAt.ifTail $ih _ _
  | exact TMonoAt.incl $ih _ _ | exact TMonoAt.braces $ih _ | exact TMonoAt.plain $ih _
  | exact TMonoAt.params $ih _ | exact TMonoAt.names $ih _
  | refine FLe.bind ?_ (fun ⟨_, _⟩ => ?_)
  | refine FLe.bind ?_ (fun _ => ?_)
  | refine FLe.ite (fun _ => ?_) (fun _ => ?_)
  | split
  | dsimp only)

theorem tmonoAt_succ (f : Nat) (ih : TMonoAt f) : TMonoAt (f+1) where
  outer ts := by
    cases ts with
    | nil => exact .inr (by simp [parseOuter])
    | cons t r => unfold parseOuter; dsimp only; tfle ih
  tag n ts := by
    unfold parseTag; dsimp only
    iterate 9 (refine FLe.ite (fun _ => ?_) (fun _ => ?_); · tfle ih)
    refine FLe.ite (fun _ => ?_) (fun _ => ?_)
    · -- `from`: the only handler that inspects a sub-result with an explicit `match`
      split
      · split
        · rename_i p i r1 hcond
          rcases TMonoAt.names ih r1 with h | h
          · rw [h]; exact .inl rfl
          · rw [h]; exact .inr rfl
        · exact FLe.refl _
      · exact FLe.refl _
    · tfle ih
  ifTail h ts := by unfold parseIfTail; tfle ih
  incl o ts := by unfold parseIncludeOpts; tfle ih
  braces ts := by unfold parseWithBraces; tfle ih
  plain ts := by unfold parseWithPlain; tfle ih
  params ts := by unfold parseMacroParams; tfle ih
  names ts := by unfold parseFromNames; tfle ih



theorem tmonoAt : ∀ f, TMonoAt f
  | 0 => tmonoAt_zero
  | f+1 => tmonoAt_succ f (tmonoAt f)

theorem FLe.chain {α} (g : Nat → R α) (h : ∀ f, FLe (g f) (g (f+1))) : ∀ {f f'}, f ≤ f' → FLe (g f) (g f') := by
  intro f f' hle
  induction hle with
  | refl => exact FLe.refl _
  | step _ ih => exact ih.trans (h _)

/-- more fuel never changes a non-fuel result of `parseOuter` (a node list or a genuine parse error) -/
theorem parseOuter_mono {f f' : Nat} {ts : List Token} (hne : parseOuter f ts ≠ .error .fuel) (hle : f ≤ f') :
    parseOuter f' ts = parseOuter f ts :=
  (FLe.chain (parseOuter · ts) (fun f => (tmonoAt f).outer ts) hle).eq_of_ne hne

/-! ## padding in front of a template -/

theorem fo_comment_trim : ∀ (s : Bytes) (i : Nat) (o : Opener), findOpenerOpt s = some (i, o) →
    o.kind = .comment → o.trim = false := by
  intro s
  induction s using findOpenerOpt.induct with
  | case1 r => intro i o h hk; simp [findOpenerOpt] at h; obtain ⟨_, rfl⟩ := h; cases hk
  | case2 r => intro i o h hk; simp [findOpenerOpt] at h; obtain ⟨_, rfl⟩ := h; cases hk
  | case3 r => intro i o h hk; simp [findOpenerOpt] at h; obtain ⟨_, rfl⟩ := h; rfl
  | case4 c r h1 h2 h3 ih =>
    intro i o h hk
    rw [findOpenerOpt] at h
    · cases hf : findOpenerOpt r with
      | none => simp [hf] at h
      | some io =>
        obtain ⟨j, o'⟩ := io
        simp [hf] at h
        obtain ⟨_, rfl⟩ := h
        exact ih j o' hf hk
    all_goals (intros; simp_all)
  | case5 => intro i o h; simp [findOpenerOpt] at h



/-- does the template begin with a dashed opener (`{{-`, `{%-`)? -/
def dashedStart (s : Bytes) : Bool :=
  match findOpenerOpt s with
  | some (_, o) => o.trim
  | none => false

/-- the head of the token stream of a template that starts with a tag -/
theorem scanOpt_head_start {s : Bytes} (h : TagOrEnd s) {ts : List Token} (hs : scanOpt s = .ok ts) :
    ts ≠ [] ∧ nextTrim ts = dashedStart s ∧ ∀ t r, ts = t :: r → t.kind ≠ TEXT := by
  rcases h with rfl | h
  · rw [scanOpt_nil] at hs; cases hs
    refine ⟨by simp, rfl, ?_⟩
    intro t r e; cases e; decide
  · cases hf : findOpenerOpt s with
    | none => simp [hf] at h
    | some io =>
      obtain ⟨i, o⟩ := io
      simp only [hf, Option.map_some, Option.some.injEq] at h
      subst h
      have hs0 : s ≠ [] := by intro h0; subst h0; simp [findOpenerOpt] at hf
      have hb : ¬ (0 > 0 ∧ (s.drop (0 - 1)).head? = some 92) := by intro ⟨h, _⟩; omega
      rw [scanOpt_eq_scanF] at hs
      cases hg : tagEndOpt o.kind (List.drop (0 + o.len) s) with
      | none => rw [scanF_tag_none _ _ hs0 hf hb hg] at hs; cases hs
      | some te =>
        rw [scanF_tag _ _ hs0 hf (by omega) hb hg] at hs
        cases hr : scanF findOpenerOpt tagEndOpt (List.drop te.consumed (List.drop (0 + o.len) s)) with
        | error e => rw [hr] at hs; cases hs
        | ok ts' =>
          rw [hr] at hs
          simp only [mapOk_ok, List.take_zero, textTok_nil, List.nil_append, Except.ok.injEq] at hs
          subst hs
          refine ⟨by simp, ?_, ?_⟩
          · simp only [nextTrim, dashedStart, hf, tk]
            have hc := fo_comment_trim s 0 o hf
            rcases o with ⟨k, t⟩
            cases k <;> cases t <;> simp_all [Opener.startKind, isStartTrim] <;> decide
          · intro t r e
            injection e with e1 e2
            rw [← e1]; exact o.startKind_ne_text

theorem blockNamesL_text (v : Bytes) (ns : List Node) : blockNamesL (.text v :: ns) = blockNamesL ns := by
  simp [blockNamesL, blockNames]

/-- `Except.map` on parse results -/
def mapNodes (F : List Node → List Node) : R (List Node) → R (List Node)
  | .ok ns => .ok (F ns)
  | .error e => .error e

/-- Literal padding `p` in front of a template that begins with a tag (or is empty): the parse is the parse of
    the template with one more text node in front — holding `p`, minus its trailing whitespace if the first tag
    has a dashed opener. -/
theorem parseTemplate_pad {p : Bytes} (hp : Lit p) (hne : p ≠ []) {s : Bytes} (hs : TagOrEnd s)
    (hfuel : parseTemplate s ≠ .error .fuel) :
    parseTemplate (p ++ s) = mapNodes (fun ns => .text (rtIf (dashedStart s) p) :: ns) (parseTemplate s) := by
  have hsc : scanOpt (p ++ s) = mapOk (fun ts => tk TEXT p :: ts) (scanOpt s) := by
    rw [scanOpt_pad_front hp hs, textTok_ne hne]; rfl
  unfold parseTemplate tokenize at hfuel ⊢
  rw [scan_eq_scanOpt] at hfuel ⊢
  rw [scan_eq_scanOpt, hsc]
  cases hr : scanOpt s with
  | error e => rfl
  | ok ts =>
    rw [hr] at hfuel
    obtain ⟨_, hnt, _⟩ := scanOpt_head_start hs hr
    simp only [mapOk_ok] at hfuel ⊢
    have hX : normalise (applyWs (tk TEXT p :: ts)) =
        ⟨TEXT, rtIf (dashedStart s) p⟩ :: normalise (applyWs ts) := by
      rw [applyWs, applyWsAux_text _ _ _ rfl, hnt]; rfl
    rw [hX]
    generalize normalise (applyWs ts) = X at hfuel ⊢
    have hnf : parseOuter (4 * X.length + 16) X ≠ .error .fuel := by
      intro h; rw [h] at hfuel; exact hfuel rfl
    have hfu : 4 * (⟨TEXT, rtIf (dashedStart s) p⟩ :: X).length + 16 = (4 * X.length + 19) + 1 := by
      simp only [List.length_cons]; omega
    rw [hfu, parseOuter_text, parseOuter_mono hnf (by omega)]
    cases parseOuter (4 * X.length + 16) X with
    | error e => rfl
    | ok x =>
      obtain ⟨ns, r⟩ := x
      simp only [ok_bind, pure_eq_ok, blockNamesL_text]
      split <;> rfl



/-! ## expression evaluation does not look at the template store -/

def Env.withTpls (E : Env) (T : List (Bytes × List Node)) : Env := { E with tpls := T }

theorem applyFilter_env (E : Env) (T) (n : Bytes) (v : Val) (a : List Val) (st : St) :
    applyFilter (Env.withTpls E T) n v a st = applyFilter E n v a st := rfl
theorem callFunction_env (E : Env) (T) (n : Bytes) (a : List Val) (st : St) :
    callFunction (Env.withTpls E T) n a st = callFunction E n a st := rfl
theorem allowedCheck_env (E : Env) (T) (st : St) (al : List Bytes) (n : Bytes) (w : String) :
    allowedCheck (Env.withTpls E T) st al n w = allowedCheck E st al n w := rfl
theorem invokeSpy_env (E : Env) (T) (k : CbKind) (n : Bytes) (st : St) :
    invokeSpy (Env.withTpls E T) k n st = invokeSpy E k n st := rfl

theorem applyChain_env (E : Env) (T) : ∀ (ch : List (Bytes × List Val)) (v : Val) (st : St),
    applyChain (Env.withTpls E T) ch v st = applyChain E ch v st
  | [], v, st => rfl
  | (n, a) :: r, v, st => by
    simp only [applyChain, applyFilter_env]
    congr 1
    funext x
    exact applyChain_env E T r x.1 x.2

mutual
theorem evalX_env (E : Env) (T) : ∀ (e : Expr) (ap : Bool) (st : St),
    evalX (Env.withTpls E T) ap e st = evalX E ap e st
  | .null, ap, st => rfl
  | .bool _, ap, st => rfl
  | .int _, ap, st => rfl
  | .str _, ap, st => rfl
  | .unsup _, ap, st => rfl
  | .var n, ap, st => rfl
  | .unary op e, ap, st => by simp only [evalX, evalX_env E T e]
  | .binary op l r, ap, st => by simp only [evalX, evalX_env E T l, evalX_env E T r]
  | .badBinary l r, ap, st => by simp only [evalX, evalX_env E T l, evalX_env E T r]
  | .cond c t f, ap, st => by simp only [evalX, evalX_env E T c, evalX_env E T t, evalX_env E T f]
  | .attr e name, ap, st => by simp only [evalX, evalX_env E T e]
  | .item e i, ap, st => by simp only [evalX, evalX_env E T e, evalX_env E T i]
  | .filter e name args, ap, st => by
    simp only [evalX, evalX_env E T e, evalArgs_env E T args, applyChain_env, allowedCheck_env]
    rfl
  | .call name args, ap, st => by
    simp only [evalX, evalArgs_env E T args, callFunction_env, allowedCheck_env]
    rfl
  | .mcall obj name args, ap, st => by
    simp only [evalX, evalX_env E T obj, evalArgs_env E T args, callFunction_env, allowedCheck_env]
    rfl
  | .test (.attr obj a) name args, ap, st => by
    simp only [evalX, evalX_env E T obj, evalArgs_env E T args, invokeSpy_env]
    rfl
  | .test (.var n) name args, ap, st => by
    simp only [evalX, evalArgs_env E T args, invokeSpy_env]
    rfl
  | .test (.null) name args, ap, st => by
    rw [evalX.eq_18 (Env.withTpls E T) ap st (.null) name args (by intro _ _ h; cases h) (by intro _ h; cases h),
      evalX.eq_18 E ap st (.null) name args (by intro _ _ h; cases h) (by intro _ h; cases h), evalX_env E T (.null)]
    simp only [evalArgs_env E T args, invokeSpy_env]
    rfl
  | .test (.bool v) name args, ap, st => by
    rw [evalX.eq_18 (Env.withTpls E T) ap st (.bool v) name args (by intro _ _ h; cases h) (by intro _ h; cases h),
      evalX.eq_18 E ap st (.bool v) name args (by intro _ _ h; cases h) (by intro _ h; cases h), evalX_env E T (.bool v)]
    simp only [evalArgs_env E T args, invokeSpy_env]
    rfl
  | .test (.int i) name args, ap, st => by
    rw [evalX.eq_18 (Env.withTpls E T) ap st (.int i) name args (by intro _ _ h; cases h) (by intro _ h; cases h),
      evalX.eq_18 E ap st (.int i) name args (by intro _ _ h; cases h) (by intro _ h; cases h), evalX_env E T (.int i)]
    simp only [evalArgs_env E T args, invokeSpy_env]
    rfl
  | .test (.str s) name args, ap, st => by
    rw [evalX.eq_18 (Env.withTpls E T) ap st (.str s) name args (by intro _ _ h; cases h) (by intro _ h; cases h),
      evalX.eq_18 E ap st (.str s) name args (by intro _ _ h; cases h) (by intro _ h; cases h), evalX_env E T (.str s)]
    simp only [evalArgs_env E T args, invokeSpy_env]
    rfl
  | .test (.unsup w) name args, ap, st => by
    rw [evalX.eq_18 (Env.withTpls E T) ap st (.unsup w) name args (by intro _ _ h; cases h) (by intro _ h; cases h),
      evalX.eq_18 E ap st (.unsup w) name args (by intro _ _ h; cases h) (by intro _ h; cases h), evalX_env E T (.unsup w)]
    simp only [evalArgs_env E T args, invokeSpy_env]
    rfl
  | .test (.unary op x) name args, ap, st => by
    rw [evalX.eq_18 (Env.withTpls E T) ap st (.unary op x) name args (by intro _ _ h; cases h) (by intro _ h; cases h),
      evalX.eq_18 E ap st (.unary op x) name args (by intro _ _ h; cases h) (by intro _ h; cases h), evalX_env E T (.unary op x)]
    simp only [evalArgs_env E T args, invokeSpy_env]
    rfl
  | .test (.binary op l r) name args, ap, st => by
    rw [evalX.eq_18 (Env.withTpls E T) ap st (.binary op l r) name args (by intro _ _ h; cases h) (by intro _ h; cases h),
      evalX.eq_18 E ap st (.binary op l r) name args (by intro _ _ h; cases h) (by intro _ h; cases h), evalX_env E T (.binary op l r)]
    simp only [evalArgs_env E T args, invokeSpy_env]
    rfl
  | .test (.badBinary l r) name args, ap, st => by
    rw [evalX.eq_18 (Env.withTpls E T) ap st (.badBinary l r) name args (by intro _ _ h; cases h) (by intro _ h; cases h),
      evalX.eq_18 E ap st (.badBinary l r) name args (by intro _ _ h; cases h) (by intro _ h; cases h), evalX_env E T (.badBinary l r)]
    simp only [evalArgs_env E T args, invokeSpy_env]
    rfl
  | .test (.cond c t f) name args, ap, st => by
    rw [evalX.eq_18 (Env.withTpls E T) ap st (.cond c t f) name args (by intro _ _ h; cases h) (by intro _ h; cases h),
      evalX.eq_18 E ap st (.cond c t f) name args (by intro _ _ h; cases h) (by intro _ h; cases h), evalX_env E T (.cond c t f)]
    simp only [evalArgs_env E T args, invokeSpy_env]
    rfl
  | .test (.item x i) name args, ap, st => by
    rw [evalX.eq_18 (Env.withTpls E T) ap st (.item x i) name args (by intro _ _ h; cases h) (by intro _ h; cases h),
      evalX.eq_18 E ap st (.item x i) name args (by intro _ _ h; cases h) (by intro _ h; cases h), evalX_env E T (.item x i)]
    simp only [evalArgs_env E T args, invokeSpy_env]
    rfl
  | .test (.filter x nm as) name args, ap, st => by
    rw [evalX.eq_18 (Env.withTpls E T) ap st (.filter x nm as) name args (by intro _ _ h; cases h) (by intro _ h; cases h),
      evalX.eq_18 E ap st (.filter x nm as) name args (by intro _ _ h; cases h) (by intro _ h; cases h), evalX_env E T (.filter x nm as)]
    simp only [evalArgs_env E T args, invokeSpy_env]
    rfl
  | .test (.call nm as) name args, ap, st => by
    rw [evalX.eq_18 (Env.withTpls E T) ap st (.call nm as) name args (by intro _ _ h; cases h) (by intro _ h; cases h),
      evalX.eq_18 E ap st (.call nm as) name args (by intro _ _ h; cases h) (by intro _ h; cases h), evalX_env E T (.call nm as)]
    simp only [evalArgs_env E T args, invokeSpy_env]
    rfl
  | .test (.mcall o nm as) name args, ap, st => by
    rw [evalX.eq_18 (Env.withTpls E T) ap st (.mcall o nm as) name args (by intro _ _ h; cases h) (by intro _ h; cases h),
      evalX.eq_18 E ap st (.mcall o nm as) name args (by intro _ _ h; cases h) (by intro _ h; cases h), evalX_env E T (.mcall o nm as)]
    simp only [evalArgs_env E T args, invokeSpy_env]
    rfl
  | .test (.test x nm as) name args, ap, st => by
    rw [evalX.eq_18 (Env.withTpls E T) ap st (.test x nm as) name args (by intro _ _ h; cases h) (by intro _ h; cases h),
      evalX.eq_18 E ap st (.test x nm as) name args (by intro _ _ h; cases h) (by intro _ h; cases h), evalX_env E T (.test x nm as)]
    simp only [evalArgs_env E T args, invokeSpy_env]
    rfl
  | .test (.array xs) name args, ap, st => by
    rw [evalX.eq_18 (Env.withTpls E T) ap st (.array xs) name args (by intro _ _ h; cases h) (by intro _ h; cases h),
      evalX.eq_18 E ap st (.array xs) name args (by intro _ _ h; cases h) (by intro _ h; cases h), evalX_env E T (.array xs)]
    simp only [evalArgs_env E T args, invokeSpy_env]
    rfl
  | .test (.hash xs) name args, ap, st => by
    rw [evalX.eq_18 (Env.withTpls E T) ap st (.hash xs) name args (by intro _ _ h; cases h) (by intro _ h; cases h),
      evalX.eq_18 E ap st (.hash xs) name args (by intro _ _ h; cases h) (by intro _ h; cases h), evalX_env E T (.hash xs)]
    simp only [evalArgs_env E T args, invokeSpy_env]
    rfl
  | .array items, ap, st => by simp only [evalX, evalArgs_env E T items]
  | .hash items, ap, st => by simp only [evalX, evalPairs_env E T items]

theorem evalArgs_env (E : Env) (T) : ∀ (es : List Expr) (st : St),
    evalArgs (Env.withTpls E T) es st = evalArgs E es st
  | [], st => rfl
  | e :: es, st => by simp only [evalArgs, evalX_env E T e, evalArgs_env E T es]

theorem evalPairs_env (E : Env) (T) : ∀ (es : List Expr) (st : St),
    evalPairs (Env.withTpls E T) es st = evalPairs E es st
  | [], st => rfl
  | [_], st => rfl
  | k :: v :: es, st => by simp only [evalPairs, evalX_env E T k, evalX_env E T v, evalPairs_env E T es]
end


/-! ## templates that never transfer to a template root; simulation between two template stores -/

mutual
/-- no `extends` / `include` / `import` / `from` anywhere in the node -/
def NX : Node → Bool
  | .text _ => true
  | .print _ => true
  | .setN _ _ => true
  | .doN _ => true
  | .verbatim _ => true
  | .ifN _ t e => NXL t && NXL e
  | .forN _ _ _ bd e => NXL bd && NXL e
  | .block _ bd => NXL bd
  | .macro _ _ _ _ bd => NXL bd
  | .apply _ bd => NXL bd
  | .spaceless bd => NXL bd
  | .extends _ => false
  | .include _ _ _ _ _ _ => false
  | .importN _ _ => false
  | .fromN _ _ => false
def NXL : List Node → Bool
  | [] => true
  | n :: r => NX n && NXL r
end

/-- every block body the context knows is free of root transfers -/
def InvC (c : Ctx) : Prop :=
  (∀ kv ∈ c.blockDefs, ∀ d ∈ kv.2, NXL d.body = true) ∧ (∀ d ∈ c.chain, NXL d.body = true)

def TrOK : Transfer → Prop
  | .root _ => False
  | .body _ ns => NXL ns = true
  | .macroCall _ _ _ => True

theorem invC_of_core {c c' : Ctx} (h : Inh.core c' = Inh.core c) (hi : InvC c) : InvC c' := by
  unfold InvC
  rw [Inh.core_blockDefs h, Inh.core_chain h]; exact hi

theorem invC_of_ctx_eq {c c' : Ctx} (h : c' = c) (hi : InvC c) : InvC c' := by rw [h]; exact hi

theorem bind_congr_ok {ε α β} {x : Except ε α} {k k' : α → Except ε β} (h : ∀ a, x = .ok a → k a = k' a) :
    (x >>= k) = (x >>= k') := by
  cases x with
  | error e => rfl
  | ok a => exact h a rfl

/-- two transfer functions that agree on body and macro transfers (in contexts satisfying the invariant) -/
structure GoSim (go' go : Go) : Prop where
  eq : ∀ tr st, TrOK tr → InvC st.ctx → go' tr st = go tr st
  fr : Inh.GoFr go

theorem printVal_sim {go' go : Go} (hs : GoSim go' go) (v : Val) (st : St) (hi : InvC st.ctx) :
    printVal go' v st = printVal go v st := by
  unfold printVal
  split
  · exact hs.eq _ _ trivial hi
  · split
    · rfl
    · dsimp only
      split
      · rfl
      · rename_i d r hd
        have hmem : d ∈ st.ctx.chain := by
          have : d ∈ List.drop (st.ctx.level + 1) st.ctx.chain := by rw [hd]; simp
          exact List.mem_of_mem_drop this
        rw [hs.eq (.body d.tpl d.body) _ (hi.2 d hmem) (by exact hi)]
  · rfl

theorem loopOver_congr {f' f : St → R Out} (hf : ∀ s, InvC s.ctx → f' s = f s)
    (hfr : ∀ s o s', f s = .ok (o, s') → InvC s.ctx → InvC s'.ctx) (kv : Option Bytes) (vv : Bytes) (n : Nat) :
    ∀ (items : List (Val × Val)) (i : Nat) (st : St), InvC st.ctx →
      loopOver f' kv vv n i items st = loopOver f kv vv n i items st
  | [], i, st, _ => rfl
  | (k, v) :: r, i, st, hi => by
    cases kv with
    | none =>
      simp only [loopOver]
      have hc : InvC ({ st with ctx := (st.ctx.setVar vv v).setVar (b "loop") (loopMeta i n) } : St).ctx := hi
      rw [hf _ hc]
      apply bind_congr_ok
      intro a ha
      have h1 := hfr _ a.1 a.2 ha hc
      rw [loopOver_congr hf hfr none vv n r (i + 1) a.2 h1]
    | some kk =>
      simp only [loopOver]
      have hc : InvC ({ st with ctx := ((st.ctx.setVar vv v).setVar kk k).setVar (b "loop") (loopMeta i n) } : St).ctx := hi
      rw [hf _ hc]
      apply bind_congr_ok
      intro a ha
      have h1 := hfr _ a.1 a.2 ha hc
      rw [loopOver_congr hf hfr (some kk) vv n r (i + 1) a.2 h1]


theorem block_sim (E' E : Env) {go' go : Go} (hs : GoSim go' go) (tpl name : Bytes) (body : List Node) (st : St)
    (hb : NXL body = true) (hi : InvC st.ctx) :
    renderNode E' go' tpl (.block name body) st = renderNode E go tpl (.block name body) st := by
  rw [Inh.block_eq, Inh.block_eq]
  have hdefs : ∀ d ∈ (getKV name st.ctx.blockDefs).getD [], NXL d.body = true := by
    intro d hd
    unfold getKV at hd
    cases hf : st.ctx.blockDefs.find? (fun x => x.1 == name) with
    | none => simp [hf] at hd
    | some kv =>
      simp only [hf, Option.map_some, Option.getD_some] at hd
      exact hi.1 kv (List.mem_of_find?_eq_some hf) d hd
  generalize (getKV name st.ctx.blockDefs).getD [] = defs at hdefs
  have hchain : ∀ d ∈ Inh.specChain tpl name body defs, NXL d.body = true := by
    intro d hd
    unfold Inh.specChain at hd
    split at hd
    · exact hdefs d hd
    · rcases List.mem_append.mp hd with h | h
      · exact hdefs d h
      · simp only [List.mem_singleton] at h; rw [h]; exact hb
  have hhead : NXL ((Inh.specChain tpl name body defs).headD ⟨tpl, name, body⟩).body = true := by
    cases hc : Inh.specChain tpl name body defs with
    | nil => exact hb
    | cons d r => exact hchain d (by rw [hc]; simp)
  have hinv : InvC (Inh.blockSt st (Inh.specChain tpl name body defs)).ctx := ⟨hi.1, hchain⟩
  rw [hs.eq (.body _ _) _ hhead hinv]

mutual
theorem renderNode_sim (E : Env) (T : List (Bytes × List Node)) {go' go : Go} (hs : GoSim go' go) (tpl : Bytes) :
    ∀ (n : Node) (st : St), NX n = true → InvC st.ctx →
      renderNode (Env.withTpls E T) go' tpl n st = renderNode E go tpl n st
  | .text s, st, _, _ => rfl
  | .verbatim s, st, _, _ => rfl
  | .print e, st, _, hi => by
    simp only [renderNode, evalX_env]
    apply bind_congr_ok
    intro a ha
    exact printVal_sim hs _ _ (invC_of_ctx_eq (Inh.evalX_ctx E e _ _ _ _ ha) hi)
  | .ifN c t e, st, hn, hi => by
    simp only [NX, Bool.and_eq_true] at hn
    simp only [renderNode, evalX_env]
    apply bind_congr_ok
    intro a ha
    have h1 := invC_of_ctx_eq (Inh.evalX_ctx E c _ _ _ _ ha) hi
    split
    · exact renderNodes_sim E T hs tpl t _ hn.1 h1
    · exact renderNodes_sim E T hs tpl e _ hn.2 h1
  | .forN key val seq body els, st, hn, hi => by
    simp only [NX, Bool.and_eq_true] at hn
    simp only [renderNode, evalX_env]
    apply bind_congr_ok
    intro a ha
    have h1 := invC_of_ctx_eq (Inh.evalX_ctx E seq _ _ _ _ ha) hi
    apply bind_congr_ok
    intro items _
    split
    · exact renderNodes_sim E T hs tpl els _ hn.2 h1
    · exact renderNodes_sim E T hs tpl els _ hn.2 h1
    · rw [loopOver_congr (f' := fun s => renderNodes (Env.withTpls E T) go' tpl body s)
        (f := fun s => renderNodes E go tpl body s)
        (fun s hs' => renderNodes_sim E T hs tpl body s hn.1 hs')
        (fun s o s' h hs' => invC_of_core (Inh.renderNodes_fr E hs.fr tpl body s o s' h) hs') _ _ _ _ _ _ h1]
  | .setN name e, st, _, _ => by simp only [renderNode, evalX_env]
  | .doN e, st, _, _ => by simp only [renderNode, evalX_env]
  | .block name body, st, hn, hi => block_sim _ E hs tpl name body st (by simpa [NX] using hn) hi
  | .extends e, st, hn, _ => by simp [NX] at hn
  | .include _ _ _ _ _ _, st, hn, _ => by simp [NX] at hn
  | .macro _ _ _ _ _, st, _, _ => rfl
  | .importN _ _, st, hn, _ => by simp [NX] at hn
  | .fromN _ _, st, hn, _ => by simp [NX] at hn
  | .apply filter body, st, hn, hi => by
    simp only [renderNode, applyFilter_env]
    rw [renderNodes_sim E T hs tpl body st (by simpa [NX] using hn) hi]
  | .spaceless _, st, _, _ => rfl

theorem renderNodes_sim (E : Env) (T : List (Bytes × List Node)) {go' go : Go} (hs : GoSim go' go) (tpl : Bytes) :
    ∀ (ns : List Node) (st : St), NXL ns = true → InvC st.ctx →
      renderNodes (Env.withTpls E T) go' tpl ns st = renderNodes E go tpl ns st
  | [], st, _, _ => rfl
  | n :: r, st, hn, hi => by
    simp only [NXL, Bool.and_eq_true] at hn
    simp only [renderNodes]
    rw [renderNode_sim E T hs tpl n st hn.1 hi]
    apply bind_congr_ok
    intro a ha
    have h1 := invC_of_core (Inh.renderNode_fr E hs.fr tpl n st a.1 a.2 ha) hi
    rw [renderNodes_sim E T hs tpl r a.2 hn.2 h1]
end


theorem bindParams_env (E : Env) (T) (dn : List Bytes) (de : List Expr) :
    ∀ (ps : List Bytes) (args : List Val) (st : St) (acc : List (Bytes × Val)),
      bindParams (Env.withTpls E T) dn de ps args st acc = bindParams E dn de ps args st acc
  | [], _, st, acc => by simp only [bindParams]
  | p :: ps, a :: as, st, acc => by simp only [bindParams, bindParams_env E T dn de ps as]
  | p :: ps, [], st, acc => by
    simp only [bindParams, evalExpr, evalX_env, bindParams_env E T dn de ps []]

theorem findMacro_foldl_NXL (name : Bytes) : ∀ (nodes : List Node) (acc : Option (List Bytes × List Bytes × List Expr × List Node)),
    NXL nodes = true → (∀ x, acc = some x → NXL x.2.2.2 = true) →
    ∀ x, nodes.foldl (fun acc n => match n with
      | .macro m ps dn de body => if m == name then some (ps, dn, de, body) else acc
      | _ => acc) acc = some x → NXL x.2.2.2 = true
  | [], acc, _, ha, x, h => ha x h
  | n :: r, acc, hn, ha, x, h => by
    simp only [NXL, Bool.and_eq_true] at hn
    simp only [List.foldl_cons] at h
    refine findMacro_foldl_NXL name r _ hn.2 ?_ x h
    intro y hy
    cases n <;> try (exact ha y hy)
    rename_i m ps dn de body
    simp only at hy
    split at hy
    · cases hy; simpa [NX] using hn.1
    · exact ha y hy

theorem findMacro_NXL {nodes : List Node} {name : Bytes} {x} (hn : NXL nodes = true)
    (h : findMacro nodes name = some x) : NXL x.2.2.2 = true :=
  findMacro_foldl_NXL name nodes none hn (by intro x hx; cases hx) x h

theorem findMacro_text (v : Bytes) (nodes : List Node) (name : Bytes) :
    findMacro (.text v :: nodes) name = findMacro nodes name := by
  simp [findMacro]

theorem topMacroNames_text (v : Bytes) (nodes : List Node) :
    topMacroNames (.text v :: nodes) = topMacroNames nodes := by
  simp [topMacroNames]

theorem tpl_envOf' (nodes : List Node) (t : Bytes) :
    (envOf nodes).tpl? t = if mainName == t then some nodes else none := by
  simp [Env.tpl?, envOf]

theorem envOf_text (v : Bytes) (nodes : List Node) :
    envOf (.text v :: nodes) = Env.withTpls (envOf nodes) [(mainName, .text v :: nodes)] := rfl

theorem callMacro_sim (v : Bytes) (nodes : List Node) (hn : NXL nodes = true) {go' go : Go} (hs : GoSim go' go)
    (t m : Bytes) (args : List Val) (st : St) :
    callMacro (envOf (.text v :: nodes)) go' t m args st = callMacro (envOf nodes) go t m args st := by
  unfold callMacro
  rw [tpl_envOf', tpl_envOf']
  by_cases ht : (mainName == t) = true
  · simp only [ht, if_true, findMacro_text, topMacroNames_text]
    cases hf : findMacro nodes m with
    | none => rfl
    | some x =>
      obtain ⟨ps, dn, de, body⟩ := x
      have hb : NXL body = true := findMacro_NXL hn hf
      simp only
      split
      · rfl
      · rw [envOf_text, bindParams_env]
        apply bind_congr_ok
        intro a _
        rw [hs.eq (.body t body) _ hb (by constructor <;> intro x hx <;> exact absurd hx List.not_mem_nil)]
        rfl
  · simp only [ht]
    rfl


/-- the two engines (template with / without a text node in front) agree on every body and macro transfer -/
theorem run_sim (v : Bytes) (nodes : List Node) (hn : NXL nodes = true) :
    ∀ f, GoSim (run (envOf (.text v :: nodes)) f) (run (envOf nodes) f)
  | 0 => ⟨fun _ _ _ _ => rfl, Inh.run_fr _ 0⟩
  | f+1 => by
    refine ⟨?_, Inh.run_fr _ (f+1)⟩
    intro tr st htr hi
    cases tr with
    | root t => exact absurd htr (by simp [TrOK])
    | body t ns =>
      simp only [run]
      rw [envOf_text]
      exact renderNodes_sim (envOf nodes) _ (run_sim v nodes hn f) t ns st htr hi
    | macroCall t m args =>
      simp only [run]
      exact callMacro_sim v nodes hn (run_sim v nodes hn f) t m args st

theorem lastExtends_NXL : ∀ (nodes : List Node), NXL nodes = true → lastExtends nodes = none
  | [], _ => rfl
  | n :: r, h => by
    simp only [NXL, Bool.and_eq_true] at h
    have ih := lastExtends_NXL r h.2
    cases n <;> simp_all [lastExtends, NX]

theorem registerBlocks_inv (tpl : Bytes) : ∀ (nodes : List Node) (defs : List (Bytes × List BlockDef)),
    NXL nodes = true → (∀ kv ∈ defs, ∀ d ∈ kv.2, NXL d.body = true) →
    ∀ kv ∈ registerBlocks tpl nodes defs, ∀ d ∈ kv.2, NXL d.body = true
  | [], defs, _, hd => by simpa [registerBlocks] using hd
  | n :: r, defs, hn, hd => by
    simp only [NXL, Bool.and_eq_true] at hn
    cases n <;> try (simp only [registerBlocks]; exact registerBlocks_inv tpl r defs hn.2 hd)
    rename_i name body
    simp only [registerBlocks]
    refine registerBlocks_inv tpl r _ hn.2 ?_
    intro kv hkv d hdm
    simp only [setKV, List.mem_cons] at hkv
    rcases hkv with rfl | hkv
    · simp only [List.mem_append, List.mem_singleton] at hdm
      rcases hdm with h | h
      · unfold getKV at h
        cases hf : defs.find? (fun x => x.1 == name) with
        | none => simp [hf] at h
        | some kv' =>
          simp only [hf, Option.map_some, Option.getD_some] at h
          exact hd kv' (List.mem_of_find?_eq_some hf) d h
      · rw [h]; simpa [NX] using hn.1
    · exact hd kv (List.mem_filter.mp hkv).1 d hdm

theorem registerBlocks_text (tpl v : Bytes) (nodes : List Node) (defs) :
    registerBlocks tpl (.text v :: nodes) defs = registerBlocks tpl nodes defs := by
  simp [registerBlocks]

/-- A text node in front of a template that never transfers to a template root: the output gains exactly that
    text in front, nothing else changes (same error otherwise). -/
theorem renderNodesTop_text (v : Bytes) (nodes : List Node) (hn : NXL nodes = true) (vars : List (Bytes × Val)) :
    renderNodesTop (.text v :: nodes) vars =
      (renderNodesTop nodes vars >>= fun o => pure (v ++ o)) := by
  unfold renderNodesTop renderTop
  simp only [tpl_envOf, defaultFuel, run, renderRoot, registerBlocks_text]
  have hle : lastExtends (.text v :: nodes) = none := by
    simp [lastExtends, lastExtends_NXL nodes hn]
  simp only [hle, lastExtends_NXL nodes hn, renderNodes, renderNode]
  have hinv : InvC ({ ctx := { vars := vars, blockDefs := registerBlocks mainName nodes [] } } : St).ctx :=
    ⟨registerBlocks_inv mainName nodes [] hn (by intro kv hkv; cases hkv), by intro d hd; cases hd⟩
  have := renderNodes_sim (envOf nodes) [(mainName, .text v :: nodes)] (run_sim v nodes hn 199) mainName nodes _ hn hinv
  rw [← envOf_text] at this
  simp only [pure_eq_ok, ok_bind]
  rw [this]
  cases renderNodes (envOf nodes) (run (envOf nodes) 199) mainName nodes _ <;> rfl



/-! ## the token stream of a dashed template, for arbitrary tags -/

theorem normalise_step (tn : Bool) (l : Bytes) (t : Tag) (E : List Token) :
    normalise (applyWsAux tn (textTok l ++ t.tokens ++ E)) =
      (if l = [] then [] else [⟨TEXT, rtIf t.opensTrim (ltIf tn l)⟩]) ++ t.plain.tokens ++
        normalise (applyWsAux t.closesTrim E) := by
  rw [applyWs_step]
  simp only [normalise_append, normalise_content]
  have h1 : normalise (if l = [] then [] else [⟨TEXT, rtIf t.opensTrim (ltIf tn l)⟩]) =
      (if l = [] then [] else [⟨TEXT, rtIf t.opensTrim (ltIf tn l)⟩]) := by split <;> rfl
  have h2 : normalise [tk t.opener.startKind] = [tk t.plain.opener.startKind] := by
    simp [normalise, tk, normKind_startKind]
  have h3 : normalise [tk (endKind t.kind t.ctrim)] = [tk (endKind t.kind false)] := by
    simp [normalise, tk, normKind_endKind]
  rw [h1, h2, h3]
  simp [Tag.tokens, Tag.plain]

/-- no non-empty chunk is trimmed to nothing -/
def keptB : Bool → List (Bytes × Tag) → Bytes → Bool
  | tn, [], last => last.isEmpty || !(ltIf tn last).isEmpty
  | tn, (l, t) :: ps, last => (l.isEmpty || !(rtIf t.opensTrim (ltIf tn l)).isEmpty) && keptB t.closesTrim ps last

def Kept (tn : Bool) (ps : List (Bytes × Tag)) (last : Bytes) : Prop := keptB tn ps last = true
instance (tn : Bool) (ps : List (Bytes × Tag)) (last : Bytes) : Decidable (Kept tn ps last) := by
  unfold Kept; infer_instance

theorem isEmpty_or {l x : Bytes} (h : (l.isEmpty || !x.isEmpty) = true) : l = [] ∨ x ≠ [] := by
  cases l <;> cases x <;> simp_all

theorem kept_nil {tn : Bool} {last : Bytes} (h : Kept tn [] last) : last = [] ∨ ltIf tn last ≠ [] :=
  isEmpty_or h

theorem kept_cons {tn : Bool} {l : Bytes} {t : Tag} {ps : List (Bytes × Tag)} {last : Bytes}
    (h : Kept tn ((l, t) :: ps) last) :
    (l = [] ∨ rtIf t.opensTrim (ltIf tn l) ≠ []) ∧ Kept t.closesTrim ps last := by
  unfold Kept keptB at h
  simp only [Bool.and_eq_true] at h
  exact ⟨isEmpty_or h.1, h.2⟩

theorem opt_textTok {l x : Bytes} (h : l = [] ∨ x ≠ []) (hx : l = [] → x = []) :
    (if l = [] then [] else [(⟨TEXT, x⟩ : Token)]) = textTok x := by
  by_cases hl : l = []
  · rw [if_pos hl, hx hl]; rfl
  · rw [if_neg hl, textTok_ne (h.resolve_left hl)]; rfl

/-- when trimming empties no chunk, the parser sees for the dashed template exactly the token stream of the
    hand-trimmed dash-free template -/
theorem stream_undash (last : Bytes) : ∀ (ps : List (Bytes × Tag)) (tn : Bool), Kept tn ps last →
    normalise (applyWsAux tn (expected ps last)) = expected (undashPairs tn ps) (undashLast tn ps last)
  | [], tn, hk => by
    simp only [expected, undashPairs, undashLast, lastFlag]
    by_cases hl : last = []
    · subst hl; rw [ltIf_nil]; rfl
    · rw [textTok_ne hl, List.singleton_append, applyWsAux_text _ _ _ rfl]
      have hne : ltIf tn last ≠ [] := (kept_nil hk).resolve_left hl
      rw [textTok_ne hne]
      rfl
  | (l, t) :: ps, tn, hk => by
    simp only [expected, undashPairs]
    rw [normalise_step, stream_undash last ps _ (kept_cons hk).2,
      opt_textTok (kept_cons hk).1 (fun h => by rw [h, trims_nil])]
    simp [undashLast, lastFlag]


theorem undashPairs_plain : ∀ (tn : Bool) (ps : List (Bytes × Tag)), ∀ lt ∈ undashPairs tn ps,
    lt.2.otrim = false ∧ lt.2.ctrim = false
  | _, [], lt, h => by simp [undashPairs] at h
  | tn, (l, t) :: ps, lt, h => by
    simp only [undashPairs, List.mem_cons] at h
    rcases h with rfl | h
    · exact ⟨rfl, rfl⟩
    · exact undashPairs_plain _ ps lt h

/-- both templates of C13 tokenize to the same stream when trimming empties no chunk -/
theorem tokenize_undash (ps : List (Bytes × Tag)) (last : Bytes)
    (hwf : ∀ lt ∈ ps, WfTag lt.2 ∧ WfTag lt.2.plain)
    (hlit : ∀ lt ∈ undashPairs false ps, Lit lt.1)
    (hlast : NoOpener (undashLast false ps last)) (hk : Kept false ps last) :
    tokenize (spell ps last) = .ok (expected (undashPairs false ps) (undashLast false ps last)) ∧
    tokenize (spell (undashPairs false ps) (undashLast false ps last)) =
      .ok (expected (undashPairs false ps) (undashLast false ps last)) := by
  have h1 : scanOpt (spell ps last) = .ok (expected ps last) :=
    scanOpt_chunks ps last
      (fun lt hm => ⟨lit_of_undash false ps hlit lt hm, (hwf lt hm).1⟩)
      (noOpener_of_ltIf hlast)
  have h2 : scanOpt (spell (undashPairs false ps) (undashLast false ps last)) =
      .ok (expected (undashPairs false ps) (undashLast false ps last)) :=
    scanOpt_chunks _ _
      (fun lt hm => ⟨hlit lt hm, wf_of_undash false ps (fun x hx => (hwf x hx).2) lt hm⟩) hlast
  constructor
  · simp only [tokenize, scan_eq_scanOpt, h1, applyWs]
    rw [stream_undash last ps false hk]
  · simp only [tokenize, scan_eq_scanOpt, h2, applyWs]
    rw [plain_stream _ _ (undashPairs_plain false ps)]


/-! ## rendering is insensitive to empty text nodes -/

mutual
/-- remove every `.text []` node, at every depth -/
def stripN : Node → Node
  | .ifN c t e => .ifN c (stripL t) (stripL e)
  | .forN k v s bd e => .forN k v s (stripL bd) (stripL e)
  | .block n bd => .block n (stripL bd)
  | .macro n ps dn de bd => .macro n ps dn de (stripL bd)
  | .apply f bd => .apply f (stripL bd)
  | .spaceless bd => .spaceless (stripL bd)
  | n => n
def stripL : List Node → List Node
  | [] => []
  | .text s :: r => if s.isEmpty then stripL r else .text s :: stripL r
  | n :: r => stripN n :: stripL r
end

def stripD (d : BlockDef) : BlockDef := { d with body := stripL d.body }
def stripC (c : Ctx) : Ctx :=
  { c with blockDefs := c.blockDefs.map (fun kv => (kv.1, kv.2.map stripD)), chain := c.chain.map stripD }
def stripS (st : St) : St := { st with ctx := stripC st.ctx }
def stripT : Transfer → Transfer
  | .root t => .root t
  | .body t ns => .body t (stripL ns)
  | .macroCall t n a => .macroCall t n a
def stripE (E : Env) : Env := Env.withTpls E (E.tpls.map (fun kv => (kv.1, stripL kv.2)))

/-- map the final state of a result -/
def mapSt {α} (g : St → St) : R (α × St) → R (α × St)
  | .ok (a, st) => .ok (a, g st)
  | .error e => .error e

@[simp] theorem mapSt_ok {α} (g : St → St) (a : α) (st : St) : mapSt g (.ok (a, st)) = .ok (a, g st) := rfl
@[simp] theorem mapSt_error {α} (g : St → St) (e : Err) : mapSt g (.error e : R (α × St)) = .error e := rfl

theorem mapSt_bind {α β} (g : St → St) (x : R (α × St)) (k : α × St → R (β × St)) :
    (mapSt g x >>= k) = (x >>= fun a => k (a.1, g a.2)) := by
  cases x with
  | error e => rfl
  | ok a => rfl

theorem bind_mapSt {α β} (g : St → St) (x : R α) (k : α → R (β × St)) :
    mapSt g (x >>= k) = (x >>= fun a => mapSt g (k a)) := by
  cases x with
  | error e => rfl
  | ok a => rfl

theorem stripS_emit (st : St) (k : CbKind) (n : Bytes) (s : Bool) : (stripS st).emit k n s = stripS (st.emit k n s) := rfl
theorem stripS_spyCalls (st : St) : (stripS st).spyCalls = st.spyCalls := rfl
theorem stripS_denied (E : Env) (st : St) (al : List Bytes) (n : Bytes) :
    denied E (stripS st).ctx al n = denied E st.ctx al n := rfl
theorem stripS_getMacro (st : St) (n : Bytes) : (stripS st).ctx.getMacro n = st.ctx.getMacro n := rfl
theorem stripS_getVar (st : St) (n : Bytes) : (stripS st).ctx.getVar n = st.ctx.getVar n := rfl
theorem stripS_hasVar (st : St) (n : Bytes) : (stripS st).ctx.hasVar n = st.ctx.hasVar n := rfl
theorem stripS_vars (st : St) : (stripS st).ctx.vars = st.ctx.vars := rfl
theorem stripS_allowedCheck (E : Env) (st : St) (al : List Bytes) (n : Bytes) (w : String) :
    allowedCheck E (stripS st) al n w = allowedCheck E st al n w := rfl

theorem invokeSpy_strip (E : Env) (k : CbKind) (n : Bytes) (st : St) :
    invokeSpy E k n (stripS st) = (invokeSpy E k n st).map stripS := by
  simp only [invokeSpy, stripS_spyCalls]
  by_cases h : (E.failAt == some st.spyCalls) = true
  · simp only [h, if_true]; rfl
  · simp only [h]; rfl

theorem applyFilter_strip (E : Env) (n : Bytes) (v : Val) (a : List Val) (st : St) :
    applyFilter E n v a (stripS st) = mapSt stripS (applyFilter E n v a st) := by
  simp only [applyFilter, stripS_denied, invokeSpy_strip]
  by_cases h1 : (E.F.chokeFilter && denied E st.ctx E.allowedFilters n) = true
  · simp only [h1, if_true]; rfl
  · simp only [h1]
    by_cases h2 : E.spyFilters.contains n = true
    · simp only [h2, if_true]
      cases invokeSpy E CbKind.filter n st <;> rfl
    · simp only [h2]
      cases builtinFilter n v a with
      | none => rfl
      | some r => cases r <;> rfl

theorem applyChain_strip (E : Env) : ∀ (ch : List (Bytes × List Val)) (v : Val) (st : St),
    applyChain E ch v (stripS st) = mapSt stripS (applyChain E ch v st)
  | [], v, st => rfl
  | (n, a) :: r, v, st => by
    simp only [applyChain, applyFilter_strip, mapSt_bind, bind_mapSt]
    apply bind_congr_ok
    intro x _
    exact applyChain_strip E r x.1 x.2

theorem callFunction_strip (E : Env) (n : Bytes) (a : List Val) (st : St) :
    callFunction E n a (stripS st) = mapSt stripS (callFunction E n a st) := by
  simp only [callFunction, stripS_denied, stripS_getMacro, invokeSpy_strip]
  by_cases h1 : (E.F.chokeFunc && denied E st.ctx E.allowedFunctions n && (st.ctx.getMacro n).isNone) = true
  · simp only [h1, if_true]; rfl
  · simp only [h1]
    by_cases h2 : (n == b "parent") = true
    · simp only [h2, if_true]; rfl
    · simp only [h2]
      by_cases h3 : E.spyFunctions.contains n = true
      · simp only [h3, if_true]
        cases invokeSpy E CbKind.function n st <;> rfl
      · simp only [h3]
        cases builtinFunction n a with
        | some r => cases r <;> rfl
        | none =>
          cases st.ctx.getMacro n with
          | none => rfl
          | some tm => rfl


theorem mapSt_pure {α} (g : St → St) (a : α) (st : St) : mapSt g (pure (a, st) : R (α × St)) = pure (a, g st) := rfl

/-- the non-`defined` branch of a test, common to all operand shapes -/
theorem test_else_strip (E : Env) (name : Bytes) (args : List Expr) (ev : St → R ((Val × List (Bytes × List Val)) × St))
    (st : St) (he : ev (stripS st) = mapSt stripS (ev st))
    (ha : ∀ st', evalArgs E args (stripS st') = mapSt stripS (evalArgs E args st')) :
    (do
        let ((v, _), st1) ← ev (stripS st)
        let (av, st2) ← evalArgs E args st1
        if E.spyTests.contains name then do
          let st3 ← invokeSpy E .test name st2
          pure ((Val.bool true, ([] : List (Bytes × List Val))), st3)
        else match builtinTest name v av with
          | some r => do let x ← r; pure ((Val.bool x, []), st2.emit .test name false)
          | none => rerr "test not found") =
    mapSt stripS (do
        let ((v, _), st1) ← ev st
        let (av, st2) ← evalArgs E args st1
        if E.spyTests.contains name then do
          let st3 ← invokeSpy E .test name st2
          pure ((Val.bool true, ([] : List (Bytes × List Val))), st3)
        else match builtinTest name v av with
          | some r => do let x ← r; pure ((Val.bool x, []), st2.emit .test name false)
          | none => rerr "test not found") := by
  rw [he]
  simp only [mapSt_bind, bind_mapSt, ha]
  apply bind_congr_ok
  intro a _
  apply bind_congr_ok
  intro x _
  by_cases hsp : E.spyTests.contains name = true
  · simp only [hsp, if_true, invokeSpy_strip]
    cases invokeSpy E CbKind.test name x.2 <;> rfl
  · simp only [hsp]
    cases builtinTest name a.1.1 x.1 with
    | none => rfl
    | some r => cases r <;> rfl

/-- the generic tail of a test (operand is neither an attribute access nor a variable) -/
theorem test_other_strip (E : Env) (name : Bytes) (args : List Expr) (ev : St → R ((Val × List (Bytes × List Val)) × St))
    (st : St) (he : ev (stripS st) = mapSt stripS (ev st))
    (ha : ∀ st', evalArgs E args (stripS st') = mapSt stripS (evalArgs E args st')) :
    (if (name == b "defined") = true then do
        let ((v, _), st1) ← ev (stripS st)
        let (_, st2) ← evalArgs E args st1
        pure ((Val.bool (match v with | .null => false | _ => true), ([] : List (Bytes × List Val))), st2.emit .test name false)
      else do
        let ((v, _), st1) ← ev (stripS st)
        let (av, st2) ← evalArgs E args st1
        if E.spyTests.contains name then do
          let st3 ← invokeSpy E .test name st2
          pure ((Val.bool true, ([] : List (Bytes × List Val))), st3)
        else match builtinTest name v av with
          | some r => do let x ← r; pure ((Val.bool x, []), st2.emit .test name false)
          | none => rerr "test not found") =
    mapSt stripS (if (name == b "defined") = true then do
        let ((v, _), st1) ← ev st
        let (_, st2) ← evalArgs E args st1
        pure ((Val.bool (match v with | .null => false | _ => true), ([] : List (Bytes × List Val))), st2.emit .test name false)
      else do
        let ((v, _), st1) ← ev st
        let (av, st2) ← evalArgs E args st1
        if E.spyTests.contains name then do
          let st3 ← invokeSpy E .test name st2
          pure ((Val.bool true, ([] : List (Bytes × List Val))), st3)
        else match builtinTest name v av with
          | some r => do let x ← r; pure ((Val.bool x, []), st2.emit .test name false)
          | none => rerr "test not found") := by
  rw [he]
  by_cases hd : (name == b "defined") = true
  · simp only [hd, if_true, mapSt_bind, bind_mapSt, ha]
    apply bind_congr_ok
    intro a _
    apply bind_congr_ok
    intro x _
    rfl
  · simp only [hd, Bool.false_eq_true, if_false, mapSt_bind, bind_mapSt, ha]
    apply bind_congr_ok
    intro a _
    apply bind_congr_ok
    intro x _
    by_cases hsp : E.spyTests.contains name = true
    · simp only [hsp, if_true, invokeSpy_strip]
      cases invokeSpy E CbKind.test name x.2 <;> rfl
    · simp only [hsp]
      cases builtinTest name a.1.1 x.1 with
      | none => rfl
      | some r => cases r <;> rfl

mutual
theorem evalX_strip (E : Env) : ∀ (e : Expr) (ap : Bool) (st : St),
    evalX E ap e (stripS st) = mapSt stripS (evalX E ap e st)
  | .null, ap, st => rfl
  | .bool _, ap, st => rfl
  | .int _, ap, st => rfl
  | .str _, ap, st => rfl
  | .unsup _, ap, st => rfl
  | .var n, ap, st => by
    simp only [evalX, stripS_hasVar, stripS_getMacro, stripS_getVar]
    by_cases h : st.ctx.hasVar n = true
    · simp only [h, if_true]; rfl
    · simp only [h]
      cases getKV n E.globals with
      | some g => rfl
      | none =>
        cases st.ctx.getMacro n with
        | none => rfl
        | some tm => rfl
  | .unary op e, ap, st => by
    simp only [evalX, evalX_strip E e, mapSt_bind, bind_mapSt]
    apply bind_congr_ok
    intro a _
    cases op
    · rfl
    · simp only [bind_mapSt]; apply bind_congr_ok; intro x _; rfl
    · simp only [bind_mapSt]; apply bind_congr_ok; intro x _; rfl
  | .binary op l r, ap, st => by
    simp only [evalX, evalX_strip E l, evalX_strip E r, mapSt_bind, bind_mapSt]
    apply bind_congr_ok
    intro a _
    split
    · rfl
    · split
      · rfl
      · simp only [bind_mapSt]
        apply bind_congr_ok
        intro x _
        cases binop op a.1.1 x.1.1 <;> rfl
  | .badBinary l r, ap, st => by
    simp only [evalX, evalX_strip E l, evalX_strip E r, mapSt_bind, bind_mapSt]
    apply bind_congr_ok
    intro a _
    apply bind_congr_ok
    intro x _
    rfl
  | .cond c t f, ap, st => by
    simp only [evalX, evalX_strip E c, mapSt_bind, bind_mapSt]
    apply bind_congr_ok
    intro a _
    split
    · exact evalX_strip E t true a.2
    · exact evalX_strip E f true a.2
  | .attr e name, ap, st => by
    simp only [evalX, evalX_strip E e, mapSt_bind, bind_mapSt]
    apply bind_congr_ok
    intro a _
    rfl
  | .item e i, ap, st => by
    simp only [evalX, evalX_strip E e, evalX_strip E i, mapSt_bind, bind_mapSt]
    apply bind_congr_ok
    intro a _
    apply bind_congr_ok
    intro x _
    cases getItem a.1.1 x.1.1 <;> rfl
  | .filter e name args, ap, st => by
    cases ap
    · simp only [evalX, Bool.false_eq_true, if_false, evalArgs_strip E args, evalX_strip E e, mapSt_bind, bind_mapSt]
      apply bind_congr_ok
      intro a _
      apply bind_congr_ok
      intro x _
      rfl
    · simp only [evalX, if_true, stripS_allowedCheck, evalArgs_strip E args, evalX_strip E e, mapSt_bind, bind_mapSt]
      apply bind_congr_ok
      intro u _
      apply bind_congr_ok
      intro a _
      apply bind_congr_ok
      intro x _
      rw [applyChain_strip, mapSt_bind]
      apply bind_congr_ok
      intro y _
      rfl
  | .call name args, ap, st => by
    simp only [evalX, stripS_allowedCheck, stripS_getMacro, evalArgs_strip E args, mapSt_bind, bind_mapSt]
    apply bind_congr_ok
    intro u _
    cases st.ctx.getMacro name with
    | some tm =>
      simp only [bind_mapSt]
      apply bind_congr_ok
      intro a _
      rfl
    | none =>
      simp only [bind_mapSt]
      apply bind_congr_ok
      intro a _
      rw [callFunction_strip, mapSt_bind]
      apply bind_congr_ok
      intro y _
      rfl
  | .mcall obj name args, ap, st => by
    simp only [evalX, stripS_allowedCheck, evalX_strip E obj, evalArgs_strip E args, mapSt_bind, bind_mapSt]
    apply bind_congr_ok
    intro u _
    apply bind_congr_ok
    intro a _
    apply bind_congr_ok
    intro x _
    split
    · rename_i heq
      simp only [heq]; rfl
    · rename_i heq
      simp only [heq]
      have hm : (stripS x.2).ctx.getMacro name = x.2.ctx.getMacro name := rfl
      rw [hm]
      cases hgm : x.2.ctx.getMacro name with
      | some tm => rfl
      | none =>
        simp only [callFunction_strip, mapSt_bind, bind_mapSt]
        apply bind_congr_ok
        intro y _
        rfl
  | .test (.attr obj a) name args, ap, st => by
    rw [evalX.eq_16 E ap (stripS st), evalX.eq_16 E ap st]
    by_cases hd : (name == b "defined") = true
    · simp only [hd, if_true, evalX_strip E obj]
      cases evalX E true obj st with
      | error e => cases e <;> rfl
      | ok x =>
        obtain ⟨⟨o, fl⟩, st1⟩ := x
        cases o <;> rfl
    · simp only [hd, Bool.false_eq_true, if_false]
      exact test_else_strip E name args _ st (evalX_strip E (.attr obj a) true st) (fun st' => evalArgs_strip E args st')
  | .test (.var n) name args, ap, st => by
    rw [evalX.eq_17 E ap (stripS st), evalX.eq_17 E ap st]
    by_cases hd : (name == b "defined") = true
    · simp only [hd, if_true, stripS_hasVar, stripS_getVar]
      by_cases hv : st.ctx.hasVar n = true
      · simp only [hv, Bool.true_or, if_true]; rfl
      · simp only [hv, Bool.false_or]
        cases getKV n E.globals with
        | some g => rfl
        | none => rfl
    · simp only [hd, Bool.false_eq_true, if_false]
      exact test_else_strip E name args _ st (evalX_strip E (.var n) true st) (fun st' => evalArgs_strip E args st')
  | .test (.null) name args, ap, st => by
    rw [evalX.eq_18 E ap (stripS st) (.null) name args (by intro _ _ h; cases h) (by intro _ h; cases h),
      evalX.eq_18 E ap st (.null) name args (by intro _ _ h; cases h) (by intro _ h; cases h)]
    exact test_other_strip E name args _ st (evalX_strip E (.null) true st) (fun st' => evalArgs_strip E args st')
  | .test (.bool v) name args, ap, st => by
    rw [evalX.eq_18 E ap (stripS st) (.bool v) name args (by intro _ _ h; cases h) (by intro _ h; cases h),
      evalX.eq_18 E ap st (.bool v) name args (by intro _ _ h; cases h) (by intro _ h; cases h)]
    exact test_other_strip E name args _ st (evalX_strip E (.bool v) true st) (fun st' => evalArgs_strip E args st')
  | .test (.int i) name args, ap, st => by
    rw [evalX.eq_18 E ap (stripS st) (.int i) name args (by intro _ _ h; cases h) (by intro _ h; cases h),
      evalX.eq_18 E ap st (.int i) name args (by intro _ _ h; cases h) (by intro _ h; cases h)]
    exact test_other_strip E name args _ st (evalX_strip E (.int i) true st) (fun st' => evalArgs_strip E args st')
  | .test (.str s) name args, ap, st => by
    rw [evalX.eq_18 E ap (stripS st) (.str s) name args (by intro _ _ h; cases h) (by intro _ h; cases h),
      evalX.eq_18 E ap st (.str s) name args (by intro _ _ h; cases h) (by intro _ h; cases h)]
    exact test_other_strip E name args _ st (evalX_strip E (.str s) true st) (fun st' => evalArgs_strip E args st')
  | .test (.unsup w) name args, ap, st => by
    rw [evalX.eq_18 E ap (stripS st) (.unsup w) name args (by intro _ _ h; cases h) (by intro _ h; cases h),
      evalX.eq_18 E ap st (.unsup w) name args (by intro _ _ h; cases h) (by intro _ h; cases h)]
    exact test_other_strip E name args _ st (evalX_strip E (.unsup w) true st) (fun st' => evalArgs_strip E args st')
  | .test (.unary op x) name args, ap, st => by
    rw [evalX.eq_18 E ap (stripS st) (.unary op x) name args (by intro _ _ h; cases h) (by intro _ h; cases h),
      evalX.eq_18 E ap st (.unary op x) name args (by intro _ _ h; cases h) (by intro _ h; cases h)]
    exact test_other_strip E name args _ st (evalX_strip E (.unary op x) true st) (fun st' => evalArgs_strip E args st')
  | .test (.binary op l r) name args, ap, st => by
    rw [evalX.eq_18 E ap (stripS st) (.binary op l r) name args (by intro _ _ h; cases h) (by intro _ h; cases h),
      evalX.eq_18 E ap st (.binary op l r) name args (by intro _ _ h; cases h) (by intro _ h; cases h)]
    exact test_other_strip E name args _ st (evalX_strip E (.binary op l r) true st) (fun st' => evalArgs_strip E args st')
  | .test (.badBinary l r) name args, ap, st => by
    rw [evalX.eq_18 E ap (stripS st) (.badBinary l r) name args (by intro _ _ h; cases h) (by intro _ h; cases h),
      evalX.eq_18 E ap st (.badBinary l r) name args (by intro _ _ h; cases h) (by intro _ h; cases h)]
    exact test_other_strip E name args _ st (evalX_strip E (.badBinary l r) true st) (fun st' => evalArgs_strip E args st')
  | .test (.cond c t f) name args, ap, st => by
    rw [evalX.eq_18 E ap (stripS st) (.cond c t f) name args (by intro _ _ h; cases h) (by intro _ h; cases h),
      evalX.eq_18 E ap st (.cond c t f) name args (by intro _ _ h; cases h) (by intro _ h; cases h)]
    exact test_other_strip E name args _ st (evalX_strip E (.cond c t f) true st) (fun st' => evalArgs_strip E args st')
  | .test (.item x i) name args, ap, st => by
    rw [evalX.eq_18 E ap (stripS st) (.item x i) name args (by intro _ _ h; cases h) (by intro _ h; cases h),
      evalX.eq_18 E ap st (.item x i) name args (by intro _ _ h; cases h) (by intro _ h; cases h)]
    exact test_other_strip E name args _ st (evalX_strip E (.item x i) true st) (fun st' => evalArgs_strip E args st')
  | .test (.filter x nm as) name args, ap, st => by
    rw [evalX.eq_18 E ap (stripS st) (.filter x nm as) name args (by intro _ _ h; cases h) (by intro _ h; cases h),
      evalX.eq_18 E ap st (.filter x nm as) name args (by intro _ _ h; cases h) (by intro _ h; cases h)]
    exact test_other_strip E name args _ st (evalX_strip E (.filter x nm as) true st) (fun st' => evalArgs_strip E args st')
  | .test (.call nm as) name args, ap, st => by
    rw [evalX.eq_18 E ap (stripS st) (.call nm as) name args (by intro _ _ h; cases h) (by intro _ h; cases h),
      evalX.eq_18 E ap st (.call nm as) name args (by intro _ _ h; cases h) (by intro _ h; cases h)]
    exact test_other_strip E name args _ st (evalX_strip E (.call nm as) true st) (fun st' => evalArgs_strip E args st')
  | .test (.mcall o nm as) name args, ap, st => by
    rw [evalX.eq_18 E ap (stripS st) (.mcall o nm as) name args (by intro _ _ h; cases h) (by intro _ h; cases h),
      evalX.eq_18 E ap st (.mcall o nm as) name args (by intro _ _ h; cases h) (by intro _ h; cases h)]
    exact test_other_strip E name args _ st (evalX_strip E (.mcall o nm as) true st) (fun st' => evalArgs_strip E args st')
  | .test (.test x nm as) name args, ap, st => by
    rw [evalX.eq_18 E ap (stripS st) (.test x nm as) name args (by intro _ _ h; cases h) (by intro _ h; cases h),
      evalX.eq_18 E ap st (.test x nm as) name args (by intro _ _ h; cases h) (by intro _ h; cases h)]
    exact test_other_strip E name args _ st (evalX_strip E (.test x nm as) true st) (fun st' => evalArgs_strip E args st')
  | .test (.array xs) name args, ap, st => by
    rw [evalX.eq_18 E ap (stripS st) (.array xs) name args (by intro _ _ h; cases h) (by intro _ h; cases h),
      evalX.eq_18 E ap st (.array xs) name args (by intro _ _ h; cases h) (by intro _ h; cases h)]
    exact test_other_strip E name args _ st (evalX_strip E (.array xs) true st) (fun st' => evalArgs_strip E args st')
  | .test (.hash xs) name args, ap, st => by
    rw [evalX.eq_18 E ap (stripS st) (.hash xs) name args (by intro _ _ h; cases h) (by intro _ h; cases h),
      evalX.eq_18 E ap st (.hash xs) name args (by intro _ _ h; cases h) (by intro _ h; cases h)]
    exact test_other_strip E name args _ st (evalX_strip E (.hash xs) true st) (fun st' => evalArgs_strip E args st')
  | .array items, ap, st => by
    simp only [evalX, evalArgs_strip E items, mapSt_bind, bind_mapSt]
    apply bind_congr_ok
    intro a _
    rfl
  | .hash items, ap, st => by
    simp only [evalX, evalPairs_strip E items, mapSt_bind, bind_mapSt]
    apply bind_congr_ok
    intro a _
    rfl

theorem evalArgs_strip (E : Env) : ∀ (es : List Expr) (st : St),
    evalArgs E es (stripS st) = mapSt stripS (evalArgs E es st)
  | [], st => rfl
  | e :: es, st => by
    simp only [evalArgs, evalX_strip E e, evalArgs_strip E es, mapSt_bind, bind_mapSt]
    apply bind_congr_ok
    intro a _
    apply bind_congr_ok
    intro x _
    rfl

theorem evalPairs_strip (E : Env) : ∀ (es : List Expr) (st : St),
    evalPairs E es (stripS st) = mapSt stripS (evalPairs E es st)
  | [], st => rfl
  | [_], st => rfl
  | k :: v :: es, st => by
    simp only [evalPairs, evalX_strip E k, evalX_strip E v, evalPairs_strip E es, mapSt_bind, bind_mapSt]
    apply bind_congr_ok
    intro a _
    apply bind_congr_ok
    intro key _
    apply bind_congr_ok
    intro x _
    apply bind_congr_ok
    intro y _
    rfl
end


/-! ### transfers, printing, loops -/

/-- the transfer function of the stripped engine simulates the original one -/
def GoStrip (go' go : Go) : Prop := ∀ tr st, go' (stripT tr) (stripS st) = mapSt stripS (go tr st)

theorem printVal_strip {go' go : Go} (hg : GoStrip go' go) (v : Val) (st : St) :
    printVal go' v (stripS st) = mapSt stripS (printVal go v st) := by
  unfold printVal
  cases v with
  | callable t m args => exact hg (.macroCall t m args) st
  | parentFn =>
    simp only
    by_cases hin : st.ctx.inBlock = true
    · have e1 : ¬ ((!(stripS st).ctx.inBlock) = true) := by
        show ¬ ((!st.ctx.inBlock) = true); simp [hin]
      have e2 : ¬ ((!st.ctx.inBlock) = true) := by simp [hin]
      rw [if_neg e1, if_neg e2]
      have hdrop : List.drop ((stripS st).ctx.level + 1) (stripS st).ctx.chain =
          (List.drop (st.ctx.level + 1) st.ctx.chain).map stripD := by
        show List.drop (st.ctx.level + 1) (st.ctx.chain.map stripD) = _
        rw [List.map_drop]
      rw [hdrop]
      cases List.drop (st.ctx.level + 1) st.ctx.chain with
      | nil => rfl
      | cons d r =>
        simp only [List.map_cons]
        have := hg (.body d.tpl d.body) { st with ctx := { st.ctx with level := st.ctx.level + 1 } }
        simp only [stripT] at this
        show (go' (.body d.tpl (stripL d.body)) (stripS { st with ctx := { st.ctx with level := st.ctx.level + 1 } }) >>= _) = _
        rw [this, mapSt_bind, bind_mapSt]
        apply bind_congr_ok
        intro a _
        rfl
    · have e1 : (!(stripS st).ctx.inBlock) = true := by
        show (!st.ctx.inBlock) = true; simpa using hin
      have e2 : (!st.ctx.inBlock) = true := by simpa using hin
      rw [if_pos e1, if_pos e2]
      rfl
  | _ =>
    simp only
    cases toStr _ <;> rfl

theorem loopOver_strip {f' f : St → R Out} (hf : ∀ s, f' (stripS s) = mapSt stripS (f s))
    (kv : Option Bytes) (vv : Bytes) (n : Nat) :
    ∀ (items : List (Val × Val)) (i : Nat) (st : St),
      loopOver f' kv vv n i items (stripS st) = mapSt stripS (loopOver f kv vv n i items st)
  | [], i, st => rfl
  | (k, v) :: r, i, st => by
    cases kv with
    | none =>
      simp only [loopOver]
      have := hf { st with ctx := (st.ctx.setVar vv v).setVar (b "loop") (loopMeta i n) }
      show (f' (stripS { st with ctx := (st.ctx.setVar vv v).setVar (b "loop") (loopMeta i n) }) >>= _) = _
      rw [this, mapSt_bind, bind_mapSt]
      apply bind_congr_ok
      intro a _
      simp only [loopOver_strip hf none vv n r (i + 1) a.2, mapSt_bind, bind_mapSt]
      apply bind_congr_ok
      intro x _
      rfl
    | some kk =>
      simp only [loopOver]
      have := hf { st with ctx := ((st.ctx.setVar vv v).setVar kk k).setVar (b "loop") (loopMeta i n) }
      show (f' (stripS { st with ctx := ((st.ctx.setVar vv v).setVar kk k).setVar (b "loop") (loopMeta i n) }) >>= _) = _
      rw [this, mapSt_bind, bind_mapSt]
      apply bind_congr_ok
      intro a _
      simp only [loopOver_strip hf (some kk) vv n r (i + 1) a.2, mapSt_bind, bind_mapSt]
      apply bind_congr_ok
      intro x _
      rfl


/-! ### list plumbing -/

theorem getKV_map {α β} (g : α → β) (k : Bytes) : ∀ (l : List (Bytes × α)),
    getKV k (l.map (fun kv => (kv.1, g kv.2))) = (getKV k l).map g
  | [] => rfl
  | (k', a) :: r => by
    have ih := getKV_map g k r
    unfold getKV at ih ⊢
    simp only [List.map_cons, List.find?_cons]
    by_cases h : (k' == k) = true
    · simp [h]
    · simp only [h]; exact ih

theorem specChain_strip (tpl nm : Bytes) (body : List Node) (defs : List BlockDef) :
    Inh.specChain tpl nm (stripL body) (defs.map stripD) = (Inh.specChain tpl nm body defs).map stripD := by
  unfold Inh.specChain
  have hc : ((defs.map stripD).getLast?.map (·.tpl == tpl)).getD false = (defs.getLast?.map (·.tpl == tpl)).getD false := by
    rw [List.getLast?_map]
    cases defs.getLast? <;> rfl
  rw [hc]
  split
  · rfl
  · simp [stripD]

theorem headD_strip (ch : List BlockDef) (d : BlockDef) : (ch.map stripD).headD (stripD d) = stripD (ch.headD d) := by
  cases ch <;> rfl

theorem tpl_strip (E : Env) (name : Bytes) : (stripE E).tpl? name = (E.tpl? name).map stripL := by
  unfold Env.tpl? stripE Env.withTpls
  simp only
  induction E.tpls with
  | nil => rfl
  | cons kv r ih =>
    simp only [List.map_cons, List.find?_cons]
    by_cases h : (kv.1 == name) = true
    · simp [h]
    · simp only [h]; exact ih

theorem stripL_cons (n : Node) (r : List Node) (h : ∀ s, n ≠ .text s) : stripL (n :: r) = stripN n :: stripL r := by
  cases n <;> first | rfl | exact absurd rfl (h _)

theorem stripL_text (s : Bytes) (r : List Node) :
    stripL (.text s :: r) = if s.isEmpty then stripL r else .text s :: stripL r := by
  rw [stripL]

theorem lastExtends_strip : ∀ (nodes : List Node), lastExtends (stripL nodes) = lastExtends nodes
  | [] => rfl
  | n :: r => by
    have ih := lastExtends_strip r
    cases n with
    | text s =>
      rw [stripL_text]
      split <;> simp [lastExtends, ih]
    | _ => rw [stripL_cons _ _ (by intro s h; cases h)]; simp [stripN, lastExtends, ih]

theorem registerBlocks_strip (tpl : Bytes) : ∀ (nodes : List Node) (defs : List (Bytes × List BlockDef)),
    registerBlocks tpl (stripL nodes) (defs.map (fun kv => (kv.1, kv.2.map stripD))) =
      (registerBlocks tpl nodes defs).map (fun kv => (kv.1, kv.2.map stripD))
  | [], defs => rfl
  | n :: r, defs => by
    cases n with
    | text s =>
      rw [stripL_text]
      split <;> simp [registerBlocks, registerBlocks_strip tpl r defs]
    | block name body =>
      rw [stripL_cons _ _ (by intro s h; cases h)]
      simp only [stripN, registerBlocks]
      rw [← registerBlocks_strip tpl r]
      congr 1
      rw [getKV_map]
      simp only [setKV, List.map_cons, List.filter_map]
      congr 1
      cases getKV name defs <;> simp [stripD]
    | _ =>
      rw [stripL_cons _ _ (by intro s h; cases h)]
      simp [stripN, registerBlocks, registerBlocks_strip tpl r defs]


/-! ### nodes -/

theorem evalX_stripE (E : Env) (ap : Bool) (e : Expr) (st : St) : evalX (stripE E) ap e st = evalX E ap e st :=
  evalX_env E _ e ap st
theorem evalArgs_stripE (E : Env) (es : List Expr) (st : St) : evalArgs (stripE E) es st = evalArgs E es st :=
  evalArgs_env E _ es st
theorem applyFilter_stripE (E : Env) (n : Bytes) (v : Val) (a : List Val) (st : St) :
    applyFilter (stripE E) n v a st = applyFilter E n v a st := rfl

theorem unblock_strip (c : Ctx) (r : R Out) :
    Inh.unblock (stripC c) (mapSt stripS r) = mapSt stripS (Inh.unblock c r) := by
  cases r with
  | error e => rfl
  | ok a => rfl

theorem block_strip (E : Env) {go' go : Go} (hg : GoStrip go' go) (tpl name : Bytes) (body : List Node) (st : St) :
    renderNode (stripE E) go' tpl (.block name (stripL body)) (stripS st) =
      mapSt stripS (renderNode E go tpl (.block name body) st) := by
  rw [Inh.block_eq, Inh.block_eq]
  have hdefs : (getKV name (stripS st).ctx.blockDefs).getD [] = ((getKV name st.ctx.blockDefs).getD []).map stripD := by
    show (getKV name (st.ctx.blockDefs.map (fun kv => (kv.1, kv.2.map stripD)))).getD [] = _
    rw [getKV_map]
    cases getKV name st.ctx.blockDefs <;> rfl
  rw [hdefs, specChain_strip]
  have hme : (⟨tpl, name, stripL body⟩ : BlockDef) = stripD ⟨tpl, name, body⟩ := rfl
  rw [hme, headD_strip]
  generalize Inh.specChain tpl name body ((getKV name st.ctx.blockDefs).getD []) = ch
  generalize ch.headD ⟨tpl, name, body⟩ = hd
  have := hg (.body hd.tpl hd.body) (Inh.blockSt st ch)
  rw [← unblock_strip, ← this]
  rfl


theorem setAll_blockDefs : ∀ (c : Ctx) (ns : List Bytes) (vs : List Val),
    (setAll c ns vs).blockDefs = c.blockDefs ∧ (setAll c ns vs).chain = c.chain
  | c, [], _ => ⟨rfl, rfl⟩
  | c, _ :: _, [] => ⟨rfl, rfl⟩
  | c, n :: ns, v :: vs => by
    simp only [setAll]
    exact setAll_blockDefs (c.setVar n v) ns vs

theorem stripC_of_nil {c : Ctx} (h1 : c.blockDefs = []) (h2 : c.chain = []) : stripC c = c := by
  cases c
  simp only at h1 h2
  subst h1 h2
  rfl

theorem stripS_setAll (st : St) (ic : Ctx) (h1 : ic.blockDefs = []) (h2 : ic.chain = []) (ns : List Bytes) (vs : List Val) :
    ({ stripS st with ctx := setAll ic ns vs } : St) = stripS { st with ctx := setAll ic ns vs } := by
  have := stripC_of_nil (c := setAll ic ns vs) ((setAll_blockDefs ic ns vs).1.trans h1) ((setAll_blockDefs ic ns vs).2.trans h2)
  show _ = ({ st with ctx := stripC (setAll ic ns vs) } : St)
  rw [this]
  rfl

theorem bind_pure_id {α} (x : R (α × St)) : (x >>= fun a => pure (a.1, a.2)) = x := by
  cases x <;> rfl

mutual
theorem renderNode_strip (E : Env) {go' go : Go} (hg : GoStrip go' go) (tpl : Bytes) :
    ∀ (n : Node) (st : St),
      renderNode (stripE E) go' tpl (stripN n) (stripS st) = mapSt stripS (renderNode E go tpl n st)
  | .text s, st => rfl
  | .verbatim s, st => rfl
  | .print e, st => by
    simp only [stripN, renderNode, evalX_stripE, evalX_strip, mapSt_bind, bind_mapSt]
    apply bind_congr_ok
    intro a _
    exact printVal_strip hg _ _
  | .ifN c t e, st => by
    simp only [stripN, renderNode, evalX_stripE, evalX_strip, mapSt_bind, bind_mapSt]
    apply bind_congr_ok
    intro a _
    split
    · exact renderNodes_strip E hg tpl t a.2
    · exact renderNodes_strip E hg tpl e a.2
  | .forN key val seq body els, st => by
    simp only [stripN, renderNode, evalX_stripE, evalX_strip, mapSt_bind, bind_mapSt]
    apply bind_congr_ok
    intro a _
    apply bind_congr_ok
    intro items _
    split
    · exact renderNodes_strip E hg tpl els a.2
    · exact renderNodes_strip E hg tpl els a.2
    · rw [loopOver_strip (f' := fun s => renderNodes (stripE E) go' tpl (stripL body) s)
        (f := fun s => renderNodes E go tpl body s) (fun s => renderNodes_strip E hg tpl body s)]
      simp only [mapSt_bind, bind_mapSt, stripS_vars]
      apply bind_congr_ok
      intro x _
      cases getKV (b "loop") a.2.ctx.vars <;> rfl
  | .setN name e, st => by
    simp only [stripN, renderNode, evalX_stripE, evalX_strip, mapSt_bind, bind_mapSt]
    apply bind_congr_ok
    intro a _
    rfl
  | .doN e, st => by
    simp only [stripN, renderNode, evalX_stripE, evalX_strip, mapSt_bind, bind_mapSt]
    apply bind_congr_ok
    intro a _
    rfl
  | .block name body, st => block_strip E hg tpl name body st
  | .extends e, st => by
    simp only [stripN, renderNode, evalX_stripE, evalX_strip, mapSt_bind, bind_mapSt, tpl_strip]
    apply bind_congr_ok
    intro a _
    apply bind_congr_ok
    intro name _
    split
    · rfl
    · cases E.tpl? name with
      | none => rfl
      | some ns =>
        simp only [Option.map_some]
        have := hg (.root name) { a.2 with ctx := { freshCtx a.2.ctx.vars (E.F.propExtends && a.2.ctx.sandboxed) a.2.ctx.inside with blockDefs := a.2.ctx.blockDefs } }
        simp only [stripT] at this
        show (go' (.root name) (stripS { a.2 with ctx := { freshCtx a.2.ctx.vars (E.F.propExtends && a.2.ctx.sandboxed) a.2.ctx.inside with blockDefs := a.2.ctx.blockDefs } }) >>= _) = _
        rw [this, mapSt_bind, bind_mapSt]
        apply bind_congr_ok
        intro x _
        rfl
  | .include te names exprs ignoreMissing only sandboxed, st => by
    simp only [stripN, renderNode, evalX_stripE, evalX_strip, mapSt_bind, bind_mapSt, tpl_strip, evalArgs_stripE]
    apply bind_congr_ok
    intro a _
    apply bind_congr_ok
    intro name _
    split
    · rfl
    · cases E.tpl? name with
      | none =>
        simp only [Option.map_none]
        cases ignoreMissing <;> rfl
      | some ns =>
        simp only [Option.map_some]
        have hpol : (stripE E).hasPolicy = E.hasPolicy := rfl
        rw [hpol]
        split
        · rfl
        · rw [evalArgs_strip, mapSt_bind, bind_mapSt]
          apply bind_congr_ok
          intro x _
          cases only <;> cases sandboxed <;>
            (simp only [Bool.not_false, Bool.not_true, Bool.and_true, Bool.and_false,
                if_true, Bool.false_eq_true, if_false, Bool.false_or, Bool.true_or]
             rw [stripS_setAll _ _ rfl rfl]
             have hroot := hg (.root name)
             simp only [stripT] at hroot
             rw [hroot, mapSt_bind, bind_mapSt]
             apply bind_congr_ok
             intro y _
             rfl)
  | .macro name ps dn de body, st => rfl
  | .importN te alias, st => by
    simp only [stripN, renderNode, evalX_stripE, evalX_strip, mapSt_bind, bind_mapSt, tpl_strip]
    apply bind_congr_ok
    intro a _
    apply bind_congr_ok
    intro name _
    split
    · rfl
    · cases E.tpl? name with
      | none => rfl
      | some ns =>
        simp only [Option.map_some]
        have hroot := hg (.root name) { a.2 with ctx := freshCtx [] (E.F.propImport && a.2.ctx.sandboxed) a.2.ctx.inside }
        simp only [stripT] at hroot
        show (go' (.root name) (stripS { a.2 with ctx := freshCtx [] (E.F.propImport && a.2.ctx.sandboxed) a.2.ctx.inside }) >>= _) = _
        rw [hroot, mapSt_bind, bind_mapSt]
        apply bind_congr_ok
        intro x _
        rfl
  | .fromN te names, st => by
    simp only [stripN, renderNode, evalX_stripE, evalX_strip, mapSt_bind, bind_mapSt, tpl_strip]
    apply bind_congr_ok
    intro a _
    apply bind_congr_ok
    intro name _
    split
    · rfl
    · cases E.tpl? name with
      | none => rfl
      | some ns =>
        simp only [Option.map_some]
        have hroot := hg (.root name) { a.2 with ctx := freshCtx [] (E.F.propFrom && a.2.ctx.sandboxed) a.2.ctx.inside }
        simp only [stripT] at hroot
        show (go' (.root name) (stripS { a.2 with ctx := freshCtx [] (E.F.propFrom && a.2.ctx.sandboxed) a.2.ctx.inside }) >>= _) = _
        rw [hroot, mapSt_bind, bind_mapSt]
        apply bind_congr_ok
        intro x _
        show (bindFrom x.2.ctx.macros names a.2.ctx.macros >>= _) = _
        rw [bind_mapSt]
        apply bind_congr_ok
        intro ms _
        rfl
  | .apply filter body, st => by
    simp only [stripN, renderNode, renderNodes_strip E hg tpl body st, mapSt_bind, bind_mapSt, applyFilter_stripE]
    apply bind_congr_ok
    intro a _
    rw [applyFilter_strip, mapSt_bind]
    apply bind_congr_ok
    intro x _
    cases toStr x.1 <;> rfl
  | .spaceless _, st => rfl

theorem renderNodes_strip (E : Env) {go' go : Go} (hg : GoStrip go' go) (tpl : Bytes) :
    ∀ (ns : List Node) (st : St),
      renderNodes (stripE E) go' tpl (stripL ns) (stripS st) = mapSt stripS (renderNodes E go tpl ns st)
  | [], st => rfl
  | n :: r, st => by
    have ihr := renderNodes_strip E hg tpl r
    have hgen : renderNodes (stripE E) go' tpl (stripN n :: stripL r) (stripS st) =
        mapSt stripS (renderNodes E go tpl (n :: r) st) := by
      simp only [renderNodes, renderNode_strip E hg tpl n st, mapSt_bind, bind_mapSt]
      apply bind_congr_ok
      intro a _
      rw [ihr, mapSt_bind]
      apply bind_congr_ok
      intro x _
      rfl
    cases n with
    | text s =>
      rw [stripL_text]
      by_cases hs : s.isEmpty = true
      · simp only [hs, if_true, ihr]
        have : s = [] := by simpa using hs
        subst this
        simp only [renderNodes, renderNode, pure_eq_ok, ok_bind, List.nil_append]
        congr 1
        cases renderNodes E go tpl r st <;> rfl
      · simp only [hs]
        exact hgen
    | _ => rw [stripL_cons _ _ (by intro s h; cases h)]; exact hgen
end


/-! ### roots, macro calls, the fuel-indexed top level -/

theorem renderRoot_strip (E : Env) {go' go : Go} (hg : GoStrip go' go) (tpl : Bytes) (st : St) :
    renderRoot (stripE E) go' tpl (stripS st) = mapSt stripS (renderRoot E go tpl st) := by
  unfold renderRoot
  rw [tpl_strip]
  cases E.tpl? tpl with
  | none => rfl
  | some nodes =>
    simp only [Option.map_some, lastExtends_strip]
    have hreg : ({ stripS st with ctx := { (stripS st).ctx with
          blockDefs := registerBlocks tpl (stripL nodes) (stripS st).ctx.blockDefs } } : St) =
        stripS { st with ctx := { st.ctx with blockDefs := registerBlocks tpl nodes st.ctx.blockDefs } } := by
      show _ = ({ st with ctx := stripC { st.ctx with blockDefs := registerBlocks tpl nodes st.ctx.blockDefs } } : St)
      simp only [stripS, stripC]
      rw [registerBlocks_strip]
    rw [hreg]
    cases lastExtends nodes with
    | none => exact renderNodes_strip E hg tpl nodes _
    | some e => exact renderNode_strip E hg tpl (.extends e) _

theorem findMacro_foldl_strip (name : Bytes) : ∀ (nodes : List Node) (acc : Option (List Bytes × List Bytes × List Expr × List Node)),
    (stripL nodes).foldl (fun acc n => match n with
        | .macro m ps dn de body => if m == name then some (ps, dn, de, body) else acc
        | _ => acc) (acc.map (fun x => (x.1, x.2.1, x.2.2.1, stripL x.2.2.2))) =
      (nodes.foldl (fun acc n => match n with
        | .macro m ps dn de body => if m == name then some (ps, dn, de, body) else acc
        | _ => acc) acc).map (fun x => (x.1, x.2.1, x.2.2.1, stripL x.2.2.2))
  | [], acc => rfl
  | n :: r, acc => by
    cases n with
    | text s =>
      rw [stripL_text]
      split
      · simp only [List.foldl_cons]; exact findMacro_foldl_strip name r acc
      · simp only [List.foldl_cons]; exact findMacro_foldl_strip name r acc
    | «macro» m ps dn de body =>
      rw [stripL_cons _ _ (by intro s h; cases h)]
      simp only [stripN, List.foldl_cons]
      by_cases hm : (m == name) = true
      · simp only [hm, if_true]
        exact findMacro_foldl_strip name r (some (ps, dn, de, body))
      · simp only [hm]
        exact findMacro_foldl_strip name r acc
    | _ =>
      rw [stripL_cons _ _ (by intro s h; cases h)]
      simp only [stripN, List.foldl_cons]
      exact findMacro_foldl_strip name r acc

theorem findMacro_strip (nodes : List Node) (name : Bytes) :
    findMacro (stripL nodes) name = (findMacro nodes name).map (fun x => (x.1, x.2.1, x.2.2.1, stripL x.2.2.2)) :=
  findMacro_foldl_strip name nodes none

theorem topMacroNames_strip : ∀ (nodes : List Node), topMacroNames (stripL nodes) = topMacroNames nodes
  | [] => rfl
  | n :: r => by
    have ih := topMacroNames_strip r
    unfold topMacroNames at ih ⊢
    cases n with
    | text s =>
      rw [stripL_text]
      split <;> simp [ih]
    | _ =>
      rw [stripL_cons _ _ (by intro s h; cases h)]
      simp [stripN, ih]

theorem containsOpener_nil : containsOpener [] = false := by decide +kernel

theorem any_strip (p : Node → Bool) (h0 : p (.text []) = false) (h1 : ∀ n, p (stripN n) = p n) :
    ∀ (body : List Node), (stripL body).any p = body.any p
  | [] => rfl
  | n :: r => by
    have ih := any_strip p h0 h1 r
    cases n with
    | text s =>
      rw [stripL_text]
      by_cases hs : s.isEmpty = true
      · have : s = [] := by simpa using hs
        subst this
        simp [ih, h0]
      · simp [hs, ih]
    | _ =>
      rw [stripL_cons _ _ (by intro s h; cases h)]
      simp only [List.any_cons, ih, h1]

theorem evalExpr_strip (E : Env) (e : Expr) (st : St) :
    evalExpr E e (stripS st) = mapSt stripS (evalExpr E e st) := by
  unfold evalExpr
  rw [evalX_strip, mapSt_bind, bind_mapSt]
  apply bind_congr_ok
  intro a _
  rfl

theorem bindParams_strip (E : Env) (dn : List Bytes) (de : List Expr) :
    ∀ (ps : List Bytes) (args : List Val) (st : St) (acc : List (Bytes × Val)),
      bindParams E dn de ps args (stripS st) acc = mapSt stripS (bindParams E dn de ps args st acc)
  | [], _, st, acc => by simp only [bindParams]; rfl
  | p :: ps, a :: as, st, acc => by simp only [bindParams, bindParams_strip E dn de ps as]
  | p :: ps, [], st, acc => by
    simp only [bindParams]
    cases lookupDefault p dn de with
    | none => exact bindParams_strip E dn de ps [] st _
    | some e =>
      simp only [evalExpr_strip, mapSt_bind, bind_mapSt]
      apply bind_congr_ok
      intro a _
      exact bindParams_strip E dn de ps [] a.2 _


theorem bindParams_stripE (E : Env) (dn : List Bytes) (de : List Expr) (ps : List Bytes) (args : List Val) (st : St)
    (acc : List (Bytes × Val)) : bindParams (stripE E) dn de ps args st acc = bindParams E dn de ps args st acc :=
  bindParams_env E _ dn de ps args st acc

theorem callMacro_strip (E : Env) {go' go : Go} (hg : GoStrip go' go) (t m : Bytes) (args : List Val) (st : St) :
    callMacro (stripE E) go' t m args (stripS st) = mapSt stripS (callMacro E go t m args st) := by
  unfold callMacro
  rw [tpl_strip]
  cases E.tpl? t with
  | none => rfl
  | some nodes =>
    simp only [Option.map_some, findMacro_strip, topMacroNames_strip]
    cases findMacro nodes m with
    | none => rfl
    | some x =>
      obtain ⟨ps, dn, de, body⟩ := x
      simp only [Option.map_some]
      rw [any_strip _ (by simp only [containsOpener_nil]) (by intro n; cases n <;> rfl)]
      split
      · rfl
      · rw [bindParams_stripE, bindParams_strip, mapSt_bind, bind_mapSt]
        apply bind_congr_ok
        intro a _
        have hb := hg (.body t body) { a.2 with ctx :=
          { vars := a.1, macros := (topMacroNames nodes).map (fun m => (m, t, m)),
            parents := st.ctx.asScope :: st.ctx.parents,
            sandboxed := E.F.propMacro && st.ctx.sandboxed, inside := st.ctx.inside } }
        simp only [stripT] at hb
        show (go' (.body t (stripL body)) (stripS { a.2 with ctx :=
          { vars := a.1, macros := (topMacroNames nodes).map (fun m => (m, t, m)),
            parents := st.ctx.asScope :: st.ctx.parents,
            sandboxed := E.F.propMacro && st.ctx.sandboxed, inside := st.ctx.inside } }) >>= _) = _
        rw [hb, mapSt_bind, bind_mapSt]
        apply bind_congr_ok
        intro x _
        rfl

/-- the engine whose templates have lost their empty text nodes simulates the original one -/
theorem run_strip (E : Env) : ∀ f, GoStrip (run (stripE E) f) (run E f)
  | 0 => fun _ _ => rfl
  | f+1 => by
    intro tr st
    cases tr with
    | root t => simp only [stripT, run]; exact renderRoot_strip E (run_strip E f) t st
    | body t ns => simp only [stripT, run]; exact renderNodes_strip E (run_strip E f) t ns st
    | macroCall t m a => simp only [stripT, run]; exact callMacro_strip E (run_strip E f) t m a st

theorem renderTop_strip (E : Env) (name : Bytes) (vars : List (Bytes × Val)) :
    renderTop (stripE E) name vars = renderTop E name vars := by
  unfold renderTop
  rw [tpl_strip]
  cases E.tpl? name with
  | none => rfl
  | some nodes =>
    simp only [Option.map_some]
    have := run_strip E defaultFuel (.root name) { ctx := { vars := vars } }
    simp only [stripT] at this
    have hs : stripS ({ ctx := { vars := vars } } : St) = { ctx := { vars := vars } } := rfl
    rw [hs] at this
    rw [this]
    cases run E defaultFuel (Transfer.root name) { ctx := { vars := vars } } <;> rfl

theorem envOf_strip (nodes : List Node) : stripE (envOf nodes) = envOf (stripL nodes) := rfl

/-- Rendering is insensitive to empty text nodes: removing every `.text []` node (at every depth) from a template
    changes neither the output nor the error nor the trace. -/
theorem renderNodesTop_strip (nodes : List Node) (vars : List (Bytes × Val)) :
    renderNodesTop (stripL nodes) vars = renderNodesTop nodes vars := by
  unfold renderNodesTop
  rw [← envOf_strip, renderTop_strip]



/-! ## locality of the expression parser: it never looks past the first token that is not an expression token -/

/-- a token that no expression parser accepts (delimiters, TEXT, EOF) -/
def EndTok (d : Token) : Prop := ¬ ExprKind d.kind

theorem EndTok.kinds {d : Token} (h : EndTok d) :
    d.kind ≠ NAME ∧ d.kind ≠ NUMBER ∧ d.kind ≠ STRING ∧ d.kind ≠ OPERATOR ∧ d.kind ≠ PUNCT := by
  unfold EndTok ExprKind at h
  simp only [NAME, NUMBER, STRING, OPERATOR, PUNCT]
  omega

theorem EndTok.isP {d : Token} (h : EndTok d) (c : UInt8) : isP d c = false := by
  simp [Twig.isP, h.kinds.2.2.2.2]
theorem EndTok.isName {d : Token} (h : EndTok d) (s : String) : isName d s = false := by
  simp [Twig.isName, h.kinds.1]
theorem EndTok.stop {d : Token} (h : EndTok d) : StopTok d := ⟨h.kinds.1, h.kinds.2.2.2.1, h.kinds.2.2.2.2⟩

/-- `ts` and `ts'` are the same expression tokens followed by the same end token, then `r` resp. `r'` -/
def TS (r r' ts ts' : List Token) : Prop :=
  ∃ xs d, AllK xs ∧ EndTok d ∧ ts = xs ++ d :: r ∧ ts' = xs ++ d :: r'

theorem TS.cases {r r' ts ts' : List Token} (h : TS r r' ts ts') :
    (∃ d, EndTok d ∧ ts = d :: r ∧ ts' = d :: r') ∨
    (∃ x t t', ExprKind x.kind ∧ ts = x :: t ∧ ts' = x :: t' ∧ TS r r' t t') := by
  obtain ⟨xs, d, hk, hd, rfl, rfl⟩ := h
  cases xs with
  | nil => exact .inl ⟨d, hd, rfl, rfl⟩
  | cons x xs =>
    rw [allK_cons] at hk
    exact .inr ⟨x, xs ++ d :: r, xs ++ d :: r', hk.1, rfl, rfl, xs, d, hk.2, hd, rfl, rfl⟩

theorem TS.end_ {r r' : List Token} {d : Token} (hd : EndTok d) : TS r r' (d :: r) (d :: r') :=
  ⟨[], d, allK_nil, hd, rfl, rfl⟩

theorem TS.cons {r r' t t' : List Token} {x : Token} (hx : ExprKind x.kind) (h : TS r r' t t') :
    TS r r' (x :: t) (x :: t') := by
  obtain ⟨xs, d, hk, hd, rfl, rfl⟩ := h
  exact ⟨x :: xs, d, (allK_cons x xs).mpr ⟨hx, hk⟩, hd, rfl, rfl⟩

/-- results agree: same error, or same value with rests that are again `TS`-related -/
def RRel {α} (r r' : List Token) (x y : R (α × List Token)) : Prop :=
  match x, y with
  | .ok (a, u), .ok (a', u') => a = a' ∧ TS r r' u u'
  | .error e, .error e' => e = e'
  | _, _ => False

theorem RRel.ok {α} {r r' u u' : List Token} (a : α) (h : TS r r' u u') :
    RRel r r' (.ok (a, u) : R (α × List Token)) (.ok (a, u')) := ⟨rfl, h⟩
theorem RRel.pure {α} {r r' u u' : List Token} (a : α) (h : TS r r' u u') :
    RRel r r' (pure (a, u) : R (α × List Token)) (pure (a, u')) := ⟨rfl, h⟩
theorem RRel.err {α} {r r' : List Token} (e : Err) : RRel r r' (.error e : R (α × List Token)) (.error e) := rfl
theorem RRel.perr {α} {r r' : List Token} (m : String) : RRel r r' (perr m : R (α × List Token)) (perr m) := rfl

theorem RRel.bind {α β} {r r' : List Token} {x y : R (α × List Token)} {k k' : α × List Token → R (β × List Token)}
    (h : RRel r r' x y) (hk : ∀ a u u', TS r r' u u' → RRel r r' (k (a, u)) (k' (a, u'))) :
    RRel r r' (x >>= k) (y >>= k') := by
  cases x with
  | error e =>
    cases y with
    | error e' => simp only [RRel] at h; subst h; rfl
    | ok b => simp [RRel] at h
  | ok a =>
    cases y with
    | error e' => simp [RRel] at h
    | ok b =>
      obtain ⟨a1, u⟩ := a
      obtain ⟨b1, u'⟩ := b
      simp only [RRel] at h
      obtain ⟨rfl, ht⟩ := h
      exact hk a1 u u' ht

theorem RRel.ite {α} {r r' : List Token} {c : Prop} [Decidable c] {a a' b b' : R (α × List Token)}
    (h1 : c → RRel r r' a a') (h2 : ¬c → RRel r r' b b') :
    RRel r r' (if c then a else b) (if c then a' else b') := by
  by_cases h : c
  · simp only [h, if_true]; exact h1 h
  · simp only [h, if_false]; exact h2 h

theorem peek_TS {r r' ts ts' : List Token} (h : TS r r' ts ts') : peekBinary ts = peekBinary ts' := by
  rcases h.cases with ⟨d, hd, rfl, rfl⟩ | ⟨x, t, t', hx, rfl, rfl, ht⟩
  · rw [stop_peek hd.stop, stop_peek hd.stop]
  · rcases ht.cases with ⟨d, hd, rfl, rfl⟩ | ⟨y, t2, t2', hy, rfl, rfl, ht2⟩
    · simp [peekBinary, hd.kinds.1]
    · simp [peekBinary]


structure LocAt (f : Nat) : Prop where
  expr : ∀ r r' ts ts', TS r r' ts ts' → RRel r r' (parseExpression f ts) (parseExpression f ts')
  cond : ∀ c r r' ts ts', TS r r' ts ts' → RRel r r' (parseConditional f c ts) (parseConditional f c ts')
  bin : ∀ m r r' ts ts', TS r r' ts ts' → RRel r r' (parseBinaryPrec f m ts) (parseBinaryPrec f m ts')
  loop : ∀ m l r r' ts ts', TS r r' ts ts' → RRel r r' (parseLoop f m l ts) (parseLoop f m l ts')
  test : ∀ l neg name r r' ts ts', TS r r' ts ts' → RRel r r' (parseTest f l neg name ts) (parseTest f l neg name ts')
  args : ∀ close msg r r' ts ts', TS r r' ts ts' → RRel r r' (parseArgs f close msg ts) (parseArgs f close msg ts')
  argsLoop : ∀ close msg r r' ts ts', TS r r' ts ts' →
    RRel r r' (parseArgsLoop f close msg ts) (parseArgsLoop f close msg ts')
  operand : ∀ r r' ts ts', TS r r' ts ts' → RRel r r' (parseOperand f ts) (parseOperand f ts')
  suffix : ∀ e r r' ts ts', TS r r' ts ts' → RRel r r' (parseSuffix f e ts) (parseSuffix f e ts')
  filters : ∀ e r r' ts ts', TS r r' ts ts' → RRel r r' (parseFilters f e ts) (parseFilters f e ts')
  simple : ∀ r r' ts ts', TS r r' ts ts' → RRel r r' (parseSimple f ts) (parseSimple f ts')
  attrs : ∀ e r r' ts ts', TS r r' ts ts' → RRel r r' (parseAttrs f e ts) (parseAttrs f e ts')
  map : ∀ r r' ts ts', TS r r' ts ts' → RRel r r' (parseMap f ts) (parseMap f ts')
  mapLoop : ∀ r r' ts ts', TS r r' ts ts' → RRel r r' (parseMapLoop f ts) (parseMapLoop f ts')

theorem locAt_zero : LocAt 0 := by
  constructor <;> intros <;> simp only [parseExpression, parseConditional, parseBinaryPrec,
    parseLoop, parseTest, parseArgs, parseArgsLoop, parseOperand, parseSuffix, parseFilters, parseSimple,
    parseAttrs, parseMap, parseMapLoop] <;> exact RRel.err _

theorem loc_expr (f : Nat) (ih : LocAt f) (r r' ts ts' : List Token) (h : TS r r' ts ts') :
    RRel r r' (parseExpression (f+1) ts) (parseExpression (f+1) ts') := by
  unfold parseExpression
  refine RRel.bind (ih.bin 1 _ _ _ _ h) ?_
  intro e u u' hu
  rcases hu.cases with ⟨d, hd, rfl, rfl⟩ | ⟨x, t, t', hx, rfl, rfl, ht⟩
  · simp only [hd.isP, Bool.false_eq_true, if_false]
    exact RRel.pure e (TS.end_ hd)
  · simp only
    split
    · exact ih.cond e _ _ _ _ ht
    · exact RRel.pure e (TS.cons hx ht)

theorem loc_cond (f : Nat) (ih : LocAt f) (c : Expr) (r r' ts ts' : List Token) (h : TS r r' ts ts') :
    RRel r r' (parseConditional (f+1) c ts) (parseConditional (f+1) c ts') := by
  unfold parseConditional
  refine RRel.bind (ih.expr _ _ _ _ h) ?_
  intro e u u' hu
  rcases hu.cases with ⟨d, hd, rfl, rfl⟩ | ⟨x, t, t', hx, rfl, rfl, ht⟩
  · simp only [hd.isP, Bool.false_eq_true, if_false]
    exact RRel.perr _
  · simp only
    split
    · refine RRel.bind (ih.expr _ _ _ _ ht) ?_
      intro e2 v v' hv
      exact RRel.pure _ hv
    · exact RRel.perr _

theorem loc_bin (f : Nat) (ih : LocAt f) (m : Nat) (r r' ts ts' : List Token) (h : TS r r' ts ts') :
    RRel r r' (parseBinaryPrec (f+1) m ts) (parseBinaryPrec (f+1) m ts') := by
  unfold parseBinaryPrec
  refine RRel.bind (ih.operand _ _ _ _ h) ?_
  intro e u u' hu
  exact ih.loop m e _ _ _ _ hu


def _root_.Twig.Peek.width : Peek → Nat
  | .none => 0
  | .notDefined => 2
  | .isT _ w => w
  | .op _ w => w

theorem nil_beq_in : (([] : Bytes) == b "in") = false := by decide +kernel
theorem nil_beq_defined : (([] : Bytes) == b "defined") = false := by decide +kernel
theorem nil_beq_not : (([] : Bytes) == b "not") = false := by decide +kernel
theorem nil_beq_with : (([] : Bytes) == b "with") = false := by decide +kernel

/-- an operator spelling takes one token, or two when the second token is a NAME -/
theorem peek_two (ts : List Token) :
    ((peekBinary ts).width ≤ 1 ∧ ((peekBinary ts).width = 1 → ∃ t r, ts = t :: r ∧ ExprKind t.kind)) ∨
    (∃ t n r, ts = t :: n :: r ∧ ExprKind t.kind ∧ ExprKind n.kind ∧ (peekBinary ts).width ≤ 2) := by
  cases ts with
  | nil => exact .inl ⟨by simp [peekBinary, Peek.width], by simp [peekBinary, Peek.width]⟩
  | cons t r =>
    by_cases hop : t.kind = OPERATOR
    · left
      have : (t.kind == OPERATOR) = true := by simp [hop]
      simp only [peekBinary, this, if_true]
      cases opOfSymbol t.val with
      | none => exact ⟨by simp [Peek.width], by simp [Peek.width]⟩
      | some o => exact ⟨by simp [Peek.width], fun _ => ⟨t, r, rfl, by rw [hop]; decide⟩⟩
    · have h1 : (t.kind == OPERATOR) = false := by simp [hop]
      by_cases hn : t.kind = NAME
      · have h2 : (t.kind != NAME) = false := by simp [hn]
        have htk : ExprKind t.kind := by rw [hn]; decide
        have fin1 : ∀ (nx : Bytes), nx = [] →
            ((if (t.val == b "and") = true then Peek.op BinOp.and 1
              else if (t.val == b "or") = true then Peek.op BinOp.or 1
              else if (t.val == b "in") = true then Peek.op BinOp.in_ 1
              else if (t.val == b "matches") = true then Peek.op BinOp.matches_ 1
              else if (t.val == b "not") = true then
                if (nx == b "in") = true then Peek.op BinOp.notIn 2
                else if (nx == b "defined") = true then Peek.notDefined else Peek.none
              else if (t.val == b "is") = true then
                if (nx == b "not") = true then Peek.isT true 2 else Peek.isT false 1
              else if (t.val == b "starts") = true then
                (if (nx == b "with") = true then Peek.op BinOp.startsWith 2 else Peek.none)
              else if (t.val == b "ends") = true then
                (if (nx == b "with") = true then Peek.op BinOp.endsWith 2 else Peek.none)
              else Peek.none : Peek).width ≤ 1) := by
          intro nx hnx
          subst hnx
          simp only [nil_beq_in, nil_beq_defined, nil_beq_not, nil_beq_with, Bool.false_eq_true, if_false]
          repeat' split
          all_goals decide
        have fin2 : ∀ (nx : Bytes),
            ((if (t.val == b "and") = true then Peek.op BinOp.and 1
              else if (t.val == b "or") = true then Peek.op BinOp.or 1
              else if (t.val == b "in") = true then Peek.op BinOp.in_ 1
              else if (t.val == b "matches") = true then Peek.op BinOp.matches_ 1
              else if (t.val == b "not") = true then
                if (nx == b "in") = true then Peek.op BinOp.notIn 2
                else if (nx == b "defined") = true then Peek.notDefined else Peek.none
              else if (t.val == b "is") = true then
                if (nx == b "not") = true then Peek.isT true 2 else Peek.isT false 1
              else if (t.val == b "starts") = true then
                (if (nx == b "with") = true then Peek.op BinOp.startsWith 2 else Peek.none)
              else if (t.val == b "ends") = true then
                (if (nx == b "with") = true then Peek.op BinOp.endsWith 2 else Peek.none)
              else Peek.none : Peek).width ≤ 2) := by
          intro nx
          repeat' split
          all_goals decide
        cases r with
        | nil =>
          left
          simp only [peekBinary, h1, h2, Bool.false_eq_true, if_false]
          exact ⟨fin1 _ rfl, fun _ => ⟨t, [], rfl, htk⟩⟩
        | cons n r2 =>
          by_cases hnk : n.kind = NAME
          · right
            refine ⟨t, n, r2, rfl, htk, by rw [hnk]; decide, ?_⟩
            simp only [peekBinary, h1, h2, Bool.false_eq_true, if_false]
            exact fin2 _
          · left
            have hnk' : (n.kind == NAME) = false := by simp [hnk]
            simp only [peekBinary, h1, h2, hnk', Bool.false_eq_true, if_false]
            exact ⟨fin1 _ rfl, fun _ => ⟨t, n :: r2, rfl, htk⟩⟩
      · left
        have h2 : (t.kind != NAME) = true := by simp [hn]
        simp only [peekBinary, h1, h2, Bool.false_eq_true, if_false, if_true]
        exact ⟨by simp [Peek.width], by simp [Peek.width]⟩

theorem peek_drop {r r' ts ts' : List Token} (h : TS r r' ts ts') :
    TS r r' (ts.drop (peekBinary ts).width) (ts'.drop (peekBinary ts).width) := by
  rcases peek_two ts with ⟨hle, h1⟩ | ⟨t, n, r2, rfl, ht, hn, hle⟩
  · have : (peekBinary ts).width = 0 ∨ (peekBinary ts).width = 1 := by omega
    rcases this with h0 | h1'
    · rw [h0]; exact h
    · rw [h1']
      obtain ⟨t, r2, rfl, ht⟩ := h1 h1'
      rcases h.cases with ⟨d, hd, e1, rfl⟩ | ⟨x, u, u', hx, e1, rfl, hu⟩
      · obtain ⟨rfl, rfl⟩ := List.cons.inj e1; exact absurd ht hd
      · obtain ⟨rfl, rfl⟩ := List.cons.inj e1; exact hu
  · rcases h.cases with ⟨d, hd, e1, rfl⟩ | ⟨x, u, u', hx, e1, rfl, hu⟩
    · obtain ⟨rfl, _⟩ := List.cons.inj e1; exact absurd ht hd
    · obtain ⟨rfl, rfl⟩ := List.cons.inj e1
      rcases hu.cases with ⟨d, hd, e1, rfl⟩ | ⟨y, v, v', hy, e1, rfl, hv⟩
      · obtain ⟨rfl, _⟩ := List.cons.inj e1; exact absurd hn hd
      · obtain ⟨rfl, rfl⟩ := List.cons.inj e1
        have : (peekBinary (t :: n :: r2)).width = 0 ∨ (peekBinary (t :: n :: r2)).width = 1 ∨
            (peekBinary (t :: n :: r2)).width = 2 := by omega
        rcases this with h0 | h0 | h0 <;> rw [h0]
        · exact TS.cons hx (TS.cons hy hv)
        · exact TS.cons hy hv
        · exact hv


theorem loc_loop (f : Nat) (ih : LocAt f) (m : Nat) (l : Expr) (r r' ts ts' : List Token) (h : TS r r' ts ts') :
    RRel r r' (parseLoop (f+1) m l ts) (parseLoop (f+1) m l ts') := by
  unfold parseLoop
  rw [← peek_TS h]
  have hd := peek_drop h
  cases hp : peekBinary ts with
  | none => exact RRel.pure l h
  | notDefined =>
    rw [hp] at hd
    exact ih.loop _ _ _ _ _ _ hd
  | isT neg w =>
    rw [hp] at hd
    simp only [Peek.width] at hd
    simp only
    split
    · exact RRel.pure l h
    · rcases hd.cases with ⟨d, hd', e1, e2⟩ | ⟨x, t, t', hx, e1, e2, ht⟩
      · rw [e1, e2]
        have : (d.kind == NAME) = false := by simp [hd'.kinds.1]
        simp only [this, Bool.false_eq_true, if_false]
        refine RRel.bind (ih.bin _ _ _ _ _ (TS.end_ hd')) ?_
        intro a u u' hu
        exact ih.loop _ _ _ _ _ _ hu
      · rw [e1, e2]
        simp only
        split
        · refine RRel.bind (ih.test _ _ _ _ _ _ _ ht) ?_
          intro a u u' hu
          exact ih.loop _ _ _ _ _ _ hu
        · refine RRel.bind (ih.bin _ _ _ _ _ (TS.cons hx ht)) ?_
          intro a u u' hu
          exact ih.loop _ _ _ _ _ _ hu
  | op o w =>
    rw [hp] at hd
    simp only [Peek.width] at hd
    simp only
    split
    · exact RRel.pure l h
    · refine RRel.bind (ih.bin _ _ _ _ _ hd) ?_
      intro a u u' hu
      exact ih.loop _ _ _ _ _ _ hu

theorem loc_test (f : Nat) (ih : LocAt f) (l : Expr) (neg : Bool) (name : Bytes) (r r' ts ts' : List Token)
    (h : TS r r' ts ts') :
    RRel r r' (parseTest (f+1) l neg name ts) (parseTest (f+1) l neg name ts') := by
  unfold parseTest
  rcases h.cases with ⟨d, hd, rfl, rfl⟩ | ⟨x, t, t', hx, rfl, rfl, ht⟩
  · simp only [hd.isP, Bool.false_eq_true, if_false]
    exact RRel.pure _ (TS.end_ hd)
  · simp only
    split
    · refine RRel.bind (ih.args _ _ _ _ _ _ ht) ?_
      intro a u u' hu
      exact RRel.pure _ hu
    · exact RRel.pure _ (TS.cons hx ht)

theorem loc_args (f : Nat) (ih : LocAt f) (close : UInt8) (msg : String) (r r' ts ts' : List Token)
    (h : TS r r' ts ts') :
    RRel r r' (parseArgs (f+1) close msg ts) (parseArgs (f+1) close msg ts') := by
  unfold parseArgs
  rcases h.cases with ⟨d, hd, rfl, rfl⟩ | ⟨x, t, t', hx, rfl, rfl, ht⟩
  · simp only [hd.isP, Bool.false_eq_true, if_false]
    exact ih.argsLoop _ _ _ _ _ _ (TS.end_ hd)
  · simp only
    split
    · exact RRel.pure _ ht
    · exact ih.argsLoop _ _ _ _ _ _ (TS.cons hx ht)

theorem loc_argsLoop (f : Nat) (ih : LocAt f) (close : UInt8) (msg : String) (r r' ts ts' : List Token)
    (h : TS r r' ts ts') :
    RRel r r' (parseArgsLoop (f+1) close msg ts) (parseArgsLoop (f+1) close msg ts') := by
  unfold parseArgsLoop
  refine RRel.bind (ih.expr _ _ _ _ h) ?_
  intro e u u' hu
  rcases hu.cases with ⟨d, hd, rfl, rfl⟩ | ⟨x, t, t', hx, rfl, rfl, ht⟩
  · simp only [hd.isP, Bool.false_eq_true, if_false]
    exact RRel.perr _
  · simp only
    split
    · refine RRel.bind (ih.argsLoop _ _ _ _ _ _ ht) ?_
      intro es v v' hv
      exact RRel.pure _ hv
    · split
      · exact RRel.pure _ ht
      · exact RRel.perr _

theorem loc_operand (f : Nat) (ih : LocAt f) (r r' ts ts' : List Token) (h : TS r r' ts ts') :
    RRel r r' (parseOperand (f+1) ts) (parseOperand (f+1) ts') := by
  unfold parseOperand
  refine RRel.bind (ih.simple _ _ _ _ h) ?_
  intro e u u' hu
  exact ih.suffix e _ _ _ _ hu

theorem loc_suffix (f : Nat) (ih : LocAt f) (e : Expr) (r r' ts ts' : List Token) (h : TS r r' ts ts') :
    RRel r r' (parseSuffix (f+1) e ts) (parseSuffix (f+1) e ts') := by
  unfold parseSuffix
  rcases h.cases with ⟨d, hd, rfl, rfl⟩ | ⟨x, t, t', hx, rfl, rfl, ht⟩
  · simp only [hd.isP, Bool.false_eq_true, if_false]
    exact RRel.pure _ (TS.end_ hd)
  · simp only
    split
    · refine RRel.bind (ih.expr _ _ _ _ ht) ?_
      intro i u u' hu
      rcases hu.cases with ⟨d, hd, rfl, rfl⟩ | ⟨y, v, v', hy, rfl, rfl, hv⟩
      · simp only [hd.isP, Bool.false_eq_true, if_false]
        exact RRel.perr _
      · simp only
        split
        · exact ih.suffix _ _ _ _ _ hv
        · exact RRel.perr _
    · split
      · refine RRel.bind (ih.filters _ _ _ _ _ (TS.cons hx ht)) ?_
        intro e' u u' hu
        exact ih.suffix _ _ _ _ _ hu
      · exact RRel.pure _ (TS.cons hx ht)


theorem EndTok.kindbeq {d : Token} (h : EndTok d) :
    (d.kind == NAME) = false ∧ (d.kind == NUMBER) = false ∧ (d.kind == STRING) = false ∧
    (d.kind == OPERATOR) = false ∧ (d.kind == PUNCT) = false := by
  obtain ⟨h1, h2, h3, h4, h5⟩ := h.kinds
  simp [h1, h2, h3, h4, h5]

theorem loc_filters (f : Nat) (ih : LocAt f) (e : Expr) (r r' ts ts' : List Token) (h : TS r r' ts ts') :
    RRel r r' (parseFilters (f+1) e ts) (parseFilters (f+1) e ts') := by
  unfold parseFilters
  rcases h.cases with ⟨d, hd, rfl, rfl⟩ | ⟨x, t, t', hx, rfl, rfl, ht⟩
  · simp only [hd.isP, Bool.false_eq_true, if_false]
    exact RRel.pure _ (TS.end_ hd)
  · simp only
    split
    · rcases ht.cases with ⟨d, hd, rfl, rfl⟩ | ⟨y, t2, t2', hy, rfl, rfl, ht2⟩
      · simp only [hd.kindbeq.1, Bool.false_eq_true, if_false]
        exact RRel.perr _
      · simp only
        split
        · rcases ht2.cases with ⟨d, hd, rfl, rfl⟩ | ⟨z, t3, t3', hz, rfl, rfl, ht3⟩
          · simp only [hd.isP, Bool.false_eq_true, if_false, pure_eq_ok, ok_bind]
            exact ih.filters _ _ _ _ _ (TS.end_ hd)
          · simp only
            split
            · refine RRel.bind (ih.args _ _ _ _ _ _ ht3) ?_
              intro a u u' hu
              exact ih.filters _ _ _ _ _ hu
            · simp only [pure_eq_ok, ok_bind]
              exact ih.filters _ _ _ _ _ (TS.cons hz ht3)
        · exact RRel.perr _
    · exact RRel.pure _ (TS.cons hx ht)

theorem loc_attrs (f : Nat) (ih : LocAt f) (e : Expr) (r r' ts ts' : List Token) (h : TS r r' ts ts') :
    RRel r r' (parseAttrs (f+1) e ts) (parseAttrs (f+1) e ts') := by
  unfold parseAttrs
  rcases h.cases with ⟨d, hd, rfl, rfl⟩ | ⟨x, t, t', hx, rfl, rfl, ht⟩
  · simp only [hd.isP, Bool.false_eq_true, if_false]
    exact RRel.pure _ (TS.end_ hd)
  · simp only
    split
    · rcases ht.cases with ⟨d, hd, rfl, rfl⟩ | ⟨y, t2, t2', hy, rfl, rfl, ht2⟩
      · simp only [hd.kindbeq.1, Bool.false_eq_true, if_false]
        exact RRel.perr _
      · simp only
        split
        · rcases ht2.cases with ⟨d, hd, rfl, rfl⟩ | ⟨z, t3, t3', hz, rfl, rfl, ht3⟩
          · simp only [hd.isP, Bool.false_eq_true, if_false]
            exact ih.attrs _ _ _ _ _ (TS.end_ hd)
          · simp only
            split
            · refine RRel.bind (ih.args _ _ _ _ _ _ ht3) ?_
              intro a u u' hu
              exact ih.attrs _ _ _ _ _ hu
            · exact ih.attrs _ _ _ _ _ (TS.cons hz ht3)
        · exact RRel.perr _
    · exact RRel.pure _ (TS.cons hx ht)

theorem loc_map (f : Nat) (ih : LocAt f) (r r' ts ts' : List Token) (h : TS r r' ts ts') :
    RRel r r' (parseMap (f+1) ts) (parseMap (f+1) ts') := by
  unfold parseMap
  rcases h.cases with ⟨d, hd, rfl, rfl⟩ | ⟨x, t, t', hx, rfl, rfl, ht⟩
  · simp only [hd.isP, Bool.false_eq_true, if_false]
    refine RRel.bind (ih.mapLoop _ _ _ _ (TS.end_ hd)) ?_
    intro a u u' hu
    exact RRel.pure _ hu
  · simp only
    split
    · exact RRel.pure _ ht
    · refine RRel.bind (ih.mapLoop _ _ _ _ (TS.cons hx ht)) ?_
      intro a u u' hu
      exact RRel.pure _ hu

theorem loc_mapLoop (f : Nat) (ih : LocAt f) (r r' ts ts' : List Token) (h : TS r r' ts ts') :
    RRel r r' (parseMapLoop (f+1) ts) (parseMapLoop (f+1) ts') := by
  unfold parseMapLoop
  refine RRel.bind (ih.expr _ _ _ _ h) ?_
  intro k u u' hu
  rcases hu.cases with ⟨d, hd, rfl, rfl⟩ | ⟨x, t, t', hx, rfl, rfl, ht⟩
  · simp only [hd.isP, Bool.false_eq_true, if_false]
    exact RRel.perr _
  · simp only
    split
    · refine RRel.bind (ih.expr _ _ _ _ ht) ?_
      intro v w w' hw
      rcases hw.cases with ⟨d, hd, rfl, rfl⟩ | ⟨y, t2, t2', hy, rfl, rfl, ht2⟩
      · simp only [hd.isP, Bool.false_eq_true, if_false]
        exact RRel.perr _
      · simp only
        split
        · refine RRel.bind (ih.mapLoop _ _ _ _ ht2) ?_
          intro kvs z z' hz
          exact RRel.pure _ hz
        · split
          · exact RRel.pure _ ht2
          · exact RRel.perr _
    · exact RRel.perr _


theorem loc_simple (f : Nat) (ih : LocAt f) (r r' ts ts' : List Token) (h : TS r r' ts ts') :
    RRel r r' (parseSimple (f+1) ts) (parseSimple (f+1) ts') := by
  unfold parseSimple
  rcases h.cases with ⟨d, hd, rfl, rfl⟩ | ⟨x, t, t', hx, rfl, rfl, ht⟩
  · simp only [hd.isP, hd.isName, hd.kindbeq.1, hd.kindbeq.2.1, hd.kindbeq.2.2.1, hd.kindbeq.2.2.2.1,
      Bool.false_and, Bool.false_eq_true, if_false]
    exact RRel.perr _
  · dsimp only
    refine RRel.ite (fun _ => ?_) (fun _ => ?_)
    · refine RRel.bind (ih.simple _ _ _ _ ht) ?_
      intro e u u' hu; exact RRel.pure _ hu
    refine RRel.ite (fun _ => ?_) (fun _ => ?_)
    · refine RRel.bind (ih.simple _ _ _ _ ht) ?_
      intro e u u' hu; exact RRel.pure _ hu
    refine RRel.ite (fun _ => ?_) (fun _ => ?_)
    · refine RRel.bind (ih.simple _ _ _ _ ht) ?_
      intro e u u' hu; exact RRel.pure _ hu
    refine RRel.ite (fun _ => ?_) (fun _ => ?_)
    · exact RRel.pure _ ht
    refine RRel.ite (fun _ => ?_) (fun _ => ?_)
    · exact RRel.pure _ ht
    refine RRel.ite (fun _ => ?_) (fun _ => ?_)
    · refine RRel.ite (fun _ => ?_) (fun _ => ?_)
      · exact RRel.pure _ ht
      refine RRel.ite (fun _ => ?_) (fun _ => ?_)
      · exact RRel.pure _ ht
      refine RRel.ite (fun _ => ?_) (fun _ => ?_)
      · exact RRel.pure _ ht
      rcases ht.cases with ⟨d, hd, rfl, rfl⟩ | ⟨y, t2, t2', hy, rfl, rfl, ht2⟩
      · simp only [hd.isP, Bool.false_eq_true, if_false]
        exact ih.attrs _ _ _ _ _ (TS.end_ hd)
      · dsimp only
        refine RRel.ite (fun _ => ?_) (fun _ => ?_)
        · refine RRel.bind (ih.args _ _ _ _ _ _ ht2) ?_
          intro a u u' hu; exact RRel.pure _ hu
        · exact ih.attrs _ _ _ _ _ (TS.cons hy ht2)
    refine RRel.ite (fun _ => ?_) (fun _ => ?_)
    · refine RRel.bind (ih.args _ _ _ _ _ _ ht) ?_
      intro a u u' hu; exact RRel.pure _ hu
    refine RRel.ite (fun _ => ?_) (fun _ => ?_)
    · exact ih.map _ _ _ _ ht
    refine RRel.ite (fun _ => ?_) (fun _ => ?_)
    · refine RRel.bind (ih.expr _ _ _ _ ht) ?_
      intro e u u' hu
      rcases hu.cases with ⟨d, hd, rfl, rfl⟩ | ⟨y, t2, t2', hy, rfl, rfl, ht2⟩
      · simp only [hd.isP, Bool.false_eq_true, if_false]
        exact RRel.perr _
      · dsimp only
        refine RRel.ite (fun _ => ?_) (fun _ => ?_)
        · exact RRel.pure _ ht2
        · exact RRel.perr _
    · exact RRel.perr _

theorem locAt_succ (f : Nat) (ih : LocAt f) : LocAt (f+1) where
  expr := loc_expr f ih
  cond := loc_cond f ih
  bin := loc_bin f ih
  loop := loc_loop f ih
  test := loc_test f ih
  args := loc_args f ih
  argsLoop := loc_argsLoop f ih
  operand := loc_operand f ih
  suffix := loc_suffix f ih
  filters := loc_filters f ih
  simple := loc_simple f ih
  attrs := loc_attrs f ih
  map := loc_map f ih
  mapLoop := loc_mapLoop f ih

/-- every expression-parser function is local: its result on `xs ++ d :: r` (expression tokens `xs`, a
    non-expression token `d`) does not depend on `r`, and what it leaves is a suffix `ys ++ d :: r` -/
theorem locAt : ∀ f, LocAt f
  | 0 => locAt_zero
  | f+1 => locAt_succ f (locAt f)



/-! ## fuel monotonicity of the expression parser (same technique as `tmonoAt`) -/

structure EMonoAt (f : Nat) : Prop where
  expr : ∀ ts, FLe (parseExpression f ts) (parseExpression (f+1) ts)
  cond : ∀ c ts, FLe (parseConditional f c ts) (parseConditional (f+1) c ts)
  bin : ∀ m ts, FLe (parseBinaryPrec f m ts) (parseBinaryPrec (f+1) m ts)
  loop : ∀ m l ts, FLe (parseLoop f m l ts) (parseLoop (f+1) m l ts)
  test : ∀ l neg name ts, FLe (parseTest f l neg name ts) (parseTest (f+1) l neg name ts)
  args : ∀ close msg ts, FLe (parseArgs f close msg ts) (parseArgs (f+1) close msg ts)
  argsLoop : ∀ close msg ts, FLe (parseArgsLoop f close msg ts) (parseArgsLoop (f+1) close msg ts)
  operand : ∀ ts, FLe (parseOperand f ts) (parseOperand (f+1) ts)
  suffix : ∀ e ts, FLe (parseSuffix f e ts) (parseSuffix (f+1) e ts)
  filters : ∀ e ts, FLe (parseFilters f e ts) (parseFilters (f+1) e ts)
  simple : ∀ ts, FLe (parseSimple f ts) (parseSimple (f+1) ts)
  attrs : ∀ e ts, FLe (parseAttrs f e ts) (parseAttrs (f+1) e ts)
  map : ∀ ts, FLe (parseMap f ts) (parseMap (f+1) ts)
  mapLoop : ∀ ts, FLe (parseMapLoop f ts) (parseMapLoop (f+1) ts)

theorem emonoAt_zero : EMonoAt 0 := by
  constructor <;> intros <;> exact .inl (by simp [parseExpression, parseConditional, parseBinaryPrec,
    parseLoop, parseTest, parseArgs, parseArgsLoop, parseOperand, parseSuffix, parseFilters, parseSimple,
    parseAttrs, parseMap, parseMapLoop])

macro "efle" ih:ident : tactic => `(tactic| repeat' first
  | exact FLe.refl _
  | exact EMonoAt.expr $ih _ | exact EMonoAt.cond $ih _ _ | exact EMonoAt.bin $ih _ _
  | exact EMonoAt.loop $ih _ _ _ | exact EMonoAt.test $ih _ _ _ _ | exact EMonoAt.args $ih _ _ _
  | exact EMonoAt.argsLoop $ih _ _ _ | exact EMonoAt.operand $ih _ | exact EMonoAt.suffix $ih _ _
  | exact EMonoAt.filters $ih _ _ | exact EMonoAt.simple $ih _ | exact EMonoAt.attrs $ih _ _
  | exact EMonoAt.map $ih _ | exact EMonoAt.mapLoop $ih _
  | refine FLe.bind ?_ (fun ⟨_, _⟩ => ?_)
  | refine FLe.ite (fun _ => ?_) (fun _ => ?_)
  | split
  | dsimp only)

theorem emonoAt_succ (f : Nat) (ih : EMonoAt f) : EMonoAt (f+1) where
  expr ts := by unfold parseExpression; efle ih
  cond c ts := by unfold parseConditional; efle ih
  bin m ts := by unfold parseBinaryPrec; efle ih
  loop m l ts := by unfold parseLoop; efle ih
  test l neg name ts := by unfold parseTest; efle ih
  args close msg ts := by unfold parseArgs; efle ih
  argsLoop close msg ts := by unfold parseArgsLoop; efle ih
  operand ts := by unfold parseOperand; efle ih
  suffix e ts := by unfold parseSuffix; efle ih
  filters e ts := by unfold parseFilters; efle ih
  simple ts := by unfold parseSimple; efle ih
  attrs e ts := by unfold parseAttrs; efle ih
  map ts := by unfold parseMap; efle ih
  mapLoop ts := by unfold parseMapLoop; efle ih

theorem emonoAt : ∀ f, EMonoAt f
  | 0 => emonoAt_zero
  | f+1 => emonoAt_succ f (emonoAt f)

theorem parseExpression_mono {f f' : Nat} {ts : List Token} (hne : parseExpression f ts ≠ .error .fuel)
    (hle : f ≤ f') : parseExpression f' ts = parseExpression f ts :=
  (FLe.chain (parseExpression · ts) (fun f => (emonoAt f).expr ts) hle).eq_of_ne hne



/-! ## the parser is insensitive to empty TEXT tokens (outer positions) -/

def isDrop (t : Token) : Bool := t.kind == TEXT && t.val.isEmpty

theorem D_cons (t : Token) (r : List Token) :
    dropEmptyText (t :: r) = if isDrop t then dropEmptyText r else t :: dropEmptyText r := by
  simp only [dropEmptyText, List.filter_cons, isDrop]
  by_cases h : (t.kind == TEXT && t.val.isEmpty) = true
  · simp [h]
  · simp [h]

theorem D_cons_keep {t : Token} (h : isDrop t = false) (r : List Token) :
    dropEmptyText (t :: r) = t :: dropEmptyText r := by rw [D_cons, h]; rfl
theorem D_nil : dropEmptyText [] = [] := rfl

theorem isDrop_of_kind {t : Token} (h : t.kind ≠ TEXT) : isDrop t = false := by
  simp [isDrop, h]

theorem D_append_allK {xs : List Token} (h : AllK xs) (r : List Token) :
    dropEmptyText (xs ++ r) = xs ++ dropEmptyText r := by
  induction xs with
  | nil => rfl
  | cons x xs ih =>
    rw [allK_cons] at h
    rw [List.cons_append, D_cons_keep (isDrop_of_kind (exprKind_ne_text h.1)), ih h.2]; rfl

/-- number of empty TEXT tokens -/
def extra : List Token → Nat
  | [] => 0
  | t :: r => (if isDrop t then 1 else 0) + extra r

theorem extra_append (a c : List Token) : extra (a ++ c) = extra a + extra c := by
  induction a with
  | nil => simp [extra]
  | cons t a ih => simp [extra, ih]; omega

theorem extra_le_cons (t : Token) (r : List Token) : extra r ≤ extra (t :: r) := by
  simp [extra]

theorem D_length (ts : List Token) : (dropEmptyText ts).length ≤ ts.length := by
  unfold dropEmptyText; exact List.length_filter_le _ _

/-- the end token of a tag -/
def IsEnd (d : Token) : Prop := d.kind = VAR_END ∨ d.kind = BLOCK_END

theorem IsEnd.endTok {d : Token} (h : IsEnd d) : EndTok d := by
  unfold EndTok ExprKind
  rcases h with h | h <;> rw [h] <;> decide

theorem IsEnd.keep {d : Token} (h : IsEnd d) : isDrop d = false := by
  apply isDrop_of_kind
  rcases h with h | h <;> rw [h] <;> decide

/-- handlers whose simulation is not proved (yet) -/
def unsupportedTags : List Bytes := [b "include", b "verbatim"]

/-- token streams at an outer position: text tokens, comment groups, tags (start token, expression tokens, end
    token), up to EOF -/
inductive WFo : List Token → Prop
  | nil : WFo []
  | eof (t : Token) (r : List Token) : t.kind = EOF → WFo (t :: r)
  | text (t : Token) (r : List Token) : t.kind = TEXT → WFo r → WFo (t :: r)
  | comment (s : Token) (cs : List Token) (e : Token) (r : List Token) : s.kind = COMMENT_START →
      (∀ c ∈ cs, c.kind ≠ COMMENT_END) → e.kind = COMMENT_END → WFo r → WFo (s :: (cs ++ e :: r))
  | tag (s : Token) (xs : List Token) (d : Token) (r : List Token) : (s.kind = VAR_START ∨ s.kind = BLOCK_START) →
      AllK xs → IsEnd d → (s.kind = BLOCK_START → ∀ n xs', xs = n :: xs' → n.val ∉ unsupportedTags) →
      (s.kind = BLOCK_START → d.kind = BLOCK_END) → WFo r → WFo (s :: (xs ++ d :: r))

/-- after a block start token: expression tokens, an end token, an outer stream -/
theorem WFo.block_inv {s : Token} {l : List Token} (h : WFo (s :: l)) (hs : s.kind = BLOCK_START) :
    ∃ xs d r, l = xs ++ d :: r ∧ AllK xs ∧ IsEnd d ∧ WFo r ∧ d.kind = BLOCK_END := by
  cases h with
  | eof _ _ hk => rw [hs] at hk; cases hk
  | text _ _ hk _ => rw [hs] at hk; cases hk
  | comment _ cs e r hk _ _ _ => rw [hs] at hk; cases hk
  | tag _ xs d r _ hx hd _ hp hr => exact ⟨xs, d, r, rfl, hx, hd, hr, hp hs⟩

/-- `parseOuter` stops only at the end of the stream, at EOF or at a block start token -/
def HeadOK (ts : List Token) : Prop := ∀ t r, ts = t :: r → t.kind = EOF ∨ t.kind = BLOCK_START

theorem HeadOK.keep {t : Token} {r : List Token} (h : HeadOK (t :: r)) : isDrop t = false := by
  apply isDrop_of_kind
  rcases h t r rfl with h | h <;> rw [h] <;> decide


/-- X-side result vs Y-side result: the Y side (stream without empty TEXT tokens) drives; values related by `φ`,
    the X-side rest is a well-formed outer stream satisfying `P` and the Y-side rest is its image -/
def RelR {α} (φ : α → α → Prop) (P : List Token → Prop) (x y : R (α × List Token)) : Prop :=
  match y with
  | .error e => x = .error e
  | .ok (a', r') => ∃ a r, x = .ok (a, r) ∧ φ a a' ∧ WFo r ∧ r' = dropEmptyText r ∧ P r

def fuelErr {α} : R α := .error .fuel

theorem bind_ne_fuel {α β} {x : R α} {k : α → R β} (h : (x >>= k) ≠ fuelErr) : x ≠ fuelErr := by
  intro hx; rw [hx] at h; exact h rfl

theorem RelR.bind {α β} {φ : α → α → Prop} {ψ : β → β → Prop} {P Q : List Token → Prop}
    {X1 Y1 : R (α × List Token)} {kx ky : α × List Token → R (β × List Token)}
    (hy : (Y1 >>= ky) ≠ fuelErr) (h1 : Y1 ≠ fuelErr → RelR φ P X1 Y1)
    (hk : ∀ a a' r, φ a a' → WFo r → P r → ky (a', dropEmptyText r) ≠ fuelErr →
      RelR ψ Q (kx (a, r)) (ky (a', dropEmptyText r))) :
    RelR ψ Q (X1 >>= kx) (Y1 >>= ky) := by
  have h1' := h1 (bind_ne_fuel hy)
  cases Y1 with
  | error e =>
    simp only [RelR] at h1'
    rw [h1']; rfl
  | ok b =>
    obtain ⟨a', r'⟩ := b
    simp only [RelR] at h1'
    obtain ⟨a, r, hx, hφ, hw, rfl, hp⟩ := h1'
    rw [hx]
    exact hk a a' r hφ hw hp hy

theorem RelR.weaken {α} {φ : α → α → Prop} {P Q : List Token → Prop} {x y : R (α × List Token)}
    (h : RelR φ P x y) (hpq : ∀ r, P r → Q r) : RelR φ Q x y := by
  unfold RelR at h ⊢
  cases y with
  | error e => exact h
  | ok b =>
    obtain ⟨a', r'⟩ := b
    obtain ⟨a, r, hx, hφ, hw, hr, hp⟩ := h
    exact ⟨a, r, hx, hφ, hw, hr, hpq r hp⟩

/-- `parseExpression` with the fuel the template parser gives it, on the two streams -/
theorem peX {r r' ts ts' : List Token} (h : TS r r' ts ts') (hlen : r'.length ≤ r.length)
    (hne : parseExpression (exprFuel ts') ts' ≠ fuelErr) :
    RRel r r' (parseExpression (exprFuel ts) ts) (parseExpression (exprFuel ts') ts') := by
  have hF : exprFuel ts' ≤ exprFuel ts := by
    obtain ⟨xs, d, _, _, rfl, rfl⟩ := h
    simp only [exprFuel, List.length_append, List.length_cons]; omega
  have hl := (locAt (exprFuel ts')).expr r r' ts ts' h
  have hne' : parseExpression (exprFuel ts') ts ≠ .error .fuel := by
    intro hx
    rw [hx] at hl
    cases hy : parseExpression (exprFuel ts') ts' with
    | error e => rw [hy] at hl; simp only [RRel] at hl; rw [hy, ← hl] at hne; exact hne rfl
    | ok b => rw [hy] at hl; simp [RRel] at hl
  rw [parseExpression_mono hne' hF]
  exact hl

/-- `expectK` on related streams: both fail alike, or both consume the end token -/
theorem expectK_TS {r r' u u' : List Token} (h : TS r r' u u') (K : Nat) (hK : ¬ ExprKind K) (msg : String) :
    (expectK K msg u = perr msg ∧ expectK K msg u' = perr msg) ∨ (expectK K msg u = .ok r ∧ expectK K msg u' = .ok r') := by
  rcases h.cases with ⟨d, hd, rfl, rfl⟩ | ⟨x, t, t', hx, rfl, rfl, ht⟩
  · simp only [expectK]
    by_cases hk : (d.kind == K) = true
    · right; simp [hk]
    · left; simp [hk]
  · simp only [expectK]
    by_cases hk : (x.kind == K) = true
    · have : x.kind = K := by simpa using hk
      rw [this] at hx; exact absurd hx hK
    · left; simp [hk]


def PhiL (ns ns' : List Node) : Prop := stripL ns = ns'
def PhiN (n n' : Node) : Prop := stripN n = n' ∧ ∀ s, n ≠ .text s

structure SimAt (f : Nat) : Prop where
  outer : ∀ k ts, WFo ts → extra ts ≤ k → parseOuter f (dropEmptyText ts) ≠ fuelErr →
    RelR PhiL (fun r2 => HeadOK r2 ∧ extra r2 ≤ extra ts) (parseOuter (f + k) ts) (parseOuter f (dropEmptyText ts))
  tag : ∀ k name xs d r, AllK xs → IsEnd d → d.kind = BLOCK_END → WFo r → extra r ≤ k → name ∉ unsupportedTags →
    parseTag f name (xs ++ d :: dropEmptyText r) ≠ fuelErr →
    RelR PhiN (fun r2 => extra r2 ≤ extra r) (parseTag (f + k) name (xs ++ d :: r))
      (parseTag f name (xs ++ d :: dropEmptyText r))
  ifTail : ∀ k he ts, WFo ts → HeadOK ts → extra ts ≤ k → parseIfTail f he (dropEmptyText ts) ≠ fuelErr →
    RelR PhiL (fun r2 => extra r2 ≤ extra ts) (parseIfTail (f + k) he ts) (parseIfTail f he (dropEmptyText ts))

theorem simAt_zero : SimAt 0 := by
  constructor
  · intro k ts _ _ h; exact absurd (by simp [parseOuter, fuelErr]) h
  · intro k name xs d r _ _ _ _ _ _ h; exact absurd (by simp [parseTag, fuelErr]) h
  · intro k he ts _ _ _ h; exact absurd (by simp [parseIfTail, fuelErr]) h

theorem stripL_cons_N {n : Node} (h : ∀ s, n ≠ .text s) (r : List Node) : stripL (n :: r) = stripN n :: stripL r :=
  stripL_cons n r h

theorem D_comment (s : Token) (cs : List Token) (e : Token) (r : List Token) (hs : s.kind = COMMENT_START)
    (he : e.kind = COMMENT_END) :
    dropEmptyText (s :: (cs ++ e :: r)) = s :: (dropEmptyText cs ++ e :: dropEmptyText r) := by
  rw [D_cons_keep (isDrop_of_kind (by rw [hs]; decide))]
  have : dropEmptyText (cs ++ e :: r) = dropEmptyText cs ++ dropEmptyText (e :: r) := by
    simp [dropEmptyText]
  rw [this, D_cons_keep (isDrop_of_kind (by rw [he]; decide))]

theorem D_tag (s : Token) (xs : List Token) (d : Token) (r : List Token)
    (hs : s.kind = VAR_START ∨ s.kind = BLOCK_START) (hx : AllK xs) (hd : IsEnd d) :
    dropEmptyText (s :: (xs ++ d :: r)) = s :: (xs ++ d :: dropEmptyText r) := by
  rw [D_cons_keep (isDrop_of_kind (by rcases hs with h | h <;> rw [h] <;> decide)), D_append_allK hx,
    D_cons_keep hd.keep]

theorem TS_tail {xs : List Token} {d : Token} (hx : AllK xs) (hd : IsEnd d) (r : List Token) :
    TS r (dropEmptyText r) (xs ++ d :: r) (xs ++ d :: dropEmptyText r) :=
  ⟨xs, d, hx, hd.endTok, rfl, rfl⟩

theorem extra_tag_le (s : Token) (xs : List Token) (d : Token) (r : List Token) :
    extra r ≤ extra (s :: (xs ++ d :: r)) := by
  have := extra_append xs (d :: r)
  have h2 := extra_le_cons d r
  have h3 := extra_le_cons s (xs ++ d :: r)
  omega

theorem outer_succ (f : Nat) (ih : SimAt f) : ∀ ts, WFo ts → ∀ k, extra ts ≤ k →
    parseOuter (f+1) (dropEmptyText ts) ≠ fuelErr →
    RelR PhiL (fun r2 => HeadOK r2 ∧ extra r2 ≤ extra ts) (parseOuter (f + 1 + k) ts)
      (parseOuter (f+1) (dropEmptyText ts)) := by
  intro ts hw
  induction hw with
  | nil =>
    intro k _ _
    have : f + 1 + k = (f + k) + 1 := by omega
    rw [this, D_nil, parseOuter_nil, parseOuter_nil]
    exact ⟨[], [], rfl, rfl, WFo.nil, rfl, ⟨(by intro t r h; cases h), Nat.le_refl _⟩⟩
  | eof t r ht =>
    intro k _ _
    have : f + 1 + k = (f + k) + 1 := by omega
    have hk : isDrop t = false := isDrop_of_kind (by rw [ht]; decide)
    rw [this, D_cons_keep hk]
    obtain ⟨tk_, tv⟩ := t
    simp only at ht; subst ht
    rw [parseOuter_eof, parseOuter_eof]
    exact ⟨[], _, rfl, rfl, WFo.eof _ _ rfl, (D_cons_keep hk _).symm, ⟨(by intro t r h; cases h; exact .inl rfl), Nat.le_refl _⟩⟩
  | text t r ht hr ihr =>
    intro k hk hy
    obtain ⟨tk_, tv⟩ := t
    simp only at ht; subst ht
    by_cases hdrop : isDrop ⟨TEXT, tv⟩ = true
    · have htv : tv = [] := by simpa [isDrop] using hdrop
      subst htv
      rw [D_cons, hdrop, if_pos rfl] at hy ⊢
      have hk' : 1 + extra r ≤ k := by simpa [extra, hdrop] using hk
      obtain ⟨k', rfl⟩ : ∃ k', k = k' + 1 := ⟨k - 1, by omega⟩
      have : f + 1 + (k' + 1) = (f + 1 + k') + 1 := by omega
      rw [this, parseOuter_text]
      have h1 := ihr k' (by omega) hy
      unfold RelR at h1 ⊢
      cases hyv : parseOuter (f+1) (dropEmptyText r) with
      | error e => rw [hyv] at h1; simp only at h1 ⊢; rw [h1]; rfl
      | ok b =>
        obtain ⟨ns', r'⟩ := b
        rw [hyv] at h1
        obtain ⟨ns, r2, hx, hφ, hw2, hr2, hp⟩ := h1
        refine ⟨.text [] :: ns, r2, by rw [hx]; rfl, ?_, hw2, hr2, ⟨hp.1, Nat.le_trans hp.2 (extra_le_cons _ r)⟩⟩
        show stripL (.text [] :: ns) = ns'
        rw [stripL_text]; exact hφ
    · have hdrop' : isDrop ⟨TEXT, tv⟩ = false := by simpa using hdrop
      rw [D_cons_keep hdrop'] at hy ⊢
      have : f + 1 + k = (f + k) + 1 := by omega
      rw [this, parseOuter_text, parseOuter_text]
      rw [parseOuter_text] at hy
      have hkr : extra r ≤ k := Nat.le_trans (extra_le_cons _ r) hk
      refine RelR.bind hy (fun h => ih.outer k r hr hkr h) ?_
      intro ns ns' r2 hφ hw2 hp _
      refine ⟨.text tv :: ns, r2, rfl, ?_, hw2, rfl, ⟨hp.1, Nat.le_trans hp.2 (extra_le_cons _ r)⟩⟩
      show stripL (.text tv :: ns) = .text tv :: ns'
      have : tv.isEmpty = false := by simpa [isDrop] using hdrop'
      rw [stripL_text, this]
      simp only [Bool.false_eq_true, if_false]
      rw [hφ]
  | comment s cs e r hs hcs he hr ihr =>
    intro k hk hy
    have : f + 1 + k = (f + k) + 1 := by omega
    obtain ⟨sk, sv⟩ := s
    simp only at hs; subst hs
    rw [D_comment _ cs e r rfl he] at hy ⊢
    have hcs' : ∀ c ∈ dropEmptyText cs, c.kind ≠ COMMENT_END := by
      intro c hc
      exact hcs c (List.mem_filter.mp hc).1
    rw [this, parseOuter_comment _ _ cs e r hcs he, parseOuter_comment _ _ _ e _ hcs' he]
    rw [parseOuter_comment _ _ _ e _ hcs' he] at hy
    have hkr : extra r ≤ k := by
      have := extra_append cs (e :: r)
      have h2 := extra_le_cons e r
      have h3 := extra_le_cons ⟨COMMENT_START, sv⟩ (cs ++ e :: r)
      omega
    have hle : extra r ≤ extra (⟨COMMENT_START, sv⟩ :: (cs ++ e :: r)) := by
      have := extra_append cs (e :: r)
      have h2 := extra_le_cons e r
      have h3 := extra_le_cons ⟨COMMENT_START, sv⟩ (cs ++ e :: r)
      omega
    exact (ih.outer k r hr hkr hy).weaken (fun r2 h => ⟨h.1, Nat.le_trans h.2 hle⟩)
  | tag s xs d r hs hx hd hsup hpair hr ihr =>
    intro k hk hy
    have hfk : f + 1 + k = (f + k) + 1 := by omega
    rw [D_tag s xs d r hs hx hd] at hy ⊢
    have hle := extra_tag_le s xs d r
    have hkr : extra r ≤ k := Nat.le_trans hle hk
    have hts := TS_tail hx hd r
    obtain ⟨sk, sv⟩ := s
    simp only at hs
    rcases hs with hs | hs
    · -- a print tag
      subst hs
      have hX : parseOuter (f + k + 1) (⟨VAR_START, sv⟩ :: (xs ++ d :: r)) =
          (parseExpression (exprFuel (xs ++ d :: r)) (xs ++ d :: r) >>= fun x =>
            expectK VAR_END "expected }} or -}}" x.2 >>= fun r2 =>
            parseOuter (f + k) r2 >>= fun y => pure (.print x.1 :: y.1, y.2)) := by
        rw [parseOuter.eq_def]; simp [VAR_START, EOF, TEXT]
      have hY : parseOuter (f + 1) (⟨VAR_START, sv⟩ :: (xs ++ d :: dropEmptyText r)) =
          (parseExpression (exprFuel (xs ++ d :: dropEmptyText r)) (xs ++ d :: dropEmptyText r) >>= fun x =>
            expectK VAR_END "expected }} or -}}" x.2 >>= fun r2 =>
            parseOuter f r2 >>= fun y => pure (.print x.1 :: y.1, y.2)) := by
        rw [parseOuter.eq_def]; simp [VAR_START, EOF, TEXT]
      rw [hfk, hX, hY]
      rw [hY] at hy
      have hpe := peX hts (D_length r) (bind_ne_fuel hy)
      cases hye : parseExpression (exprFuel (xs ++ d :: dropEmptyText r)) (xs ++ d :: dropEmptyText r) with
      | error e =>
        rw [hye] at hpe
        cases hxe : parseExpression (exprFuel (xs ++ d :: r)) (xs ++ d :: r) with
        | error e' => rw [hxe] at hpe; simp only [RRel] at hpe; subst hpe; rfl
        | ok b => rw [hxe] at hpe; simp [RRel] at hpe
      | ok b' =>
        obtain ⟨e, u'⟩ := b'
        rw [hye] at hpe hy
        cases hxe : parseExpression (exprFuel (xs ++ d :: r)) (xs ++ d :: r) with
        | error e' => rw [hxe] at hpe; simp [RRel] at hpe
        | ok b =>
          obtain ⟨e2, u⟩ := b
          rw [hxe] at hpe
          simp only [RRel] at hpe
          obtain ⟨rfl, hu⟩ := hpe
          simp only [ok_bind] at hy ⊢
          rcases expectK_TS hu VAR_END (by decide) "expected }} or -}}" with ⟨h1, h2⟩ | ⟨h1, h2⟩
          · rw [h1, h2]; rfl
          · rw [h2] at hy
            rw [h1, h2]
            simp only [ok_bind] at hy ⊢
            refine RelR.bind hy (fun h => ih.outer k r hr hkr h) ?_
            intro ns ns' r2 hφ hw2 hp _
            refine ⟨.print e2 :: ns, r2, rfl, ?_, hw2, rfl, ⟨hp.1, Nat.le_trans hp.2 hle⟩⟩
            show stripL (.print e2 :: ns) = .print e2 :: ns'
            rw [stripL_cons_N (by intro s h; cases h), hφ]; rfl
    · -- a block tag
      subst hs
      have hX : ∀ (g : Nat) (L : List Token), parseOuter (g + 1) (⟨BLOCK_START, sv⟩ :: L) =
          (match L with
          | n :: r1 =>
            if n.kind != NAME then perr "expected block name"
            else if endTagNames.contains n.val then pure ([], ⟨BLOCK_START, sv⟩ :: L)
            else parseTag g n.val r1 >>= fun x => parseOuter g x.2 >>= fun y => pure (x.1 :: y.1, y.2)
          | [] => perr "expected block name") := by
        intro g L
        rw [parseOuter.eq_def]
        cases L <;> simp [BLOCK_START, VAR_START, EOF, TEXT]
      rw [hfk, hX, hX]
      rw [hX] at hy
      cases xs with
      | nil =>
        have : (d.kind != NAME) = true := by simp [hd.endTok.kinds.1]
        simp only [List.nil_append, this, if_true]
        rfl
      | cons n xs' =>
        rw [allK_cons] at hx
        simp only [List.cons_append] at hy ⊢
        by_cases hn : (n.kind != NAME) = true
        · simp only [hn, if_true]; rfl
        · simp only [hn, Bool.false_eq_true, if_false] at hy ⊢
          by_cases he : endTagNames.contains n.val = true
          · simp only [he, if_true]
            refine ⟨[], _, rfl, rfl, WFo.tag _ (n :: xs') d r (.inr rfl) ((allK_cons n xs').mpr hx) hd hsup hpair hr, ?_, ⟨?_, Nat.le_refl _⟩⟩
            · exact (D_tag ⟨BLOCK_START, sv⟩ (n :: xs') d r (.inr rfl) ((allK_cons n xs').mpr hx) hd).symm
            · intro t r h; cases h; exact .inr rfl
          · simp only [he, Bool.false_eq_true, if_false] at hy ⊢
            refine RelR.bind hy (fun h => ih.tag k n.val xs' d r hx.2 hd (hpair rfl) hr hkr (hsup rfl n xs' rfl) h) ?_
            intro node node' r2 hφ hw2 hp2 hy2
            refine RelR.bind hy2 (fun h => ih.outer k r2 hw2 (Nat.le_trans hp2 hkr) h) ?_
            · intro ns ns' r3 hφ3 hw3 hp3 _
              refine ⟨node :: ns, r3, rfl, ?_, hw3, rfl, ⟨hp3.1, Nat.le_trans hp3.2 (Nat.le_trans hp2 hle)⟩⟩
              show stripL (node :: ns) = node' :: ns'
              rw [stripL_cons_N hφ.2, hφ.1, hφ3]


/-- a tag header that is one expression up to the end token `K`: both sides fail alike or continue on `r` / `D r` -/
theorem hdrExpr {β} {ψ : β → β → Prop} {Q : List Token → Prop} {xs : List Token} {d : Token} (r : List Token)
    (hx : AllK xs) (hd : IsEnd d) (K : Nat) (hK : ¬ ExprKind K) (msg : String)
    (kx ky : Expr → List Token → R (β × List Token))
    (hy : (parseExpression (exprFuel (xs ++ d :: dropEmptyText r)) (xs ++ d :: dropEmptyText r) >>= fun x =>
      expectK K msg x.2 >>= fun r2 => ky x.1 r2) ≠ fuelErr)
    (hk : ∀ e, ky e (dropEmptyText r) ≠ fuelErr → RelR ψ Q (kx e r) (ky e (dropEmptyText r))) :
    RelR ψ Q
      (parseExpression (exprFuel (xs ++ d :: r)) (xs ++ d :: r) >>= fun x =>
        expectK K msg x.2 >>= fun r2 => kx x.1 r2)
      (parseExpression (exprFuel (xs ++ d :: dropEmptyText r)) (xs ++ d :: dropEmptyText r) >>= fun x =>
        expectK K msg x.2 >>= fun r2 => ky x.1 r2) := by
  have hts := TS_tail hx hd r
  have hpe := peX hts (D_length r) (bind_ne_fuel hy)
  cases hye : parseExpression (exprFuel (xs ++ d :: dropEmptyText r)) (xs ++ d :: dropEmptyText r) with
  | error e =>
    rw [hye] at hpe
    cases hxe : parseExpression (exprFuel (xs ++ d :: r)) (xs ++ d :: r) with
    | error e' => rw [hxe] at hpe; simp only [RRel] at hpe; subst hpe; rfl
    | ok b => rw [hxe] at hpe; simp [RRel] at hpe
  | ok b' =>
    obtain ⟨e, u'⟩ := b'
    rw [hye] at hpe hy
    cases hxe : parseExpression (exprFuel (xs ++ d :: r)) (xs ++ d :: r) with
    | error e' => rw [hxe] at hpe; simp [RRel] at hpe
    | ok b =>
      obtain ⟨e2, u⟩ := b
      rw [hxe] at hpe
      simp only [RRel] at hpe
      obtain ⟨rfl, hu⟩ := hpe
      simp only [ok_bind] at hy ⊢
      rcases expectK_TS hu K hK msg with ⟨h1, h2⟩ | ⟨h1, h2⟩
      · rw [h1, h2]; rfl
      · rw [h2] at hy
        rw [h1, h2]
        simp only [ok_bind] at hy ⊢
        exact hk e2 hy

/-- a tag header that is just the end token `K` -/
theorem hdrEnd {β} {ψ : β → β → Prop} {Q : List Token → Prop} {xs : List Token} {d : Token} (r : List Token)
    (hx : AllK xs) (hd : IsEnd d) (K : Nat) (hK : ¬ ExprKind K) (msg : String)
    (kx ky : List Token → R (β × List Token))
    (hy : (expectK K msg (xs ++ d :: dropEmptyText r) >>= fun r2 => ky r2) ≠ fuelErr)
    (hk : ky (dropEmptyText r) ≠ fuelErr → RelR ψ Q (kx r) (ky (dropEmptyText r))) :
    RelR ψ Q (expectK K msg (xs ++ d :: r) >>= fun r2 => kx r2)
      (expectK K msg (xs ++ d :: dropEmptyText r) >>= fun r2 => ky r2) := by
  rcases expectK_TS (TS_tail hx hd r) K hK msg with ⟨h1, h2⟩ | ⟨h1, h2⟩
  · rw [h1, h2]; rfl
  · rw [h2] at hy
    rw [h1, h2]
    simp only [ok_bind] at hy ⊢
    exact hk hy


theorem ifTail_unfold (g : Nat) (he : Bool) (s n : Token) (r : List Token) (hs : s.kind = BLOCK_START)
    (hn : n.kind = NAME) :
    parseIfTail (g+1) he (s :: n :: r) =
      if n.val == b "elseif" then
        (if he then perr "unexpected elseif after else" else
          parseExpression (exprFuel r) r >>= fun x =>
            expectK BLOCK_END "expected block end after elseif condition" x.2 >>= fun r2 =>
              (parseOuter g r2 >>= fun y => parseIfTail g false y.2 >>= fun z => pure ([.ifN x.1 y.1 z.1], z.2)))
      else if n.val == b "else" then
        (if he then perr "multiple else blocks found" else
          expectK BLOCK_END "expected block end after else tag" r >>= fun r1 =>
            parseOuter g r1 >>= fun y => parseIfTail g true y.2 >>= fun z => pure (y.1, z.2))
      else if n.val == b "endif" then
        expectK BLOCK_END "expected block end after endif" r >>= fun r1 => pure ([], r1)
      else perr "expected elseif, else, or endif" := by
  rw [parseIfTail]
  simp only [hs, hn, bne_self_eq_false, Bool.false_eq_true, if_false]

theorem stripL_single_if (c : Expr) (t e : List Node) : stripL [.ifN c t e] = [.ifN c (stripL t) (stripL e)] := by
  rw [stripL_cons_N (by intro s h; cases h)]; rfl

theorem ifTail_succ (f : Nat) (ih : SimAt f) (k : Nat) (he : Bool) (ts : List Token) (hw : WFo ts) (hh : HeadOK ts)
    (hk : extra ts ≤ k) (hy : parseIfTail (f+1) he (dropEmptyText ts) ≠ fuelErr) :
    RelR PhiL (fun r2 => extra r2 ≤ extra ts) (parseIfTail (f + 1 + k) he ts)
      (parseIfTail (f+1) he (dropEmptyText ts)) := by
  have hfk : f + 1 + k = (f + k) + 1 := by omega
  rw [hfk]
  cases ts with
  | nil => rfl
  | cons s l =>
    have hskeep := hh.keep
    rw [D_cons_keep hskeep] at hy ⊢
    rcases hh s l rfl with hs | hs
    · -- EOF: both fail alike
      have hne : (s.kind != BLOCK_START) = true := by rw [hs]; decide
      have hX : ∀ g he' l', parseIfTail (g+1) he' (s :: l') = perr "unexpected end of template, expected endif" := by
        intro g he' l'
        rw [parseIfTail.eq_def]
        cases l' with
        | nil => simp [hne]
        | cons n r => simp [hne]
      rw [hX, hX]; rfl
    · obtain ⟨xs, d, r, rfl, hx, hd, hr, _⟩ := hw.block_inv hs
      rw [D_append_allK hx, D_cons_keep hd.keep] at hy ⊢
      have hle := extra_tag_le s xs d r
      have hkr : extra r ≤ k := Nat.le_trans hle hk
      cases xs with
      | nil =>
        have hdn : (d.kind != NAME) = true := by simp [hd.endTok.kinds.1]
        have hX : ∀ g he' l', parseIfTail (g+1) he' (s :: d :: l') = perr "expected block name" := by
          intro g he' l'
          rw [parseIfTail]
          simp [hs, hdn]
        simp only [List.nil_append]
        rw [hX, hX]; rfl
      | cons n xs' =>
        rw [allK_cons] at hx
        simp only [List.cons_append] at hy ⊢
        by_cases hn : n.kind = NAME
        · rw [ifTail_unfold _ _ _ _ _ hs hn] at hy ⊢
          rw [ifTail_unfold _ _ _ _ _ hs hn]
          by_cases h1 : (n.val == b "elseif") = true
          · simp only [h1, if_true] at hy ⊢
            cases he with
            | true => rfl
            | false =>
              simp only [Bool.false_eq_true, if_false] at hy ⊢
              refine hdrExpr r hx.2 hd BLOCK_END (by decide) _
                (fun c r2 => parseOuter (f + k) r2 >>= fun y => parseIfTail (f + k) false y.2 >>= fun z =>
                  pure ([Node.ifN c y.1 z.1], z.2))
                (fun c r2 => parseOuter f r2 >>= fun y => parseIfTail f false y.2 >>= fun z =>
                  pure ([Node.ifN c y.1 z.1], z.2)) hy ?_
              intro c hy1
              refine RelR.bind hy1 (fun h => ih.outer k r hr hkr h) ?_
              intro body body' r3 hφ hw3 hp3 hy2
              refine RelR.bind hy2 (fun h => ih.ifTail k false r3 hw3 hp3.1 (Nat.le_trans hp3.2 hkr) h) ?_
              intro els els' r4 hφ4 hw4 hp4 _
              refine ⟨[.ifN c body els], r4, rfl, ?_, hw4, rfl, Nat.le_trans hp4 (Nat.le_trans hp3.2 hle)⟩
              show stripL [.ifN c body els] = [.ifN c body' els']
              rw [stripL_single_if, hφ, hφ4]
          · simp only [h1, Bool.false_eq_true, if_false] at hy ⊢
            by_cases h2 : (n.val == b "else") = true
            · simp only [h2, if_true] at hy ⊢
              cases he with
              | true => rfl
              | false =>
                simp only [Bool.false_eq_true, if_false] at hy ⊢
                refine hdrEnd r hx.2 hd BLOCK_END (by decide) _
                  (fun r1 => parseOuter (f + k) r1 >>= fun y => parseIfTail (f + k) true y.2 >>= fun z => pure (y.1, z.2))
                  (fun r1 => parseOuter f r1 >>= fun y => parseIfTail f true y.2 >>= fun z => pure (y.1, z.2)) hy ?_
                intro hy1
                refine RelR.bind hy1 (fun h => ih.outer k r hr hkr h) ?_
                intro body body' r3 hφ hw3 hp3 hy2
                refine RelR.bind hy2 (fun h => ih.ifTail k true r3 hw3 hp3.1 (Nat.le_trans hp3.2 hkr) h) ?_
                intro els els' r4 hφ4 hw4 hp4 _
                exact ⟨body, r4, rfl, hφ, hw4, rfl, Nat.le_trans hp4 (Nat.le_trans hp3.2 hle)⟩
            · simp only [h2, Bool.false_eq_true, if_false] at hy ⊢
              by_cases h3 : (n.val == b "endif") = true
              · simp only [h3, if_true] at hy ⊢
                refine hdrEnd r hx.2 hd BLOCK_END (by decide) _
                  (fun r1 => pure ([], r1)) (fun r1 => pure ([], r1)) hy ?_
                intro _
                exact ⟨[], r, rfl, rfl, hr, rfl, hle⟩
              · simp only [h3, Bool.false_eq_true, if_false]
                rfl
        · have hnn : (n.kind != NAME) = true := by simp [hn]
          have hX : ∀ g he' l', parseIfTail (g+1) he' (s :: n :: l') = perr "expected block name" := by
            intro g he' l'
            rw [parseIfTail]
            simp [hs, hnn]
          rw [hX, hX]; rfl


/-- matching `{% name` at the head of what `parseOuter` returned -/
theorem expectTag_sim (nm msg : String) {r5 : List Token} (hw : WFo r5) (hh : HeadOK r5) :
    (expectTag nm msg r5 = perr msg ∧ expectTag nm msg (dropEmptyText r5) = perr msg) ∨
    (∃ xs' d rr, AllK xs' ∧ IsEnd d ∧ WFo rr ∧ extra rr ≤ extra r5 ∧
      expectTag nm msg r5 = .ok (xs' ++ d :: rr) ∧ expectTag nm msg (dropEmptyText r5) = .ok (xs' ++ d :: dropEmptyText rr)) := by
  cases r5 with
  | nil => exact .inl ⟨rfl, rfl⟩
  | cons s l =>
    rw [D_cons_keep hh.keep]
    rcases hh s l rfl with hs | hs
    · left
      have hne : (s.kind == BLOCK_START) = false := by rw [hs]; decide
      constructor
      · cases l <;> simp [expectTag, hne]
      · cases dropEmptyText l <;> simp [expectTag, hne]
    · obtain ⟨xs, d, rr, rfl, hx, hd, hr, _⟩ := hw.block_inv hs
      rw [D_append_allK hx, D_cons_keep hd.keep]
      have hsb : (s.kind == BLOCK_START) = true := by simp [hs]
      cases xs with
      | nil =>
        left
        have : isName d nm = false := hd.endTok.isName nm
        simp [expectTag, this]
      | cons n xs' =>
        rw [allK_cons] at hx
        by_cases hn : isName n nm = true
        · right
          refine ⟨xs', d, rr, hx.2, hd, hr, ?_, ?_, ?_⟩
          · have := extra_tag_le s (n :: xs') d rr
            have h2 := extra_tag_le n xs' d rr
            simp only [List.cons_append] at this ⊢
            exact Nat.le_trans (Nat.le_refl _) this
          · simp [expectTag, hsb, hn]
          · simp [expectTag, hsb, hn]
        · left
          simp [expectTag, hn]

/-- header-only handlers: both sides fail alike, or both return the same node and stop right after the end token -/
def RRelEnd (N : Node → Prop) (r r' : List Token) (x y : R (Node × List Token)) : Prop :=
  match y with
  | .error e => x = .error e
  | .ok (n', u') => x = .ok (n', r) ∧ u' = r' ∧ N n'

/-- nodes without node-list children -/
def Leaf (n : Node) : Prop := stripN n = n ∧ ∀ s, n ≠ .text s

theorem RRelEnd.toRelR {N : Node → Prop} {r : List Token} {x y : R (Node × List Token)}
    (h : RRelEnd N r (dropEmptyText r) x y) (hr : WFo r) (hn : ∀ n, N n → Leaf n) :
    RelR PhiN (fun r2 => extra r2 ≤ extra r) x y := by
  unfold RRelEnd at h
  unfold RelR
  cases y with
  | error e => exact h
  | ok b =>
    obtain ⟨n', u'⟩ := b
    obtain ⟨hx, rfl, hN⟩ := h
    exact ⟨n', r, hx, hn n' hN, hr, rfl, Nat.le_refl _⟩

/-- `expression, then the end token` on `TS`-related streams, for header-only handlers -/
theorem peX_end {r r' ts ts' : List Token} (h : TS r r' ts ts') (hlen : r'.length ≤ r.length) (K : Nat)
    (hK : ¬ ExprKind K) (msg : String) (mk : Expr → Node)
    (hy : (parseExpression (exprFuel ts') ts' >>= fun x => expectK K msg x.2 >>= fun r2 => pure (mk x.1, r2)) ≠ fuelErr) :
    RRelEnd (fun n => ∃ e, n = mk e) r r'
      (parseExpression (exprFuel ts) ts >>= fun x => expectK K msg x.2 >>= fun r2 => pure (mk x.1, r2))
      (parseExpression (exprFuel ts') ts' >>= fun x => expectK K msg x.2 >>= fun r2 => pure (mk x.1, r2)) := by
  have hpe := peX h hlen (bind_ne_fuel hy)
  cases hye : parseExpression (exprFuel ts') ts' with
  | error e =>
    rw [hye] at hpe
    cases hxe : parseExpression (exprFuel ts) ts with
    | error e' => rw [hxe] at hpe; simp only [RRel] at hpe; subst hpe; rfl
    | ok b => rw [hxe] at hpe; simp [RRel] at hpe
  | ok b' =>
    obtain ⟨e, u'⟩ := b'
    rw [hye] at hpe
    cases hxe : parseExpression (exprFuel ts) ts with
    | error e' => rw [hxe] at hpe; simp [RRel] at hpe
    | ok b =>
      obtain ⟨e2, u⟩ := b
      rw [hxe] at hpe
      simp only [RRel] at hpe
      obtain ⟨rfl, hu⟩ := hpe
      simp only [ok_bind]
      rcases expectK_TS hu K hK msg with ⟨h1, h2⟩ | ⟨h1, h2⟩
      · rw [h1, h2]; rfl
      · rw [h1, h2]; exact ⟨rfl, rfl, e2, rfl⟩

/-- the common tail of `apply`, `spaceless`, `macro`: a body, the end tag, the end token -/
theorem bodyEnd {f : Nat} (ih : SimAt f) (k : Nat) (r : List Token) (hr : WFo r) (hkr : extra r ≤ k)
    (nm m2 m3 : String) (mk : List Node → Node)
    (hmk : ∀ bd, stripN (mk bd) = mk (stripL bd) ∧ ∀ s, mk bd ≠ .text s)
    (hy : (parseOuter f (dropEmptyText r) >>= fun y => expectTag nm m2 y.2 >>= fun r4 =>
      expectK BLOCK_END m3 r4 >>= fun r5 => pure (mk y.1, r5)) ≠ fuelErr) :
    RelR PhiN (fun r2 => extra r2 ≤ extra r)
      (parseOuter (f + k) r >>= fun y => expectTag nm m2 y.2 >>= fun r4 =>
        expectK BLOCK_END m3 r4 >>= fun r5 => pure (mk y.1, r5))
      (parseOuter f (dropEmptyText r) >>= fun y => expectTag nm m2 y.2 >>= fun r4 =>
        expectK BLOCK_END m3 r4 >>= fun r5 => pure (mk y.1, r5)) := by
  refine RelR.bind hy (fun h => ih.outer k r hr hkr h) ?_
  intro body body' r3 hφ hw3 hp3 hy2
  rcases expectTag_sim nm m2 hw3 hp3.1 with ⟨h1, h2⟩ | ⟨xs2, d2, rr, hx2, hd2, hrr, hle2, h1, h2⟩
  · simp only [h1, h2]; rfl
  · simp only [h1, h2, ok_bind] at hy2 ⊢
    rcases expectK_TS (TS_tail hx2 hd2 rr) BLOCK_END (by decide) m3 with ⟨e1, e2⟩ | ⟨e1, e2⟩
    · rw [e1, e2]; rfl
    · rw [e1, e2]
      refine ⟨mk body, rr, rfl, ⟨?_, (hmk body).2⟩, hrr, rfl, Nat.le_trans hle2 hp3.2⟩
      rw [(hmk body).1, hφ]

/-- what the `for` handler does with what follows the loop body -/
def forEnd (g : Nat) (key : Option Bytes) (val : Bytes) (seq : Expr) (body : List Node) (r5 : List Token) :
    R (Node × List Token) :=
  match r5 with
  | s :: n :: r6 =>
    if (s.kind != BLOCK_START) = true then perr "unexpected end of template, expected endfor"
    else if (n.kind != NAME) = true then perr "expected block name"
    else if (n.val == b "else") = true then
      expectK BLOCK_END "expected block end after else" r6 >>= fun r7 =>
      parseOuter g r7 >>= fun y =>
      expectTag "endfor" "expected endfor" y.2 >>= fun r9 =>
      expectK BLOCK_END "expected block end after endfor" r9 >>= fun r10 =>
      pure (Node.forN key val seq body y.1, r10)
    else if (n.val == b "endfor") = true then
      expectK BLOCK_END "expected block end after endfor" r6 >>= fun r7 =>
      pure (Node.forN key val seq body [], r7)
    else perr "expected else or endfor"
  | [s] =>
    if (s.kind != BLOCK_START) = true then perr "unexpected end of template, expected endfor"
    else perr "expected block name"
  | [] => perr "unexpected end of template, expected endfor"

theorem forEnd_sim {f : Nat} (ih : SimAt f) (k : Nat) (key : Option Bytes) (val : Bytes) (seq : Expr)
    (body body' : List Node) (hb : stripL body = body') (r5 : List Token) (hw : WFo r5) (hh : HeadOK r5)
    (hk5 : extra r5 ≤ k) (B : Nat) (hB : extra r5 ≤ B)
    (hy : forEnd f key val seq body' (dropEmptyText r5) ≠ fuelErr) :
    RelR PhiN (fun r2 => extra r2 ≤ B) (forEnd (f + k) key val seq body r5)
      (forEnd f key val seq body' (dropEmptyText r5)) := by
  cases r5 with
  | nil => rfl
  | cons s l =>
    rw [D_cons_keep hh.keep] at hy ⊢
    rcases hh s l rfl with hs | hs
    · have hne : (s.kind != BLOCK_START) = true := by rw [hs]; decide
      have hX : ∀ g bd l', forEnd g key val seq bd (s :: l') = perr "unexpected end of template, expected endfor" := by
        intro g bd l'
        unfold forEnd
        cases l' <;> simp [hne]
      rw [hX, hX]; rfl
    · obtain ⟨xs, d, rr, rfl, hx, hd, hr, _⟩ := hw.block_inv hs
      rw [D_append_allK hx, D_cons_keep hd.keep] at hy ⊢
      have hle := extra_tag_le s xs d rr
      have hsb : (s.kind != BLOCK_START) = false := by simp [hs]
      cases xs with
      | nil =>
        have hdn : (d.kind != NAME) = true := by simp [hd.endTok.kinds.1]
        simp only [List.nil_append, forEnd, hsb, hdn, Bool.false_eq_true, if_false, if_true]
        rfl
      | cons n xs' =>
        rw [allK_cons] at hx
        simp only [List.cons_append, forEnd, hsb, Bool.false_eq_true, if_false] at hy ⊢
        by_cases hn : (n.kind != NAME) = true
        · simp only [hn, if_true]; rfl
        · simp only [hn, Bool.false_eq_true, if_false] at hy ⊢
          by_cases h1 : (n.val == b "else") = true
          · simp only [h1, if_true] at hy ⊢
            rcases expectK_TS (TS_tail hx.2 hd rr) BLOCK_END (by decide) "expected block end after else" with
              ⟨e1, e2⟩ | ⟨e1, e2⟩
            · rw [e1, e2]; rfl
            rw [e2] at hy
            rw [e1, e2]
            simp only [ok_bind] at hy ⊢
            refine RelR.bind hy (fun h => ih.outer k rr hr (Nat.le_trans hle hk5) h) ?_
            intro els els' r8 hφ hw8 hp8 hy2
            rcases expectTag_sim "endfor" "expected endfor" hw8 hp8.1 with ⟨h1', h2'⟩ |
              ⟨xs2, d2, r9, hx2, hd2, hr9, hle2, h1', h2'⟩
            · simp only [h1', h2']; rfl
            · simp only [h1', h2', ok_bind] at hy2 ⊢
              rcases expectK_TS (TS_tail hx2 hd2 r9) BLOCK_END (by decide) "expected block end after endfor" with
                ⟨e3, e4⟩ | ⟨e3, e4⟩
              · rw [e3, e4]; rfl
              · rw [e3, e4]
                refine ⟨Node.forN key val seq body els, r9, rfl, ⟨?_, by intro s h; cases h⟩, hr9, rfl, ?_⟩
                · show Node.forN key val seq (stripL body) (stripL els) = _
                  rw [hb, hφ]
                · exact Nat.le_trans hle2 (Nat.le_trans hp8.2 (Nat.le_trans hle hB))
          · simp only [h1, Bool.false_eq_true, if_false] at hy ⊢
            by_cases h2 : (n.val == b "endfor") = true
            · simp only [h2, if_true] at hy ⊢
              rcases expectK_TS (TS_tail hx.2 hd rr) BLOCK_END (by decide) "expected block end after endfor" with
                ⟨e1, e2⟩ | ⟨e1, e2⟩
              · rw [e1, e2]; rfl
              · rw [e1, e2]
                refine ⟨Node.forN key val seq body [], rr, rfl, ⟨?_, by intro s h; cases h⟩, hr, rfl,
                  Nat.le_trans hle hB⟩
                show Node.forN key val seq (stripL body) (stripL []) = _
                rw [hb]; rfl
            · simp only [h2, Bool.false_eq_true, if_false]
              rfl

/-- the `for` handler after the loop variables -/
def forK (g : Nat) (key : Option Bytes) (val : Bytes) (r1 : List Token) : R (Node × List Token) :=
  match r1 with
  | i :: r2 =>
    if (!isName i "in") = true then perr "expected 'in' keyword after variable name"
    else
      parseExpression (exprFuel r2) r2 >>= fun x =>
      expectK BLOCK_END "expected block end after for statement" x.2 >>= fun r4 =>
      parseOuter g r4 >>= fun y => forEnd g key val x.1 y.1 y.2
  | [] => perr "expected 'in' keyword after variable name"

theorem forK_sim {f : Nat} (ih : SimAt f) (k : Nat) (key : Option Bytes) (val : Bytes) (r : List Token)
    (hr : WFo r) (hkr : extra r ≤ k) {L L' : List Token} (hL : TS r (dropEmptyText r) L L')
    (hy : forK f key val L' ≠ fuelErr) :
    RelR PhiN (fun r2 => extra r2 ≤ extra r) (forK (f + k) key val L) (forK f key val L') := by
  rcases hL.cases with ⟨d, hd, rfl, rfl⟩ | ⟨i, t, t', hi, rfl, rfl, ht⟩
  · have : (!isName d "in") = true := by simp [hd.isName]
    simp only [forK, this, if_true]
    rfl
  · simp only [forK] at hy ⊢
    by_cases hin : (!isName i "in") = true
    · simp only [hin, if_true]; rfl
    · simp only [hin, Bool.false_eq_true, if_false] at hy ⊢
      obtain ⟨xs, d, hx, hd, rfl, rfl⟩ := ht
      have hd' : IsEnd d ∨ True := .inr trivial
      -- `d` is an end token of the expression parsers; `expectK BLOCK_END` decides whether it is the block end
      have hpe := peX (r := r) (r' := dropEmptyText r) ⟨xs, d, hx, hd, rfl, rfl⟩ (D_length r) (bind_ne_fuel hy)
      cases hye : parseExpression (exprFuel (xs ++ d :: dropEmptyText r)) (xs ++ d :: dropEmptyText r) with
      | error e =>
        rw [hye] at hpe
        cases hxe : parseExpression (exprFuel (xs ++ d :: r)) (xs ++ d :: r) with
        | error e' => rw [hxe] at hpe; simp only [RRel] at hpe; subst hpe; rfl
        | ok b => rw [hxe] at hpe; simp [RRel] at hpe
      | ok b' =>
        obtain ⟨e, u'⟩ := b'
        rw [hye] at hpe hy
        cases hxe : parseExpression (exprFuel (xs ++ d :: r)) (xs ++ d :: r) with
        | error e' => rw [hxe] at hpe; simp [RRel] at hpe
        | ok b =>
          obtain ⟨e2, u⟩ := b
          rw [hxe] at hpe
          simp only [RRel] at hpe
          obtain ⟨rfl, hu⟩ := hpe
          simp only [ok_bind] at hy ⊢
          rcases expectK_TS hu BLOCK_END (by decide) "expected block end after for statement" with ⟨h1, h2⟩ | ⟨h1, h2⟩
          · rw [h1, h2]; rfl
          · rw [h2] at hy
            rw [h1, h2]
            simp only [ok_bind] at hy ⊢
            refine RelR.bind hy (fun h => ih.outer k r hr hkr h) ?_
            intro body body' r5 hφ hw5 hp5 hy2
            exact forEnd_sim ih k key val e2 body body' hφ r5 hw5 hp5.1 (Nat.le_trans hp5.2 hkr) _ hp5.2 hy2

/-- the `for` handler after the first loop variable `v` -/
def forHdr (g : Nat) (v : Token) (r0 : List Token) : R (Node × List Token) :=
  match r0 with
  | c :: v2 :: r' =>
    if isP c 44 = true then
      (if (v2.kind == NAME) = true then forK g (some v.val) v2.val r'
       else perr "expected value variable name after comma")
    else forK g none v.val r0
  | [c] => if isP c 44 = true then perr "expected value variable name after comma" else forK g none v.val r0
  | [] => forK g none v.val r0

theorem forHdr_end (g : Nat) (v d : Token) (hd : EndTok d) (l : List Token) :
    forHdr g v (d :: l) = forK g none v.val (d :: l) := by
  cases l <;> simp [forHdr, hd.isP]

theorem forHdr_sim {f : Nat} (ih : SimAt f) (k : Nat) (v : Token) (r : List Token)
    (hr : WFo r) (hkr : extra r ≤ k) {L L' : List Token} (hL : TS r (dropEmptyText r) L L')
    (hy : forHdr f v L' ≠ fuelErr) :
    RelR PhiN (fun r2 => extra r2 ≤ extra r) (forHdr (f + k) v L) (forHdr f v L') := by
  rcases hL.cases with ⟨d, hd, rfl, rfl⟩ | ⟨c, t, t', hc, rfl, rfl, ht⟩
  · rw [forHdr_end _ _ _ hd] at hy ⊢
    rw [forHdr_end _ _ _ hd]
    exact forK_sim ih k none v.val r hr hkr (TS.end_ hd) hy
  · rcases ht.cases with ⟨d, hd, rfl, rfl⟩ | ⟨v2, t2, t2', hv2, rfl, rfl, ht2⟩
    · simp only [forHdr] at hy ⊢
      by_cases hcp : isP c 44 = true
      · have : (d.kind == NAME) = false := by simp [hd.kinds.1]
        simp only [hcp, if_true, this, Bool.false_eq_true, if_false]
        rfl
      · simp only [hcp, Bool.false_eq_true, if_false] at hy ⊢
        exact forK_sim ih k none v.val r hr hkr (TS.cons hc (TS.end_ hd)) hy
    · simp only [forHdr] at hy ⊢
      by_cases hcp : isP c 44 = true
      · simp only [hcp, if_true] at hy ⊢
        by_cases hvn : (v2.kind == NAME) = true
        · simp only [hvn, if_true] at hy ⊢
          exact forK_sim ih k _ _ r hr hkr ht2 hy
        · simp only [hvn, Bool.false_eq_true, if_false]
          rfl
      · simp only [hcp, Bool.false_eq_true, if_false] at hy ⊢
        exact forK_sim ih k none v.val r hr hkr (TS.cons hc (TS.cons hv2 ht2)) hy

theorem parseTag_for (g : Nat) (v : Token) (r0 : List Token) (hv : (v.kind != NAME) = false) :
    parseTag (g+1) (b "for") (v :: r0) = forHdr g v r0 := by
  unfold parseTag
  simp only [show (b "for" == b "if") = false from by decide +kernel,
    show (b "for" == b "for") = true from by decide +kernel, Bool.false_eq_true, if_false, if_true, hv]
  cases r0 with
  | nil => simp only [forHdr, pure_eq_ok, ok_bind]; rfl
  | cons c t =>
    cases t with
    | nil =>
      simp only [forHdr]
      by_cases hc : isP c 44 = true
      · simp only [hc, if_true]; rfl
      · simp only [hc, Bool.false_eq_true, if_false, pure_eq_ok, ok_bind]; rfl
    | cons v2 r' =>
      simp only [forHdr]
      by_cases hc : isP c 44 = true
      · simp only [hc, if_true]
        by_cases hv2 : (v2.kind == NAME) = true
        · simp only [hv2, if_true, pure_eq_ok, ok_bind]; rfl
        · simp only [hv2, Bool.false_eq_true, if_false]; rfl
      · simp only [hc, Bool.false_eq_true, if_false, pure_eq_ok, ok_bind]; rfl

/-- the `set` handler after the first expression -/
def setTail (name : Bytes) (e : Expr) (r2 : List Token) : R (Node × List Token) :=
  match r2 with
  | o :: r' =>
    if (o.kind == OPERATOR && o.val != [61]) = true then
      parseExpression (exprFuel r') r' >>= fun x =>
      expectK BLOCK_END "expected block end token after set expression" x.2 >>= fun r4 =>
      pure (Node.setN name (Expr.badBinary e x.1), r4)
    else
      expectK BLOCK_END "expected block end token after set expression" r2 >>= fun r4 => pure (Node.setN name e, r4)
  | [] => expectK BLOCK_END "expected block end token after set expression" r2 >>= fun r4 => pure (Node.setN name e, r4)

def setHdr (ts : List Token) : R (Node × List Token) :=
  match ts with
  | v :: eq :: r1 =>
    if (v.kind != NAME) = true then perr "expected variable name after set"
    else if (!(eq.kind == OPERATOR && eq.val == [61])) = true then perr "expected '=' after variable name"
    else parseExpression (exprFuel r1) r1 >>= fun x => setTail v.val x.1 x.2
  | [v] => if (v.kind != NAME) = true then perr "expected variable name after set" else perr "expected '=' after variable name"
  | [] => perr "expected variable name after set"

theorem parseTag_set (g : Nat) (ts : List Token) : parseTag (g+1) (b "set") ts = setHdr ts := by
  unfold parseTag
  simp only [show (b "set" == b "if") = false from by decide +kernel,
    show (b "set" == b "for") = false from by decide +kernel,
    show (b "set" == b "set") = true from by decide +kernel, Bool.false_eq_true, if_false, if_true]
  cases ts with
  | nil => rfl
  | cons v t =>
    cases t with
    | nil => rfl
    | cons eq r1 =>
      simp only [setHdr]
      by_cases hv : (v.kind != NAME) = true
      · simp only [hv, if_true]
      · simp only [hv, Bool.false_eq_true, if_false]
        by_cases heq : (!(eq.kind == OPERATOR && eq.val == [61])) = true
        · simp only [heq, if_true]
        · simp only [heq, Bool.false_eq_true, if_false]
          apply bind_congr_ok
          intro x _
          obtain ⟨e, r2⟩ := x
          simp only [setTail]
          cases r2 with
          | nil => rfl
          | cons o r' =>
            simp only
            by_cases ho : (o.kind == OPERATOR && o.val != [61]) = true
            · simp only [ho, if_true]
              cases parseExpression (exprFuel r') r' <;> rfl
            · simp only [ho, Bool.false_eq_true, if_false]
              rfl

theorem expectK_end_sim {r : List Token} (hr : WFo r) {u u' : List Token} (hu : TS r (dropEmptyText r) u u')
    (msg : String) (n : Node) (hn : Leaf n) :
    RelR PhiN (fun r2 => extra r2 ≤ extra r) (expectK BLOCK_END msg u >>= fun r4 => pure (n, r4))
      (expectK BLOCK_END msg u' >>= fun r4 => pure (n, r4)) := by
  rcases expectK_TS hu BLOCK_END (by decide) msg with ⟨e1, e2⟩ | ⟨e1, e2⟩
  · rw [e1, e2]; rfl
  · rw [e1, e2]
    exact ⟨n, r, rfl, hn, hr, rfl, Nat.le_refl _⟩

theorem setTail_sim (name : Bytes) (e : Expr) {r : List Token} (hr : WFo r) {u u' : List Token}
    (hu : TS r (dropEmptyText r) u u') (hy : setTail name e u' ≠ fuelErr) :
    RelR PhiN (fun r2 => extra r2 ≤ extra r) (setTail name e u) (setTail name e u') := by
  rcases hu.cases with ⟨d, hd, rfl, rfl⟩ | ⟨o, t, t', ho, rfl, rfl, ht⟩
  · have : (d.kind == OPERATOR && d.val != [61]) = false := by simp [hd.kinds.2.2.2.1]
    simp only [setTail, this, Bool.false_eq_true, if_false]
    exact expectK_end_sim hr (TS.end_ hd) _ _ ⟨rfl, by intro s h; cases h⟩
  · simp only [setTail] at hy ⊢
    by_cases hc : (o.kind == OPERATOR && o.val != [61]) = true
    · simp only [hc, if_true] at hy ⊢
      refine (peX_end ht (D_length r) BLOCK_END (by decide) _ (fun x => Node.setN name (Expr.badBinary e x)) hy).toRelR hr ?_
      rintro n ⟨x, rfl⟩
      exact ⟨rfl, by intro s h; cases h⟩
    · simp only [hc, Bool.false_eq_true, if_false]
      exact expectK_end_sim hr (TS.cons ho ht) _ _ ⟨rfl, by intro s h; cases h⟩

theorem setHdr_end (d : Token) (hd : EndTok d) (l : List Token) :
    setHdr (d :: l) = perr "expected variable name after set" := by
  have : (d.kind != NAME) = true := by simp [hd.kinds.1]
  cases l <;> simp [setHdr, this]

theorem setHdr_sim {r : List Token} (hr : WFo r) {L L' : List Token} (hL : TS r (dropEmptyText r) L L')
    (hy : setHdr L' ≠ fuelErr) :
    RelR PhiN (fun r2 => extra r2 ≤ extra r) (setHdr L) (setHdr L') := by
  rcases hL.cases with ⟨d, hd, rfl, rfl⟩ | ⟨v, t, t', hv, rfl, rfl, ht⟩
  · rw [setHdr_end _ hd, setHdr_end _ hd]; rfl
  · rcases ht.cases with ⟨d, hd, rfl, rfl⟩ | ⟨eq, t2, t2', heq, rfl, rfl, ht2⟩
    · have h2 : (!(d.kind == OPERATOR && d.val == [61])) = true := by simp [hd.kinds.2.2.2.1]
      simp only [setHdr, h2, if_true]
      by_cases hvn : (v.kind != NAME) = true
      · simp only [hvn, if_true]; rfl
      · simp only [hvn, Bool.false_eq_true, if_false]; rfl
    · simp only [setHdr] at hy ⊢
      by_cases hvn : (v.kind != NAME) = true
      · simp only [hvn, if_true]; rfl
      · simp only [hvn, Bool.false_eq_true, if_false] at hy ⊢
        by_cases he : (!(eq.kind == OPERATOR && eq.val == [61])) = true
        · simp only [he, if_true]; rfl
        · simp only [he, Bool.false_eq_true, if_false] at hy ⊢
          have hpe := peX ht2 (D_length r) (bind_ne_fuel hy)
          cases hye : parseExpression (exprFuel t2') t2' with
          | error e =>
            rw [hye] at hpe
            cases hxe : parseExpression (exprFuel t2) t2 with
            | error e' => rw [hxe] at hpe; simp only [RRel] at hpe; subst hpe; rfl
            | ok b => rw [hxe] at hpe; simp [RRel] at hpe
          | ok b' =>
            obtain ⟨e, u'⟩ := b'
            rw [hye] at hpe hy
            cases hxe : parseExpression (exprFuel t2) t2 with
            | error e' => rw [hxe] at hpe; simp [RRel] at hpe
            | ok b =>
              obtain ⟨e2, u⟩ := b
              rw [hxe] at hpe
              simp only [RRel] at hpe
              obtain ⟨rfl, hu⟩ := hpe
              simp only [ok_bind] at hy ⊢
              exact setTail_sim v.val e2 hr hu hy

/-- `parseExpression`, then a continuation that is itself insensitive to what follows the end token -/
theorem peThen_sim {r : List Token} (tail : Expr → List Token → R (Node × List Token))
    (htail : ∀ e u u', TS r (dropEmptyText r) u u' → tail e u' ≠ fuelErr →
      RelR PhiN (fun r2 => extra r2 ≤ extra r) (tail e u) (tail e u'))
    {L L' : List Token} (hL : TS r (dropEmptyText r) L L')
    (hy : (parseExpression (exprFuel L') L' >>= fun x => tail x.1 x.2) ≠ fuelErr) :
    RelR PhiN (fun r2 => extra r2 ≤ extra r) (parseExpression (exprFuel L) L >>= fun x => tail x.1 x.2)
      (parseExpression (exprFuel L') L' >>= fun x => tail x.1 x.2) := by
  have hpe := peX hL (D_length r) (bind_ne_fuel hy)
  cases hye : parseExpression (exprFuel L') L' with
  | error e =>
    rw [hye] at hpe
    cases hxe : parseExpression (exprFuel L) L with
    | error e' => rw [hxe] at hpe; simp only [RRel] at hpe; subst hpe; rfl
    | ok b => rw [hxe] at hpe; simp [RRel] at hpe
  | ok b' =>
    obtain ⟨e, u'⟩ := b'
    rw [hye] at hpe hy
    cases hxe : parseExpression (exprFuel L) L with
    | error e' => rw [hxe] at hpe; simp [RRel] at hpe
    | ok b =>
      obtain ⟨e2, u⟩ := b
      rw [hxe] at hpe
      simp only [RRel] at hpe
      obtain ⟨rfl, hu⟩ := hpe
      simp only [ok_bind] at hy ⊢
      exact htail e2 u u' hu hy

/-- the `import` handler after the template path -/
def importTail (e : Expr) (r1 : List Token) : R (Node × List Token) :=
  match r1 with
  | a :: al :: r2 =>
    if (!isName a "as") = true then perr "expected 'as' after template path"
    else if (al.kind != NAME) = true then perr "expected identifier after 'as'"
    else expectK BLOCK_END "expected block end token after import statement" r2 >>= fun r3 =>
      pure (Node.importN e al.val, r3)
  | [a] => if (!isName a "as") = true then perr "expected 'as' after template path" else perr "expected identifier after 'as'"
  | [] => perr "expected 'as' after template path"

theorem parseTag_import (g : Nat) (ts : List Token) :
    parseTag (g+1) (b "import") ts = (parseExpression (exprFuel ts) ts >>= fun x => importTail x.1 x.2) := by
  unfold parseTag
  simp only [show (b "import" == b "if") = false from by decide +kernel,
    show (b "import" == b "for") = false from by decide +kernel,
    show (b "import" == b "set") = false from by decide +kernel,
    show (b "import" == b "do") = false from by decide +kernel,
    show (b "import" == b "block") = false from by decide +kernel,
    show (b "import" == b "extends") = false from by decide +kernel,
    show (b "import" == b "include") = false from by decide +kernel,
    show (b "import" == b "macro") = false from by decide +kernel,
    show (b "import" == b "import") = true from by decide +kernel, Bool.false_eq_true, if_false, if_true]
  apply bind_congr_ok
  intro x _
  obtain ⟨e, r1⟩ := x
  simp only [importTail]
  cases r1 with
  | nil => rfl
  | cons a t => cases t <;> rfl

theorem importTail_sim (e : Expr) {r : List Token} (hr : WFo r) {u u' : List Token}
    (hu : TS r (dropEmptyText r) u u') :
    RelR PhiN (fun r2 => extra r2 ≤ extra r) (importTail e u) (importTail e u') := by
  rcases hu.cases with ⟨d, hd, rfl, rfl⟩ | ⟨a, t, t', ha, rfl, rfl, ht⟩
  · have hX : ∀ l, importTail e (d :: l) = perr "expected 'as' after template path" := by
      intro l
      have : (!isName d "as") = true := by simp [hd.isName]
      cases l <;> simp [importTail, this]
    rw [hX, hX]; rfl
  · rcases ht.cases with ⟨d, hd, rfl, rfl⟩ | ⟨al, t2, t2', hal, rfl, rfl, ht2⟩
    · have hdn : (d.kind != NAME) = true := by simp [hd.kinds.1]
      simp only [importTail, hdn, if_true]
      by_cases h1 : (!isName a "as") = true
      · simp only [h1, if_true]; rfl
      · simp only [h1, Bool.false_eq_true, if_false]; rfl
    · simp only [importTail]
      by_cases h1 : (!isName a "as") = true
      · simp only [h1, if_true]; rfl
      · simp only [h1, Bool.false_eq_true, if_false]
        by_cases h2 : (al.kind != NAME) = true
        · simp only [h2, if_true]; rfl
        · simp only [h2, Bool.false_eq_true, if_false]
          exact expectK_end_sim hr ht2 _ _ ⟨rfl, by intro s h; cases h⟩

/-- where the `do` handler finds an `=` among the first three tokens -/
def doEqPos (ts : List Token) : Option Nat :=
  match ts with
  | a :: c :: d :: _ =>
    if (a.kind == OPERATOR && a.val == [61]) = true then some 0 else if (a.kind == BLOCK_END) = true then none
    else if (c.kind == OPERATOR && c.val == [61]) = true then some 1 else if (c.kind == BLOCK_END) = true then none
    else if (d.kind == OPERATOR && d.val == [61]) = true then some 2 else none
  | [a, c] =>
    if (a.kind == OPERATOR && a.val == [61]) = true then some 0 else if (a.kind == BLOCK_END) = true then none
    else if (c.kind == OPERATOR && c.val == [61]) = true then some 1 else none
  | [a] => if (a.kind == OPERATOR && a.val == [61]) = true then some 0 else none
  | [] => none

def doExpr (mk : Expr → Node) (ts : List Token) : R (Node × List Token) :=
  parseExpression (exprFuel ts) ts >>= fun x =>
  expectK BLOCK_END "expecting end of do tag" x.2 >>= fun r3 => pure (mk x.1, r3)

def doHdr (ts : List Token) : R (Node × List Token) :=
  match ts with
  | [] => perr "unexpected end of template"
  | t0 :: _ =>
    if (t0.kind == BLOCK_END) = true then perr "do tag cannot be empty"
    else match doEqPos ts with
      | some (p+1) =>
        if (t0.kind != NAME) = true then perr "invalid variable name in do tag assignment"
        else doExpr (Node.setN t0.val) (ts.drop (p + 2))
      | _ => doExpr Node.doN ts

theorem parseTag_do (g : Nat) (ts : List Token) : parseTag (g+1) (b "do") ts = doHdr ts := by
  unfold parseTag
  simp only [show (b "do" == b "if") = false from by decide +kernel,
    show (b "do" == b "for") = false from by decide +kernel,
    show (b "do" == b "set") = false from by decide +kernel,
    show (b "do" == b "do") = true from by decide +kernel, Bool.false_eq_true, if_false, if_true]
  cases ts with
  | nil => rfl
  | cons t0 t =>
    simp only [doHdr]
    by_cases h0 : (t0.kind == BLOCK_END) = true
    · simp only [h0, if_true]
    · simp only [h0, Bool.false_eq_true, if_false]
      rfl


theorem doExpr_sim (mk : Expr → Node) (hmk : ∀ e, Leaf (mk e)) {r : List Token} (hr : WFo r) {L L' : List Token}
    (hL : TS r (dropEmptyText r) L L') (hy : doExpr mk L' ≠ fuelErr) :
    RelR PhiN (fun r2 => extra r2 ≤ extra r) (doExpr mk L) (doExpr mk L') := by
  refine (peX_end hL (D_length r) BLOCK_END (by decide) _ mk hy).toRelR hr ?_
  rintro n ⟨e, rfl⟩
  exact hmk e

theorem isEq_end {d : Token} (hd : EndTok d) : (d.kind == OPERATOR && d.val == [61]) = false := by
  simp [hd.kinds.2.2.2.1]

theorem exprKind_not_blockEnd {x : Token} (h : ExprKind x.kind) : (x.kind == BLOCK_END) = false := by
  have : x.kind ≠ BLOCK_END := by
    intro h2; rw [h2] at h; exact absurd h (by decide)
  simpa using this

theorem doHdr_sim {r : List Token} (hr : WFo r) {xs : List Token} {d : Token} (hx : AllK xs) (hd : IsEnd d)
    (hdk : d.kind = BLOCK_END) (hy : doHdr (xs ++ d :: dropEmptyText r) ≠ fuelErr) :
    RelR PhiN (fun r2 => extra r2 ≤ extra r) (doHdr (xs ++ d :: r)) (doHdr (xs ++ d :: dropEmptyText r)) := by
  have hdb : (d.kind == BLOCK_END) = true := by simp [hdk]
  have hde := isEq_end hd.endTok
  have leafSet : ∀ (nm : Bytes) (e : Expr), Leaf (Node.setN nm e) := fun _ _ => ⟨rfl, by intro s h; cases h⟩
  have leafDo : ∀ (e : Expr), Leaf (Node.doN e) := fun _ => ⟨rfl, by intro s h; cases h⟩
  cases xs with
  | nil =>
    simp only [List.nil_append, doHdr, hdb, if_true]
    rfl
  | cons a xs1 =>
    rw [allK_cons] at hx
    have hab := exprKind_not_blockEnd hx.1
    cases xs1 with
    | nil =>
      -- `a`, then the end token: the position of `=` does not depend on what follows
      have hpos : ∀ l, doEqPos (a :: d :: l) = if (a.kind == OPERATOR && a.val == [61]) = true then some 0 else none := by
        intro l
        cases l <;> simp [doEqPos, hab, hde, hdb]
      simp only [List.cons_append, List.nil_append, doHdr, hab, Bool.false_eq_true, if_false, hpos] at hy ⊢
      by_cases ha : (a.kind == OPERATOR && a.val == [61]) = true
      · simp only [ha, if_true] at hy ⊢
        exact doExpr_sim _ leafDo hr (TS.cons hx.1 (TS.end_ hd.endTok)) hy
      · simp only [ha, Bool.false_eq_true, if_false] at hy ⊢
        exact doExpr_sim _ leafDo hr (TS.cons hx.1 (TS.end_ hd.endTok)) hy
    | cons c xs2 =>
      rw [allK_cons] at hx
      have hcb := exprKind_not_blockEnd hx.2.1
      cases xs2 with
      | nil =>
        have hpos : ∀ l, doEqPos (a :: c :: d :: l) =
            if (a.kind == OPERATOR && a.val == [61]) = true then some 0
            else if (c.kind == OPERATOR && c.val == [61]) = true then some 1 else none := by
          intro l
          simp [doEqPos, hab, hcb, hde]
        simp only [List.cons_append, List.nil_append, doHdr, hab, Bool.false_eq_true, if_false, hpos] at hy ⊢
        by_cases ha : (a.kind == OPERATOR && a.val == [61]) = true
        · simp only [ha, if_true] at hy ⊢
          exact doExpr_sim _ leafDo hr (TS.cons hx.1 (TS.cons hx.2.1 (TS.end_ hd.endTok))) hy
        · simp only [ha, Bool.false_eq_true, if_false] at hy ⊢
          by_cases hc : (c.kind == OPERATOR && c.val == [61]) = true
          · simp only [hc, if_true] at hy ⊢
            by_cases hn : (a.kind != NAME) = true
            · simp only [hn, if_true]; rfl
            · simp only [hn, Bool.false_eq_true, if_false, List.drop_succ_cons, List.drop_zero] at hy ⊢
              exact doExpr_sim _ (leafSet _) hr (TS.end_ hd.endTok) hy
          · simp only [hc, Bool.false_eq_true, if_false] at hy ⊢
            exact doExpr_sim _ leafDo hr (TS.cons hx.1 (TS.cons hx.2.1 (TS.end_ hd.endTok))) hy
      | cons e xs3 =>
        rw [allK_cons] at hx
        have hpos : ∀ l, doEqPos (a :: c :: e :: l) =
            if (a.kind == OPERATOR && a.val == [61]) = true then some 0
            else if (c.kind == OPERATOR && c.val == [61]) = true then some 1
            else if (e.kind == OPERATOR && e.val == [61]) = true then some 2 else none := by
          intro l
          simp [doEqPos, hab, hcb]
        have htail := TS_tail hx.2.2.2 hd r
        simp only [List.cons_append, doHdr, hab, Bool.false_eq_true, if_false, hpos] at hy ⊢
        by_cases ha : (a.kind == OPERATOR && a.val == [61]) = true
        · simp only [ha, if_true] at hy ⊢
          exact doExpr_sim _ leafDo hr (TS.cons hx.1 (TS.cons hx.2.1 (TS.cons hx.2.2.1 htail))) hy
        · simp only [ha, Bool.false_eq_true, if_false] at hy ⊢
          by_cases hc : (c.kind == OPERATOR && c.val == [61]) = true
          · simp only [hc, if_true] at hy ⊢
            by_cases hn : (a.kind != NAME) = true
            · simp only [hn, if_true]; rfl
            · simp only [hn, Bool.false_eq_true, if_false, List.drop_succ_cons, List.drop_zero] at hy ⊢
              exact doExpr_sim _ (leafSet _) hr (TS.cons hx.2.2.1 htail) hy
          · simp only [hc, Bool.false_eq_true, if_false] at hy ⊢
            by_cases he : (e.kind == OPERATOR && e.val == [61]) = true
            · simp only [he, if_true] at hy ⊢
              by_cases hn : (a.kind != NAME) = true
              · simp only [hn, if_true]; rfl
              · simp only [hn, Bool.false_eq_true, if_false, List.drop_succ_cons, List.drop_zero] at hy ⊢
                exact doExpr_sim _ (leafSet _) hr htail hy
            · simp only [he, Bool.false_eq_true, if_false] at hy ⊢
              exact doExpr_sim _ leafDo hr (TS.cons hx.1 (TS.cons hx.2.1 (TS.cons hx.2.2.1 htail))) hy

/-- results of header functions that consume the end token: same error, or same value and the rests `r` / `r'` -/
def RRelV {α} (r r' : List Token) (x y : R (α × List Token)) : Prop :=
  match x, y with
  | .ok (a, u), .ok (a', u') => a = a' ∧ u = r ∧ u' = r'
  | .error e, .error e' => e = e'
  | _, _ => False

theorem RRelV.bindPure {α β} {r r' : List Token} {x y : R (α × List Token)} (g : α → β)
    (h : RRelV r r' x y) :
    RRelV r r' (x >>= fun a => pure (g a.1, a.2)) (y >>= fun a => pure (g a.1, a.2)) := by
  cases x with
  | error e =>
    cases y with
    | error e' => simp only [RRelV] at h; subst h; exact rfl
    | ok b => simp [RRelV] at h
  | ok a =>
    cases y with
    | error e' => simp [RRelV] at h
    | ok b =>
      obtain ⟨a1, u⟩ := a
      obtain ⟨b1, u'⟩ := b
      simp only [RRelV] at h
      obtain ⟨rfl, rfl, rfl⟩ := h
      exact ⟨rfl, rfl, rfl⟩

/-- `parseFromNames` reads up to the block end token and never beyond it -/
theorem fromNames_loc (r r' : List Token) {d : Token} (hdk : d.kind = BLOCK_END) : ∀ (g : Nat) (xs : List Token),
    AllK xs → RRelV r r' (parseFromNames g (xs ++ d :: r)) (parseFromNames g (xs ++ d :: r'))
  | 0, xs, _ => by simp only [parseFromNames]; exact rfl
  | g+1, xs, hx => by
    have hdb : (d.kind == BLOCK_END) = true := by simp [hdk]
    have hdE : EndTok d := by unfold EndTok; rw [hdk]; decide
    cases xs with
    | nil =>
      simp only [List.nil_append, parseFromNames, hdb, if_true]
      exact ⟨rfl, rfl, rfl⟩
    | cons t xs1 =>
      rw [allK_cons] at hx
      have htb := exprKind_not_blockEnd hx.1
      by_cases htn : (t.kind == NAME) = true
      · cases xs1 with
        | nil =>
          have hX : ∀ l, parseFromNames (g+1) (t :: d :: l) =
              (parseFromNames g (d :: l) >>= fun x => pure ((t.val, t.val) :: x.1, x.2)) := by
            intro l
            cases l <;> simp [parseFromNames, htb, htn, hdE.isName]
          simp only [List.cons_append, List.nil_append]
          rw [hX, hX]
          exact (fromNames_loc r r' hdk g [] allK_nil).bindPure _
        | cons a xs2 =>
          rw [allK_cons] at hx
          cases xs2 with
          | nil =>
            simp only [List.cons_append, List.nil_append, parseFromNames, htb, htn, Bool.false_eq_true, if_false, if_true]
            have hdn : (d.kind == NAME) = false := by simp [hdE.kinds.1]
            by_cases has : isName a "as" = true
            · simp only [has, if_true, hdn, Bool.false_eq_true, if_false]
              exact (fromNames_loc r r' hdk g [] allK_nil).bindPure _
            · simp only [has, Bool.false_eq_true, if_false]
              exact (fromNames_loc r r' hdk g [a] ((allK_cons a []).mpr ⟨hx.2.1, allK_nil⟩)).bindPure _
          | cons al xs3 =>
            rw [allK_cons] at hx
            simp only [List.cons_append, parseFromNames, htb, htn, Bool.false_eq_true, if_false, if_true]
            by_cases has : isName a "as" = true
            · simp only [has, if_true]
              by_cases haln : (al.kind == NAME) = true
              · simp only [haln, if_true]
                exact (fromNames_loc r r' hdk g xs3 hx.2.2.2).bindPure _
              · simp only [haln, Bool.false_eq_true, if_false]
                exact (fromNames_loc r r' hdk g (al :: xs3) ((allK_cons al xs3).mpr hx.2.2)).bindPure _
            · simp only [has, Bool.false_eq_true, if_false]
              exact (fromNames_loc r r' hdk g (a :: al :: xs3)
                ((allK_cons a _).mpr ⟨hx.2.1, (allK_cons al xs3).mpr hx.2.2⟩)).bindPure _
      · have hX : ∀ l, parseFromNames (g+1) (t :: l) = parseFromNames g l := by
          intro l
          cases l <;> simp [parseFromNames, htb, htn]
        simp only [List.cons_append]
        rw [hX, hX]
        exact fromNames_loc r r' hdk g xs1 hx.2


theorem parseFromNames_mono {f f' : Nat} {ts : List Token} (hne : parseFromNames f ts ≠ .error .fuel) (hle : f ≤ f') :
    parseFromNames f' ts = parseFromNames f ts :=
  (FLe.chain (parseFromNames · ts) (fun f => (tmonoAt f).names ts) hle).eq_of_ne hne

/-- the `from` handler -/
def fromHdr (g : Nat) (ts : List Token) : R (Node × List Token) :=
  match ts with
  | p :: i :: r1 =>
    if ((p.kind == STRING || p.kind == NAME) && isName i "import") = true then
      match parseFromNames g r1 with
      | .ok (names, r2) =>
        if names.isEmpty = true then perr "expected 'import' after template path"
        else pure (Node.fromN (Expr.str (if (p.kind == NAME) = true then
            dropWhileEnd (fun c => c == 34 || c == 39) (p.val.dropWhile (fun c => c == 34 || c == 39)) else p.val)) names, r2)
      | .error e => .error e
    else perr "expected 'import' after template path"
  | _ => perr "expected 'import' after template path"

theorem parseTag_from (g : Nat) (ts : List Token) : parseTag (g+1) (b "from") ts = fromHdr g ts := by
  unfold parseTag
  simp only [show (b "from" == b "if") = false from by decide +kernel,
    show (b "from" == b "for") = false from by decide +kernel,
    show (b "from" == b "set") = false from by decide +kernel,
    show (b "from" == b "do") = false from by decide +kernel,
    show (b "from" == b "block") = false from by decide +kernel,
    show (b "from" == b "extends") = false from by decide +kernel,
    show (b "from" == b "include") = false from by decide +kernel,
    show (b "from" == b "macro") = false from by decide +kernel,
    show (b "from" == b "import") = false from by decide +kernel,
    show (b "from" == b "from") = true from by decide +kernel, Bool.false_eq_true, if_false, if_true]
  rfl

theorem fromHdr_sim (f k : Nat) {r : List Token} (hr : WFo r) {xs : List Token} {d : Token} (hx : AllK xs)
    (hd : IsEnd d) (hdk : d.kind = BLOCK_END) (hy : fromHdr f (xs ++ d :: dropEmptyText r) ≠ fuelErr) :
    RelR PhiN (fun r2 => extra r2 ≤ extra r) (fromHdr (f + k) (xs ++ d :: r)) (fromHdr f (xs ++ d :: dropEmptyText r)) := by
  have hdE := hd.endTok
  cases xs with
  | nil =>
    have hX : ∀ g l, fromHdr g (d :: l) = perr "expected 'import' after template path" := by
      intro g l
      cases l <;> simp [fromHdr, hdE.kinds.1, hdE.kinds.2.2.1]
    simp only [List.nil_append]
    rw [hX, hX]; rfl
  | cons p xs1 =>
    rw [allK_cons] at hx
    cases xs1 with
    | nil =>
      have hX : ∀ g l, fromHdr g (p :: d :: l) = perr "expected 'import' after template path" := by
        intro g l
        simp [fromHdr, hdE.isName]
      simp only [List.cons_append, List.nil_append]
      rw [hX, hX]; rfl
    | cons i xs2 =>
      rw [allK_cons] at hx
      simp only [List.cons_append, fromHdr] at hy ⊢
      by_cases hc : ((p.kind == STRING || p.kind == NAME) && isName i "import") = true
      · simp only [hc, if_true] at hy ⊢
        have hne : parseFromNames f (xs2 ++ d :: dropEmptyText r) ≠ .error .fuel := by
          intro h; rw [h] at hy; exact hy rfl
        have hloc := fromNames_loc r (dropEmptyText r) hdk (f + k) xs2 hx.2.2
        rw [parseFromNames_mono hne (Nat.le_add_right f k)] at hloc
        cases hY : parseFromNames f (xs2 ++ d :: dropEmptyText r) with
        | error e =>
          rw [hY] at hloc
          cases hXr : parseFromNames (f + k) (xs2 ++ d :: r) with
          | error e' => rw [hXr] at hloc; simp only [RRelV] at hloc; subst hloc; rfl
          | ok b => rw [hXr] at hloc; simp [RRelV] at hloc
        | ok b' =>
          obtain ⟨names, u'⟩ := b'
          rw [hY] at hloc
          cases hXr : parseFromNames (f + k) (xs2 ++ d :: r) with
          | error e' => rw [hXr] at hloc; simp [RRelV] at hloc
          | ok b =>
            obtain ⟨names2, u⟩ := b
            rw [hXr] at hloc
            simp only [RRelV] at hloc
            obtain ⟨rfl, rfl, rfl⟩ := hloc
            simp only
            by_cases hem : names2.isEmpty = true
            · simp only [hem, if_true]; rfl
            · simp only [hem, Bool.false_eq_true, if_false]
              exact ⟨_, u, rfl, ⟨rfl, by intro s h; cases h⟩, hr, rfl, Nat.le_refl _⟩
      · simp only [hc, Bool.false_eq_true, if_false]; rfl

/-- results of `parseMacroParams` on `TS`-related streams -/
def RRel4 (r r' : List Token) (x y : R (List Bytes × List Bytes × List Expr × List Token)) : Prop :=
  match x, y with
  | .ok (a, c, e, u), .ok (a', c', e', u') => a = a' ∧ c = c' ∧ e = e' ∧ TS r r' u u'
  | .error e, .error e' => e = e'
  | _, _ => False

theorem RRel4.perr {r r' : List Token} (m : String) : RRel4 r r' (perr m) (perr m) := rfl

theorem parseMacroParams_mono {f f' : Nat} {ts : List Token} (hne : parseMacroParams f ts ≠ .error .fuel)
    (hle : f ≤ f') : parseMacroParams f' ts = parseMacroParams f ts :=
  (FLe.chain (parseMacroParams · ts) (fun f => (tmonoAt f).params ts) hle).eq_of_ne hne

/-- after a parameter (and its default): `,` and more parameters, or `)` -/
def mpTail (g : Nat) (nm : Bytes) (dn : List Bytes) (de : List Expr) (r1 : List Token) :
    R (List Bytes × List Bytes × List Expr × List Token) :=
  match r1 with
  | c :: r2 =>
    if isP c 44 = true then
      parseMacroParams g r2 >>= fun y => pure (nm :: y.1, dn ++ y.2.1, de ++ y.2.2.1, y.2.2.2)
    else if isP c 41 = true then pure ([nm], dn, de, r2)
    else perr "expected ')' after macro parameters"
  | [] => perr "expected ')' after macro parameters"

def mpStep (g : Nat) (ts : List Token) : R (List Bytes × List Bytes × List Expr × List Token) :=
  match ts with
  | n :: r =>
    if (n.kind != NAME) = true then perr "expected parameter name"
    else match r with
      | eq :: r' =>
        if (eq.kind == OPERATOR && eq.val == [61]) = true then
          parseExpression (exprFuel r') r' >>= fun x => mpTail g n.val [n.val] [x.1] x.2
        else mpTail g n.val [] [] r
      | [] => mpTail g n.val [] [] r
  | [] => perr "expected parameter name"

theorem parseMacroParams_step (g : Nat) (ts : List Token) : parseMacroParams (g+1) ts = mpStep g ts := by
  rw [parseMacroParams.eq_def]
  cases ts with
  | nil => rfl
  | cons n r =>
    simp only [mpStep]
    by_cases hn : (n.kind != NAME) = true
    · simp only [hn, if_true]
    · simp only [hn, Bool.false_eq_true, if_false]
      cases r with
      | nil => rfl
      | cons eq r' =>
        simp only
        by_cases he : (eq.kind == OPERATOR && eq.val == [61]) = true
        · simp only [he, if_true]
          cases parseExpression (exprFuel r') r' with
          | error e => rfl
          | ok x =>
            obtain ⟨e, r1⟩ := x
            simp only [ok_bind, pure_eq_ok, mpTail]
            cases r1 <;> rfl
        · simp only [he, Bool.false_eq_true, if_false, pure_eq_ok, ok_bind]
          rfl


theorem macroParams_loc (r r' : List Token) (hlen : r'.length ≤ r.length) : ∀ (g : Nat) (L L' : List Token),
    TS r r' L L' → parseMacroParams g L' ≠ fuelErr → RRel4 r r' (parseMacroParams g L) (parseMacroParams g L')
  | 0, L, L', _, hy => absurd (by simp [parseMacroParams, fuelErr]) hy
  | g+1, L, L', hL, hy => by
    rw [parseMacroParams_step] at hy ⊢
    rw [parseMacroParams_step]
    -- the tail `, more` / `)` on related streams
    have tailSim : ∀ (nm : Bytes) (dn : List Bytes) (de : List Expr) (u u' : List Token), TS r r' u u' →
        mpTail g nm dn de u' ≠ fuelErr → RRel4 r r' (mpTail g nm dn de u) (mpTail g nm dn de u') := by
      intro nm dn de u u' hu hyt
      rcases hu.cases with ⟨d, hd, rfl, rfl⟩ | ⟨c, t, t', hc, rfl, rfl, ht⟩
      · simp only [mpTail, hd.isP, Bool.false_eq_true, if_false]
        exact RRel4.perr _
      · simp only [mpTail] at hyt ⊢
        by_cases h1 : isP c 44 = true
        · simp only [h1, if_true] at hyt ⊢
          have ih := macroParams_loc r r' hlen g t t' ht (bind_ne_fuel hyt)
          cases hY : parseMacroParams g t' with
          | error e =>
            rw [hY] at ih
            cases hX : parseMacroParams g t with
            | error e' => rw [hX] at ih; simp only [RRel4] at ih; subst ih; exact rfl
            | ok b => rw [hX] at ih; simp [RRel4] at ih
          | ok b' =>
            obtain ⟨a', c', e', w'⟩ := b'
            rw [hY] at ih
            cases hX : parseMacroParams g t with
            | error e' => rw [hX] at ih; simp [RRel4] at ih
            | ok b =>
              obtain ⟨a, c2, e2, w⟩ := b
              rw [hX] at ih
              simp only [RRel4] at ih
              obtain ⟨rfl, rfl, rfl, hw⟩ := ih
              exact ⟨rfl, rfl, rfl, hw⟩
        · simp only [h1, Bool.false_eq_true, if_false]
          by_cases h2 : isP c 41 = true
          · simp only [h2, if_true]
            exact ⟨rfl, rfl, rfl, ht⟩
          · simp only [h2, Bool.false_eq_true, if_false]
            exact RRel4.perr _
    rcases hL.cases with ⟨d, hd, rfl, rfl⟩ | ⟨n, t, t', hn, rfl, rfl, ht⟩
    · have : (d.kind != NAME) = true := by simp [hd.kinds.1]
      simp only [mpStep, this, if_true]
      exact RRel4.perr _
    · simp only [mpStep] at hy ⊢
      by_cases hnn : (n.kind != NAME) = true
      · simp only [hnn, if_true]; exact RRel4.perr _
      · simp only [hnn, Bool.false_eq_true, if_false] at hy ⊢
        rcases ht.cases with ⟨d, hd, rfl, rfl⟩ | ⟨eq, t2, t2', heq, rfl, rfl, ht2⟩
        · simp only [isEq_end hd, Bool.false_eq_true, if_false] at hy ⊢
          exact tailSim _ _ _ _ _ (TS.end_ hd) hy
        · simp only at hy ⊢
          by_cases he : (eq.kind == OPERATOR && eq.val == [61]) = true
          · simp only [he, if_true] at hy ⊢
            have hpe := peX ht2 hlen (bind_ne_fuel hy)
            cases hye : parseExpression (exprFuel t2') t2' with
            | error e =>
              rw [hye] at hpe
              cases hxe : parseExpression (exprFuel t2) t2 with
              | error e' => rw [hxe] at hpe; simp only [RRel] at hpe; subst hpe; exact rfl
              | ok b => rw [hxe] at hpe; simp [RRel] at hpe
            | ok b' =>
              obtain ⟨e, u'⟩ := b'
              rw [hye] at hpe hy
              cases hxe : parseExpression (exprFuel t2) t2 with
              | error e' => rw [hxe] at hpe; simp [RRel] at hpe
              | ok b =>
                obtain ⟨e2, u⟩ := b
                rw [hxe] at hpe
                simp only [RRel] at hpe
                obtain ⟨rfl, hu⟩ := hpe
                simp only [ok_bind] at hy ⊢
                exact tailSim _ _ _ _ _ hu hy
          · simp only [he, Bool.false_eq_true, if_false] at hy ⊢
            exact tailSim _ _ _ _ _ (TS.cons heq ht2) hy


/-- the `macro` handler after the parameter list -/
def macroK (g : Nat) (nm : Bytes) (params dn : List Bytes) (de : List Expr) (r2 : List Token) : R (Node × List Token) :=
  expectK BLOCK_END "expected block end token after macro declaration" r2 >>= fun r3 =>
  parseOuter g r3 >>= fun y =>
  expectTag "endmacro" "missing endmacro tag" y.2 >>= fun r5 =>
  expectK BLOCK_END "expected block end token after endmacro" r5 >>= fun r6 =>
  pure (Node.macro nm params dn de y.1, r6)

def macroHdr (g : Nat) (ts : List Token) : R (Node × List Token) :=
  match ts with
  | n :: p :: r1 =>
    if (n.kind != NAME) = true then perr "expected macro name after macro keyword"
    else if (!isP p 40) = true then perr "expected '(' after macro name"
    else match r1 with
      | c :: r' =>
        if isP c 41 = true then macroK g n.val [] [] [] r'
        else parseMacroParams g r1 >>= fun y => macroK g n.val y.1 y.2.1 y.2.2.1 y.2.2.2
      | [] => perr "expected ')' after macro parameters"
  | [n] =>
    if (n.kind != NAME) = true then perr "expected macro name after macro keyword"
    else perr "expected '(' after macro name"
  | [] => perr "expected macro name after macro keyword"

theorem parseTag_macro (g : Nat) (ts : List Token) : parseTag (g+1) (b "macro") ts = macroHdr g ts := by
  unfold parseTag
  simp only [show (b "macro" == b "if") = false from by decide +kernel,
    show (b "macro" == b "for") = false from by decide +kernel,
    show (b "macro" == b "set") = false from by decide +kernel,
    show (b "macro" == b "do") = false from by decide +kernel,
    show (b "macro" == b "block") = false from by decide +kernel,
    show (b "macro" == b "extends") = false from by decide +kernel,
    show (b "macro" == b "include") = false from by decide +kernel,
    show (b "macro" == b "macro") = true from by decide +kernel, Bool.false_eq_true, if_false, if_true]
  cases ts with
  | nil => rfl
  | cons n t =>
    cases t with
    | nil => rfl
    | cons p r1 =>
      simp only [macroHdr]
      by_cases hn : (n.kind != NAME) = true
      · simp only [hn, if_true]
      · simp only [hn, Bool.false_eq_true, if_false]
        by_cases hp : (!isP p 40) = true
        · simp only [hp, if_true]
        · simp only [hp, Bool.false_eq_true, if_false]
          cases r1 with
          | nil => rfl
          | cons c r' =>
            simp only
            by_cases hc : isP c 41 = true
            · simp only [hc, if_true, pure_eq_ok, ok_bind]; rfl
            · simp only [hc, Bool.false_eq_true, if_false]
              rfl

theorem macroK_sim {f : Nat} (ih : SimAt f) (k : Nat) (nm : Bytes) (params dn : List Bytes) (de : List Expr)
    (r : List Token) (hr : WFo r) (hkr : extra r ≤ k) {u u' : List Token} (hu : TS r (dropEmptyText r) u u')
    (hy : macroK f nm params dn de u' ≠ fuelErr) :
    RelR PhiN (fun r2 => extra r2 ≤ extra r) (macroK (f + k) nm params dn de u) (macroK f nm params dn de u') := by
  unfold macroK at hy ⊢
  rcases expectK_TS hu BLOCK_END (by decide) "expected block end token after macro declaration" with ⟨e1, e2⟩ | ⟨e1, e2⟩
  · rw [e1, e2]; rfl
  · rw [e2] at hy
    rw [e1, e2]
    simp only [ok_bind] at hy ⊢
    exact bodyEnd ih k r hr hkr _ _ _ (Node.macro nm params dn de) (fun bd => ⟨rfl, by intro s h; cases h⟩) hy

theorem macroHdr_sim {f : Nat} (ih : SimAt f) (k : Nat) {r : List Token} (hr : WFo r) (hkr : extra r ≤ k)
    {L L' : List Token} (hL : TS r (dropEmptyText r) L L') (hy : macroHdr f L' ≠ fuelErr) :
    RelR PhiN (fun r2 => extra r2 ≤ extra r) (macroHdr (f + k) L) (macroHdr f L') := by
  rcases hL.cases with ⟨d, hd, rfl, rfl⟩ | ⟨n, t, t', hn, rfl, rfl, ht⟩
  · have hX : ∀ g l, macroHdr g (d :: l) = perr "expected macro name after macro keyword" := by
      intro g l
      have : (d.kind != NAME) = true := by simp [hd.kinds.1]
      cases l <;> simp [macroHdr, this]
    rw [hX, hX]; rfl
  · rcases ht.cases with ⟨d, hd, rfl, rfl⟩ | ⟨p, t2, t2', hp, rfl, rfl, ht2⟩
    · have hdp : (!isP d 40) = true := by simp [hd.isP]
      simp only [macroHdr, hdp, if_true]
      by_cases hnn : (n.kind != NAME) = true
      · simp only [hnn, if_true]; rfl
      · simp only [hnn, Bool.false_eq_true, if_false]; rfl
    · simp only [macroHdr] at hy ⊢
      by_cases hnn : (n.kind != NAME) = true
      · simp only [hnn, if_true]; rfl
      · simp only [hnn, Bool.false_eq_true, if_false] at hy ⊢
        by_cases hpp : (!isP p 40) = true
        · simp only [hpp, if_true]; rfl
        · simp only [hpp, Bool.false_eq_true, if_false] at hy ⊢
          rcases ht2.cases with ⟨d, hd, rfl, rfl⟩ | ⟨c, t3, t3', hc, rfl, rfl, ht3⟩
          · -- `(` directly followed by the end token: `parseMacroParams` fails on both sides
            simp only [hd.isP, Bool.false_eq_true, if_false] at hy ⊢
            have hP : ∀ g l, parseMacroParams (g+1) (d :: l) = perr "expected parameter name" := by
              intro g l
              rw [parseMacroParams_step]
              have : (d.kind != NAME) = true := by simp [hd.kinds.1]
              simp [mpStep, this]
            cases f with
            | zero => exact absurd (by simp [parseMacroParams, fuelErr]) hy
            | succ f' =>
              have : f' + 1 + k = (f' + k) + 1 := by omega
              rw [this, hP, hP]; rfl
          · simp only at hy ⊢
            by_cases hcp : isP c 41 = true
            · simp only [hcp, if_true] at hy ⊢
              exact macroK_sim ih k _ _ _ _ r hr hkr ht3 hy
            · simp only [hcp, Bool.false_eq_true, if_false] at hy ⊢
              have hneY := bind_ne_fuel hy
              have hloc := macroParams_loc r (dropEmptyText r) (D_length r) (f + k) _ _ (TS.cons hc ht3)
                (by rw [parseMacroParams_mono hneY (Nat.le_add_right f k)]; exact hneY)
              rw [parseMacroParams_mono hneY (Nat.le_add_right f k)] at hloc
              cases hY : parseMacroParams f (c :: t3') with
              | error e =>
                rw [hY] at hloc
                cases hX : parseMacroParams (f + k) (c :: t3) with
                | error e' => rw [hX] at hloc; simp only [RRel4] at hloc; subst hloc; rfl
                | ok b => rw [hX] at hloc; simp [RRel4] at hloc
              | ok b' =>
                obtain ⟨a', c', e', w'⟩ := b'
                rw [hY] at hloc hy
                cases hX : parseMacroParams (f + k) (c :: t3) with
                | error e' => rw [hX] at hloc; simp [RRel4] at hloc
                | ok b =>
                  obtain ⟨a, c2, e2, w⟩ := b
                  rw [hX] at hloc
                  simp only [RRel4] at hloc
                  obtain ⟨rfl, rfl, rfl, hw⟩ := hloc
                  simp only [ok_bind] at hy ⊢
                  exact macroK_sim ih k _ _ _ _ r hr hkr hw hy

theorem tag_succ (f : Nat) (ih : SimAt f) (k : Nat) (name : Bytes) (xs : List Token) (d : Token) (r : List Token)
    (hx : AllK xs) (hd : IsEnd d) (hdk : d.kind = BLOCK_END) (hr : WFo r) (hkr : extra r ≤ k)
    (hsup : name ∉ unsupportedTags)
    (hy : parseTag (f+1) name (xs ++ d :: dropEmptyText r) ≠ fuelErr) :
    RelR PhiN (fun r2 => extra r2 ≤ extra r) (parseTag (f + 1 + k) name (xs ++ d :: r))
      (parseTag (f+1) name (xs ++ d :: dropEmptyText r)) := by
  have hfk : f + 1 + k = (f + k) + 1 := by omega
  rw [hfk]
  by_cases h_for0 : (name == b "for") = true
  · have hname : name = b "for" := by simpa using h_for0
    subst hname
    cases xs with
    | nil =>
      have hdn : (d.kind != NAME) = true := by simp [hd.endTok.kinds.1]
      have hX : ∀ g l, parseTag (g+1) (b "for") (d :: l) = perr "expected variable name after for" := by
        intro g l
        unfold parseTag
        simp [show (b "for" == b "if") = false from by decide +kernel, hdn]
      simp only [List.nil_append]
      rw [hX, hX]; rfl
    | cons v xs1 =>
      rw [allK_cons] at hx
      simp only [List.cons_append] at hy ⊢
      by_cases hv : (v.kind != NAME) = true
      · have hX : ∀ g l, parseTag (g+1) (b "for") (v :: l) = perr "expected variable name after for" := by
          intro g l
          unfold parseTag
          simp [show (b "for" == b "if") = false from by decide +kernel, hv]
        rw [hX, hX]; rfl
      · have hv' : (v.kind != NAME) = false := by simpa using hv
        rw [parseTag_for _ _ _ hv'] at hy ⊢
        rw [parseTag_for _ _ _ hv']
        exact forHdr_sim ih k v r hr hkr (TS_tail hx.2 hd r) hy
  by_cases h_mac0 : (name == b "macro") = true
  · have hname : name = b "macro" := by simpa using h_mac0
    subst hname
    rw [parseTag_macro] at hy ⊢
    rw [parseTag_macro]
    exact macroHdr_sim ih k hr hkr (TS_tail hx hd r) hy
  by_cases h_from0 : (name == b "from") = true
  · have hname : name = b "from" := by simpa using h_from0
    subst hname
    rw [parseTag_from] at hy ⊢
    rw [parseTag_from]
    exact fromHdr_sim f k hr hx hd hdk hy
  by_cases h_do0 : (name == b "do") = true
  · have hname : name = b "do" := by simpa using h_do0
    subst hname
    rw [parseTag_do] at hy ⊢
    rw [parseTag_do]
    exact doHdr_sim hr hx hd hdk hy
  by_cases h_imp0 : (name == b "import") = true
  · have hname : name = b "import" := by simpa using h_imp0
    subst hname
    rw [parseTag_import] at hy ⊢
    rw [parseTag_import]
    exact peThen_sim importTail (fun e u u' hu _ => importTail_sim e hr hu) (TS_tail hx hd r) hy
  by_cases h_set0 : (name == b "set") = true
  · have hname : name = b "set" := by simpa using h_set0
    subst hname
    rw [parseTag_set] at hy ⊢
    rw [parseTag_set]
    exact setHdr_sim hr (TS_tail hx hd r) hy
  unfold parseTag at hy ⊢
  dsimp only at hy ⊢
  by_cases h_if : (name == b "if") = true
  · simp only [h_if, if_true] at hy ⊢
    refine hdrExpr r hx hd BLOCK_END (by decide) _
      (fun c r2 => parseOuter (f + k) r2 >>= fun y => parseIfTail (f + k) false y.2 >>= fun z =>
        pure (Node.ifN c y.1 z.1, z.2))
      (fun c r2 => parseOuter f r2 >>= fun y => parseIfTail f false y.2 >>= fun z =>
        pure (Node.ifN c y.1 z.1, z.2)) hy ?_
    intro c hy1
    refine RelR.bind hy1 (fun h => ih.outer k r hr hkr h) ?_
    intro body body' r3 hφ hw3 hp3 hy2
    refine RelR.bind hy2 (fun h => ih.ifTail k false r3 hw3 hp3.1 (Nat.le_trans hp3.2 hkr) h) ?_
    intro els els' r4 hφ4 hw4 hp4 _
    refine ⟨.ifN c body els, r4, rfl, ⟨?_, by intro s h; cases h⟩, hw4, rfl, Nat.le_trans hp4 hp3.2⟩
    show Node.ifN c (stripL body) (stripL els) = _
    rw [hφ, hφ4]
  · simp only [h_if, Bool.false_eq_true, if_false] at hy ⊢
    have hts := TS_tail hx hd r
    have hlen := D_length r
    by_cases h_for : (name == b "for") = true
    · exact absurd h_for h_for0
    · simp only [h_for, Bool.false_eq_true, if_false] at hy ⊢
      by_cases h_set : (name == b "set") = true
      · exact absurd h_set h_set0
      · simp only [h_set, Bool.false_eq_true, if_false] at hy ⊢
        have h_do : (name == b "do") = false := by simpa using h_do0
        simp only [h_do, Bool.false_eq_true, if_false] at hy ⊢
        by_cases h_block : (name == b "block") = true
        · simp only [h_block, if_true] at hy ⊢
          cases xs with
          | nil =>
            have hdn : (d.kind != NAME) = true := by simp [hd.endTok.kinds.1]
            simp only [List.nil_append, hdn, if_true]
            rfl
          | cons n xs' =>
            rw [allK_cons] at hx
            simp only [List.cons_append] at hy ⊢
            by_cases hn : (n.kind != NAME) = true
            · simp only [hn, if_true]; rfl
            · simp only [hn, Bool.false_eq_true, if_false] at hy ⊢
              rcases expectK_TS (TS_tail hx.2 hd r) BLOCK_END (by decide)
                "expected block end token after block name" with ⟨e1, e2⟩ | ⟨e1, e2⟩
              · rw [e1, e2]; rfl
              rw [e2] at hy
              rw [e1, e2]
              simp only [ok_bind] at hy ⊢
              refine RelR.bind hy (fun h => ih.outer k r hr hkr h) ?_
              intro body body' r3 hφ hw3 hp3 hy2
              rcases expectTag_sim "endblock" "expected endblock" hw3 hp3.1 with ⟨h1, h2⟩ |
                ⟨xs2, d2, rr, hx2, hd2, hrr, hle2, h1, h2⟩
              · simp only [h1, h2]; rfl
              · simp only [h1, h2, ok_bind] at hy2 ⊢
                have fin : ∀ (u u' : List Token), TS rr (dropEmptyText rr) u u' →
                    RelR PhiN (fun r2 => extra r2 ≤ extra r)
                      (expectK BLOCK_END "expected block end token after endblock" u >>= fun r6 =>
                        pure (Node.block n.val body, r6))
                      (expectK BLOCK_END "expected block end token after endblock" u' >>= fun r6 =>
                        pure (Node.block n.val body', r6)) := by
                  intro u u' hu
                  rcases expectK_TS hu BLOCK_END (by decide) "expected block end token after endblock" with
                    ⟨e1, e2⟩ | ⟨e1, e2⟩
                  · rw [e1, e2]; rfl
                  · rw [e1, e2]
                    refine ⟨Node.block n.val body, rr, rfl, ⟨?_, by intro s h; cases h⟩, hrr, rfl,
                      Nat.le_trans hle2 hp3.2⟩
                    show Node.block n.val (stripL body) = _
                    rw [hφ]
                cases xs2 with
                | nil =>
                  have hdn : (d2.kind == NAME) = false := by simp [hd2.endTok.kinds.1]
                  simp only [List.nil_append, hdn, Bool.false_eq_true, if_false, pure_eq_ok, ok_bind]
                  exact fin _ _ (TS.end_ hd2.endTok)
                | cons m xs3 =>
                  rw [allK_cons] at hx2
                  simp only [List.cons_append]
                  by_cases hm : (m.kind == NAME) = true
                  · simp only [hm, if_true]
                    by_cases hmv : (m.val == n.val) = true
                    · simp only [hmv, if_true, pure_eq_ok, ok_bind]
                      exact fin _ _ (TS_tail hx2.2 hd2 rr)
                    · simp only [hmv]; rfl
                  · simp only [hm, Bool.false_eq_true, if_false, pure_eq_ok, ok_bind]
                    exact fin _ _ (TS.cons hx2.1 (TS_tail hx2.2 hd2 rr))
        · simp only [h_block, Bool.false_eq_true, if_false] at hy ⊢
          by_cases h_ext : (name == b "extends") = true
          · simp only [h_ext, if_true] at hy ⊢
            refine (peX_end hts hlen BLOCK_END (by decide) _ Node.extends hy).toRelR hr ?_
            rintro n ⟨e, rfl⟩
            exact ⟨rfl, by intro s h; cases h⟩
          · simp only [h_ext, Bool.false_eq_true, if_false] at hy ⊢
            have hne : ∀ t : String, b t ∈ unsupportedTags → (name == b t) = false := by
              intro t ht
              have : name ≠ b t := fun h => hsup (by rw [h]; exact ht)
              simpa using this
            have h_inc := hne "include" (by simp [unsupportedTags])
            have h_mac : (name == b "macro") = false := by simpa using h_mac0
            have h_imp : (name == b "import") = false := by simpa using h_imp0
            have h_from : (name == b "from") = false := by simpa using h_from0
            have h_verb := hne "verbatim" (by simp [unsupportedTags])
            simp only [h_inc, h_mac, h_imp, h_from, h_verb, Bool.false_eq_true, if_false] at hy ⊢
            by_cases h_apply : (name == b "apply") = true
            · simp only [h_apply, if_true] at hy ⊢
              cases xs with
              | nil =>
                have hdn : (d.kind != NAME) = true := by simp [hd.endTok.kinds.1]
                simp only [List.nil_append, hdn, if_true]
                rfl
              | cons n xs' =>
                rw [allK_cons] at hx
                simp only [List.cons_append] at hy ⊢
                by_cases hn : (n.kind != NAME) = true
                · simp only [hn, if_true]; rfl
                · simp only [hn, Bool.false_eq_true, if_false] at hy ⊢
                  refine hdrEnd r hx.2 hd BLOCK_END (by decide) _
                    (fun r2 => parseOuter (f + k) r2 >>= fun y => expectTag "endapply" "expected endapply tag" y.2 >>= fun r4 =>
                      expectK BLOCK_END "expected block end token after endapply" r4 >>= fun r5 => pure (Node.apply n.val y.1, r5))
                    (fun r2 => parseOuter f r2 >>= fun y => expectTag "endapply" "expected endapply tag" y.2 >>= fun r4 =>
                      expectK BLOCK_END "expected block end token after endapply" r4 >>= fun r5 => pure (Node.apply n.val y.1, r5))
                    hy ?_
                  intro hy1
                  exact bodyEnd ih k r hr hkr _ _ _ (Node.apply n.val)
                    (fun bd => ⟨rfl, by intro s h; cases h⟩) hy1
            · simp only [h_apply, Bool.false_eq_true, if_false] at hy ⊢
              by_cases h_sp : (name == b "spaceless") = true
              · simp only [h_sp, if_true] at hy ⊢
                refine hdrEnd r hx hd BLOCK_END (by decide) _
                  (fun r2 => parseOuter (f + k) r2 >>= fun y => expectTag "endspaceless" "expected endspaceless tag" y.2 >>= fun r4 =>
                    expectK BLOCK_END "expected block end token after endspaceless" r4 >>= fun r5 => pure (Node.spaceless y.1, r5))
                  (fun r2 => parseOuter f r2 >>= fun y => expectTag "endspaceless" "expected endspaceless tag" y.2 >>= fun r4 =>
                    expectK BLOCK_END "expected block end token after endspaceless" r4 >>= fun r5 => pure (Node.spaceless y.1, r5))
                  hy ?_
                intro hy1
                exact bodyEnd ih k r hr hkr _ _ _ Node.spaceless (fun bd => ⟨rfl, by intro s h; cases h⟩) hy1
              · simp only [h_sp, Bool.false_eq_true, if_false]
                rfl


theorem simAt : ∀ f, SimAt f
  | 0 => simAt_zero
  | f+1 => by
    have ih := simAt f
    exact ⟨fun k ts hw hk hy => outer_succ f ih ts hw k hk hy,
      fun k name xs d r hx hd hdk hr hkr hsup hy => tag_succ f ih k name xs d r hx hd hdk hr hkr hsup hy,
      fun k he ts hw hh hk hy => ifTail_succ f ih k he ts hw hh hk hy⟩

theorem blockNamesL_strip : ∀ (ns : List Node), blockNamesL (stripL ns) = blockNamesL ns
  | [] => rfl
  | n :: r => by
    have ih := blockNamesL_strip r
    cases n with
    | text s =>
      rw [stripL_text]
      split <;> simp [blockNamesL, blockNames, ih]
    | ifN c t e =>
      rw [stripL_cons _ _ (by intro s h; cases h)]
      simp [stripN, blockNamesL, blockNames, ih, blockNamesL_strip t, blockNamesL_strip e]
    | forN k v s bd e =>
      rw [stripL_cons _ _ (by intro s h; cases h)]
      simp [stripN, blockNamesL, blockNames, ih, blockNamesL_strip bd, blockNamesL_strip e]
    | block nm bd =>
      rw [stripL_cons _ _ (by intro s h; cases h)]
      simp [stripN, blockNamesL, blockNames, ih, blockNamesL_strip bd]
    | «macro» nm ps dn de bd =>
      rw [stripL_cons _ _ (by intro s h; cases h)]
      simp [stripN, blockNamesL, blockNames, ih, blockNamesL_strip bd]
    | apply fl bd =>
      rw [stripL_cons _ _ (by intro s h; cases h)]
      simp [stripN, blockNamesL, blockNames, ih, blockNamesL_strip bd]
    | spaceless bd =>
      rw [stripL_cons _ _ (by intro s h; cases h)]
      simp [stripN, blockNamesL, blockNames, ih, blockNamesL_strip bd]
    | _ =>
      rw [stripL_cons _ _ (by intro s h; cases h)]
      simp [stripN, blockNamesL, blockNames, ih]

theorem extra_eq (ts : List Token) : extra ts + (dropEmptyText ts).length = ts.length := by
  induction ts with
  | nil => rfl
  | cons t r ih =>
    rw [D_cons]
    by_cases h : isDrop t = true
    · simp only [extra, h, if_true, List.length_cons]; omega
    · simp only [extra, h, List.length_cons]; simp; omega

/-- Parsing is insensitive to empty TEXT tokens at outer positions: if the stream without them parses (or fails
    with a genuine parse error), the stream with them parses to the same tree up to `.text []` nodes (or fails with
    the same error). -/
theorem parseTokens_dropEmptyText (X : List Token) (hw : WFo X) (hy : parseTokens (dropEmptyText X) ≠ fuelErr) :
    match parseTokens (dropEmptyText X) with
    | .error e => parseTokens X = .error e
    | .ok ns' => ∃ ns, parseTokens X = .ok ns ∧ stripL ns = ns' := by
  unfold parseTokens at hy ⊢
  have hlen := extra_eq X
  have hfuel : 4 * X.length + 16 = (4 * (dropEmptyText X).length + 16) + 4 * extra X := by omega
  have hsim := (simAt (4 * (dropEmptyText X).length + 16)).outer (4 * extra X) X hw (by omega) (bind_ne_fuel hy)
  rw [← hfuel] at hsim
  unfold RelR at hsim
  cases hY : parseOuter (4 * (dropEmptyText X).length + 16) (dropEmptyText X) with
  | error e => rw [hY] at hsim; simp only at hsim; rw [hsim]; rfl
  | ok b =>
    obtain ⟨ns', r'⟩ := b
    rw [hY] at hsim
    obtain ⟨ns, r2, hx, hφ, _, _, _⟩ := hsim
    rw [hx]
    simp only [ok_bind]
    have hdup : hasDup (blockNamesL ns) = hasDup (blockNamesL ns') := by
      rw [← hφ, blockNamesL_strip]
    rw [hdup]
    by_cases hdd : hasDup (blockNamesL ns') = true
    · simp only [hdd, if_true]; rfl
    · simp only [hdd]; exact ⟨ns, rfl, hφ⟩


/-- the tag is not one of the block tags whose handler simulation is missing -/
def tagSupB (t : Tag) : Bool :=
  match t.kind with
  | .block =>
    (match contentTokens .block t.body with
     | n :: _ => !unsupportedTags.contains n.val
     | [] => true)
  | _ => true

theorem tagSupB_spec {t : Tag} (h : tagSupB t = true) (hk : t.kind = .block) :
    ∀ n xs', contentTokens .block t.body = n :: xs' → n.val ∉ unsupportedTags := by
  intro n xs' hc
  unfold tagSupB at h
  rw [hk] at h
  simp only [hc] at h
  simpa using h

theorem wfo_plain_tokens (t : Tag) (hs : tagSupB t = true) (rest : List Token) (hr : WFo rest) :
    WFo (t.plain.tokens ++ rest) := by
  rcases t with ⟨kind, o, body, c⟩
  cases kind with
  | comment =>
    simp only [Tag.plain, Tag.tokens, Tag.opener, Opener.startKind, endKind, contentTokens, List.cons_append,
      List.append_assoc]
    refine WFo.comment _ _ (tk COMMENT_END) rest rfl ?_ rfl hr
    intro x hx
    by_cases hb : body.isEmpty = true
    · simp [hb] at hx
    · simp only [hb, Bool.false_eq_true, if_false, List.mem_singleton] at hx
      subst hx; simp [tk, TEXT, COMMENT_END]
  | var =>
    simp only [Tag.plain, Tag.tokens, Tag.opener, Opener.startKind, endKind, List.cons_append,
      List.append_assoc]
    exact WFo.tag _ _ (tk VAR_END) rest (.inl rfl) (contentTokens_kinds (by intro h; cases h) body) (.inl rfl)
      (by intro h; cases h) (by intro h; cases h) hr
  | block =>
    simp only [Tag.plain, Tag.tokens, Tag.opener, Opener.startKind, endKind, List.cons_append,
      List.append_assoc]
    refine WFo.tag _ _ (tk BLOCK_END) rest (.inr rfl) (contentTokens_kinds (by intro h; cases h) body) (.inr rfl) ?_ (fun _ => rfl) hr
    intro _ n xs' hc
    exact tagSupB_spec hs rfl n xs' hc

theorem wfo_text_opt (l x : Bytes) (rest : List Token) (hr : WFo rest) :
    WFo ((if l = [] then [] else [(⟨TEXT, x⟩ : Token)]) ++ rest) := by
  split
  · exact hr
  · exact WFo.text _ _ rfl hr

/-- the stream the parser sees for a template spelled as chunks and (supported) tags is well formed -/
theorem wfo_stream (last : Bytes) : ∀ (ps : List (Bytes × Tag)) (tn : Bool), (∀ lt ∈ ps, tagSupB lt.2 = true) →
    WFo (normalise (applyWsAux tn (expected ps last)))
  | [], tn, _ => by
    simp only [expected]
    by_cases hl : last = []
    · subst hl
      exact WFo.eof _ _ rfl
    · rw [textTok_ne hl, List.singleton_append, applyWsAux_text _ _ _ rfl]
      exact WFo.text _ _ rfl (WFo.eof _ _ rfl)
  | (l, t) :: ps, tn, h => by
    simp only [expected]
    rw [normalise_step, List.append_assoc]
    exact wfo_text_opt _ _ _ (wfo_plain_tokens t (h (l, t) (by simp)) _
      (wfo_stream last ps _ (fun lt hm => h lt (by simp [hm]))))

theorem parseTemplate_tokens {s : Bytes} {ts : List Token} (h : tokenize s = .ok ts) :
    parseTemplate s = parseTokens ts := by
  unfold parseTemplate parseTokens
  rw [h]


/-- the token streams of the dashed and of the hand-trimmed template (no hypothesis on which chunks survive) -/
theorem tokenize_dashed (ps : List (Bytes × Tag)) (last : Bytes)
    (hwf : ∀ lt ∈ ps, WfTag lt.2 ∧ WfTag lt.2.plain)
    (hlit : ∀ lt ∈ undashPairs false ps, Lit lt.1)
    (hlast : NoOpener (undashLast false ps last)) :
    tokenize (spell ps last) = .ok (normalise (applyWs (expected ps last))) ∧
    tokenize (spell (undashPairs false ps) (undashLast false ps last)) =
      .ok (expected (undashPairs false ps) (undashLast false ps last)) ∧
    dropEmptyText (normalise (applyWs (expected ps last))) =
      expected (undashPairs false ps) (undashLast false ps last) := by
  have h1 : scanOpt (spell ps last) = .ok (expected ps last) :=
    scanOpt_chunks ps last
      (fun lt hm => ⟨lit_of_undash false ps hlit lt hm, (hwf lt hm).1⟩)
      (noOpener_of_ltIf hlast)
  have h2 : scanOpt (spell (undashPairs false ps) (undashLast false ps last)) =
      .ok (expected (undashPairs false ps) (undashLast false ps last)) :=
    scanOpt_chunks _ _
      (fun lt hm => ⟨hlit lt hm, wf_of_undash false ps (fun x hx => (hwf x hx).2) lt hm⟩) hlast
  refine ⟨?_, ?_, ?_⟩
  · simp only [tokenize, scan_eq_scanOpt, h1]
  · simp only [tokenize, scan_eq_scanOpt, h2, applyWs]
    rw [plain_stream _ _ (undashPairs_plain false ps)]
  · exact canon_expected false ps last

end Lift
end Twig
