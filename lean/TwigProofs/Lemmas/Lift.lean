/-
  TwigProofs.Lemmas.Lift — from token streams to rendered output (helpers for TwigProofs/Lift.lean).
-/
import TwigModel.Render
import TwigProofs.Lemmas.Scan
namespace Twig

/-! ## `renderSrc` -/

/-- the engine of `renderSrc`: one template, called `main` -/
def mainName : Bytes := b "main"
def envOf (nodes : List Node) : Env := { tpls := [(mainName, nodes)] }

def projOut {α} : R (Bytes × α) → R Bytes
  | .ok (o, _) => .ok o
  | .error e => .error e

/-- render a parsed template as the only template of an engine, keep the output -/
def renderNodesTop (nodes : List Node) (vars : List (Bytes × Val)) : R Bytes :=
  projOut (renderTop (envOf nodes) mainName vars)

/-- `Parser.Parse` + `Engine.Render` on source bytes -/
def renderSrc (src : Bytes) (vars : List (Bytes × Val)) : R Bytes := do
  let nodes ← parseTemplate src
  renderNodesTop nodes vars

/-- the same pipeline with the tokenizer as a parameter -/
def tokenizeWith (sc : Bytes → Except ScanErr (List Token)) (s : Bytes) : Except ScanErr (List Token) :=
  match sc s with
  | .ok ts => .ok (normalise (applyWs ts))
  | .error e => .error e

/-- `parseTemplate` after tokenization -/
def parseTokens (ts : List Token) : R (List Node) := do
  let (nodes, _) ← parseOuter (4 * ts.length + 16) ts
  if hasDup (blockNamesL nodes) then perr "the block has already been defined" else pure nodes

def parseTemplateWith (sc : Bytes → Except ScanErr (List Token)) (src : Bytes) : R (List Node) :=
  match tokenizeWith sc src with
  | .error _ => perr "tokenization error"
  | .ok ts => parseTokens ts

def renderSrcWith (sc : Bytes → Except ScanErr (List Token)) (src : Bytes) (vars : List (Bytes × Val)) : R Bytes := do
  let nodes ← parseTemplateWith sc src
  renderNodesTop nodes vars

namespace Lift

theorem tokenize_eq_with (s : Bytes) : tokenize s = tokenizeWith scan s := rfl
theorem parseTemplate_eq_with (s : Bytes) : parseTemplate s = parseTemplateWith scan s := by
  unfold parseTemplate parseTemplateWith parseTokens
  rw [tokenize_eq_with]
  cases tokenizeWith scan s <;> rfl
theorem renderSrc_eq_with (s : Bytes) (vars : List (Bytes × Val)) : renderSrc s vars = renderSrcWith scan s vars := by
  unfold renderSrc renderSrcWith; rw [parseTemplate_eq_with]


/-! ## `Except` plumbing, `parseOuter` on the token shapes of the scanner -/

theorem bind_ok {ε α β} {x : Except ε α} {f : α → Except ε β} {b : β}
    (h : (x >>= f) = .ok b) : ∃ a, x = .ok a ∧ f a = .ok b := by
  cases x with
  | error e => simp [bind, Except.bind] at h
  | ok a => exact ⟨a, rfl, h⟩

@[simp] theorem ok_bind {ε α β} (a : α) (f : α → Except ε β) : ((Except.ok a : Except ε α) >>= f) = f a := rfl
@[simp] theorem error_bind {ε α β} (e : ε) (f : α → Except ε β) :
    ((Except.error e : Except ε α) >>= f) = .error e := rfl
@[simp] theorem pure_eq_ok {ε α} (a : α) : (pure a : Except ε α) = .ok a := rfl

/-- a TEXT token becomes a text node and parsing continues -/
theorem parseOuter_text (f : Nat) (v : Bytes) (r : List Token) :
    parseOuter (f+1) (⟨TEXT, v⟩ :: r) =
      (parseOuter f r >>= fun (x : List Node × List Token) => pure (.text v :: x.1, x.2)) := by
  simp [parseOuter]

theorem parseOuter_eof (f : Nat) (v : Bytes) (r : List Token) :
    parseOuter (f+1) (⟨EOF, v⟩ :: r) = .ok ([], ⟨EOF, v⟩ :: r) := by
  simp [parseOuter]

theorem parseOuter_nil (f : Nat) : parseOuter (f+1) [] = .ok ([], []) := by
  simp [parseOuter]

/-- a comment group is skipped -/
theorem parseOuter_comment (f : Nat) (v : Bytes) (cs : List Token) (e : Token) (r : List Token)
    (hcs : ∀ c ∈ cs, c.kind ≠ COMMENT_END) (he : e.kind = COMMENT_END) :
    parseOuter (f+1) (⟨COMMENT_START, v⟩ :: (cs ++ e :: r)) = parseOuter f r := by
  have hd : List.dropWhile (fun x : Token => x.kind != COMMENT_END) (cs ++ e :: r) = e :: r := by
    induction cs with
    | nil => simp [he]
    | cons c cs ih =>
      have := hcs c (by simp)
      simp [this]
      exact ih (fun c hc => hcs c (by simp [hc]))
  simp [parseOuter, hd, COMMENT_START, EOF, VAR_START, BLOCK_START, TEXT]



theorem b_not : b "not" = [110, 111, 116] := by decide +kernel
theorem b_true : b "true" = [116, 114, 117, 101] := by decide +kernel
theorem b_false : b "false" = [102, 97, 108, 115, 101] := by decide +kernel
theorem b_null : b "null" = [110, 117, 108, 108] := by decide +kernel
theorem b_nil : b "nil" = [110, 105, 108] := by decide +kernel

/-- names the expression parser does not read as a variable -/
def reserved : List Bytes := [[110, 111, 116], [116, 114, 117, 101], [102, 97, 108, 115, 101], [110, 117, 108, 108], [110, 105, 108]]

theorem reserved_eq : reserved = [b "not", b "true", b "false", b "null", b "nil"] := by
  rw [b_not, b_true, b_false, b_null, b_nil]; rfl

/-- a token at which every expression parser stops -/
def StopTok (d : Token) : Prop := d.kind ≠ NAME ∧ d.kind ≠ OPERATOR ∧ d.kind ≠ PUNCT

theorem stop_isP {d : Token} (h : StopTok d) (c : UInt8) : isP d c = false := by
  simp [isP, h.2.2]

theorem stop_peek {d : Token} (h : StopTok d) (r : List Token) : peekBinary (d :: r) = .none := by
  simp [peekBinary, h.1, h.2.1]

theorem parseExpression_var (f : Nat) (n : Bytes) (d : Token) (r : List Token)
    (hn : n ∉ reserved) (hd : StopTok d) :
    parseExpression (f+6) (⟨NAME, n⟩ :: d :: r) = .ok (.var n, d :: r) := by
  have h1 : n ≠ b "not" ∧ n ≠ b "true" ∧ n ≠ b "false" ∧ n ≠ b "null" ∧ n ≠ b "nil" := by
    rw [reserved_eq] at hn; simpa using hn
  obtain ⟨h1, h2, h3, h4, h5⟩ := h1
  simp [parseExpression, parseBinaryPrec, parseOperand, parseSimple, parseAttrs, parseSuffix, parseLoop,
    stop_isP hd, stop_peek hd, isName, h1, h2, h3, h4, h5, NAME, OPERATOR, STRING, NUMBER]



theorem parseOuter_pvar (f : Nat) (v0 v1 n : Bytes) (r : List Token) (hn : n ∉ reserved) :
    parseOuter (f+1) (⟨VAR_START, v0⟩ :: ⟨NAME, n⟩ :: ⟨VAR_END, v1⟩ :: r) =
      (parseOuter f r >>= fun (x : List Node × List Token) => pure (.print (.var n) :: x.1, x.2)) := by
  have hs : StopTok ⟨VAR_END, v1⟩ := by simp [StopTok, VAR_END, NAME, OPERATOR, PUNCT]
  have he : parseExpression (exprFuel (⟨NAME, n⟩ :: ⟨VAR_END, v1⟩ :: r)) (⟨NAME, n⟩ :: ⟨VAR_END, v1⟩ :: r) =
      .ok (.var n, ⟨VAR_END, v1⟩ :: r) := by
    have : exprFuel (⟨NAME, n⟩ :: ⟨VAR_END, v1⟩ :: r) = (8 * r.length + 26) + 6 := by
      simp [exprFuel]; omega
    rw [this]; exact parseExpression_var _ n _ r hn hs
  rw [parseOuter]
  simp only [he]
  simp [expectK, VAR_START, EOF, TEXT, VAR_END]


/-! ## lexing `{{ v }}` -/

theorem all_u8 (P : UInt8 → Bool) (h : ∀ n : Fin 256, P (UInt8.ofNat n.val) = true) : ∀ c : UInt8, P c = true := by
  intro c
  have := h ⟨c.toNat, c.toNat_lt⟩
  simpa using this

/-- identifier: `[A-Za-z_][A-Za-z0-9_]*` -/
def Ident : Bytes → Bool
  | [] => false
  | c :: r => isIdentStart c && r.all isIdentChar

def AllSp (w : Bytes) : Bool := w.all isSpaceAscii

theorem class_identChar : ∀ c : UInt8, (!isIdentChar c || (!isSpaceAscii c &&
    uniSpaces.all (fun p => p.head? != some c) && uniSpaces.all (fun p => p.getLast? != some c))) = true :=
  all_u8 _ (by decide +kernel)

theorem class_identStart : ∀ c : UInt8, (!isIdentStart c || (isIdentChar c && !(c == 34 || c == 39) &&
    !isOperatorCh c && !isPunctCh c && !isWs c)) = true :=
  all_u8 _ (by decide +kernel)

theorem find_uni_none (c : UInt8) (r : Bytes) (h : uniSpaces.all (fun p => p.head? != some c) = true) :
    uniSpaces.find? (fun p => p.isPrefixOf (c :: r)) = none := by
  rw [List.find?_eq_none]
  intro p hp
  have := (List.all_eq_true.mp h) p hp
  cases p with
  | nil => simp [uniSpaces] at hp
  | cons a p' =>
    simp at this
    simp [List.isPrefixOf, this]


theorem leadSpaceLen_zero (c : UInt8) (r : Bytes) (h1 : isSpaceAscii c = false)
    (h : uniSpaces.all (fun p => p.head? != some c) = true) : leadSpaceLen (c :: r) = 0 := by
  simp [leadSpaceLen, h1, find_uni_none c r h]

theorem leadSpaceLen_sp (c : UInt8) (r : Bytes) (h1 : isSpaceAscii c = true) : leadSpaceLen (c :: r) = 1 := by
  simp [leadSpaceLen, h1]

theorem find_uni_rev_none (c : UInt8) (r : Bytes) (h : uniSpaces.all (fun p => p.getLast? != some c) = true) :
    uniSpaces.find? (fun p => p.reverse.isPrefixOf (c :: r)) = none := by
  rw [List.find?_eq_none]
  intro p hp
  have := (List.all_eq_true.mp h) p hp
  rcases List.eq_nil_or_concat p with rfl | ⟨p', a, rfl⟩
  · simp [uniSpaces] at hp
  · simp at this
    simp [List.isPrefixOf, this]

theorem trailSpaceLen_zero (c : UInt8) (r : Bytes) (h1 : isSpaceAscii c = false)
    (h : uniSpaces.all (fun p => p.getLast? != some c) = true) : trailSpaceLen (c :: r) = 0 := by
  simp [trailSpaceLen, h1, find_uni_rev_none c r h]

theorem trailSpaceLen_sp (c : UInt8) (r : Bytes) (h1 : isSpaceAscii c = true) : trailSpaceLen (c :: r) = 1 := by
  simp [trailSpaceLen, h1]

theorem trimLeftGo_pad (w x : Bytes) (hw : AllSp w = true) (hx : leadSpaceLen x = 0) :
    ∀ fuel, w.length ≤ fuel → trimLeftGo fuel (w ++ x) = x := by
  induction w with
  | nil =>
    intro fuel _
    cases fuel with
    | zero => rfl
    | succ n => simp [trimLeftGo, hx]
  | cons c w ih =>
    intro fuel hf
    simp [AllSp] at hw
    cases fuel with
    | zero => simp at hf
    | succ n =>
      have h1 := leadSpaceLen_sp c (w ++ x) hw.1
      simp only [List.cons_append, trimLeftGo, h1]
      simp
      exact ih (by simpa [AllSp] using hw.2) n (by simpa using hf)

theorem trimRightRev_pad (w x : Bytes) (hw : AllSp w = true) (hx : trailSpaceLen x = 0) :
    ∀ fuel, w.length ≤ fuel → trimRightRev fuel (w ++ x) = x := by
  induction w with
  | nil =>
    intro fuel _
    cases fuel with
    | zero => rfl
    | succ n => simp [trimRightRev, hx]
  | cons c w ih =>
    intro fuel hf
    simp [AllSp] at hw
    cases fuel with
    | zero => simp at hf
    | succ n =>
      have h1 := trailSpaceLen_sp c (w ++ x) hw.1
      simp only [List.cons_append, trimRightRev, h1]
      simp
      exact ih (by simpa [AllSp] using hw.2) n (by simpa using hf)

theorem allSp_reverse (w : Bytes) : AllSp w.reverse = AllSp w := by simp [AllSp]

theorem takeWhile_all_self {α} (p : α → Bool) : ∀ (l : List α), l.all p = true → l.takeWhile p = l
  | [], _ => rfl
  | a :: l, h => by
    simp only [List.all_cons, Bool.and_eq_true] at h
    simp [List.takeWhile, h.1, takeWhile_all_self p l h.2]
theorem dropWhile_all_nil {α} (p : α → Bool) : ∀ (l : List α), l.all p = true → l.dropWhile p = []
  | [], _ => rfl
  | a :: l, h => by
    simp only [List.all_cons, Bool.and_eq_true] at h
    simp [List.dropWhile, h.1, dropWhile_all_nil p l h.2]

theorem identChar_facts {c : UInt8} (h : isIdentChar c = true) : isSpaceAscii c = false ∧
    uniSpaces.all (fun p => p.head? != some c) = true ∧ uniSpaces.all (fun p => p.getLast? != some c) = true := by
  have := class_identChar c
  simp only [h, Bool.not_true, Bool.false_or, Bool.and_eq_true, Bool.not_eq_true'] at this
  exact ⟨this.1.1, this.1.2, this.2⟩

theorem trimSpaceGo_pad (w1 x w2 : Bytes) (h1 : AllSp w1 = true) (h2 : AllSp w2 = true)
    (hne : x ≠ []) (hx : x.all isIdentChar = true) : trimSpaceGo (w1 ++ x ++ w2) = x := by
  unfold trimSpaceGo
  have e1 : trimLeftGo (w1 ++ x ++ w2).length (w1 ++ x ++ w2) = x ++ w2 := by
    rw [List.append_assoc]
    have hl' : leadSpaceLen (x ++ w2) = 0 := by
      cases x with
      | nil => exact absurd rfl hne
      | cons c r =>
        have hc := identChar_facts (c := c) (by simp at hx; exact hx.1)
        exact leadSpaceLen_zero c _ hc.1 hc.2.1
    exact trimLeftGo_pad w1 (x ++ w2) h1 hl' _ (by simp)
  simp only [e1]
  rw [List.reverse_append]
  have hr' : trailSpaceLen x.reverse = 0 := by
    rcases List.eq_nil_or_concat x with rfl | ⟨x', a, rfl⟩
    · exact absurd rfl hne
    · have hc := identChar_facts (c := a) (by simp at hx; exact hx.2)
      simp only [List.concat_eq_append, List.reverse_append, List.reverse_cons, List.reverse_nil, List.nil_append,
        List.singleton_append]
      exact trailSpaceLen_zero a _ hc.1 hc.2.2
  rw [trimRightRev_pad w2.reverse x.reverse (by rw [allSp_reverse]; exact h2) hr' _ (by simp)]
  simp

theorem lexAux_nil (fuel : Nat) (m : LexMode) (prev : Option UInt8) : lexAux fuel m prev [] = [] := by
  cases fuel <;> simp [lexAux]

theorem ident_all {v : Bytes} (h : Ident v = true) : v ≠ [] ∧ v.all isIdentChar = true := by
  cases v with
  | nil => simp [Ident] at h
  | cons c r =>
    simp only [Ident, Bool.and_eq_true] at h
    have := class_identStart c
    simp only [h.1, Bool.not_true, Bool.false_or, Bool.and_eq_true] at this
    refine ⟨by simp, ?_⟩
    simp only [List.all_cons, Bool.and_eq_true]
    exact ⟨this.1.1.1.1, h.2⟩

theorem lexExpr_ident {v : Bytes} (h : Ident v = true) : lexExpr v = [tk NAME v] := by
  cases v with
  | nil => simp [Ident] at h
  | cons c r =>
    simp only [Ident, Bool.and_eq_true] at h
    have hc := class_identStart c
    simp only [h.1, Bool.not_true, Bool.false_or, Bool.and_eq_true, Bool.not_eq_true', Bool.or_eq_false_iff] at hc
    obtain ⟨⟨⟨⟨_, hq⟩, ho⟩, hp⟩, hw⟩ := hc
    have ht : r.takeWhile isIdentChar = r := takeWhile_all_self _ r h.2
    have hd : r.dropWhile isIdentChar = [] := dropWhile_all_nil _ r h.2
    simp [lexExpr, lexAux, hq, ho, hp, hw, h.1, ht, hd, lexAux_nil]

theorem contentTokens_pvar (w1 v w2 : Bytes) (h1 : AllSp w1 = true) (h2 : AllSp w2 = true) (hv : Ident v = true) :
    contentTokens .var (w1 ++ v ++ w2) = [tk NAME v] := by
  have ⟨hne, hall⟩ := ident_all hv
  simp only [contentTokens]
  rw [trimSpaceGo_pad w1 v w2 h1 h2 hne hall]
  have : v.isEmpty = false := by cases v <;> simp_all
  simp [this, lexExpr_ident hv]


/-! ## rendering text / print-variable / verbatim nodes -/


/-- values whose printing is `toStr` (everything except the two closure values, which never come from a context) -/
def isPlain : Val → Bool
  | .callable _ _ _ => false
  | .parentFn => false
  | _ => true

def PlainVars (vars : List (Bytes × Val)) : Bool := vars.all (fun kv => isPlain kv.2)

/-- `GetVariable` at the top level -/
def lookupVar (vars : List (Bytes × Val)) (n : Bytes) : Val := (getKV n vars).getD .null

theorem lookupVar_plain {vars : List (Bytes × Val)} (h : PlainVars vars = true) (n : Bytes) :
    isPlain (lookupVar vars n) = true := by
  unfold lookupVar getKV
  cases hf : vars.find? (fun x => x.1 == n) with
  | none => rfl
  | some kv =>
    have := List.mem_of_find?_eq_some hf
    simpa using (List.all_eq_true.mp h) kv this

/-- the spec side: what a node list of text / print-variable / verbatim nodes must output -/
inductive Piece
  | lit (s : Bytes)
  | pvar (v : Bytes)
  | verb (s : Bytes)

def Piece.node : Piece → Node
  | .lit s => .text s
  | .pvar v => .print (.var v)
  | .verb s => .verbatim s

def Piece.out (vars : List (Bytes × Val)) : Piece → R Bytes
  | .lit s => .ok s
  | .pvar v => toStr (lookupVar vars v)
  | .verb s => .ok s

def outPieces (vars : List (Bytes × Val)) : List Piece → R Bytes
  | [] => .ok []
  | p :: r => do
    let a ← p.out vars
    let c ← outPieces vars r
    .ok (a ++ c)

/-- top-level-like state: no macros, no parent scopes -/
def Flat (st : St) : Prop := st.ctx.macros = [] ∧ st.ctx.parents = []

theorem getMacro_flat {st : St} (h : Flat st) (n : Bytes) : st.ctx.getMacro n = none := by
  simp [Ctx.getMacro, h.1, h.2, getKV, scopesMacro]

theorem getVar_flat {st : St} (h : Flat st) (n : Bytes) : st.ctx.getVar n = lookupVar st.ctx.vars n := by
  unfold Ctx.getVar lookupVar
  cases getKV n st.ctx.vars <;> simp [h.2, scopesVar]

theorem printVal_plain (go : Go) {v : Val} (h : isPlain v = true) (st : St) :
    printVal go v st = (toStr v >>= fun s => pure (s, st)) := by
  cases v <;> simp [isPlain] at h <;> rfl

/-- the printed variables hold plain values -/
def Piece.plainIn (vars : List (Bytes × Val)) : Piece → Bool
  | .pvar v => isPlain (lookupVar vars v)
  | _ => true

def PiecesPlain (vars : List (Bytes × Val)) (ps : List Piece) : Bool := ps.all (fun p => p.plainIn vars)

theorem piecesPlain_of_plainVars {vars : List (Bytes × Val)} (h : PlainVars vars = true) (ps : List Piece) :
    PiecesPlain vars ps = true := by
  unfold PiecesPlain
  rw [List.all_eq_true]
  intro p _
  cases p <;> simp [Piece.plainIn, lookupVar_plain h]

theorem renderNode_piece (E : Env) (go : Go) (tpl : Bytes) (p : Piece) (st : St) (hf : Flat st)
    (hp : p.plainIn st.ctx.vars = true) :
    renderNode E go tpl p.node st = (p.out st.ctx.vars >>= fun o => pure (o, st)) := by
  cases p with
  | lit s => rfl
  | verb s => rfl
  | pvar v =>
    have he : ∀ ap, evalX E ap (.var v) st = .ok ((lookupVar st.ctx.vars v, []), st) := by
      intro ap
      simp only [evalX, getMacro_flat hf, getVar_flat hf]
      split <;> rfl
    simp only [Piece.node, renderNode, he, Piece.out]
    simp only [ok_bind]
    exact printVal_plain go hp st

theorem renderNodes_pieces (E : Env) (go : Go) (tpl : Bytes) (st : St) (hf : Flat st) : ∀ ps : List Piece,
    PiecesPlain st.ctx.vars ps = true →
    renderNodes E go tpl (ps.map Piece.node) st = (outPieces st.ctx.vars ps >>= fun o => pure (o, st))
  | [], _ => rfl
  | p :: ps, hp => by
    simp only [PiecesPlain, List.all_cons, Bool.and_eq_true] at hp
    simp only [List.map_cons, renderNodes, renderNode_piece E go tpl p st hf hp.1, outPieces]
    cases p.out st.ctx.vars with
    | error e => rfl
    | ok a =>
      simp only [ok_bind, pure_eq_ok, renderNodes_pieces E go tpl st hf ps hp.2]
      cases outPieces st.ctx.vars ps <;> rfl

theorem lastExtends_pieces : ∀ ps : List Piece, lastExtends (ps.map Piece.node) = none
  | [] => rfl
  | p :: ps => by cases p <;> simp [Piece.node, lastExtends, lastExtends_pieces ps]

theorem blockNamesL_pieces : ∀ ps : List Piece, blockNamesL (ps.map Piece.node) = []
  | [] => rfl
  | p :: ps => by cases p <;> simp [Piece.node, blockNamesL, blockNames, blockNamesL_pieces ps]

theorem tpl_envOf (nodes : List Node) : (envOf nodes).tpl? mainName = some nodes := by
  simp [Env.tpl?, envOf]

theorem renderNodesTop_pieces (ps : List Piece) (vars : List (Bytes × Val)) (hv : PiecesPlain vars ps = true) :
    renderNodesTop (ps.map Piece.node) vars = outPieces vars ps := by
  unfold renderNodesTop renderTop
  simp only [tpl_envOf, defaultFuel, run, renderRoot, lastExtends_pieces]
  rw [renderNodes_pieces _ _ _ _ ⟨rfl, rfl⟩ ps hv]
  cases outPieces vars ps <;> rfl



/-! ## the fragment: literal chunks, comments, prints of a variable -/

/-- the tag fragment of the output theorems: comments and prints of one variable -/
inductive STag
  | comment (c : Bytes)
  | pvar (otrim : Bool) (w1 v w2 : Bytes) (ctrim : Bool)

def STag.tag : STag → Tag
  | .comment c => ⟨.comment, false, c, false⟩
  | .pvar o w1 v w2 c => ⟨.var, o, w1 ++ v ++ w2, c⟩

/-- whitespace padding around an identifier that is not a reserved word -/
def STag.ok : STag → Bool
  | .comment _ => true
  | .pvar _ w1 v w2 _ => AllSp w1 && AllSp w2 && Ident v && !reserved.contains v

def STag.pieces : STag → List Piece
  | .comment _ => []
  | .pvar _ _ v _ _ => [.pvar v]

def STag.plain : STag → STag
  | .comment c => .comment c
  | .pvar _ w1 v w2 _ => .pvar false w1 v w2 false

def STag.noDash : STag → Bool
  | .comment _ => true
  | .pvar o _ _ _ c => !o && !c

def tagsOf (ps : List (Bytes × STag)) : List (Bytes × Tag) := ps.map fun lt => (lt.1, lt.2.tag)

/-- the normalised tokens of a fragment tag -/
def STag.group : STag → List Token
  | .comment c => tk COMMENT_START :: ((if c.isEmpty then [] else [tk TEXT c]) ++ [tk COMMENT_END])
  | .pvar _ _ v _ _ => [tk VAR_START, tk NAME v, tk VAR_END]

theorem normalise_append (a c : List Token) : normalise (a ++ c) = normalise a ++ normalise c := by
  simp [normalise]

theorem norm_step (tn : Bool) (l : Bytes) (s : STag) (hs : s.ok = true) (E : List Token) :
    normalise (applyWsAux tn (textTok l ++ s.tag.tokens ++ E)) =
      (if l = [] then [] else [⟨TEXT, rtIf s.tag.opensTrim (ltIf tn l)⟩]) ++ s.group ++
        normalise (applyWsAux s.tag.closesTrim E) := by
  rw [applyWs_step]
  simp only [normalise_append]
  have h0 : normalise (if l = [] then [] else [⟨TEXT, rtIf s.tag.opensTrim (ltIf tn l)⟩]) =
      (if l = [] then [] else [⟨TEXT, rtIf s.tag.opensTrim (ltIf tn l)⟩]) := by
    split <;> rfl
  rw [h0, List.append_assoc]
  congr 1
  cases s with
  | comment c =>
    simp only [STag.tag, STag.group, contentTokens]
    by_cases hc : c.isEmpty <;> simp [hc, normalise, Tag.opener, Opener.startKind, endKind, tk, normKind,
      COMMENT_START, COMMENT_END, TEXT, VAR_START_TRIM, VAR_END_TRIM, BLOCK_START_TRIM, BLOCK_END_TRIM]
  | pvar o w1 v w2 c =>
    simp only [STag.ok, Bool.and_eq_true] at hs
    simp only [STag.tag, STag.group, contentTokens_pvar w1 v w2 hs.1.1.1 hs.1.1.2 hs.1.2]
    cases o <;> cases c <;> rfl

theorem parse_group (f : Nat) (s : STag) (hs : s.ok = true) (rest : List Token) :
    parseOuter (f+1) (s.group ++ rest) =
      (parseOuter f rest >>= fun (x : List Node × List Token) => pure (s.pieces.map Piece.node ++ x.1, x.2)) := by
  cases s with
  | comment c =>
    simp only [STag.group, STag.pieces, List.map_nil, List.nil_append]
    have := parseOuter_comment f [] (if c.isEmpty then [] else [tk TEXT c]) (tk COMMENT_END) rest
      (by intro x hx; split at hx <;> simp at hx; subst hx; simp [tk, TEXT, COMMENT_END]) rfl
    simp only [List.cons_append, List.append_assoc, List.nil_append]
    rw [show tk COMMENT_START = (⟨COMMENT_START, []⟩ : Token) from rfl, this]
    cases parseOuter f rest <;> rfl
  | pvar o w1 v w2 c =>
    simp only [STag.ok, Bool.and_eq_true] at hs
    have hn : v ∉ reserved := by simpa using hs.2
    exact parseOuter_pvar f [] [] v rest hn


/-- the node list the parser must build (as pieces): trimmed chunks and printed variables -/
def piecesOf : Bool → List (Bytes × STag) → Bytes → List Piece
  | tn, [], last => if last = [] then [] else [.lit (ltIf tn last)]
  | tn, (l, s) :: ps, last =>
    (if l = [] then [] else [.lit (rtIf s.tag.opensTrim (ltIf tn l))]) ++ s.pieces ++
      piecesOf s.tag.closesTrim ps last

theorem tagsOf_nil : tagsOf [] = [] := rfl
theorem tagsOf_cons (l : Bytes) (s : STag) (ps : List (Bytes × STag)) :
    tagsOf ((l, s) :: ps) = (l, s.tag) :: tagsOf ps := rfl

theorem normalise_eof : normalise [tk EOF] = [tk EOF] := rfl

theorem parse_expected (last : Bytes) : ∀ (ps : List (Bytes × STag)), (∀ lt ∈ ps, lt.2.ok = true) →
    ∀ (tn : Bool) (f : Nat), 2 * ps.length + 2 ≤ f →
    parseOuter f (normalise (applyWsAux tn (expected (tagsOf ps) last))) =
      .ok ((piecesOf tn ps last).map Piece.node, [tk EOF])
  | [], _, tn, f, hf => by
    obtain ⟨f', rfl⟩ : ∃ f', f = f' + 2 := ⟨f - 2, by simp at hf; omega⟩
    simp only [tagsOf_nil, expected, piecesOf]
    by_cases hl : last = []
    · subst hl
      rw [textTok_nil, List.nil_append, applyWsAux_other _ _ _ (by decide), applyWsAux_nil]
      rw [normalise_eof]
      exact parseOuter_eof _ _ _
    · rw [textTok_ne hl, List.singleton_append, applyWsAux_text _ _ _ rfl,
        applyWsAux_other _ _ _ (by decide), applyWsAux_nil]
      have : normalise [⟨TEXT, rtIf (nextTrim [tk EOF]) (ltIf tn (tk TEXT last).val)⟩, tk EOF] =
          ⟨TEXT, ltIf tn last⟩ :: [tk EOF] := rfl
      rw [this, parseOuter_text, show tk EOF = (⟨EOF, []⟩ : Token) from rfl, parseOuter_eof]
      simp [hl, Piece.node]
  | (l, s) :: ps, hok, tn, f, hf => by
    have hs : s.ok = true := hok (l, s) (by simp)
    have hok' : ∀ lt ∈ ps, lt.2.ok = true := fun lt hm => hok lt (by simp [hm])
    obtain ⟨f', rfl⟩ : ∃ f', f = f' + 2 := ⟨f - 2, by simp at hf; omega⟩
    have hf' : 2 * ps.length + 2 ≤ f' := by simp at hf; omega
    simp only [tagsOf_cons, expected]
    rw [norm_step tn l s hs]
    have ih := parse_expected last ps hok' s.tag.closesTrim
    by_cases hl : l = []
    · subst hl
      simp only [if_true, List.nil_append, piecesOf]
      rw [parse_group _ s hs, ih (f' + 1) (by omega)]
      simp
    · simp only [hl, if_false, List.cons_append, List.nil_append, piecesOf]
      rw [parseOuter_text, parse_group _ s hs, ih f' hf']
      simp [Piece.node]


theorem tokens_length_ge (t : Tag) : 2 ≤ t.tokens.length := by
  simp [Tag.tokens]

theorem expected_length_ge : ∀ (ps : List (Bytes × Tag)) (last : Bytes), 2 * ps.length + 1 ≤ (expected ps last).length
  | [], last => by simp [expected]
  | (l, t) :: ps, last => by
    have := expected_length_ge ps last
    have := tokens_length_ge t
    simp only [expected, List.length_append, List.length_cons]
    omega

theorem normalise_length (ts : List Token) : (normalise ts).length = ts.length := by simp [normalise]

theorem parseTokens_expected (ps : List (Bytes × STag)) (last : Bytes) (hok : ∀ lt ∈ ps, lt.2.ok = true) :
    parseTokens (normalise (applyWs (expected (tagsOf ps) last))) =
      .ok ((piecesOf false ps last).map Piece.node) := by
  unfold parseTokens
  have hlen := expected_length_ge (tagsOf ps) last
  have hl2 : (tagsOf ps).length = ps.length := by simp [tagsOf]
  rw [applyWs, parse_expected last ps hok false _ (by
    rw [normalise_length, applyWsAux_length]; omega)]
  simp [blockNamesL_pieces, hasDup]

theorem parseTemplate_spell (ps : List (Bytes × STag)) (last : Bytes)
    (h : ∀ lt ∈ ps, Lit lt.1 ∧ WfTag lt.2.tag ∧ lt.2.ok = true) (hlast : NoOpener last) :
    parseTemplate (spell (tagsOf ps) last) = .ok ((piecesOf false ps last).map Piece.node) := by
  have hsc : scanOpt (spell (tagsOf ps) last) = .ok (expected (tagsOf ps) last) :=
    scanOpt_chunks _ _ (by
      intro lt hm
      simp only [tagsOf, List.mem_map] at hm
      obtain ⟨x, hx, rfl⟩ := hm
      exact ⟨(h x hx).1, (h x hx).2.1⟩) hlast
  unfold parseTemplate tokenize
  rw [scan_eq_scanOpt, hsc]
  exact parseTokens_expected ps last (fun lt hm => (h lt hm).2.2)

theorem renderSrc_spell (ps : List (Bytes × STag)) (last : Bytes) (vars : List (Bytes × Val))
    (h : ∀ lt ∈ ps, Lit lt.1 ∧ WfTag lt.2.tag ∧ lt.2.ok = true) (hlast : NoOpener last)
    (hp : PiecesPlain vars (piecesOf false ps last) = true) :
    renderSrc (spell (tagsOf ps) last) vars = outPieces vars (piecesOf false ps last) := by
  unfold renderSrc
  rw [parseTemplate_spell ps last h hlast]
  exact renderNodesTop_pieces _ vars hp


/-! ### the output, spelled out -/

/-- what a fragment tag contributes to the output -/
def STag.value (vars : List (Bytes × Val)) : STag → R Bytes
  | .comment _ => .ok []
  | .pvar _ _ v _ _ => toStr (lookupVar vars v)

/-- literal chunks interleaved with the tags' values (no trimming) -/
def interleaveOut (vars : List (Bytes × Val)) : List (Bytes × STag) → Bytes → R Bytes
  | [], last => .ok last
  | (l, s) :: ps, last => do
    let v ← s.value vars
    let r ← interleaveOut vars ps last
    .ok (l ++ v ++ r)

/-- the same with the trimming requested by dashes -/
def outOf (vars : List (Bytes × Val)) : Bool → List (Bytes × STag) → Bytes → R Bytes
  | tn, [], last => .ok (ltIf tn last)
  | tn, (l, s) :: ps, last => do
    let v ← s.value vars
    let r ← outOf vars s.tag.closesTrim ps last
    .ok (rtIf s.tag.opensTrim (ltIf tn l) ++ v ++ r)

theorem outPieces_append (vars : List (Bytes × Val)) : ∀ (a c : List Piece),
    outPieces vars (a ++ c) = (outPieces vars a >>= fun x => outPieces vars c >>= fun y => .ok (x ++ y))
  | [], c => by cases h : outPieces vars c <;> simp [outPieces, h]
  | p :: a, c => by
    simp only [List.cons_append, outPieces, outPieces_append vars a c]
    cases p.out vars with
    | error e => rfl
    | ok x =>
      simp only [ok_bind]
      cases outPieces vars a with
      | error e => rfl
      | ok y =>
        simp only [ok_bind]
        cases outPieces vars c <;> simp

theorem outPieces_lit_opt (vars : List (Bytes × Val)) (l x : Bytes) (hx : l = [] → x = []) :
    outPieces vars (if l = [] then [] else [.lit x]) = .ok x := by
  by_cases hl : l = []
  · simp [hl, outPieces, hx hl]
  · simp [hl, outPieces, Piece.out]

theorem ltIf_nil (c : Bool) : ltIf c [] = [] := by cases c <;> rfl

theorem outPieces_stag (vars : List (Bytes × Val)) (s : STag) : outPieces vars s.pieces = s.value vars := by
  cases s with
  | comment c => rfl
  | pvar o w1 v w2 c =>
    simp only [STag.pieces, outPieces, Piece.out, STag.value]
    cases toStr (lookupVar vars v) <;> simp

theorem outPieces_piecesOf (vars : List (Bytes × Val)) (last : Bytes) : ∀ (ps : List (Bytes × STag)) (tn : Bool),
    outPieces vars (piecesOf tn ps last) = outOf vars tn ps last
  | [], tn => by
    simp only [piecesOf, outOf]
    exact outPieces_lit_opt vars last _ (fun h => by rw [h, ltIf_nil])
  | (l, s) :: ps, tn => by
    simp only [piecesOf, outOf, outPieces_append, outPieces_piecesOf vars last ps, outPieces_stag]
    rw [outPieces_lit_opt vars l _ (fun h => by rw [h, trims_nil])]
    simp only [ok_bind]
    cases s.value vars with
    | error e => rfl
    | ok v =>
      simp only [ok_bind]

theorem noDash_trims {s : STag} (h : s.noDash = true) : s.tag.opensTrim = false ∧ s.tag.closesTrim = false := by
  cases s with
  | comment c => exact ⟨rfl, rfl⟩
  | pvar o w1 v w2 c =>
    simp only [STag.noDash, Bool.and_eq_true, Bool.not_eq_true'] at h
    simp [STag.tag, Tag.opensTrim, Tag.closesTrim, h.1, h.2]

theorem outOf_noDash (vars : List (Bytes × Val)) (last : Bytes) : ∀ (ps : List (Bytes × STag)),
    (∀ lt ∈ ps, lt.2.noDash = true) → outOf vars false ps last = interleaveOut vars ps last
  | [], _ => rfl
  | (l, s) :: ps, h => by
    have h1 := noDash_trims (h (l, s) (by simp))
    simp only [outOf, interleaveOut, h1.1, h1.2]
    rw [outOf_noDash vars last ps (fun lt hm => h lt (by simp [hm]))]
    rfl

/-- the hand-trimmed, dash-free template (fragment version of `undashPairs`) -/
def undashS : Bool → List (Bytes × STag) → List (Bytes × STag)
  | _, [] => []
  | tn, (l, s) :: ps => (rtIf s.tag.opensTrim (ltIf tn l), s.plain) :: undashS s.tag.closesTrim ps

theorem plain_tag (s : STag) : s.plain.tag = s.tag.plain := by cases s <;> rfl
theorem plain_ok (s : STag) : s.plain.ok = s.ok := by cases s <;> rfl
theorem plain_noDash (s : STag) : s.plain.noDash = true := by cases s <;> rfl
theorem plain_value (vars : List (Bytes × Val)) (s : STag) : s.plain.value vars = s.value vars := by cases s <;> rfl

theorem tagsOf_undashS : ∀ (tn : Bool) (ps : List (Bytes × STag)),
    tagsOf (undashS tn ps) = undashPairs tn (tagsOf ps)
  | _, [] => rfl
  | tn, (l, s) :: ps => by
    simp only [undashS, tagsOf_cons, undashPairs, plain_tag, tagsOf_undashS _ ps]

theorem undashS_noDash : ∀ (tn : Bool) (ps : List (Bytes × STag)), ∀ lt ∈ undashS tn ps, lt.2.noDash = true
  | _, [], lt, h => by simp [undashS] at h
  | tn, (l, s) :: ps, lt, h => by
    simp only [undashS, List.mem_cons] at h
    rcases h with rfl | h
    · exact plain_noDash s
    · exact undashS_noDash _ ps lt h

theorem outOf_undash (vars : List (Bytes × Val)) (last : Bytes) : ∀ (ps : List (Bytes × STag)) (tn : Bool),
    outOf vars tn ps last = interleaveOut vars (undashS tn ps) (undashLast tn (tagsOf ps) last)
  | [], tn => rfl
  | (l, s) :: ps, tn => by
    simp only [outOf, undashS, interleaveOut, plain_value, outOf_undash vars last ps]
    rfl


end Lift
end Twig
