/-
  TwigProofs.Lemmas.Lift — from token streams to rendered output (helpers for TwigProofs/Lift.lean).
  Split into LiftBase (pipeline, fragment, padding, simulation between template stores), LiftStrip (empty text nodes
  at render level), LiftLoc (locality of the expression parser), LiftSim (empty TEXT tokens at parse level).
-/
import TwigProofs.Lemmas.LiftBase
import TwigProofs.Lemmas.LiftStrip
import TwigProofs.Lemmas.LiftLoc
import TwigProofs.Lemmas.LiftSim
import TwigProofs.Lemmas.LiftText
import TwigProofs.Lemmas.Fuel

namespace Twig
namespace Lift

/-! ## fuel adequacy of the template parser (from `TwigProofs.Lemmas.Fuel`, the C05 helpers) -/

/-- `parseTokens` (the parser after tokenization) never reports the fuel error: `4·|ts|+16 ≥ |ts|+1` -/
theorem parseTokens_ne_fuel (ts : List Token) : parseTokens ts ≠ .error .fuel := by
  unfold parseTokens
  have hg := (Fuel.tplGood (4 * ts.length + 16)).outer ts (by omega)
  cases hp : parseOuter (4 * ts.length + 16) ts with
  | error e =>
    intro h
    have h' : (Except.error e : R (List Node)) = .error .fuel := h
    cases h'
    exact hg.nf hp
  | ok p =>
    obtain ⟨nodes, rest⟩ := p
    show (if strayEnd rest then perr "unexpected tag without an open block"
      else if hasDup (blockNamesL nodes) then perr "the block has already been defined" else pure nodes) ≠ _
    split
    · intro h; cases h
    · split <;> intro h <;> cases h

/-- `parseTemplate` never reports the fuel error -/
theorem parseTemplate_ne_fuel (s : Bytes) : parseTemplate s ≠ .error .fuel := by
  rw [parseTemplate_eq_with]
  unfold parseTemplateWith
  split
  · intro h; cases h
  · exact parseTokens_ne_fuel _

/-! ## text tokens and a comment group in front of a token stream -/

def textToks (xs : List Bytes) : List Token := xs.map (fun v => (⟨TEXT, v⟩ : Token))

/-- any fuel above `|ts|` gives the result of fuel `|ts|+1` -/
theorem parseOuter_enough {f : Nat} {ts : List Token} (h : ts.length + 1 ≤ f) :
    parseOuter f ts = parseOuter (ts.length + 1) ts :=
  (Fuel.tplStable h).outer ts ((Fuel.tplGood _).outer ts (Nat.le_refl _)).nf

theorem textsThen_append (xs ys : List Bytes) (ns : List Node) :
    textsThen xs (textsThen ys ns) = textsThen (xs ++ ys) ns := by
  simp [textsThen, List.map_append, List.append_assoc]

theorem parseOuter_textToks (Q : List Token) : ∀ (xs : List Bytes) (f : Nat),
    parseOuter (f + xs.length) (textToks xs ++ Q) = (parseOuter f Q >>= fun x => pure (textsThen xs x.1, x.2))
  | [], f => by
    show parseOuter f Q = _
    cases parseOuter f Q <;> rfl
  | x :: xs, f => by
    have : f + (x :: xs).length = (f + xs.length) + 1 := by simp only [List.length_cons]; omega
    rw [this]
    show parseOuter _ (⟨TEXT, x⟩ :: (textToks xs ++ Q)) = _
    rw [parseOuter_text, parseOuter_textToks Q xs f]
    cases parseOuter f Q <;> rfl

/-- the parse of a token stream with exactly the fuel it needs, and the duplicate-block check -/
def parseCore (Q : List Token) : R (List Node) :=
  parseOuter (Q.length + 1) Q >>= fun x =>
    if strayEnd x.2 then perr "unexpected tag without an open block"
    else if hasDup (blockNamesL x.1) then perr "the block has already been defined" else pure x.1

/-- text tokens, then (optionally) a comment group, then text tokens in front of a stream `Q`: the parse is the parse
    of `Q` with those text nodes in front -/
theorem parseTokens_texts (xs : List Bytes) (Q : List Token) :
    parseTokens (textToks xs ++ Q) = mapNodes (textsThen xs) (parseCore Q) := by
  unfold parseTokens parseCore
  obtain ⟨F, hF⟩ : ∃ F, 4 * (textToks xs ++ Q).length + 16 = F + xs.length ∧ Q.length + 1 ≤ F :=
    ⟨4 * (textToks xs ++ Q).length + 16 - xs.length, by
      simp only [textToks, List.length_append, List.length_map]; omega⟩
  rw [hF.1, parseOuter_textToks, parseOuter_enough hF.2]
  cases parseOuter (Q.length + 1) Q with
  | error e => rfl
  | ok x =>
    simp only [ok_bind, pure_eq_ok, blockNamesL_texts]
    split
    · rfl
    · split <;> rfl

theorem parseTokens_texts_comment (xs1 xs2 : List Bytes) (v : Bytes) (cs : List Token) (e : Token)
    (hcs : ∀ c ∈ cs, c.kind ≠ COMMENT_END) (he : e.kind = COMMENT_END) (Q : List Token) :
    parseTokens (textToks xs1 ++ ⟨COMMENT_START, v⟩ :: (cs ++ e :: (textToks xs2 ++ Q))) =
      mapNodes (textsThen (xs1 ++ xs2)) (parseCore Q) := by
  unfold parseTokens parseCore
  obtain ⟨F, hF⟩ : ∃ F, 4 * (textToks xs1 ++ ⟨COMMENT_START, v⟩ :: (cs ++ e :: (textToks xs2 ++ Q))).length + 16 =
      ((F + xs2.length) + 1) + xs1.length ∧ Q.length + 1 ≤ F :=
    ⟨4 * (textToks xs1 ++ ⟨COMMENT_START, v⟩ :: (cs ++ e :: (textToks xs2 ++ Q))).length + 16
        - xs1.length - 1 - xs2.length, by
      simp only [textToks, List.length_append, List.length_map, List.length_cons]; omega⟩
  rw [hF.1, parseOuter_textToks, parseOuter_comment _ _ _ _ _ hcs he, parseOuter_textToks, parseOuter_enough hF.2]
  cases parseOuter (Q.length + 1) Q with
  | error e => rfl
  | ok x =>
    simp only [ok_bind, pure_eq_ok, blockNamesL_texts, textsThen_append]
    split
    · rfl
    · split <;> rfl

/-- hence rendering such a stream: only the concatenation of the text tokens matters -/
theorem render_texts_regroup (A B : List Token) (xs ys : List Bytes) (Q : List Token)
    (hA : parseTokens A = mapNodes (textsThen xs) (parseCore Q))
    (hB : parseTokens B = mapNodes (textsThen ys) (parseCore Q))
    (h : xs.flatten = ys.flatten) (vars : List (Bytes × Val)) :
    (parseTokens A >>= fun ns => renderNodesTop ns vars) = (parseTokens B >>= fun ns => renderNodesTop ns vars) := by
  rw [hA, hB]
  cases parseCore Q with
  | error e => rfl
  | ok ns => exact renderNodesTop_texts ns xs ys h vars

/-! ## vocabulary of the old statement `C13_commutes_render_partial` -/

/-- the two block tags that `C13_commutes_render_partial` excluded (now covered by `C13_commutes_render`) -/
def unsupportedTags : List Bytes := [b "include", b "verbatim"]

/-- the tag is not an `include` / `verbatim` block tag -/
def tagSupB (t : Tag) : Bool :=
  match t.kind with
  | .block =>
    (match contentTokens .block t.body with
     | n :: _ => !unsupportedTags.contains n.val
     | [] => true)
  | _ => true

end Lift
end Twig
