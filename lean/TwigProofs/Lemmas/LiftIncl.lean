/-
  TwigProofs.Lemmas.LiftIncl — locality of the `include` option parsers (`parseIncludeOpts`, `parseWithBraces`,
  `parseWithPlain`): on `xs ++ d :: r` (expression tokens `xs`, end token `d` with its empty value) the result does
  not depend on `r`.  Part of the helpers for TwigProofs/Lift.lean.
-/
import TwigProofs.Lemmas.LiftLoc
import TwigProofs.Lemmas.Fuel
namespace Twig
namespace Lift

/-- both succeed with `P`-related values, or both fail with the same error -/
def Rel2 {α} (P : α → α → Prop) (x y : R α) : Prop :=
  match x, y with
  | .ok a, .ok a' => P a a'
  | .error e, .error e' => e = e'
  | _, _ => False

theorem Rel2.bind {α β} {P : α → α → Prop} {Q : β → β → Prop} {x y : R α} {k k' : α → R β}
    (h : Rel2 P x y) (hk : ∀ a a', P a a' → Rel2 Q (k a) (k' a')) : Rel2 Q (x >>= k) (y >>= k') := by
  cases x with
  | error e =>
    cases y with
    | error e' => simp only [Rel2] at h; subst h; exact rfl
    | ok b => simp [Rel2] at h
  | ok a =>
    cases y with
    | error e' => simp [Rel2] at h
    | ok b => exact hk a b h

theorem Rel2.perr {α} {P : α → α → Prop} (m : String) : Rel2 P (perr m : R α) (perr m) := rfl
theorem Rel2.ok {α} {P : α → α → Prop} {a a' : α} (h : P a a') : Rel2 P (.ok a : R α) (.ok a') := h
theorem Rel2.pure {α} {P : α → α → Prop} {a a' : α} (h : P a a') : Rel2 P (pure a : R α) (pure a') := h

/-- same value, `TS`-related rests -/
def P2 {α} (r r' : List Token) (p p' : α × List Token) : Prop := p.1 = p'.1 ∧ TS r r' p.2 p'.2
def P3 {α β} (r r' : List Token) (p p' : α × β × List Token) : Prop :=
  p.1 = p'.1 ∧ p.2.1 = p'.2.1 ∧ TS r r' p.2.2 p'.2.2

theorem RRel.toRel2 {α} {r r' : List Token} {x y : R (α × List Token)} (h : RRel r r' x y) : Rel2 (P2 r r') x y := by
  cases x with
  | error e =>
    cases y with
    | error e' => exact h
    | ok b => simp [RRel] at h
  | ok a =>
    cases y with
    | error e' => simp [RRel] at h
    | ok b =>
      obtain ⟨a1, u⟩ := a
      obtain ⟨b1, u'⟩ := b
      exact h

/-- `parseExpression` with the fuel the template parser gives it, on two `TS`-related streams (no fuel hypothesis:
    `Fuel.good_expr`) -/
theorem peX' {r r' ts ts' : List Token} (h : TS r r' ts ts') (hlen : r'.length ≤ r.length) :
    RRel r r' (parseExpression (exprFuel ts) ts) (parseExpression (exprFuel ts') ts') := by
  have hne : parseExpression (exprFuel ts') ts' ≠ .error .fuel := (Fuel.good_expr ts').nf
  have hF : exprFuel ts' ≤ exprFuel ts := by
    obtain ⟨xs, d, _, _, rfl, rfl⟩ := h
    simp only [exprFuel, List.length_append, List.length_cons]; omega
  have hl := (locAt (exprFuel ts')).expr r r' ts ts' h
  have hne' : parseExpression (exprFuel ts') ts ≠ .error .fuel := by
    intro hx
    rw [hx] at hl
    cases hy : parseExpression (exprFuel ts') ts' with
    | error e => rw [hy] at hl; simp only [RRel] at hl; rw [hy, ← hl] at hne; exact hne rfl
    | ok b => rw [hy] at hl; simp [RRel] at hl
  rw [parseExpression_mono hne' hF]
  exact hl

/-- a `TS` list starts with an expression token or the end token, never with a TEXT token -/
theorem TS.dropWhile_text {r r' u u' : List Token} (h : TS r r' u u') (p : Token → Bool) :
    u.dropWhile (fun x => x.kind == TEXT && p x) = u ∧ u'.dropWhile (fun x => x.kind == TEXT && p x) = u' := by
  rcases h.cases with ⟨d, hd, rfl, rfl⟩ | ⟨x, t, t', hx, rfl, rfl, _⟩
  · have : (d.kind == TEXT) = false := by simp [hd.notText]
    simp [List.dropWhile, this]
  · have : (x.kind == TEXT) = false := by simp [exprKind_ne_text hx]
    simp [List.dropWhile, this]

/-- locality of the three `include` option parsers at fuel `g` -/
structure ILocAt (r r' : List Token) (g : Nat) : Prop where
  opts : ∀ o L L', TS r r' L L' → Rel2 (P2 r r') (parseIncludeOpts g o L) (parseIncludeOpts g o L')
  braces : ∀ L L', TS r r' L L' → Rel2 (P3 r r') (parseWithBraces g L) (parseWithBraces g L')
  plain : ∀ L L', TS r r' L L' → Rel2 (P3 r r') (parseWithPlain g L) (parseWithPlain g L')

theorem ilocAt_zero (r r' : List Token) : ILocAt r r' 0 := by
  constructor <;> intros <;> simp only [parseIncludeOpts, parseWithBraces, parseWithPlain] <;> exact rfl

theorem iloc_opts {r r' : List Token} {g : Nat} (ih : ILocAt r r' g) (o : IncludeOpts) (L L' : List Token)
    (h : TS r r' L L') : Rel2 (P2 r r') (parseIncludeOpts (g+1) o L) (parseIncludeOpts (g+1) o L') := by
  rcases h.cases with ⟨d, hd, rfl, rfl⟩ | ⟨k, t, t', hk, rfl, rfl, ht⟩
  · have hdn : (d.kind != NAME) = true := by simp [hd.kinds.1]
    simp only [parseIncludeOpts, hdn, if_true]
    exact ⟨rfl, TS.end_ hd⟩
  · simp only [parseIncludeOpts]
    by_cases hkn : (k.kind != NAME) = true
    · simp only [hkn, if_true]; exact ⟨rfl, TS.cons hk ht⟩
    · simp only [hkn, Bool.false_eq_true, if_false]
      by_cases hw : (k.val == b "with") = true
      · simp only [hw, if_true]
        have hplain : ∀ (u u' : List Token), TS r r' u u' →
            Rel2 (P2 r r')
              (parseWithPlain g u >>= fun x => parseIncludeOpts g { o with names := o.names ++ x.1, exprs := o.exprs ++ x.2.1 } x.2.2)
              (parseWithPlain g u' >>= fun x => parseIncludeOpts g { o with names := o.names ++ x.1, exprs := o.exprs ++ x.2.1 } x.2.2) := by
          intro u u' hu
          refine Rel2.bind (ih.plain _ _ hu) ?_
          rintro ⟨ns, es, w⟩ ⟨ns', es', w'⟩ ⟨h1, h2, h3⟩
          simp only at h1 h2 h3 ⊢
          subst h1; subst h2
          exact ih.opts _ _ _ h3
        rcases ht.cases with ⟨d, hd, rfl, rfl⟩ | ⟨br, t2, t2', hbr, rfl, rfl, ht2⟩
        · simp only [hd.isP, Bool.false_eq_true, if_false]
          exact hplain _ _ (TS.end_ hd)
        · simp only
          by_cases hb : isP br 123 = true
          · simp only [hb, if_true]
            refine Rel2.bind (ih.braces _ _ ht2) ?_
            rintro ⟨ns, es, w⟩ ⟨ns', es', w'⟩ ⟨h1, h2, h3⟩
            simp only at h1 h2 h3 ⊢
            subst h1; subst h2
            exact ih.opts _ _ _ h3
          · simp only [hb, Bool.false_eq_true, if_false]
            exact hplain _ _ (TS.cons hbr ht2)
      · simp only [hw, Bool.false_eq_true, if_false]
        by_cases hi : (k.val == b "ignore") = true
        · simp only [hi, if_true]
          rcases ht.cases with ⟨d, hd, rfl, rfl⟩ | ⟨m, t2, t2', hm, rfl, rfl, ht2⟩
          · simp only [hd.isName, Bool.false_eq_true, if_false]; exact Rel2.perr _
          · simp only
            split
            · exact ih.opts _ _ _ ht2
            · exact Rel2.perr _
        · simp only [hi, Bool.false_eq_true, if_false]
          split
          · exact ih.opts _ _ _ ht
          · split
            · exact ih.opts _ _ _ ht
            · exact Rel2.perr _

theorem iloc_braces {r r' : List Token} (hlen : r'.length ≤ r.length) {g : Nat} (ih : ILocAt r r' g)
    (L L' : List Token) (h : TS r r' L L') : Rel2 (P3 r r') (parseWithBraces (g+1) L) (parseWithBraces (g+1) L') := by
  rcases h.cases with ⟨d, hd, rfl, rfl⟩ | ⟨t, u, u', ht, rfl, rfl, hu⟩
  · have h1 : (d.kind == STRING || d.kind == NAME) = false := by simp [hd.kinds.1, hd.kinds.2.2.1]
    simp only [parseWithBraces, hd.isP, h1, Bool.false_eq_true, if_false]
    exact Rel2.perr _
  · simp only [parseWithBraces]
    by_cases hc : isP t 125 = true
    · simp only [hc, if_true]; exact ⟨rfl, rfl, hu⟩
    · simp only [hc, Bool.false_eq_true, if_false]
      by_cases hs : (t.kind == STRING || t.kind == NAME) = true
      · simp only [hs, if_true]
        rcases hu.cases with ⟨d, hd, rfl, rfl⟩ | ⟨sep, u2, u2', hsep, rfl, rfl, hu2⟩
        · simp only [hd.sepOk, Bool.not_false, if_true]; exact Rel2.perr _
        · simp only
          by_cases hso : (!includeSepOk sep) = true
          · simp only [hso, if_true]; exact Rel2.perr _
          · simp only [hso, Bool.false_eq_true, if_false]
            refine Rel2.bind (peX' hu2 hlen).toRel2 ?_
            rintro ⟨e, w⟩ ⟨e', w'⟩ ⟨h1, h2⟩
            simp only at h1 h2 ⊢
            subst h1
            have key : ∀ v v', TS r r' v v' → Rel2 (P3 r r')
                (parseWithBraces g (List.dropWhile (fun x => x.kind == TEXT && (trimSpaceGo x.val).isEmpty) v) >>=
                  fun x => pure (t.val :: x.1, e :: x.2.1, x.2.2))
                (parseWithBraces g (List.dropWhile (fun x => x.kind == TEXT && (trimSpaceGo x.val).isEmpty) v') >>=
                  fun x => pure (t.val :: x.1, e :: x.2.1, x.2.2)) := by
              intro v v' hv
              have h4 := hv.dropWhile_text (fun x => (trimSpaceGo x.val).isEmpty)
              rw [h4.1, h4.2]
              refine Rel2.bind (ih.braces _ _ hv) ?_
              rintro ⟨ns, es, v⟩ ⟨ns', es', v'⟩ ⟨g1, g2, g3⟩
              simp only at g1 g2 g3 ⊢
              subst g1; subst g2
              exact ⟨rfl, rfl, g3⟩
            rcases h2.cases with ⟨d, hd, rfl, rfl⟩ | ⟨c, w2, w2', hc, rfl, rfl, hw2⟩
            · simp only [hd.isP, Bool.false_eq_true, if_false]
              exact key _ _ (TS.end_ hd)
            · simp only
              split
              · exact key _ _ hw2
              · exact key _ _ (TS.cons hc hw2)
      · simp only [hs, Bool.false_eq_true, if_false]; exact Rel2.perr _

theorem iloc_plain {r r' : List Token} (hlen : r'.length ≤ r.length) {g : Nat} (ih : ILocAt r r' g)
    (L L' : List Token) (h : TS r r' L L') : Rel2 (P3 r r') (parseWithPlain (g+1) L) (parseWithPlain (g+1) L') := by
  rcases h.cases with ⟨d, hd, rfl, rfl⟩ | ⟨n, u, u', hn, rfl, rfl, hu⟩
  · have hdn : (d.kind != NAME) = true := by simp [hd.kinds.1]
    simp only [parseWithPlain, hdn, if_true]
    exact ⟨rfl, rfl, TS.end_ hd⟩
  · simp only [parseWithPlain]
    by_cases hnn : (n.kind != NAME) = true
    · simp only [hnn, if_true]; exact ⟨rfl, rfl, TS.cons hn hu⟩
    · simp only [hnn, Bool.false_eq_true, if_false]
      rcases hu.cases with ⟨d, hd, rfl, rfl⟩ | ⟨eq, u2, u2', heq, rfl, rfl, hu2⟩
      · have : (d.kind == OPERATOR && d.val == [61]) = false := by simp [hd.kinds.2.2.2.1]
        simp only [this, Bool.not_false, if_true]; exact Rel2.perr _
      · simp only
        by_cases he : (!(eq.kind == OPERATOR && eq.val == [61])) = true
        · simp only [he, if_true]; exact Rel2.perr _
        · simp only [he, Bool.false_eq_true, if_false]
          refine Rel2.bind (peX' hu2 hlen).toRel2 ?_
          rintro ⟨e, w⟩ ⟨e', w'⟩ ⟨h1, h2⟩
          simp only at h1 h2 ⊢
          subst h1
          rcases h2.cases with ⟨d, hd, rfl, rfl⟩ | ⟨c, w2, w2', hc, rfl, rfl, hw2⟩
          · simp only [hd.isP, Bool.false_eq_true, if_false]
            exact ⟨rfl, rfl, TS.end_ hd⟩
          · simp only
            by_cases hcc : isP c 44 = true
            · simp only [hcc, if_true]
              refine Rel2.bind (ih.plain _ _ hw2) ?_
              rintro ⟨ns, es, v⟩ ⟨ns', es', v'⟩ ⟨g1, g2, g3⟩
              simp only at g1 g2 g3 ⊢
              subst g1; subst g2
              exact ⟨rfl, rfl, g3⟩
            · simp only [hcc, Bool.false_eq_true, if_false]
              exact ⟨rfl, rfl, TS.cons hc hw2⟩

theorem ilocAt {r r' : List Token} (hlen : r'.length ≤ r.length) : ∀ g, ILocAt r r' g
  | 0 => ilocAt_zero r r'
  | g+1 =>
    have ih := ilocAt hlen g
    ⟨iloc_opts ih, iloc_braces hlen ih, iloc_plain hlen ih⟩

theorem parseIncludeOpts_mono {f f' : Nat} {o : IncludeOpts} {ts : List Token}
    (hne : parseIncludeOpts f o ts ≠ .error .fuel) (hle : f ≤ f') :
    parseIncludeOpts f' o ts = parseIncludeOpts f o ts :=
  (FLe.chain (parseIncludeOpts · o ts) (fun f => (tmonoAt f).incl o ts) hle).eq_of_ne hne

end Lift
end Twig
