/-
  TwigProofs.Lemmas.LiftText — rendering does not depend on how the literal text in front of a template is split
  into text nodes (the third simulation of TwigProofs/Lift.lean: two single-template engines whose root node lists
  differ only in the text nodes at the front, every template, every context — `extends` / `include` of the template
  itself, macros, blocks included).
-/
import TwigProofs.Lemmas.LiftBase
import TwigProofs.Lemmas.Paths
namespace Twig
namespace Lift

/-! ## two template stores with the same template names: nodes render alike -/

def SameKeys (E : Env) (T T' : List (Bytes × List Node)) : Prop :=
  ∀ name, ((Env.withTpls E T').tpl? name).isSome = ((Env.withTpls E T).tpl? name).isSome

mutual
/-- a node looks at the template store only to see whether a template exists -/
theorem renderNode_store (E : Env) (T T' : List (Bytes × List Node)) (hk : SameKeys E T T') (go : Go) (tpl : Bytes) :
    ∀ (n : Node) (st : St),
      renderNode (Env.withTpls E T') go tpl n st = renderNode (Env.withTpls E T) go tpl n st
  | .text s, st => rfl
  | .verbatim s, st => rfl
  | .print e, st => by simp only [renderNode, evalX_env]
  | .ifN c t e, st => by
    simp only [renderNode, evalX_env]
    apply bind_congr_ok
    intro a _
    split
    · exact renderNodes_store E T T' hk go tpl t _
    · exact renderNodes_store E T T' hk go tpl e _
  | .forN key val seq body els, st => by
    simp only [renderNode, evalX_env]
    apply bind_congr_ok
    intro a _
    apply bind_congr_ok
    intro items _
    have hb : (fun s => renderNodes (Env.withTpls E T') go tpl body s) =
        (fun s => renderNodes (Env.withTpls E T) go tpl body s) :=
      funext (fun s => renderNodes_store E T T' hk go tpl body s)
    split
    · exact renderNodes_store E T T' hk go tpl els _
    · exact renderNodes_store E T T' hk go tpl els _
    · rw [hb]
  | .setN name e, st => by simp only [renderNode, evalX_env]
  | .doN e, st => by simp only [renderNode, evalX_env]
  | .block name body, st => rfl
  | .extends e, st => by
    simp only [renderNode, evalX_env]
    apply bind_congr_ok
    intro a _
    apply bind_congr_ok
    intro name _
    rw [resolveTpl_congr (E := Env.withTpls E T) (E' := Env.withTpls E T') rfl hk name]
    rfl
  | .include te names exprs ignoreMissing only sandboxed, st => by
    simp only [renderNode, evalX_env, evalArgs_env]
    apply bind_congr_ok
    intro a _
    apply bind_congr_ok
    intro name _
    rw [resolveTpl_congr (E := Env.withTpls E T) (E' := Env.withTpls E T') rfl hk name]
    rfl
  | .macro name ps dn de body, st => rfl
  | .importN te alias, st => by
    simp only [renderNode, evalX_env]
    apply bind_congr_ok
    intro a _
    apply bind_congr_ok
    intro name _
    rw [resolveTpl_congr (E := Env.withTpls E T) (E' := Env.withTpls E T') rfl hk name]
    rfl
  | .fromN te names, st => by
    simp only [renderNode, evalX_env]
    apply bind_congr_ok
    intro a _
    apply bind_congr_ok
    intro name _
    rw [resolveTpl_congr (E := Env.withTpls E T) (E' := Env.withTpls E T') rfl hk name]
    rfl
  | .apply filter body, st => by
    simp only [renderNode, applyFilter_env, renderNodes_store E T T' hk go tpl body st]
  | .spaceless _, st => rfl

theorem renderNodes_store (E : Env) (T T' : List (Bytes × List Node)) (hk : SameKeys E T T') (go : Go) (tpl : Bytes) :
    ∀ (ns : List Node) (st : St),
      renderNodes (Env.withTpls E T') go tpl ns st = renderNodes (Env.withTpls E T) go tpl ns st
  | [], st => rfl
  | n :: r, st => by
    simp only [renderNodes, renderNode_store E T T' hk go tpl n st]
    apply bind_congr_ok
    intro a _
    rw [renderNodes_store E T T' hk go tpl r a.2]
end

/-! ## text nodes in front of a node list -/

/-- the text nodes `xs` in front of `ns` -/
def textsThen (xs : List Bytes) (ns : List Node) : List Node := xs.map Node.text ++ ns

theorem textsThen_nil (ns : List Node) : textsThen [] ns = ns := rfl
theorem textsThen_cons (x : Bytes) (xs : List Bytes) (ns : List Node) :
    textsThen (x :: xs) ns = .text x :: textsThen xs ns := rfl

theorem renderNodes_texts (E : Env) (go : Go) (tpl : Bytes) (ns : List Node) : ∀ (xs : List Bytes) (st : St),
    renderNodes E go tpl (textsThen xs ns) st =
      (renderNodes E go tpl ns st >>= fun o => pure (xs.flatten ++ o.1, o.2))
  | [], st => by
    rw [textsThen_nil]
    cases renderNodes E go tpl ns st <;> rfl
  | x :: xs, st => by
    rw [textsThen_cons]
    simp only [renderNodes, renderNode, pure_eq_ok, ok_bind, renderNodes_texts E go tpl ns xs st]
    cases renderNodes E go tpl ns st with
    | error e => rfl
    | ok o => simp [List.flatten_cons, List.append_assoc]

theorem lastExtends_texts (ns : List Node) : ∀ (xs : List Bytes), lastExtends (textsThen xs ns) = lastExtends ns
  | [] => rfl
  | x :: xs => by rw [textsThen_cons]; simp only [lastExtends]; exact lastExtends_texts ns xs

theorem registerBlocks_texts (tpl : Bytes) (ns : List Node) (defs : List (Bytes × List BlockDef)) :
    ∀ (xs : List Bytes), registerBlocks tpl (textsThen xs ns) defs = registerBlocks tpl ns defs
  | [] => rfl
  | x :: xs => by rw [textsThen_cons, registerBlocks_text]; exact registerBlocks_texts tpl ns defs xs

theorem findMacro_texts (ns : List Node) (name : Bytes) : ∀ (xs : List Bytes),
    findMacro (textsThen xs ns) name = findMacro ns name
  | [] => rfl
  | x :: xs => by rw [textsThen_cons, findMacro_text]; exact findMacro_texts ns name xs

theorem topMacroNames_texts (ns : List Node) : ∀ (xs : List Bytes),
    topMacroNames (textsThen xs ns) = topMacroNames ns
  | [] => rfl
  | x :: xs => by rw [textsThen_cons, topMacroNames_text]; exact topMacroNames_texts ns xs

theorem blockNamesL_texts (ns : List Node) : ∀ (xs : List Bytes), blockNamesL (textsThen xs ns) = blockNamesL ns
  | [] => rfl
  | x :: xs => by rw [textsThen_cons, blockNamesL_text]; exact blockNamesL_texts ns xs

theorem envOf_eq (nodes : List Node) (base : List Node) :
    envOf nodes = Env.withTpls (envOf base) [(mainName, nodes)] := rfl

theorem sameKeys_envOf (base n1 n2 : List Node) :
    SameKeys (envOf base) [(mainName, n1)] [(mainName, n2)] := by
  intro name
  rw [← envOf_eq, ← envOf_eq, tpl_envOf', tpl_envOf']
  split <;> rfl

/-- the two engines agree on every transfer -/
theorem run_texts (ns : List Node) (xs ys : List Bytes) (h : xs.flatten = ys.flatten) :
    ∀ f, run (envOf (textsThen xs ns)) f = run (envOf (textsThen ys ns)) f
  | 0 => rfl
  | f+1 => by
    have ih := run_texts ns xs ys h f
    have hk := sameKeys_envOf ns (textsThen ys ns) (textsThen xs ns)
    funext tr st
    cases tr with
    | root t =>
      simp only [run, renderRoot, tpl_envOf']
      by_cases ht : (mainName == t) = true
      · simp only [ht, if_true, lastExtends_texts, registerBlocks_texts, ih]
        cases lastExtends ns with
        | some e =>
          simp only
          rw [envOf_eq (textsThen xs ns) ns, envOf_eq (textsThen ys ns) ns]
          exact renderNode_store (envOf ns) _ _ hk _ t _ _
        | none =>
          simp only
          rw [renderNodes_texts, renderNodes_texts, h]
          rw [envOf_eq (textsThen xs ns) ns, envOf_eq (textsThen ys ns) ns,
            renderNodes_store (envOf ns) _ _ hk]
      · simp only [ht, Bool.false_eq_true, if_false]
    | body t body =>
      simp only [run, ih]
      rw [envOf_eq (textsThen xs ns) ns, envOf_eq (textsThen ys ns) ns]
      exact renderNodes_store (envOf ns) _ _ hk _ t body st
    | macroCall t m args =>
      simp only [run, callMacro, tpl_envOf', ih]
      by_cases ht : (mainName == t) = true
      · simp only [ht, if_true, findMacro_texts, topMacroNames_texts]
        cases findMacro ns m with
        | none => rfl
        | some x =>
          simp only
          rw [envOf_eq (textsThen xs ns) ns, envOf_eq (textsThen ys ns) ns, bindParams_env, bindParams_env]
          rfl
      · simp only [ht, Bool.false_eq_true, if_false]

/-- Rendering does not depend on how the literal text in front of a template is split into text nodes. -/
theorem renderNodesTop_texts (ns : List Node) (xs ys : List Bytes) (h : xs.flatten = ys.flatten)
    (vars : List (Bytes × Val)) :
    renderNodesTop (textsThen xs ns) vars = renderNodesTop (textsThen ys ns) vars := by
  unfold renderNodesTop renderTop
  simp only [tpl_envOf, run_texts ns xs ys h]

/-! ## a text node between two top-level constructs (templates that never transfer to a template root) -/

theorem renderNodes_append (E : Env) (go : Go) (tpl : Bytes) : ∀ (a c : List Node) (st : St),
    renderNodes E go tpl (a ++ c) st =
      (renderNodes E go tpl a st >>= fun x => renderNodes E go tpl c x.2 >>= fun y => pure (x.1 ++ y.1, y.2))
  | [], c, st => by
    simp only [List.nil_append, renderNodes, pure_eq_ok, ok_bind]
    cases renderNodes E go tpl c st <;> rfl
  | n :: a, c, st => by
    simp only [List.cons_append, renderNodes]
    cases renderNode E go tpl n st with
    | error e => rfl
    | ok x =>
      simp only [ok_bind, renderNodes_append E go tpl a c x.2]
      cases renderNodes E go tpl a x.2 with
      | error e => rfl
      | ok y =>
        simp only [ok_bind, pure_eq_ok]
        cases renderNodes E go tpl c y.2 with
        | error e => rfl
        | ok z => simp [List.append_assoc]

theorem NXL_append : ∀ (a c : List Node), NXL (a ++ c) = (NXL a && NXL c)
  | [], c => by simp [NXL]
  | n :: a, c => by simp [NXL, NXL_append a c, Bool.and_assoc]

theorem findMacro_insert_text (a c : List Node) (p name : Bytes) :
    findMacro (a ++ .text p :: c) name = findMacro (a ++ c) name := by
  simp [findMacro, List.foldl_append]

theorem topMacroNames_insert_text (a c : List Node) (p : Bytes) :
    topMacroNames (a ++ .text p :: c) = topMacroNames (a ++ c) := by
  simp [topMacroNames, List.filterMap_append]

theorem registerBlocks_append (tpl : Bytes) : ∀ (a c : List Node) (defs : List (Bytes × List BlockDef)),
    registerBlocks tpl (a ++ c) defs = registerBlocks tpl c (registerBlocks tpl a defs)
  | [], c, defs => rfl
  | n :: a, c, defs => by
    cases n <;> simp only [List.cons_append, registerBlocks, registerBlocks_append tpl a c]

theorem registerBlocks_insert_text (tpl : Bytes) (a c : List Node) (p : Bytes) (defs : List (Bytes × List BlockDef)) :
    registerBlocks tpl (a ++ .text p :: c) defs = registerBlocks tpl (a ++ c) defs := by
  rw [registerBlocks_append, registerBlocks_append, registerBlocks_text]

/-- two single-template engines whose templates never transfer to a root and define the same macros agree on every
    body and macro transfer -/
theorem run_sim2 (n1 n2 : List Node) (hn : NXL n2 = true) (hm : ∀ m, findMacro n1 m = findMacro n2 m)
    (ht : topMacroNames n1 = topMacroNames n2) : ∀ f, GoSim (run (envOf n1) f) (run (envOf n2) f)
  | 0 => ⟨fun _ _ _ _ => rfl, Inh.run_fr _ 0⟩
  | f+1 => by
    refine ⟨?_, Inh.run_fr _ (f+1)⟩
    intro tr st htr hi
    cases tr with
    | root t => exact absurd htr (by simp [TrOK])
    | body t ns =>
      simp only [run]
      rw [envOf_eq n1 n2]
      exact renderNodes_sim (envOf n2) _ (run_sim2 n1 n2 hn hm ht f) t ns st htr hi
    | macroCall t m args =>
      simp only [run]
      unfold callMacro
      rw [tpl_envOf', tpl_envOf']
      by_cases htt : (mainName == t) = true
      · simp only [htt, if_true, hm, ht]
        cases hf : findMacro n2 m with
        | none => rfl
        | some x =>
          obtain ⟨ps, dn, de, body⟩ := x
          have hb : NXL body = true := findMacro_NXL hn hf
          simp only
          split
          · rfl
          · have hgo := (run_sim2 n1 n2 hn hm ht f).eq
            rw [envOf_eq n1 n2] at hgo ⊢
            rw [bindParams_env]
            apply bind_congr_ok
            intro a _
            rw [hgo (.body t body) _ hb (by constructor <;> intro x hx <;> exact absurd hx List.not_mem_nil)]
            rfl
      · simp only [htt]
        rfl

/-- the outputs of the two halves `N1`, `N2` of a template rendered in sequence (one engine, one state) -/
def renderTwo (N1 N2 : List Node) (vars : List (Bytes × Val)) : R (Bytes × Bytes) :=
  renderNodes (envOf (N1 ++ N2)) (run (envOf (N1 ++ N2)) 199) mainName N1
      { ctx := { vars := vars, blockDefs := registerBlocks mainName (N1 ++ N2) [] } } >>= fun x =>
    renderNodes (envOf (N1 ++ N2)) (run (envOf (N1 ++ N2)) 199) mainName N2 x.2 >>= fun y => pure (x.1, y.1)

theorem renderNodesTop_two (N1 N2 : List Node) (hn : NXL (N1 ++ N2) = true) (vars : List (Bytes × Val)) :
    renderNodesTop (N1 ++ N2) vars = (renderTwo N1 N2 vars >>= fun o => pure (o.1 ++ o.2)) := by
  unfold renderNodesTop renderTop renderTwo
  simp only [tpl_envOf, defaultFuel, run, renderRoot, lastExtends_NXL _ hn, renderNodes_append]
  cases renderNodes (envOf (N1 ++ N2)) (run (envOf (N1 ++ N2)) 199) mainName N1 _ with
  | error e => rfl
  | ok x =>
    simp only [ok_bind]
    cases renderNodes (envOf (N1 ++ N2)) (run (envOf (N1 ++ N2)) 199) mainName N2 x.2 <;> rfl

/-- A text node between two top-level constructs of a template that never transfers to a template root (any
    constructs: blocks, macros and their calls, loops, conditions, `set`, `apply`, …): the output gains exactly
    that text at that place — `A ++ B` becomes `A ++ p ++ B` with the same `A`, `B` — and nothing else changes
    (same error otherwise). -/
theorem renderNodesTop_insert_text (N1 N2 : List Node) (p : Bytes) (hn : NXL (N1 ++ N2) = true)
    (vars : List (Bytes × Val)) :
    renderNodesTop (N1 ++ .text p :: N2) vars = (renderTwo N1 N2 vars >>= fun o => pure (o.1 ++ p ++ o.2)) := by
  have hn' : NXL (N1 ++ .text p :: N2) = true := by
    rw [NXL_append] at hn ⊢
    simpa [NXL, NX] using hn
  have hn12 : NXL N1 = true ∧ NXL N2 = true := by
    rw [NXL_append] at hn; simpa using hn
  unfold renderNodesTop renderTop renderTwo
  simp only [tpl_envOf, defaultFuel, run, renderRoot, lastExtends_NXL _ hn', registerBlocks_insert_text]
  have hinv : InvC ({ ctx := { vars := vars, blockDefs := registerBlocks mainName (N1 ++ N2) [] } } : St).ctx :=
    ⟨registerBlocks_inv mainName (N1 ++ N2) [] hn (by intro kv hkv; cases hkv), by intro d hd; cases hd⟩
  have hs := run_sim2 (N1 ++ .text p :: N2) (N1 ++ N2) hn (findMacro_insert_text N1 N2 p)
    (topMacroNames_insert_text N1 N2 p) 199
  have := renderNodes_sim (envOf (N1 ++ N2)) [(mainName, N1 ++ .text p :: N2)] hs mainName
    (N1 ++ .text p :: N2) _ hn' hinv
  rw [← envOf_eq] at this
  rw [this, renderNodes_append]
  cases renderNodes (envOf (N1 ++ N2)) (run (envOf (N1 ++ N2)) 199) mainName N1 _ with
  | error e => rfl
  | ok x =>
    simp only [ok_bind, renderNodes, renderNode, pure_eq_ok]
    cases renderNodes (envOf (N1 ++ N2)) (run (envOf (N1 ++ N2)) 199) mainName N2 x.2 with
    | error e => rfl
    | ok y => simp [List.append_assoc]; rfl

end Lift
end Twig
