/-
  Lemmas for C02 (TwigModel.Conc).  Part 1: the events of any interleaving are among the statically
  computed events of the threads' action lists, and facts satisfying `Shared.ok` have no two
  conflicting static events.  Part 2: the cache invariant of the semantic model over arbitrary
  schedules.
-/
import TwigModel.Conc
namespace Twig.Conc

/-! ## Part 1 -/

/-- the lockset a row's access runs with -/
def rowLocks (r : Row) : List (Nat × Bool) :=
  if r.mode == 0 then [] else [(r.lock, r.mode == 2)]

def rowEvent (h : List (Nat × Bool)) (r : Row) : SEvent := ⟨some r.loc, r.write, rowLocks r ++ h, true⟩

theorem eraseLock_cons_self (m : Nat) (w : Bool) (h : List (Nat × Bool)) :
    eraseLock m ((m, w) :: h) = h := by
  simp [eraseLock]

theorem sevs_rowActs (h : List (Nat × Bool)) (o : Bool) (r : Row) (rest : List Action) :
    sevs h o (rowActs r ++ rest) = rowEvent h r :: sevs h o rest := by
  unfold rowActs rowEvent rowLocks
  by_cases hm : (r.mode == 0) = true
  · simp [hm, sevs]
  · simp [hm, sevs, eraseLock_cons_self]

theorem sevs_flatMap_rowActs (h : List (Nat × Bool)) (o : Bool) (rows : List Row) (rest : List Action) :
    sevs h o (rows.flatMap rowActs ++ rest) = rows.map (rowEvent h) ++ sevs h o rest := by
  induction rows with
  | nil => simp
  | cons r rs ih =>
    simp only [List.flatMap_cons, List.append_assoc, List.map_cons, List.cons_append]
    rw [sevs_rowActs, ih]

theorem sevs_objs (h : List (Nat × Bool)) (o : Bool) (pc : List Row) (rest : List Action) :
    sevs h o (pc.map (fun r => Action.obj r.write) ++ rest)
      = pc.map (fun r => (⟨none, r.write, h, o⟩ : SEvent)) ++ sevs h o rest := by
  induction pc with
  | nil => simp
  | cons r rs ih => simp [sevs, ih]

/-- events of the parse block: all on the pooled object, all while it is owned — unless the facts
    report the early release -/
theorem sevs_parseActs (F : Facts) (pc : List Row) (o : Bool) (se : SEvent)
    (hse : se ∈ sevs [] o (parseActs F pc)) :
    se.loc = none ∧ (se.owned = true ∨ (F.tokensFromPooled && F.releaseBeforeRead) = true) := by
  unfold parseActs at hse
  simp only [List.cons_append, List.nil_append, sevs] at hse
  rw [sevs_objs] at hse
  simp only [List.mem_cons, List.mem_append, List.mem_map] at hse
  rcases hse with h | h | h
  · subst h; simp
  · obtain ⟨r, _, hr⟩ := h; subst hr; simp
  · by_cases h1 : F.tokensFromPooled = true
    · by_cases h2 : F.releaseBeforeRead = true
      · simp [h1, h2, sevs] at h; subst h; simp [h1, h2]
      · simp [h1, h2, sevs] at h; subst h; simp
    · simp [h1, sevs] at h

theorem getD_contains_any (ls : List (List Nat)) (k x : Nat) (h : (ls.getD k []).contains x = true) :
    ls.any (·.contains x) = true := by
  rw [List.getD_eq_getElem?_getD] at h
  cases hk : ls[k]? with
  | none => simp [hk] at h
  | some l =>
    simp [hk] at h
    rw [List.any_eq_true]
    exact ⟨l, List.mem_of_getElem? hk, by simpa using h⟩

/-- the static events of the action list of an API call -/
theorem sevs_threadOf (F : Facts) (e : Entry) (se : SEvent) (hse : se ∈ sevs [] false (threadOf F e)) :
    (∃ r, r ∈ F.concRows ∧ F.isPerCall r.loc = false ∧ se = rowEvent [] r) ∨
    (se.loc = none ∧ (se.owned = true ∨ (F.tokensFromPooled && F.releaseBeforeRead) = true)) := by
  unfold threadOf at hse
  simp only at hse
  rw [sevs_flatMap_rowActs] at hse
  rw [List.mem_append] at hse
  rcases hse with h | h
  · left
    rw [List.mem_map] at h
    obtain ⟨r, hr, hre⟩ := h
    rw [List.mem_filter, List.mem_filter] at hr
    obtain ⟨⟨hrows, hreach⟩, hpc⟩ := hr
    refine ⟨r, ?_, by simpa using hpc, hre.symm⟩
    unfold Facts.concRows
    rw [List.mem_filter]
    exact ⟨hrows, getD_contains_any _ _ _ (by simpa [Facts.reachOf] using hreach)⟩
  · right
    by_cases hp : F.parseReachOf e = true
    · simp only [hp, if_true] at h
      exact sevs_parseActs F _ false se h
    · simp [hp, sevs] at h

/-- per-thread invariant: what the thread can still emit is among the static events of its program -/
def ThreadInv (prog : List Action) (t : Thread) : Prop :=
  ∀ se, se ∈ sevs t.held t.owns t.todo → se ∈ sevs [] false prog

structure Inv (progs : Nat → List Action) (st : State) : Prop where
  thr : ∀ i, ThreadInv (progs i) (st.threads i)
  ev : ∀ e, e ∈ st.trace → e.static ∈ sevs [] false (progs e.tid)

theorem inv_upd {progs : Nat → List Action} {st : State} (tid : Nat) (t' : Thread)
    (hT : ∀ i, ThreadInv (progs i) (st.threads i))
    (ht' : ThreadInv (progs tid) t') : ∀ i, ThreadInv (progs i) (st.upd tid t' i) := by
  intro i
  unfold State.upd
  by_cases h : (i == tid) = true
  · have : i = tid := by simpa using h
    subst this
    simpa [h] using ht'
  · simpa [h] using hT i

theorem step_inv (progs : Nat → List Action) (st : State) (mv : Nat × Bool) (h : Inv progs st) :
    Inv progs (step st mv) := by
  obtain ⟨hT, hE⟩ := h
  have hsub := hT mv.1
  unfold ThreadInv at hsub
  unfold step
  simp only
  cases htodo : (st.threads mv.1).todo with
  | nil => exact ⟨hT, hE⟩
  | cons a rest =>
    rw [htodo] at hsub
    cases a with
    | lock m w =>
      simp only
      split
      · refine ⟨inv_upd mv.1 _ hT ?_, hE⟩
        intro se hse
        exact hsub se (by simpa [sevs] using hse)
      · exact ⟨hT, hE⟩
    | unlock m =>
      refine ⟨inv_upd mv.1 _ hT ?_, hE⟩
      intro se hse
      exact hsub se (by simpa [sevs] using hse)
    | access l w =>
      refine ⟨inv_upd mv.1 _ hT ?_, ?_⟩
      · intro se hse
        exact hsub se (by simp only [sevs]; exact List.mem_cons_of_mem _ hse)
      · intro e he
        simp only [List.mem_cons] at he
        rcases he with he | he
        · subst he
          exact hsub _ (by simp [sevs, Event.static])
        · exact hE e he
    | get =>
      simp only
      split
      · refine ⟨inv_upd mv.1 _ hT ?_, hE⟩
        intro se hse
        exact hsub se (by simpa [sevs] using hse)
      · refine ⟨inv_upd mv.1 _ hT ?_, hE⟩
        intro se hse
        exact hsub se (by simpa [sevs] using hse)
    | put =>
      simp only
      split
      · refine ⟨inv_upd mv.1 _ hT ?_, hE⟩
        intro se hse
        exact hsub se (by simpa [sevs] using hse)
      · rename_i hown
        refine ⟨inv_upd mv.1 _ hT ?_, hE⟩
        intro se hse
        have ho : (st.threads mv.1).owns = false := by simpa using hown
        exact hsub se (by simpa [sevs, ho] using hse)
    | obj w =>
      refine ⟨inv_upd mv.1 _ hT ?_, ?_⟩
      · intro se hse
        exact hsub se (by simp only [sevs]; exact List.mem_cons_of_mem _ hse)
      · intro e he
        simp only [List.mem_cons] at he
        rcases he with he | he
        · subst he
          exact hsub _ (by simp [sevs, Event.static])
        · exact hE e he

theorem foldl_step_inv (progs : Nat → List Action) (sched : Schedule) (st : State) (h : Inv progs st) :
    Inv progs (sched.foldl step st) := by
  induction sched generalizing st with
  | nil => exact h
  | cons mv rest ih => exact ih _ (step_inv progs st mv h)

/-- the program of thread `i` -/
def progOf (F : Facts) (calls : List Entry) (i : Nat) : List Action :=
  match calls[i]? with
  | some e => threadOf F e
  | none => []

theorem init_inv (F : Facts) (calls : List Entry) : Inv (progOf F calls) (initState F calls) := by
  constructor
  · intro i se hse
    unfold initState at hse
    unfold progOf
    cases h : calls[i]? with
    | none => simp [h, sevs] at hse
    | some e => simpa [h] using hse
  · intro e he
    simp [initState] at he

/-- every event of every interleaving is a static event of the thread that made it -/
theorem exec_events_static (F : Facts) (calls : List Entry) (sched : Schedule) (e : Event)
    (he : e ∈ (exec F calls sched).trace) : e.static ∈ sevs [] false (progOf F calls e.tid) :=
  (foldl_step_inv _ sched _ (init_inv F calls)).ev e he

theorem static_of_progOf (F : Facts) (calls : List Entry) (i : Nat) (se : SEvent)
    (hse : se ∈ sevs [] false (progOf F calls i)) :
    (∃ r, r ∈ F.concRows ∧ F.isPerCall r.loc = false ∧ se = rowEvent [] r) ∨
    (se.loc = none ∧ (se.owned = true ∨ (F.tokensFromPooled && F.releaseBeforeRead) = true)) := by
  unfold progOf at hse
  cases h : calls[i]? with
  | none => simp [h, sevs] at hse
  | some e => exact sevs_threadOf F e se (by simpa [h] using hse)

/-- two rows of one well-protected location never conflict -/
theorem commonLock_of_locOk (F : Facts) (l : Nat) (hl : F.locOk l = true) (r1 r2 : Row)
    (h1 : r1 ∈ F.rowsAt l) (h2 : r2 ∈ F.rowsAt l) (hw : (r1.write || r2.write) = true) :
    commonLock (rowLocks r1) (rowLocks r2) = true := by
  unfold Facts.locOk at hl
  simp only [Bool.or_eq_true] at hl
  rcases hl with hl | hl
  · rw [List.all_eq_true] at hl
    have a := hl r1 h1
    have b := hl r2 h2
    simp at a b
    simp [a, b] at hw
  · cases hrows : F.rowsAt l with
    | nil => rw [hrows] at h1; cases h1
    | cons r0 rs =>
      rw [hrows] at hl
      simp only at hl
      unfold lockedBy at hl
      rw [Bool.and_eq_true, List.all_eq_true] at hl
      obtain ⟨hm, hall⟩ := hl
      rw [← hrows] at hall
      have a := hall r1 h1
      have b := hall r2 h2
      simp only [Bool.and_eq_true, beq_iff_eq, bne_iff_ne, ne_eq, Bool.or_eq_true,
        Bool.not_eq_true'] at a b hm
      obtain ⟨⟨a1, a2⟩, a3⟩ := a
      obtain ⟨⟨b1, b2⟩, b3⟩ := b
      have a2' : (r1.mode == 0) = false := by simpa using a2
      have b2' : (r2.mode == 0) = false := by simpa using b2
      unfold commonLock rowLocks
      simp only [a2', b2', Bool.false_eq_true, if_false, List.any_cons, List.any_nil, Bool.or_false,
        a1, b1, beq_self_eq_true, Bool.true_and]
      simp only [Bool.or_eq_true] at hw
      rcases hw with hw | hw
      · rcases a3 with a3 | a3
        · rw [hw] at a3; cases a3
        · simp [a3]
      · rcases b3 with b3 | b3
        · rw [hw] at b3; cases b3
        · simp [b3]

theorem mem_rowsAt (F : Facts) (r : Row) (hr : r ∈ F.concRows) (hpc : F.isPerCall r.loc = false) :
    r ∈ F.rowsAt r.loc := by
  unfold Facts.rowsAt
  rw [List.mem_filter]
  exact ⟨hr, by simp [hpc]⟩

/-- The lockset theorem: facts that satisfy `Shared.ok` admit no race in any interleaving. -/
theorem no_race_of_ok (F : Facts) (hF : Shared.ok F = true) (calls : List Entry) (sched : Schedule) :
    hasRaceB (exec F calls sched).trace = false := by
  unfold Shared.ok at hF
  simp only [Bool.and_eq_true, Bool.not_eq_true'] at hF
  obtain ⟨⟨⟨⟨⟨⟨⟨_, _⟩, hlt⟩, hlocs⟩, hpool⟩, _⟩, _⟩, _⟩ := hF
  rw [List.all_eq_true] at hlt hlocs
  cases hr : hasRaceB (exec F calls sched).trace with
  | false => rfl
  | true =>
    exfalso
    unfold hasRaceB at hr
    rw [List.any_eq_true] at hr
    obtain ⟨e1, he1, hr⟩ := hr
    rw [List.any_eq_true] at hr
    obtain ⟨e2, he2, hc⟩ := hr
    have s1 := static_of_progOf F calls e1.tid _ (exec_events_static F calls sched e1 he1)
    have s2 := static_of_progOf F calls e2.tid _ (exec_events_static F calls sched e2 he2)
    unfold conflict at hc
    simp only [Bool.and_eq_true, bne_iff_ne, ne_eq, beq_iff_eq, Bool.or_eq_true] at hc
    obtain ⟨⟨⟨_, hloc⟩, hw⟩, hm⟩ := hc
    cases hl1 : e1.loc with
    | shared l =>
      have hl2 : e2.loc = .shared l := by rw [← hloc]; exact hl1
      rw [hl1] at hm
      simp only [Bool.not_eq_true'] at hm
      rcases s1 with ⟨r1, hr1, hpc1, hs1⟩ | ⟨hn, _⟩
      · rcases s2 with ⟨r2, hr2, hpc2, hs2⟩ | ⟨hn, _⟩
        · simp only [Event.static, hl1, rowEvent, List.append_nil, SEvent.mk.injEq, Option.some.injEq] at hs1
          simp only [Event.static, hl2, rowEvent, List.append_nil, SEvent.mk.injEq, Option.some.injEq] at hs2
          obtain ⟨hl1', hw1, hk1, _⟩ := hs1
          obtain ⟨hl2', hw2, hk2, _⟩ := hs2
          have hlt' : l < F.nLocs := by
            have := hlt r1 hr1
            rw [← hl1'] at this
            simpa using this
          have hok : F.locOk l = true := hlocs l (List.mem_range.mpr hlt')
          have m1 : r1 ∈ F.rowsAt l := by rw [hl1']; exact mem_rowsAt F r1 hr1 hpc1
          have m2 : r2 ∈ F.rowsAt l := by rw [hl2']; exact mem_rowsAt F r2 hr2 hpc2
          have hw' : (r1.write || r2.write) = true := by
            rw [← hw1, ← hw2]; simpa using hw
          have := commonLock_of_locOk F l hok r1 r2 m1 m2 hw'
          rw [← hk1, ← hk2, hm] at this
          cases this
        · simp [Event.static, hl2] at hn
      · simp [Event.static, hl1] at hn
    | obj o =>
      have hl2 : e2.loc = .obj o := by rw [← hloc]; exact hl1
      rw [hl1] at hm
      unfold Facts.poolOk at hpool
      simp only [Bool.and_eq_true, Bool.not_eq_true'] at hpool
      obtain ⟨⟨_, hbad⟩, _⟩ := hpool
      have o1 : e1.owned = true := by
        rcases s1 with ⟨r1, _, _, hs1⟩ | ⟨_, ho | hb⟩
        · simp [Event.static, hl1, rowEvent] at hs1
        · simpa [Event.static, hl1] using ho
        · rw [hbad] at hb; cases hb
      have o2 : e2.owned = true := by
        rcases s2 with ⟨r2, _, _, hs2⟩ | ⟨_, ho | hb⟩
        · simp [Event.static, hl2, rowEvent] at hs2
        · simpa [Event.static, hl2] using ho
        · rw [hbad] at hb; cases hb
      simp [o1, o2] at hm

/-! ## Part 2 — the semantic model -/
namespace Sem

theorem resolve_setCache_ne (cfg : Cfg) (c : Cache) (n m : Nat) (t : Tpl) (h : m ≠ n) :
    cfg.resolve (setCache c n t) m = cfg.resolve c m := by
  simp [Cfg.resolve, setCache, h]

theorem resolve_setCache_self (cfg : Cfg) (c : Cache) (n : Nat) (t : Tpl)
    (h : (cfg.cacheOn || t.reg) = true) : cfg.resolve (setCache c n t) n = some t := by
  simp only [Cfg.resolve, setCache, if_true, Cfg.hit, h]

/-- cache invariant: for every name no concurrent call registers, `Load` still returns what it
    returned on the initial cache (the cache only ever gains entries equal to what the loader gives) -/
def AInv (cfg : Cfg) (c0 : Cache) (R : List Nat) (c : Cache) : Prop :=
  ∀ n, R.contains n = false → cfg.resolve c n = cfg.resolve c0 n

def PhaseOk (cfg : Cfg) (c0 : Cache) (R : List Nat) (base goal : Nat) : Phase → Prop
  | .start p => avoids cfg c0 R base p = true ∧ specOut cfg c0 base p = goal
  | .ready p => avoids cfg c0 R base p = true ∧ specOut cfg c0 base p = goal
  | .fill n t k => cfg.cacheOn = true ∧ R.contains n = false ∧ cfg.resolve c0 n = some t ∧
      avoids cfg c0 R base (k (some t)) = true ∧ specOut cfg c0 base (k (some t)) = goal
  | .regWrite n _ => R.contains n = true ∧ goal = 0
  | .finished o => o = goal
  | .idle => True

def TOk (cfg : Cfg) (c0 : Cache) (R : List Nat) (base goal : Nat) (t : Thread) : Prop :=
  t.base = base ∧ PhaseOk cfg c0 R base goal t.phase

structure Inv (cfg : Cfg) (c0 : Cache) (R : List Nat) (base goal : Nat → Nat) (c : Cache)
    (ths : Nat → Thread) : Prop where
  cache : AInv cfg c0 R c
  thr : ∀ i, TOk cfg c0 R (base i) (goal i) (ths i)

theorem inv_upd {cfg : Cfg} {c0 : Cache} {R : List Nat} {base goal : Nat → Nat} {c c' : Cache}
    {ths : Nat → Thread} (h : Inv cfg c0 R base goal c ths) (i : Nat) (t' : Thread)
    (hc : AInv cfg c0 R c') (ht : TOk cfg c0 R (base i) (goal i) t') :
    Inv cfg c0 R base goal c' (upd ths i t') := by
  refine ⟨hc, ?_⟩
  intro j
  unfold upd
  by_cases hj : j = i
  · subst hj; simpa using ht
  · simpa [hj] using h.thr j

theorem step_inv (cfg : Cfg) (hrel : cfg.relFromEngine = false) (c0 : Cache) (R : List Nat)
    (base goal : Nat → Nat) (st : State) (i : Nat)
    (h : Inv cfg c0 R base goal st.cache st.threads) :
    Inv cfg c0 R base goal (step cfg st i).cache (step cfg st i).threads := by
  have hi := h.thr i
  obtain ⟨hb, hp⟩ := hi
  unfold step
  simp only [hrel, Bool.false_and, Bool.false_eq_true, if_false]
  cases hph : (st.threads i).phase with
  | start p =>
    rw [hph] at hp
    exact inv_upd h i _ h.cache ⟨hb, hp⟩
  | ready p =>
    rw [hph] at hp
    cases p with
    | done o =>
      obtain ⟨_, hs⟩ := hp
      exact inv_upd h i _ h.cache ⟨hb, by simpa [PhaseOk, specOut] using hs⟩
    | needs n k =>
      obtain ⟨ha, hs⟩ := hp
      simp only [avoids, Bool.and_eq_true, Bool.not_eq_true'] at ha
      obtain ⟨hR, ha⟩ := ha
      simp only [specOut] at hs
      have hres : cfg.resolve st.cache n = cfg.resolve c0 n := h.cache n hR
      simp only
      split
      · exact inv_upd h i _ h.cache ⟨hb, by rw [hres]; exact ⟨ha, hs⟩⟩
      · split
        · rename_i tpl hr
          split
          · rename_i hon
            refine inv_upd h i _ h.cache ⟨hb, ?_⟩
            rw [hres] at hr
            rw [hr] at ha hs
            exact ⟨hon, hR, hr, ha, hs⟩
          · exact inv_upd h i _ h.cache ⟨hb, by rw [hres]; exact ⟨ha, hs⟩⟩
        · exact inv_upd h i _ h.cache ⟨hb, by rw [hres]; exact ⟨ha, hs⟩⟩
    | needsRel r k =>
      obtain ⟨ha, hs⟩ := hp
      refine inv_upd h i _ h.cache ⟨hb, ?_⟩
      rw [hb]
      simp only [avoids, specOut] at ha hs
      exact ⟨by simpa [avoids] using ha, by simpa [specOut] using hs⟩
  | fill n tpl k =>
    rw [hph] at hp
    obtain ⟨hon, hR, hres0, ha, hs⟩ := hp
    have hfill : AInv cfg c0 R (setCache st.cache n tpl) := by
      intro m hm
      by_cases hmn : m = n
      · subst hmn
        rw [resolve_setCache_self cfg _ _ _ (by simp [hon]), hres0]
      · rw [resolve_setCache_ne cfg _ _ _ _ hmn]; exact h.cache m hm
    simp only
    split
    · rename_i c hrc hc
      split
      · rename_i hreg
        -- the re-check found a registration: by the invariant it is the template we loaded
        have hcur : cfg.resolve st.cache n = some c := by
          simp [Cfg.resolve, Cfg.hit, hc, hreg]
        have : some c = some tpl := by rw [← hcur, h.cache n hR, hres0]
        have hct : c = tpl := by simpa using this
        subst hct
        exact inv_upd h i _ h.cache ⟨hb, ⟨ha, hs⟩⟩
      · exact inv_upd h i _ hfill ⟨hb, ⟨ha, hs⟩⟩
    · exact inv_upd h i _ hfill ⟨hb, ⟨ha, hs⟩⟩
  | regWrite n s =>
    rw [hph] at hp
    obtain ⟨hR, hg⟩ := hp
    have hreg : AInv cfg c0 R (setCache st.cache n ⟨s, true⟩) := by
      intro m hm
      have hmn : m ≠ n := by
        intro e; subst e; rw [hR] at hm; cases hm
      rw [resolve_setCache_ne cfg _ _ _ _ hmn]; exact h.cache m hm
    exact inv_upd h i _ hreg ⟨hb, by simpa [PhaseOk] using hg.symm⟩
  | finished o => exact h
  | idle => exact h

theorem foldl_inv (cfg : Cfg) (hrel : cfg.relFromEngine = false) (c0 : Cache) (R : List Nat)
    (base goal : Nat → Nat) (sched : List Nat) (st : State)
    (h : Inv cfg c0 R base goal st.cache st.threads) :
    Inv cfg c0 R base goal (sched.foldl (step cfg) st).cache (sched.foldl (step cfg) st).threads := by
  induction sched generalizing st with
  | nil => exact h
  | cons i rest ih => exact ih _ (step_inv cfg hrel c0 R base goal st i h)

def baseOf (calls : List Call) (i : Nat) : Nat :=
  match calls[i]? with
  | some (.run b _ _) => b
  | _ => 0

def goalOf (cfg : Cfg) (c0 : Cache) (calls : List Call) (i : Nat) : Nat :=
  match calls[i]? with
  | some c => resultAlone cfg c0 c
  | none => 0

theorem mem_regNames (calls : List Call) (n s : Nat) (h : Call.register n s ∈ calls) :
    (regNames calls).contains n = true := by
  induction calls with
  | nil => cases h
  | cons c cs ih =>
    rw [List.mem_cons] at h
    rcases h with h | h
    · subst h; simp [regNames]
    · cases c with
      | run b r p => simpa [regNames] using ih h
      | register n' s' =>
        have := ih h
        simp only [regNames, List.contains_cons, Bool.or_eq_true]
        exact Or.inr this

theorem init_inv (cfg : Cfg) (c0 : Cache) (calls : List Call)
    (hro : noConcurrentRegistrationOfRequestedName cfg c0 calls = true) :
    Inv cfg c0 (regNames calls) (baseOf calls) (goalOf cfg c0 calls) (initState c0 calls).cache
      (initState c0 calls).threads := by
  refine ⟨fun _ _ => rfl, ?_⟩
  intro i
  unfold initState baseOf goalOf TOk
  simp only
  cases hc : calls[i]? with
  | none => simp [PhaseOk]
  | some c =>
    have hmem : c ∈ calls := List.mem_of_getElem? hc
    cases c with
    | run b r p =>
      unfold noConcurrentRegistrationOfRequestedName at hro
      rw [List.all_eq_true] at hro
      have := hro _ hmem
      simp only at this
      simp [initThread, PhaseOk, resultAlone, this]
    | register n s =>
      have hR := mem_regNames calls n s hmem
      simp only [List.contains_eq_mem, decide_eq_true_eq] at hR
      simp [initThread, PhaseOk, resultAlone, hR]

/-- thread `i` of any interleaving: if it has returned, it returned what it returns alone -/
theorem result_eq_alone (cfg : Cfg) (hrel : cfg.relFromEngine = false) (c0 : Cache) (calls : List Call)
    (hro : noConcurrentRegistrationOfRequestedName cfg c0 calls = true)
    (sched : List Nat) (i : Nat) (c : Call) (hc : calls[i]? = some c) (out : Nat)
    (hres : result (exec cfg c0 calls sched) i = some out) : out = resultAlone cfg c0 c := by
  have hinv := foldl_inv cfg hrel c0 _ _ _ sched _ (init_inv cfg c0 calls hro)
  have ht := (hinv.thr i).2
  unfold result at hres
  unfold exec at hres
  cases hph : ((List.foldl (step cfg) (initState c0 calls) sched).threads i).phase with
  | finished o =>
    rw [hph] at hres ht
    simp only [Option.some.injEq] at hres
    simp only [PhaseOk, goalOf, hc] at ht
    rw [← hres, ht]
  | start p => rw [hph] at hres; cases hres
  | ready p => rw [hph] at hres; cases hres
  | fill n t k => rw [hph] at hres; cases hres
  | regWrite n s => rw [hph] at hres; cases hres
  | idle => rw [hph] at hres; cases hres

/-- the final cache of any interleaving answers `Load` as the initial one did, for every name no
    concurrent call registers -/
theorem final_cache (cfg : Cfg) (hrel : cfg.relFromEngine = false) (c0 : Cache) (calls : List Call)
    (hro : noConcurrentRegistrationOfRequestedName cfg c0 calls = true)
    (sched : List Nat) (n : Nat) (hn : (regNames calls).contains n = false) :
    cfg.resolve (exec cfg c0 calls sched).cache n = cfg.resolve c0 n :=
  (foldl_inv cfg hrel c0 _ _ _ sched _ (init_inv cfg c0 calls hro)).cache n hn

/-! ### serial executions (big-step) -/

theorem resolve_after_fill (cfg : Cfg) (c : Cache) (n : Nat) (t : Tpl) (hon : cfg.cacheOn = true)
    (hr : cfg.resolve c n = some t) (m : Nat) : cfg.resolve (setCache c n t) m = cfg.resolve c m := by
  by_cases hmn : m = n
  · subst hmn
    rw [resolve_setCache_self cfg _ _ _ (by simp [hon]), hr]
  · exact resolve_setCache_ne cfg _ _ _ _ hmn

theorem AInv_fill {cfg : Cfg} {c0 : Cache} {R : List Nat} {c : Cache} (h : AInv cfg c0 R c) (n : Nat)
    (t : Tpl) (hon : cfg.cacheOn = true) (hr : cfg.resolve c n = some t) :
    AInv cfg c0 R (setCache c n t) := by
  intro m hm
  rw [resolve_after_fill cfg c n t hon hr m]; exact h m hm

theorem AInv_reg {cfg : Cfg} {c0 : Cache} {R : List Nat} {c : Cache} (h : AInv cfg c0 R c) (n s : Nat)
    (hR : R.contains n = true) : AInv cfg c0 R (setCache c n ⟨s, true⟩) := by
  intro m hm
  have hmn : m ≠ n := by
    intro e; subst e; rw [hR] at hm; cases hm
  rw [resolve_setCache_ne cfg _ _ _ _ hmn]; exact h m hm

/-- a call executed atomically on any cache reachable under the invariant returns what it returns on
    the configured engine, and keeps the invariant -/
theorem runProg_ok (cfg : Cfg) (c0 : Cache) (R : List Nat) (base : Nat) (p : Prog) :
    ∀ c, AInv cfg c0 R c → avoids cfg c0 R base p = true →
      (runProg cfg base p c).1 = specOut cfg c0 base p ∧ AInv cfg c0 R (runProg cfg base p c).2 := by
  induction p with
  | done o => intro c h _; exact ⟨rfl, h⟩
  | needs n k ih =>
    intro c h ha
    simp only [avoids, Bool.and_eq_true, Bool.not_eq_true'] at ha
    obtain ⟨hR, ha⟩ := ha
    have hres : cfg.resolve c n = cfg.resolve c0 n := h n hR
    unfold runProg
    simp only [specOut]
    split
    · rename_i t hh hon hr
      rw [hres]
      exact ih _ _ (AInv_fill h n t hon hr) ha
    · rw [hres]
      exact ih _ _ h ha
  | needsRel r k ih =>
    intro c h ha
    simp only [avoids, Bool.and_eq_true, Bool.not_eq_true'] at ha
    obtain ⟨hR, ha⟩ := ha
    have hres : cfg.resolve c (cfg.join base r) = cfg.resolve c0 (cfg.join base r) := h _ hR
    unfold runProg
    simp only [specOut]
    split
    · rename_i t hh hon hr
      rw [hres]
      exact ih _ _ (AInv_fill h _ t hon hr) ha
    · rw [hres]
      exact ih _ _ h ha

/-- every serial order: each call returns what it returns alone on the configured engine -/
theorem serialRun_ok (cfg : Cfg) (c0 : Cache) (calls : List Call)
    (hro : noConcurrentRegistrationOfRequestedName cfg c0 calls = true) (order : List Nat) :
    ∀ c, AInv cfg c0 (regNames calls) c → ∀ x, x ∈ serialRun cfg calls c order →
      ∃ call, calls[x.1]? = some call ∧ x.2 = resultAlone cfg c0 call := by
  induction order with
  | nil => intro c _ x hx; cases hx
  | cons i rest ih =>
    intro c h x hx
    unfold serialRun at hx
    cases hc : calls[i]? with
    | none =>
      rw [hc] at hx
      exact ih c h x hx
    | some call =>
      rw [hc] at hx
      simp only [List.mem_cons] at hx
      have hmem : call ∈ calls := List.mem_of_getElem? hc
      cases call with
      | run b r p =>
        have hav : avoids cfg c0 (regNames calls) b p = true := by
          unfold noConcurrentRegistrationOfRequestedName at hro
          rw [List.all_eq_true] at hro
          exact hro _ hmem
        have hok := runProg_ok cfg c0 (regNames calls) b p c h hav
        rcases hx with hx | hx
        · subst hx
          exact ⟨_, hc, by simpa [runCall, resultAlone] using hok.1⟩
        · exact ih _ (by simpa [runCall] using hok.2) x hx
      | register n s =>
        rcases hx with hx | hx
        · subst hx
          exact ⟨_, hc, by simp [runCall, resultAlone]⟩
        · exact ih _ (by simpa [runCall] using AInv_reg h n s (mem_regNames calls n s hmem)) x hx

/-! ### relative names -/

structure RelInv (cfg : Cfg) (base : Nat → Nat) (st : State) : Prop where
  bases : ∀ i, (st.threads i).base = base i
  log : ∀ x, x ∈ st.rel → x.2.2 = cfg.join (base x.1) x.2.1

theorem upd_base {ths : Nat → Thread} {base : Nat → Nat} (hb : ∀ j, (ths j).base = base j) (i : Nat)
    (t' : Thread) (ht : t'.base = base i) : ∀ j, (upd ths i t' j).base = base j := by
  intro j
  unfold upd
  by_cases hj : j = i
  · subst hj; simpa using ht
  · simpa [hj] using hb j

theorem rel_step_inv (cfg : Cfg) (hrel : cfg.relFromEngine = false) (base : Nat → Nat) (st : State)
    (i : Nat) (h : RelInv cfg base st) : RelInv cfg base (step cfg st i) := by
  obtain ⟨hb, hl⟩ := h
  have hbi := hb i
  unfold step
  simp only [hrel, Bool.false_and, Bool.false_eq_true, if_false]
  cases hph : (st.threads i).phase with
  | start p => exact ⟨upd_base hb i _ hbi, hl⟩
  | ready p =>
    cases p with
    | done o => exact ⟨upd_base hb i _ hbi, hl⟩
    | needs n k =>
      simp only
      split
      · exact ⟨upd_base hb i _ hbi, hl⟩
      · split
        · split
          · exact ⟨upd_base hb i _ hbi, hl⟩
          · exact ⟨upd_base hb i _ hbi, hl⟩
        · exact ⟨upd_base hb i _ hbi, hl⟩
    | needsRel r k =>
      refine ⟨upd_base hb i _ hbi, ?_⟩
      intro x hx
      simp only [List.mem_cons] at hx
      rcases hx with hx | hx
      · subst hx; simp [hbi]
      · exact hl x hx
  | fill n tpl k =>
    simp only
    split
    · split
      · exact ⟨upd_base hb i _ hbi, hl⟩
      · exact ⟨upd_base hb i _ hbi, hl⟩
    · exact ⟨upd_base hb i _ hbi, hl⟩
  | regWrite n s => exact ⟨upd_base hb i _ hbi, hl⟩
  | finished o => exact ⟨hb, hl⟩
  | idle => exact ⟨hb, hl⟩

theorem rel_foldl_inv (cfg : Cfg) (hrel : cfg.relFromEngine = false) (base : Nat → Nat)
    (sched : List Nat) (st : State) (h : RelInv cfg base st) :
    RelInv cfg base (sched.foldl (step cfg) st) := by
  induction sched generalizing st with
  | nil => exact h
  | cons i rest ih => exact ih _ (rel_step_inv cfg hrel base st i h)

theorem rel_init_inv (cfg : Cfg) (c0 : Cache) (calls : List Call) :
    RelInv cfg (baseOf calls) (initState c0 calls) := by
  constructor
  · intro i
    unfold initState baseOf
    simp only
    cases hc : calls[i]? with
    | none => rfl
    | some c => cases c <;> rfl
  · intro x hx
    simp [initState] at hx

/-! ### the repaired `Load` never overwrites a registration -/

def isReg (c : Cache) (n : Nat) : Bool :=
  match c n with
  | some t => t.reg
  | none => false

theorem isReg_setCache_ne (c : Cache) (n m : Nat) (t : Tpl) (h : m ≠ n) :
    isReg (setCache c n t) m = isReg c m := by
  simp [isReg, setCache, h]

theorem step_keeps_registration (cfg : Cfg) (hre : cfg.recheck = true) (st : State) (i n : Nat)
    (h : isReg st.cache n = true) : isReg (step cfg st i).cache n = true := by
  unfold step
  simp only
  cases hph : (st.threads i).phase with
  | start p => simp only; split <;> exact h
  | ready p =>
    cases p with
    | done o => simp only; split <;> exact h
    | needs m k =>
      simp only
      split
      · exact h
      · split
        · split <;> exact h
        · exact h
    | needsRel r k => exact h
  | fill m tpl k =>
    simp only [hre]
    by_cases hmn : n = m
    · subst hmn
      cases hc : st.cache n with
      | none => simp [isReg, hc] at h
      | some c =>
        have hreg : c.reg = true := by simpa [isReg, hc] using h
        simp only [hreg, if_true]
        exact h
    · split
      · split
        · exact h
        · rw [isReg_setCache_ne _ _ _ _ hmn]; exact h
      · rw [isReg_setCache_ne _ _ _ _ hmn]; exact h
  | regWrite m s =>
    simp only
    by_cases hmn : n = m
    · subst hmn; simp [isReg, setCache]
    · rw [isReg_setCache_ne _ _ _ _ hmn]; exact h
  | finished o => exact h
  | idle => exact h

theorem foldl_keeps_registration (cfg : Cfg) (hre : cfg.recheck = true) (sched : List Nat) (st : State)
    (n : Nat) (h : isReg st.cache n = true) : isReg (sched.foldl (step cfg) st).cache n = true := by
  induction sched generalizing st with
  | nil => exact h
  | cons i rest ih => exact ih _ (step_keeps_registration cfg hre st i n h)

end Sem
end Twig.Conc
